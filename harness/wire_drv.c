/* Implementation-side driver of the wire engine (C02 / C04 / C03).
 *
 * case kinds (head|body, body = hex octets):
 *   p:<flags>|<hex>              ares_dns_parse(bytes, len, flags) -> status + canonical dump
 *                                through the PUBLIC getters; then (implementation-only
 *                                round trip, C03) ares_dns_write of the parsed record,
 *                                re-parse, dump, re-write.
 *   b:<id>:<flags>:<opcode>:<rcode>|<unit>;<unit>;...   build a record through the PUBLIC setters:
 *        q,<namehex>,<type>,<class>
 *        r,<sect>,<namehex>,<type>,<class>,<ttl>[,<key>=<val>]...   val by the key's datatype:
 *          addr/addr6 <hex>   u8/u16/u32 <dec>   name/str s<hex>   bin b<hex>
 *          abin a<hex>|<hex>|... (ares_dns_rr_add_abin per element)   opt o<code>:<hex>|... (ares_dns_rr_set_opt)
 *      then write / re-parse / re-write as for p
 *   t:<k>:<consume>|<hex>        parse <hex>; ares_dns_write_buf_tcp() k times into one buffer,
 *                                consume <consume> octets (partial send), write once more; prints
 *                                the last frame
 *   c:<class>:<type>:<id>:<rd>:<maxudp>|<namehex>   ares_create_query(); maxudp == -1: ares_mkquery()
 *   n:<enc>:<alen>:<want>|<hex>  ares_expand_name(abuf+enc, abuf, alen, want ? &s : NULL, &enclen)
 *   s:<enc>:<alen>:<want>|<hex>  ares_expand_string(...)
 *
 * output per case k:
 *   "<k> R <status> <dump>"                       (p)   dump only when status == 0
 *   "<k> W <wstatus> <hex of written bytes>"      (p, after a successful parse)
 *   "<k> V <status> <dump>"                       (p) re-parse of the written bytes
 *   "<k> X <wstatus> <hex>"                       (p) re-write of the re-parsed record
 *   "<k> R <status> <dump>" + "S <statuses of the setters>"   (b) then W V X
 *   "<k> R <status> <dump>", "<k> T <status> <hex of the last frame>", "<k> V <status> <dump>" (t)
 *   "<k> R <status> <hex>", "<k> V <status> <dump>"       (c)
 *   "<k> R <status> <enclen> <hex|~>"             (n, s)
 *   "<k> H hang"                                  the call did not return within 2 s
 *   "<k> L <blocks>"                              the case ended with <blocks> more live
 *                                                 allocations than it started with (leak)
 * The input block is copied into a heap allocation of exactly its size so that ASan sees
 * every overread.
 */
#include "ares_private.h"
#include "drv_common.h"
#include <unistd.h>

/* allocation ledger: every allocation of the library goes through these, so a case that ends
 * with more live blocks than it started with has leaked ("<k> L <blocks>") */
static long live_blocks;
static int  leaks_reported;

static void *cnt_malloc(size_t n)
{
  void *p = malloc(n);
  if (p) live_blocks++;
  return p;
}

/* OUT-PARAMETER POISON: every decoding entry point is called with its out-parameters pre-set to
 * the address of this block, which the driver owns.  The block is poisoned for ASan (a read through
 * the pointer is a use-after-poison report attributed to the case) and known to the allocator
 * wrappers (handing it to free()/realloc() is counted: "<k> P <n>").  Callers that reuse a variable
 * or leave it uninitialised are entitled to both: the functions must not look at what the variable
 * held. */
#if defined(__has_feature)
#  if __has_feature(address_sanitizer)
#    include <sanitizer/asan_interface.h>
#    define POISON_REGION(p, n)   __asan_poison_memory_region((p), (n))
#    define UNPOISON_REGION(p, n) __asan_unpoison_memory_region((p), (n))
#  endif
#endif
#ifndef POISON_REGION
#  define POISON_REGION(p, n)   ((void)0)
#  define UNPOISON_REGION(p, n) ((void)0)
#endif
#define POISON_LEN 512
static unsigned char *g_poison;
static int            poison_hits;
#define POISON(T) ((T)(void *)g_poison)

static void poison_init(void)
{
  g_poison = malloc(POISON_LEN);
  memset(g_poison, 0xA5, POISON_LEN);
  POISON_REGION(g_poison, POISON_LEN);
}

/* the block must still hold its pattern */
static int poison_intact(void)
{
  size_t i;
  int    ok = 1;
  UNPOISON_REGION(g_poison, POISON_LEN);
  for (i = 0; i < POISON_LEN; i++) {
    if (g_poison[i] != 0xA5) {
      ok = 0;
      g_poison[i] = 0xA5;
    }
  }
  POISON_REGION(g_poison, POISON_LEN);
  return ok;
}

static void cnt_free(void *p)
{
  if (p != NULL && p == (void *)g_poison) {
    poison_hits++;
    return;
  }
  if (p) live_blocks--;
  free(p);
}

static void *cnt_realloc(void *p, size_t n)
{
  void *q;
  if (p != NULL && p == (void *)g_poison) {
    poison_hits++;
    return NULL;
  }
  q = realloc(p, n);
  if (p == NULL && q != NULL) live_blocks++;
  if (p != NULL && n == 0 && q == NULL) live_blocks--;
  return q;
}

static int hexval(int ch)
{
  if (ch >= '0' && ch <= '9') return ch - '0';
  if (ch >= 'a' && ch <= 'f') return ch - 'a' + 10;
  if (ch >= 'A' && ch <= 'F') return ch - 'A' + 10;
  return -1;
}

/* returns malloc'd block of exactly *len bytes (1 byte when *len == 0) */
static unsigned char *unhex(const char *s, size_t *len)
{
  size_t         n = strlen(s) / 2, i;
  unsigned char *b = malloc(n ? n : 1);
  for (i = 0; i < n; i++) {
    b[i] = (unsigned char)((hexval(s[2 * i]) << 4) | hexval(s[2 * i + 1]));
  }
  *len = n;
  return b;
}

static void puthex(const unsigned char *p, size_t n)
{
  size_t i;
  for (i = 0; i < n; i++) {
    printf("%02x", p[i]);
  }
}

static void putstrhex(const char *s)
{
  if (s == NULL) {
    printf("~");
    return;
  }
  printf("s:");
  puthex((const unsigned char *)s, strlen(s));
}

static void dump_rr(const ares_dns_rr_t *rr)
{
  size_t                   cnt = 0, i, j;
  ares_dns_rec_type_t      type = ares_dns_rr_get_type(rr);
  const ares_dns_rr_key_t *keys = ares_dns_rr_get_keys(type, &cnt);

  putstrhex(ares_dns_rr_get_name(rr));
  printf("/%ld/%ld/%lu{", (long)type, (long)ares_dns_rr_get_class(rr), (unsigned long)ares_dns_rr_get_ttl(rr));
  for (i = 0; i < cnt; i++) {
    ares_dns_rr_key_t key = keys[i];
    if (i) printf(";");
    printf("%ld=", (long)key);
    switch (ares_dns_rr_key_datatype(key)) {
      case ARES_DATATYPE_INADDR:
        {
          const struct in_addr *a = ares_dns_rr_get_addr(rr, key);
          if (a) puthex((const unsigned char *)a, sizeof(*a)); else printf("~");
        }
        break;
      case ARES_DATATYPE_INADDR6:
        {
          const struct ares_in6_addr *a = ares_dns_rr_get_addr6(rr, key);
          if (a) puthex((const unsigned char *)a, sizeof(*a)); else printf("~");
        }
        break;
      case ARES_DATATYPE_U8:
        printf("%u", (unsigned)ares_dns_rr_get_u8(rr, key));
        break;
      case ARES_DATATYPE_U16:
        printf("%u", (unsigned)ares_dns_rr_get_u16(rr, key));
        break;
      case ARES_DATATYPE_U32:
        printf("%u", (unsigned)ares_dns_rr_get_u32(rr, key));
        break;
      case ARES_DATATYPE_NAME:
      case ARES_DATATYPE_STR:
        putstrhex(ares_dns_rr_get_str(rr, key));
        break;
      case ARES_DATATYPE_BIN:
      case ARES_DATATYPE_BINP:
        {
          size_t               len = 0;
          const unsigned char *b = ares_dns_rr_get_bin(rr, key, &len);
          if (b == NULL) {
            printf("~");
          } else {
            printf("b:");
            puthex(b, len);
          }
        }
        break;
      case ARES_DATATYPE_ABINP:
        printf("a:");
        for (j = 0; j < ares_dns_rr_get_abin_cnt(rr, key); j++) {
          size_t               len = 0;
          const unsigned char *b = ares_dns_rr_get_abin(rr, key, j, &len);
          if (j) printf("|");
          if (b == NULL) printf("~"); else puthex(b, len);
        }
        break;
      case ARES_DATATYPE_OPT:
        printf("o:");
        for (j = 0; j < ares_dns_rr_get_opt_cnt(rr, key); j++) {
          size_t               len = 0;
          const unsigned char *v = NULL;
          unsigned short       opt = ares_dns_rr_get_opt(rr, key, j, &v, &len);
          if (j) printf("|");
          printf("%u:", (unsigned)opt);
          if (v != NULL) puthex(v, len);
        }
        break;
      default:
        printf("?");
        break;
    }
  }
  printf("}");
}

static void dump_rec(const ares_dns_record_t *rec)
{
  size_t i;
  int    s;
  static const char *sn[] = { "", "an", "ns", "ar" };
  printf("id=%u fl=%u op=%d rc=%d qd=[", (unsigned)ares_dns_record_get_id(rec), (unsigned)ares_dns_record_get_flags(rec),
         (int)ares_dns_record_get_opcode(rec), (int)ares_dns_record_get_rcode(rec));
  for (i = 0; i < ares_dns_record_query_cnt(rec); i++) {
    const char         *name = NULL;
    ares_dns_rec_type_t qt;
    ares_dns_class_t    qc;
    ares_dns_record_query_get(rec, i, &name, &qt, &qc);
    if (i) printf(",");
    putstrhex(name);
    /* the enums may be unsigned: print the int that was passed in (cases use negative values too) */
    printf("/%ld/%ld", (long)(int)qt, (long)(int)qc);
  }
  printf("]");
  for (s = 1; s <= 3; s++) {
    printf(" %s=[", sn[s]);
    for (i = 0; i < ares_dns_record_rr_cnt(rec, (ares_dns_section_t)s); i++) {
      if (i) printf(",");
      dump_rr(ares_dns_record_rr_get_const(rec, (ares_dns_section_t)s, i));
    }
    printf("]");
  }
}

/* implementation-only round trip: W (write), V (re-parse), X (re-write) */
static void write_reparse(long k, const ares_dns_record_t *rec, unsigned int flags)
{
  size_t             wlen = 0, xlen = 0;
  unsigned char     *wbuf = NULL, *xbuf = NULL;
  ares_dns_record_t *rec2 = POISON(ares_dns_record_t *);
  ares_status_t      wst, st2, xst;

  wbuf = POISON(unsigned char *);
  xbuf = POISON(unsigned char *);
  wst = ares_dns_write(rec, &wbuf, &wlen);
  if (wbuf == POISON(unsigned char *)) wbuf = NULL; /* left alone on failure */
  printf("%ld W %d ", k, (int)wst);
  if (wst == ARES_SUCCESS) {
    puthex(wbuf, wlen);
    st2 = ares_dns_parse(wbuf, wlen, flags, &rec2);
    printf("\n%ld V %d", k, (int)st2);
    if (st2 == ARES_SUCCESS) {
      printf(" ");
      dump_rec(rec2);
      xst = ares_dns_write(rec2, &xbuf, &xlen);
      if (xbuf == POISON(unsigned char *)) xbuf = NULL;
      printf("\n%ld X %d ", k, (int)xst);
      if (xst == ARES_SUCCESS) puthex(xbuf, xlen);
    }
  }
  printf("\n");
  if (xbuf == POISON(unsigned char *)) xbuf = NULL;
  if (rec2 == POISON(ares_dns_record_t *)) rec2 = NULL;
  ares_free_string(wbuf);
  ares_free_string(xbuf);
  ares_dns_record_destroy(rec2);
}

/* b: build a record through the public setters */
static void run_build(long k, const char *head, char *body)
{
  long               id = 0, fl = 0, op = 0, rc = 0, pre = -1;
  ares_dns_record_t *rec = NULL;
  ares_status_t      st;
  char              *save = NULL, *unit;
  char               stats[4096];
  size_t             sl = 0;

  stats[0] = 0;
  /* optional fifth field: also frame the record with ares_dns_write_buf_tcp into a buffer that already
     holds [pre] octets */
  if (sscanf(head, "b:%ld:%ld:%ld:%ld:%ld", &id, &fl, &op, &rc, &pre) < 5) {
    pre = -1;
  }
  st = ares_dns_record_create(&rec, (unsigned short)id, (unsigned short)fl, (ares_dns_opcode_t)op, (ares_dns_rcode_t)rc);
  for (unit = strtok_r(body, ";", &save); unit != NULL && st == ARES_SUCCESS; unit = strtok_r(NULL, ";", &save)) {
    char *fsave = unit;
    char *f0 = strsep(&fsave, ",");
    if (f0 == NULL) continue;
    if (f0[0] == 'q') {
      char          *nm = strsep(&fsave, ","), *ty = strsep(&fsave, ","), *cl = strsep(&fsave, ",");
      size_t         nl = 0;
      unsigned char *name;
      ares_status_t  qs;
      if (!nm || !ty || !cl) continue;
      name = unhex(nm, &nl);
      name = realloc(name, nl + 1);
      name[nl] = 0;
      qs = ares_dns_record_query_add(rec, (char *)name, (ares_dns_rec_type_t)atol(ty), (ares_dns_class_t)atol(cl));
      sl += (size_t)snprintf(stats + sl, sizeof(stats) - sl, "%sq%d", sl ? "," : "", (int)qs);
      free(name);
    } else if (f0[0] == 'r') {
      char *se = strsep(&fsave, ","), *nm = strsep(&fsave, ","), *ty = strsep(&fsave, ",");
      char *cl = strsep(&fsave, ","), *tt = strsep(&fsave, ","), *kv;
      size_t         nl = 0;
      unsigned char *name;
      ares_dns_rr_t *rr = NULL;
      ares_status_t  rs;
      if (!se || !nm || !ty || !cl || !tt) continue;
      name = unhex(nm, &nl);
      name = realloc(name, nl + 1);
      name[nl] = 0;
      rs = ares_dns_record_rr_add(&rr, rec, (ares_dns_section_t)atol(se), (char *)name, (ares_dns_rec_type_t)atol(ty),
                                  (ares_dns_class_t)atol(cl), (unsigned int)strtoul(tt, NULL, 10));
      sl += (size_t)snprintf(stats + sl, sizeof(stats) - sl, "%sr%d", sl ? "," : "", (int)rs);
      free(name);
      if (rs != ARES_SUCCESS) continue;
      while ((kv = strsep(&fsave, ",")) != NULL && sl + 32 < sizeof(stats)) {
        char             *eq = strchr(kv, '=');
        ares_dns_rr_key_t key;
        ares_status_t     fs = ARES_SUCCESS;
        size_t            vl = 0;
        unsigned char    *v;
        if (!eq) continue;
        *eq = 0;
        key = (ares_dns_rr_key_t)atol(kv);
        eq++;
        switch (ares_dns_rr_key_datatype(key)) {
          case ARES_DATATYPE_INADDR:
            v = unhex(eq, &vl);
            if (vl == 4) fs = ares_dns_rr_set_addr(rr, key, (struct in_addr *)v); else fs = ARES_EFORMERR;
            free(v);
            break;
          case ARES_DATATYPE_INADDR6:
            v = unhex(eq, &vl);
            if (vl == 16) fs = ares_dns_rr_set_addr6(rr, key, (struct ares_in6_addr *)v); else fs = ARES_EFORMERR;
            free(v);
            break;
          case ARES_DATATYPE_U8:
            fs = ares_dns_rr_set_u8(rr, key, (unsigned char)atol(eq));
            break;
          case ARES_DATATYPE_U16:
            fs = ares_dns_rr_set_u16(rr, key, (unsigned short)atol(eq));
            break;
          case ARES_DATATYPE_U32:
            fs = ares_dns_rr_set_u32(rr, key, (unsigned int)strtoul(eq, NULL, 10));
            break;
          case ARES_DATATYPE_NAME:
          case ARES_DATATYPE_STR:
            v = unhex(eq + 1, &vl);
            v = realloc(v, vl + 1);
            v[vl] = 0;
            fs = ares_dns_rr_set_str(rr, key, (char *)v);
            free(v);
            break;
          case ARES_DATATYPE_BIN:
          case ARES_DATATYPE_BINP:
            v = unhex(eq + 1, &vl);
            fs = ares_dns_rr_set_bin(rr, key, v, vl);
            free(v);
            break;
          case ARES_DATATYPE_ABINP:
            {
              char *e = eq + 1;
              while (e != NULL && fs == ARES_SUCCESS) {
                char *bar = strchr(e, '|');
                if (bar) *bar = 0;
                v = unhex(e, &vl);
                fs = ares_dns_rr_add_abin(rr, key, v, vl);
                free(v);
                e = bar ? bar + 1 : NULL;
              }
            }
            break;
          case ARES_DATATYPE_OPT:
            {
              char *e = eq + 1;
              while (e != NULL && *e && fs == ARES_SUCCESS) {
                char *bar = strchr(e, '|');
                char *col;
                if (bar) *bar = 0;
                col = strchr(e, ':');
                if (col) {
                  *col = 0;
                  v = unhex(col + 1, &vl);
                  fs = ares_dns_rr_set_opt(rr, key, (unsigned short)atol(e), v, vl);
                  free(v);
                }
                e = bar ? bar + 1 : NULL;
              }
            }
            break;
          default:
            fs = ARES_EFORMERR;
            break;
        }
        sl += (size_t)snprintf(stats + sl, sizeof(stats) - sl, ",f%d", (int)fs);
      }
    }
  }
  printf("%ld R %d", k, (int)st);
  if (st == ARES_SUCCESS) {
    printf(" ");
    dump_rec(rec);
  }
  printf("\n%ld S %s\n", k, stats);
  if (st == ARES_SUCCESS) {
    write_reparse(k, rec, 0);
  }
  if (st == ARES_SUCCESS && pre >= 0) {
    ares_buf_t          *buf = ares_buf_create();
    ares_dns_record_t   *rec2 = POISON(ares_dns_record_t *);
    ares_status_t        ts, vs;
    const unsigned char *p;
    size_t               blen = 0, start;
    long                 i;
    for (i = 0; i < pre; i++) {
      ares_buf_append_byte(buf, (unsigned char)((i * 7 + 1) & 0xFF));
    }
    start = ares_buf_len(buf);
    ts    = ares_dns_write_buf_tcp(rec, buf);
    printf("%ld F %d ", k, (int)ts);
    p = ares_buf_peek(buf, &blen);
    if (ts == ARES_SUCCESS && p != NULL && blen >= start + 2) {
      size_t flen = ((size_t)p[start] << 8) | p[start + 1];
      puthex(p + start, blen - start);
      if (flen == blen - start - 2) {
        vs = ares_dns_parse(p + start + 2, flen, 0, &rec2);
        printf("\n%ld G %d", k, (int)vs);
        if (vs == ARES_SUCCESS) {
          printf(" ");
          dump_rec(rec2);
        }
      } else {
        printf("\n%ld G -1 frame-length-mismatch prefix=%lu message=%lu", k, (unsigned long)flen, (unsigned long)(blen - start - 2));
      }
    } else if (ts == ARES_SUCCESS) {
      printf("SHORT");
    } else if (blen != start) {
      printf("BUFFER-CHANGED-ON-ERROR");
    }
    printf("\n");
    ares_buf_destroy(buf);
    if (rec2 == POISON(ares_dns_record_t *)) rec2 = NULL;
    ares_dns_record_destroy(rec2);
  }
  ares_dns_record_destroy(rec);
}

/* t: TCP framing into a buffer that already holds earlier frames */
static void run_tcp(long k, long nframes, long consume, const char *hex)
{
  size_t             len = 0, start, blen = 0;
  unsigned char     *bytes = unhex(hex, &len);
  ares_dns_record_t *rec = POISON(ares_dns_record_t *), *rec2 = POISON(ares_dns_record_t *);
  ares_status_t      st, ts = ARES_SUCCESS, vs;
  ares_buf_t        *buf = NULL;
  const unsigned char *p;
  long               i;

  st = ares_dns_parse(bytes, len, 0, &rec);
  if (rec == POISON(ares_dns_record_t *)) rec = NULL;
  printf("%ld R %d", k, (int)st);
  if (st == ARES_SUCCESS) {
    printf(" ");
    dump_rec(rec);
  }
  printf("\n");
  if (st == ARES_SUCCESS) {
    buf = ares_buf_create();
    for (i = 0; i < nframes && ts == ARES_SUCCESS; i++) {
      ts = ares_dns_write_buf_tcp(rec, buf);
    }
    if (ts == ARES_SUCCESS) {
      if ((size_t)consume > ares_buf_len(buf)) consume = (long)ares_buf_len(buf);
      ares_buf_consume(buf, (size_t)consume);
      start = ares_buf_len(buf);
      ts    = ares_dns_write_buf_tcp(rec, buf);
      printf("%ld T %d ", k, (int)ts);
      p = ares_buf_peek(buf, &blen);
      if (ts == ARES_SUCCESS && p != NULL && blen >= start + 2) {
        size_t flen = ((size_t)p[start] << 8) | p[start + 1];
        puthex(p + start, blen - start);
        if (flen == blen - start - 2) {
          vs = ares_dns_parse(p + start + 2, flen, 0, &rec2);
          printf("\n%ld V %d", k, (int)vs);
          if (vs == ARES_SUCCESS) {
            printf(" ");
            dump_rec(rec2);
          }
        } else {
          printf("\n%ld V -1 frame-length-mismatch", k);
        }
      } else if (ts == ARES_SUCCESS) {
        printf("SHORT");
      } else if (blen != start) {
        printf("BUFFER-CHANGED-ON-ERROR");
      }
      printf("\n");
    } else {
      printf("%ld T %d PREFILL\n", k, (int)ts);
    }
    ares_buf_destroy(buf);
  }
  if (rec2 == POISON(ares_dns_record_t *)) rec2 = NULL;
  ares_dns_record_destroy(rec);
  ares_dns_record_destroy(rec2);
  free(bytes);
}

/* c: legacy query builders */
static void run_create_query(long k, long dnsclass, long type, long id, long rd, long maxudp, const char *namehex)
{
  size_t             nl = 0;
  unsigned char     *name = unhex(namehex, &nl);
  unsigned char     *qbuf = POISON(unsigned char *);
  int                qlen = 0, st;
  ares_dns_record_t *rec = POISON(ares_dns_record_t *);

  name = realloc(name, nl + 1);
  name[nl] = 0;
  if (maxudp == -1) {
    st = ares_mkquery((char *)name, (int)dnsclass, (int)type, (unsigned short)id, (int)rd, &qbuf, &qlen);
  } else {
    st = ares_create_query((char *)name, (int)dnsclass, (int)type, (unsigned short)id, (int)rd, &qbuf, &qlen, (int)maxudp);
  }
  if (qbuf == POISON(unsigned char *)) qbuf = NULL; /* left alone on failure */
  printf("%ld R %d ", k, st);
  if (st == ARES_SUCCESS && qbuf != NULL) {
    ares_status_t vs;
    puthex(qbuf, (size_t)qlen);
    vs = ares_dns_parse(qbuf, (size_t)qlen, 0, &rec);
    printf("\n%ld V %d", k, (int)vs);
    if (vs == ARES_SUCCESS) {
      printf(" ");
      dump_rec(rec);
    }
  } else if (qbuf != NULL) {
    printf("RESULT-ON-ERROR");
  }
  printf("\n");
  if (rec == POISON(ares_dns_record_t *)) rec = NULL;
  ares_free_string(qbuf);
  ares_dns_record_destroy(rec);
  free(name);
}

static void run_parse(long k, unsigned int flags, const char *hex)
{
  size_t             len = 0;
  unsigned char     *bytes = unhex(hex, &len);
  ares_dns_record_t *rec = POISON(ares_dns_record_t *);
  ares_status_t      st;

  st = ares_dns_parse(bytes, len, flags, &rec);
  if (rec == POISON(ares_dns_record_t *)) rec = NULL; /* left alone */
  printf("%ld R %d", k, (int)st);
  if (st == ARES_SUCCESS) {
    printf(" ");
    dump_rec(rec);
  } else if (rec != NULL) {
    printf(" RESULT-ON-ERROR");
  }
  printf("\n");
  if (st == ARES_SUCCESS) {
    write_reparse(k, rec, flags);
  }
  ares_dns_record_destroy(rec);
  free(bytes);
}

static void run_expand(long k, int is_name, long enc, long alen, int want, const char *hex)
{
  size_t         len = 0;
  unsigned char *bytes = unhex(hex, &len);
  unsigned char *blk;
  long           enclen = -7;
  int            st;
  char          *s = POISON(char *);

  /* the block the library is told about has exactly alen octets (when alen > 0) */
  if (alen > 0 && (size_t)alen <= len) {
    blk = malloc((size_t)alen);
    memcpy(blk, bytes, (size_t)alen);
  } else {
    blk = malloc(len ? len : 1);
    memcpy(blk, bytes, len);
    if (alen > 0) alen = (long)len; /* never lie about the size of the block */
  }
  if (is_name) {
    st = ares_expand_name(blk + enc, blk, (int)alen, want ? &s : NULL, &enclen);
  } else {
    st = ares_expand_string(blk + enc, blk, (int)alen, want ? (unsigned char **)&s : NULL, &enclen);
  }
  if (s == POISON(char *)) s = NULL; /* not asked for, or left alone on failure */
  printf("%ld R %d %ld ", k, st, st == ARES_SUCCESS ? enclen : 0);
  if (s != NULL) {
    if (is_name) {
      putstrhex(s);
    } else {
      /* no way to get the length back: strings are compared up to the first NUL */
      putstrhex(s);
    }
    ares_free_string(s);
  } else {
    printf("~");
  }
  printf("\n");
  free(blk);
  free(bytes);
}

static void run_case1(long k, char *line);

#include <setjmp.h>
#include <signal.h>
static sigjmp_buf hang_env;
static int        hangs;
static void on_alarm(int sig)
{
  (void)sig;
  siglongjmp(hang_env, 1);
}

static void run_case(long k, char *line)
{
  long before = live_blocks;
  /* a case that does not return within 2 s (e.g. a pointer loop) is abandoned: "<k> H hang";
   * after 10 of them the driver gives up (the verdict is settled) */
  if (sigsetjmp(hang_env, 1) != 0) {
    printf("\n%ld H hang\n", k);
    if (++hangs >= 10) {
      printf("%ld H giving-up\n", k);
      fflush(stdout);
      _exit(0);
    }
    return;
  }
  alarm(2);
  run_case1(k, line);
  alarm(0);
  if (live_blocks != before) {
    printf("%ld L %ld\n", k, live_blocks - before);
    leaks_reported = 1;
  }
  if (poison_hits != 0) {
    printf("%ld P freed %d\n", k, poison_hits);
    poison_hits = 0;
  }
  if (!poison_intact()) {
    printf("%ld P written\n", k);
  }
}

static void run_case1(long k, char *line)
{
  char *bar = strchr(line, '|');
  long  a = 0, b = 0, c3 = 0, d4 = 0, e5 = 0;
  int   w = 0;
  if (!bar) {
    printf("%ld R BADCASE\n", k);
    return;
  }
  *bar = 0;
  if (line[0] == 'p' && sscanf(line, "p:%ld", &a) == 1) {
    run_parse(k, (unsigned int)a, bar + 1);
  } else if (line[0] == 'b') {
    run_build(k, line, bar + 1);
  } else if (line[0] == 't' && sscanf(line, "t:%ld:%ld", &a, &b) == 2) {
    run_tcp(k, a, b, bar + 1);
  } else if (line[0] == 'c' && sscanf(line, "c:%ld:%ld:%ld:%ld:%ld", &a, &b, &c3, &d4, &e5) == 5) {
    run_create_query(k, a, b, c3, d4, e5, bar + 1);
  } else if (line[0] == 'n' && sscanf(line, "n:%ld:%ld:%d", &a, &b, &w) == 3) {
    run_expand(k, 1, a, b, w, bar + 1);
  } else if (line[0] == 's' && sscanf(line, "s:%ld:%ld:%d", &a, &b, &w) == 3) {
    run_expand(k, 0, a, b, w, bar + 1);
  } else {
    printf("%ld R BADKIND\n", k);
  }
}

int main(int argc, char **argv)
{
  int rc;
  poison_init();
  ares_library_init_mem(ARES_LIB_INIT_ALL, cnt_malloc, cnt_free, cnt_realloc);
  signal(SIGALRM, on_alarm);
  rc = drv_main(argc, argv, run_case);
  ares_library_cleanup();
  if (leaks_reported) {
    /* already attributed to their cases; skip LeakSanitizer's end-of-process report */
    fflush(stdout);
    _exit(rc);
  }
  return rc;
}
