/* Implementation-side driver of the legacy-parser engine (C18).
 *
 * case:  <mode>,<cap>,<hex header+question>|<unit>;<unit>;...   (see gen/legacygen.py)
 *
 * For every case the driver
 *   - calls the PUBLIC ares_dns_parse() and dumps the record through the PUBLIC getters
 *       "<k> P <status>"     "<k> Q <namehex> <type> <class>"    "<k> H <rcode> <ancount>"
 *       "<k> RR <namehex> <type> <class> <ttl> <field> ..."   (answer section, in order)
 *   - runs every legacy parser on the same bytes and dumps what it returned
 *       "<k> L <parser> <variant...> st=<status> ... live=<allocations still live after the
 *        matching free function>"
 * Strings are printed as x<hex>, binary as b<hex>, NULL as '-'.  The addrttl arrays get 8 guard
 * elements filled with 0xA5 behind the offered capacity; guard=BAD when one was modified.
 */
#include "legacy_common.h"

/* ---------------- ares_parse_a_reply / ares_parse_aaaa_reply ---------------- */
/* cap: INT_MIN means "naddrttls == NULL"; want_arr 0 means addrttls == NULL.  Returns the
 * number of elements reported. */
static int run_addr(long k, int v6, const unsigned char *msg, int len, int want_host, int want_arr,
                    int cap_given, int cap)
{
  struct hostent *host = SENT;
  size_t          esz  = v6 ? sizeof(struct ares_addr6ttl) : sizeof(struct ares_addrttl);
  size_t          room = (cap_given && cap > 0) ? (size_t)cap : 0;
  size_t          nel, i;
  unsigned char  *arr = NULL;
  int             n   = cap, st, bad = 0, touched = 0, nout;
  long            live0 = live_allocs;

  if (cap_given && cap < 0) room = 4096; /* a negative count is converted to a huge size_t */
  nel = room + GUARD;
  if (want_arr) {
    arr = malloc(nel * esz);
    memset(arr, 0xA5, nel * esz);
  }
  if (v6)
    st = ares_parse_aaaa_reply(msg, len, want_host ? &host : NULL, (struct ares_addr6ttl *)arr, cap_given ? &n : NULL);
  else
    st = ares_parse_a_reply(msg, len, want_host ? &host : NULL, (struct ares_addrttl *)arr, cap_given ? &n : NULL);
  nout = cap_given ? n : 0;
  printf("%ld L %s h=%d t=%d n=", k, v6 ? "aaaa" : "a", want_host, want_arr);
  if (cap_given) printf("%d", cap); else fputs("N", stdout);
  printf(" st=%d nout=", st);
  if (cap_given) printf("%d", n); else fputs("N", stdout);
  fputs(" ttls=[", stdout);
  if (want_arr) {
    for (i = 0; i < nel; i++) {
      size_t j;
      int    mod = 0;
      for (j = 0; j < esz; j++) if (arr[i * esz + j] != 0xA5) mod = 1;
      if (mod) touched = (int)i + 1;
      if (mod && i >= room) bad = 1;
    }
    for (i = 0; (int)i < touched && i < nel; i++) {
      if (i) fputs(",", stdout);
      if (v6) {
        struct ares_addr6ttl *e = (struct ares_addr6ttl *)arr + i;
        hexs("", (const unsigned char *)&e->ip6addr, 16);
        printf(":%d", e->ttl);
      } else {
        struct ares_addrttl *e = (struct ares_addrttl *)arr + i;
        hexs("", (const unsigned char *)&e->ipaddr, 4);
        printf(":%d", e->ttl);
      }
    }
  }
  printf("] touched=%d guard=%s", touched, bad ? "BAD" : "ok");
  if (!want_host) fputs(" host=none", stdout);
  else if (host == SENT) fputs(" host=untouched", stdout);
  else { dump_hostent(host); ares_free_hostent(host); }
  printf(" live=%ld\n", live_allocs - live0);
  free(arr);
  return nout;
}

static void run_addr_all(long k, int v6, const unsigned char *msg, int len, int casecap)
{
  int caps[8], ncaps = 0, i, j, exact;
  run_addr(k, v6, msg, len, 1, 0, 0, 0);                /* host only */
  exact = run_addr(k, v6, msg, len, 1, 1, 1, 4096);     /* large */
  caps[ncaps++] = 0; caps[ncaps++] = 1; caps[ncaps++] = exact - 1; caps[ncaps++] = exact;
  caps[ncaps++] = exact + 1; caps[ncaps++] = casecap;
  for (i = 0; i < ncaps; i++) {
    int dup = 0;
    for (j = 0; j < i; j++) if (caps[j] == caps[i]) dup = 1;
    if (dup || caps[i] < 0) continue;
    run_addr(k, v6, msg, len, 0, 1, 1, caps[i]);
  }
  run_addr(k, v6, msg, len, 0, 0, 1, 5);                /* no array, count given */
  run_addr(k, v6, msg, len, 0, 1, 0, 0);                /* array, no count */
  run_addr(k, v6, msg, len, 1, 1, 1, -1);               /* negative count */
}

/* ---------------- linked-list parsers ---------------- */
#define LHEAD(name) long live0 = live_allocs; int st; int first = 1; printf("%ld L " name, k)
#define LTAIL(ptr)  printf(" live=%ld\n", live_allocs - live0)

static void run_mx(long k, const unsigned char *msg, int len)
{
  struct ares_mx_reply *out = SENT, *p;
  LHEAD("mx");
  st = ares_parse_mx_reply(msg, len, &out);
  printf(" st=%d list=", st);
  if (out == SENT) fputs("untouched", stdout);
  else if (out == NULL) fputs("-", stdout);
  else {
    fputs("[", stdout);
    for (p = out; p; p = p->next) { if (!first) fputs(",", stdout); first = 0; printf("%u:", (unsigned)p->priority); pstr(p->host); }
    fputs("]", stdout);
    ares_free_data(out);
  }
  LTAIL(out);
}

static void run_srv(long k, const unsigned char *msg, int len)
{
  struct ares_srv_reply *out = SENT, *p;
  LHEAD("srv");
  st = ares_parse_srv_reply(msg, len, &out);
  printf(" st=%d list=", st);
  if (out == SENT) fputs("untouched", stdout);
  else if (out == NULL) fputs("-", stdout);
  else {
    fputs("[", stdout);
    for (p = out; p; p = p->next) {
      if (!first) fputs(",", stdout);
      first = 0;
      printf("%u:%u:%u:", (unsigned)p->priority, (unsigned)p->weight, (unsigned)p->port);
      pstr(p->host);
    }
    fputs("]", stdout);
    ares_free_data(out);
  }
  LTAIL(out);
}

static void run_naptr(long k, const unsigned char *msg, int len)
{
  struct ares_naptr_reply *out = SENT, *p;
  LHEAD("naptr");
  st = ares_parse_naptr_reply(msg, len, &out);
  printf(" st=%d list=", st);
  if (out == SENT) fputs("untouched", stdout);
  else if (out == NULL) fputs("-", stdout);
  else {
    fputs("[", stdout);
    for (p = out; p; p = p->next) {
      if (!first) fputs(",", stdout);
      first = 0;
      printf("%u:%u:", (unsigned)p->order, (unsigned)p->preference);
      pstr((const char *)p->flags); fputs(":", stdout);
      pstr((const char *)p->service); fputs(":", stdout);
      pstr((const char *)p->regexp); fputs(":", stdout);
      pstr(p->replacement);
    }
    fputs("]", stdout);
    ares_free_data(out);
  }
  LTAIL(out);
}

static void run_caa(long k, const unsigned char *msg, int len)
{
  struct ares_caa_reply *out = SENT, *p;
  LHEAD("caa");
  st = ares_parse_caa_reply(msg, len, &out);
  printf(" st=%d list=", st);
  if (out == SENT) fputs("untouched", stdout);
  else if (out == NULL) fputs("-", stdout);
  else {
    fputs("[", stdout);
    for (p = out; p; p = p->next) {
      if (!first) fputs(",", stdout);
      first = 0;
      printf("%d:%zu:", p->critical, p->plength);
      pstr((const char *)p->property);
      printf(":%zu:", p->length);
      if (p->value == NULL) fputs("-", stdout); else hexs("b", p->value, p->length);
      printf(":%s", (p->value && p->value[p->length] == 0) ? "z" : "NOTERM");
    }
    fputs("]", stdout);
    ares_free_data(out);
  }
  LTAIL(out);
}

static void run_uri(long k, const unsigned char *msg, int len)
{
  struct ares_uri_reply *out = SENT, *p;
  LHEAD("uri");
  st = ares_parse_uri_reply(msg, len, &out);
  printf(" st=%d list=", st);
  if (out == SENT) fputs("untouched", stdout);
  else if (out == NULL) fputs("-", stdout);
  else {
    fputs("[", stdout);
    for (p = out; p; p = p->next) {
      if (!first) fputs(",", stdout);
      first = 0;
      printf("%u:%u:%d:", (unsigned)p->priority, (unsigned)p->weight, p->ttl);
      pstr(p->uri);
    }
    fputs("]", stdout);
    ares_free_data(out);
  }
  LTAIL(out);
}

static void run_soa(long k, const unsigned char *msg, int len)
{
  struct ares_soa_reply *out = SENT;
  LHEAD("soa");
  (void)first;
  st = ares_parse_soa_reply(msg, len, &out);
  printf(" st=%d list=", st);
  if (out == SENT) fputs("untouched", stdout);
  else if (out == NULL) fputs("-", stdout);
  else {
    fputs("[", stdout);
    pstr(out->nsname); fputs(":", stdout);
    pstr(out->hostmaster);
    printf(":%u:%u:%u:%u:%u]", out->serial, out->refresh, out->retry, out->expire, out->minttl);
    ares_free_data(out);
  }
  LTAIL(out);
}

static void run_txt(long k, const unsigned char *msg, int len)
{
  struct ares_txt_reply *out = SENT, *p;
  LHEAD("txt");
  st = ares_parse_txt_reply(msg, len, &out);
  printf(" st=%d list=", st);
  if (out == SENT) fputs("untouched", stdout);
  else if (out == NULL) fputs("-", stdout);
  else {
    fputs("[", stdout);
    for (p = out; p; p = p->next) {
      if (!first) fputs(",", stdout);
      first = 0;
      printf("%zu:", p->length);
      if (p->txt == NULL) fputs("-", stdout); else hexs("b", p->txt, p->length);
      printf(":%s", (p->txt && p->txt[p->length] == 0) ? "z" : "NOTERM");
    }
    fputs("]", stdout);
    ares_free_data(out);
  }
  LTAIL(out);
}

static void run_txt_ext(long k, const unsigned char *msg, int len)
{
  struct ares_txt_ext *out = SENT, *p;
  LHEAD("txtx");
  st = ares_parse_txt_reply_ext(msg, len, &out);
  printf(" st=%d list=", st);
  if (out == SENT) fputs("untouched", stdout);
  else if (out == NULL) fputs("-", stdout);
  else {
    fputs("[", stdout);
    for (p = out; p; p = p->next) {
      if (!first) fputs(",", stdout);
      first = 0;
      printf("%u:%zu:", (unsigned)p->record_start, p->length);
      if (p->txt == NULL) fputs("-", stdout); else hexs("b", p->txt, p->length);
      printf(":%s", (p->txt && p->txt[p->length] == 0) ? "z" : "NOTERM");
    }
    fputs("]", stdout);
    ares_free_data(out);
  }
  LTAIL(out);
}

/* ---------------- hostent parsers ---------------- */
static void run_ns(long k, const unsigned char *msg, int len)
{
  struct hostent *host = SENT;
  LHEAD("ns");
  (void)first;
  st = ares_parse_ns_reply(msg, len, &host);
  printf(" st=%d", st);
  if (host == SENT) fputs(" host=untouched", stdout);
  else { dump_hostent(host); ares_free_hostent(host); }
  LTAIL(host);
}

static void run_ptr(long k, const unsigned char *msg, int len, int variant)
{
  static const unsigned char a4[4]  = { 1, 2, 3, 4 };
  static const unsigned char a6[16] = { 0x20, 1, 0xd, 0xb8, 0, 0, 0, 0, 0, 0, 0, 0, 0, 0, 0, 5 };
  struct hostent *host = SENT;
  LHEAD("ptr");
  (void)first;
  printf(" v=%d", variant);
  if (variant == 0) st = ares_parse_ptr_reply(msg, len, a4, 4, AF_INET, &host);
  else if (variant == 1) st = ares_parse_ptr_reply(msg, len, a6, 16, AF_INET6, &host);
  else st = ares_parse_ptr_reply(msg, len, NULL, 0, AF_INET, &host);
  printf(" st=%d", st);
  if (host == SENT) fputs(" host=untouched", stdout);
  else { dump_hostent(host); ares_free_hostent(host); }
  LTAIL(host);
}

/* negative length: every parser must answer ARES_EBADRESP without touching the message */
static void run_neg(long k, const unsigned char *msg)
{
  struct hostent          *h  = SENT; /* out-parameter poison, reused from call to call */
  struct ares_addrttl      t4[2];
  struct ares_addr6ttl     t6[2];
  int                      n4 = 2, n6 = 2;
  void                    *o  = SENT;
  long                     live0 = live_allocs;
  printf("%ld NEG", k);
  printf(" %d", ares_parse_a_reply(msg, -1, &h, t4, &n4));
  printf(" %d", ares_parse_aaaa_reply(msg, -1, &h, t6, &n6));
  printf(" %d", ares_parse_caa_reply(msg, -1, (struct ares_caa_reply **)&o));
  printf(" %d", ares_parse_mx_reply(msg, -1, (struct ares_mx_reply **)&o));
  printf(" %d", ares_parse_naptr_reply(msg, -1, (struct ares_naptr_reply **)&o));
  printf(" %d", ares_parse_ns_reply(msg, -1, &h));
  printf(" %d", ares_parse_ptr_reply(msg, -1, NULL, 0, AF_INET, &h));
  printf(" %d", ares_parse_soa_reply(msg, -1, (struct ares_soa_reply **)&o));
  printf(" %d", ares_parse_srv_reply(msg, -1, (struct ares_srv_reply **)&o));
  printf(" %d", ares_parse_txt_reply(msg, -1, (struct ares_txt_reply **)&o));
  printf(" %d", ares_parse_txt_reply_ext(msg, -1, (struct ares_txt_ext **)&o));
  printf(" %d", ares_parse_uri_reply(msg, -1, (struct ares_uri_reply **)&o));
  printf(" live=%ld\n", live_allocs - live0);
}

/* ---------------- allocation-failure sweep ---------------- */
/* Every conversion-phase allocation of a legacy parser is made to fail in turn (the
 * allocations of ares_dns_parse come first and are skipped): "<k> F <parser> v=<variant>
 * at=<failing allocation, 0 = none> tot=<allocations of the conversion> st=<status>
 * out=<result pointer set> live=<allocations still live after the matching free function>" */
typedef struct { int st; int out; } fres_t;
typedef fres_t (*fcall_t)(const unsigned char *msg, int len, int variant);

static fres_t f_addr(const unsigned char *msg, int len, int variant)
{
  /* variant: 0 = a host only, 1 = a array only, 2 = aaaa host only, 3 = aaaa array only */
  struct hostent      *host = SENT;
  struct ares_addrttl  t4[4];
  struct ares_addr6ttl t6[4];
  int                  n = 4;
  fres_t               r;
  if (variant == 0) r.st = ares_parse_a_reply(msg, len, &host, NULL, NULL);
  else if (variant == 1) r.st = ares_parse_a_reply(msg, len, NULL, t4, &n);
  else if (variant == 2) r.st = ares_parse_aaaa_reply(msg, len, &host, NULL, NULL);
  else r.st = ares_parse_aaaa_reply(msg, len, NULL, t6, &n);
  if (host == SENT) host = NULL;
  r.out = host != NULL;
  ares_free_hostent(host);
  return r;
}
static fres_t f_ns(const unsigned char *msg, int len, int variant)
{
  struct hostent *host = SENT;
  fres_t          r;
  (void)variant;
  r.st  = ares_parse_ns_reply(msg, len, &host);
  if (host == SENT) host = NULL;
  r.out = host != NULL;
  ares_free_hostent(host);
  return r;
}
static fres_t f_ptr(const unsigned char *msg, int len, int variant)
{
  static const unsigned char a4[4] = { 1, 2, 3, 4 };
  struct hostent *host = NULL;
  fres_t          r;
  r.st  = variant ? ares_parse_ptr_reply(msg, len, a4, 4, AF_INET, &host) : ares_parse_ptr_reply(msg, len, NULL, 0, AF_INET, &host);
  r.out = host != NULL;
  ares_free_hostent(host);
  return r;
}
#define F_LIST(fn, call, type)                                    \
  static fres_t fn(const unsigned char *msg, int len, int variant) \
  {                                                                \
    type  *out = SENT;                                             \
    fres_t r;                                                      \
    (void)variant;                                                 \
    r.st  = call(msg, len, &out);                                  \
    if (out == SENT) out = NULL;                                   \
    r.out = out != NULL;                                           \
    ares_free_data(out);                                           \
    return r;                                                      \
  }
F_LIST(f_mx, ares_parse_mx_reply, struct ares_mx_reply)
F_LIST(f_srv, ares_parse_srv_reply, struct ares_srv_reply)
F_LIST(f_naptr, ares_parse_naptr_reply, struct ares_naptr_reply)
F_LIST(f_caa, ares_parse_caa_reply, struct ares_caa_reply)
F_LIST(f_uri, ares_parse_uri_reply, struct ares_uri_reply)
F_LIST(f_soa, ares_parse_soa_reply, struct ares_soa_reply)
F_LIST(f_txt, ares_parse_txt_reply, struct ares_txt_reply)
F_LIST(f_txtx, ares_parse_txt_reply_ext, struct ares_txt_ext)

static void sweep(long k, const char *name, int variant, fcall_t f, const unsigned char *msg, int len, long nparse)
{
  long   tot, rel, live0;
  fres_t r;
  alloc_calls = 0; fail_at = 0; live0 = live_allocs;
  r   = f(msg, len, variant);
  tot = alloc_calls - nparse;
  printf("%ld F %s v=%d at=0 tot=%ld st=%d out=%d live=%ld\n", k, name, variant, tot, r.st, r.out, live_allocs - live0);
  for (rel = 1; rel <= tot; rel++) {
    if (tot > 10 && !(rel <= 5 || rel == tot / 2 || rel >= tot - 3)) continue;
    alloc_calls = 0; fail_at = nparse + rel; live0 = live_allocs;
    r       = f(msg, len, variant);
    fail_at = 0;
    printf("%ld F %s v=%d at=%ld tot=%ld st=%d out=%d live=%ld\n", k, name, variant, rel, tot, r.st, r.out, live_allocs - live0);
  }
}

static void sweep_all(long k, const unsigned char *msg, int len)
{
  ares_dns_record_t *rec = SENT;
  long               nparse;
  alloc_calls = 0; fail_at = 0;
  if (ares_dns_parse(msg, (size_t)len, 0, &rec) != ARES_SUCCESS) return;
  nparse = alloc_calls;
  if (ares_dns_record_rr_cnt(rec, ARES_SECTION_ANSWER) > 24) { ares_dns_record_destroy(rec); return; }
  ares_dns_record_destroy(rec);
  sweep(k, "a", 0, f_addr, msg, len, nparse);
  sweep(k, "a", 1, f_addr, msg, len, nparse);
  sweep(k, "aaaa", 2, f_addr, msg, len, nparse);
  sweep(k, "aaaa", 3, f_addr, msg, len, nparse);
  sweep(k, "caa", 0, f_caa, msg, len, nparse);
  sweep(k, "mx", 0, f_mx, msg, len, nparse);
  sweep(k, "naptr", 0, f_naptr, msg, len, nparse);
  sweep(k, "ns", 0, f_ns, msg, len, nparse);
  sweep(k, "ptr", 0, f_ptr, msg, len, nparse);
  sweep(k, "ptr", 1, f_ptr, msg, len, nparse);
  sweep(k, "soa", 0, f_soa, msg, len, nparse);
  sweep(k, "srv", 0, f_srv, msg, len, nparse);
  sweep(k, "txt", 0, f_txt, msg, len, nparse);
  sweep(k, "txtx", 0, f_txtx, msg, len, nparse);
  sweep(k, "uri", 0, f_uri, msg, len, nparse);
}

/* ---------------- case ---------------- */
static void run_case(long k, char *line)
{
  char          *bar = strchr(line, '|');
  unsigned char *msg;
  size_t         len = 0;
  int            mode, casecap;
  if (!bar) { printf("%ld R BADCASE\n", k); return; }
  *bar = 0;
  msg  = assemble_case(line, bar + 1, &len, &mode, &casecap);
  if (!msg) { printf("%ld R BADCASE\n", k); return; }
  printf("%ld LEN %zu\n", k, len);
  dump_record(k, msg, len);
  run_addr_all(k, 0, msg, (int)len, casecap);
  run_addr_all(k, 1, msg, (int)len, casecap);
  run_caa(k, msg, (int)len);
  run_mx(k, msg, (int)len);
  run_naptr(k, msg, (int)len);
  run_ns(k, msg, (int)len);
  run_ptr(k, msg, (int)len, 0);
  run_ptr(k, msg, (int)len, 1);
  run_ptr(k, msg, (int)len, 2);
  run_soa(k, msg, (int)len);
  run_srv(k, msg, (int)len);
  run_txt(k, msg, (int)len);
  run_txt_ext(k, msg, (int)len);
  run_uri(k, msg, (int)len);
  run_neg(k, msg);
  sweep_all(k, msg, (int)len);
  free(msg);
}

int main(int argc, char **argv)
{
  int rc;
  ares_library_init_mem(ARES_LIB_INIT_ALL, l_malloc, l_free, l_realloc);
  rc = drv_main(argc, argv, run_case);
  ares_library_cleanup();
  return rc;
}
