/* Deterministic channel simulator for c-ares.  See sim.h for the language and
 * event reference.  Harness memory uses plain malloc/free; the library's
 * memory goes through the counting allocator installed by sim_global_init().
 */
#include "ares_private.h"
#include "sim.h"

#include <stdarg.h>
#include <stdio.h>
#include <stdlib.h>
#include <string.h>
#include <errno.h>
#include <ctype.h>
#include <malloc.h>
#include <unistd.h>
#include <sys/socket.h>
#include <sys/select.h>
#include <netinet/in.h>
#include <arpa/inet.h>
#include <netdb.h>

/* ------------------------------------------------------------------------- */
/* Limits                                                                     */
/* ------------------------------------------------------------------------- */
#define FD_BASE    100
#define MAX_SOCKS  512
#define MAX_TOK    1024
#define MAX_ARGS   32
#define MAX_PAT    32
#define MAX_SRV    64
#define MAX_FAIL   16
#define MAX_ONCB   8
#define MAX_CBDEPTH 8

/* ------------------------------------------------------------------------- */
/* Output                                                                     */
/* ------------------------------------------------------------------------- */
static long g_case = 0;

static void *xmalloc(size_t n)
{
  void *p = malloc(n ? n : 1);
  if (p == NULL) {
    fprintf(stderr, "harness: out of memory\n");
    exit(3);
  }
  return p;
}

static void *xrealloc(void *q, size_t n)
{
  void *p = realloc(q, n ? n : 1);
  if (p == NULL) {
    fprintf(stderr, "harness: out of memory\n");
    exit(3);
  }
  return p;
}

static char *xstrdup(const char *s)
{
  size_t n = strlen(s) + 1;
  char  *p = xmalloc(n);
  memcpy(p, s, n);
  return p;
}

typedef struct {
  char  *b;
  size_t n;
  size_t cap;
} sb_t;

static void sb_init(sb_t *s)
{
  s->cap  = 256;
  s->b    = xmalloc(s->cap);
  s->n    = 0;
  s->b[0] = 0;
}

static void sb_res(sb_t *s, size_t extra)
{
  if (s->n + extra + 1 > s->cap) {
    while (s->n + extra + 1 > s->cap) {
      s->cap *= 2;
    }
    s->b = xrealloc(s->b, s->cap);
  }
}

static void sb_putc(sb_t *s, char c)
{
  sb_res(s, 1);
  s->b[s->n++] = c;
  s->b[s->n]   = 0;
}

static void sb_puts(sb_t *s, const char *str)
{
  size_t l = strlen(str);
  sb_res(s, l);
  memcpy(s->b + s->n, str, l + 1);
  s->n += l;
}

static void sb_printf(sb_t *s, const char *fmt, ...)
{
  char    tmp[512];
  va_list ap;
  int     l;
  va_start(ap, fmt);
  l = vsnprintf(tmp, sizeof(tmp), fmt, ap);
  va_end(ap);
  if (l < 0) {
    return;
  }
  if ((size_t)l >= sizeof(tmp)) {
    char *big = xmalloc((size_t)l + 1);
    va_start(ap, fmt);
    vsnprintf(big, (size_t)l + 1, fmt, ap);
    va_end(ap);
    sb_puts(s, big);
    free(big);
    return;
  }
  sb_puts(s, tmp);
}

static void sb_hex(sb_t *s, const unsigned char *d, size_t len)
{
  static const char hx[] = "0123456789abcdef";
  size_t            i;
  if (len == 0) {
    sb_putc(s, '-');
    return;
  }
  sb_res(s, len * 2);
  for (i = 0; i < len; i++) {
    s->b[s->n++] = hx[d[i] >> 4];
    s->b[s->n++] = hx[d[i] & 15];
  }
  s->b[s->n] = 0;
}

/* printable, separator-free rendering of arbitrary bytes */
static void sb_safe_n(sb_t *s, const unsigned char *p, size_t len)
{
  size_t i;
  if (p == NULL) {
    sb_putc(s, '-');
    return;
  }
  for (i = 0; i < len; i++) {
    unsigned char c = p[i];
    if (c <= 0x20 || c >= 0x7f || c == ',' || c == '[' || c == ']' ||
        c == '=' || c == '%' || c == '|' || c == ';' || c == '+') {
      sb_printf(s, "%%%02X", c);
    } else {
      sb_putc(s, (char)c);
    }
  }
}

static void sb_safe(sb_t *s, const char *p)
{
  if (p == NULL) {
    sb_putc(s, '-');
    return;
  }
  if (*p == 0) {
    sb_puts(s, "\"\"");
    return;
  }
  sb_safe_n(s, (const unsigned char *)p, strlen(p));
}

static void sb_free(sb_t *s)
{
  free(s->b);
  s->b = NULL;
}

static void ev(const char *fmt, ...)
{
  va_list ap;
  printf("%ld ", g_case);
  va_start(ap, fmt);
  vprintf(fmt, ap);
  va_end(ap);
  putchar('\n');
  fflush(stdout);
}

static void ev_sb(sb_t *s)
{
  printf("%ld %s\n", g_case, s->b);
  fflush(stdout);
}

/* For trace modules linked into a driver next to sim.c (e.g. harness/chan01_trace.c, which
 * wraps library-internal call sites): print an event line of the current case. */
void sim_ev(const char *fmt, ...)
{
  va_list ap;
  printf("%ld ", g_case);
  va_start(ap, fmt);
  vprintf(fmt, ap);
  va_end(ap);
  putchar('\n');
  fflush(stdout);
}

static int hexval(int c)
{
  if (c >= '0' && c <= '9') {
    return c - '0';
  }
  if (c >= 'a' && c <= 'f') {
    return c - 'a' + 10;
  }
  if (c >= 'A' && c <= 'F') {
    return c - 'A' + 10;
  }
  return -1;
}

/* returns malloc'd buffer, *len set; NULL on bad hex.  "-" means empty. */
static unsigned char *parse_hex(const char *s, size_t *len)
{
  size_t         l = strlen(s);
  size_t         i;
  unsigned char *out;
  *len = 0;
  if (strcmp(s, "-") == 0) {
    return xmalloc(1);
  }
  if (l % 2) {
    return NULL;
  }
  out = xmalloc(l / 2 + 1);
  for (i = 0; i < l; i += 2) {
    int a = hexval((unsigned char)s[i]);
    int b = hexval((unsigned char)s[i + 1]);
    if (a < 0 || b < 0) {
      free(out);
      return NULL;
    }
    out[i / 2] = (unsigned char)(a * 16 + b);
  }
  *len = l / 2;
  return out;
}

static int parse_long(const char *s, long *out)
{
  char *end;
  long  v;
  if (s == NULL || *s == 0) {
    return 0;
  }
  errno = 0;
  v     = strtol(s, &end, 0);
  if (errno != 0 || *end != 0) {
    return 0;
  }
  *out = v;
  return 1;
}

/* ------------------------------------------------------------------------- */
/* errno names                                                                */
/* ------------------------------------------------------------------------- */
static const struct {
  const char *name;
  int         val;
} g_errnos[] = {
  { "EAGAIN",        EAGAIN        },
  { "EWOULDBLOCK",   EWOULDBLOCK   },
  { "ECONNRESET",    ECONNRESET    },
  { "ECONNREFUSED",  ECONNREFUSED  },
  { "ECONNABORTED",  ECONNABORTED  },
  { "ENETUNREACH",   ENETUNREACH   },
  { "ENETDOWN",      ENETDOWN      },
  { "EHOSTUNREACH",  EHOSTUNREACH  },
  { "EHOSTDOWN",     EHOSTDOWN     },
  { "ETIMEDOUT",     ETIMEDOUT     },
  { "EINTR",         EINTR         },
  { "ENOMEM",        ENOMEM        },
  { "EMFILE",        EMFILE        },
  { "ENFILE",        ENFILE        },
  { "EAFNOSUPPORT",  EAFNOSUPPORT  },
  { "EADDRNOTAVAIL", EADDRNOTAVAIL },
  { "EADDRINUSE",    EADDRINUSE    },
  { "EINPROGRESS",   EINPROGRESS   },
  { "ENOSYS",        ENOSYS        },
  { "EPIPE",         EPIPE         },
  { "EBADF",         EBADF         },
  { "EINVAL",        EINVAL        },
  { "EACCES",        EACCES        },
  { "EPERM",         EPERM         },
  { "ENOBUFS",       ENOBUFS       },
  { "EMSGSIZE",      EMSGSIZE      },
  { "ENOTCONN",      ENOTCONN      },
  { "EIO",           EIO           },
  { NULL,            0             }
};

static const char *errno_name(int e)
{
  size_t      i;
  static char buf[32];
  for (i = 0; g_errnos[i].name; i++) {
    if (g_errnos[i].val == e) {
      return g_errnos[i].name;
    }
  }
  snprintf(buf, sizeof(buf), "E%d", e);
  return buf;
}

static int errno_byname(const char *n)
{
  size_t i;
  long   v;
  for (i = 0; g_errnos[i].name; i++) {
    if (strcasecmp(g_errnos[i].name, n) == 0) {
      return g_errnos[i].val;
    }
  }
  if (parse_long(n, &v) && v > 0 && v < 4096) {
    return (int)v;
  }
  return -1;
}

/* ------------------------------------------------------------------------- */
/* State                                                                      */
/* ------------------------------------------------------------------------- */
typedef struct {
  unsigned char          *data;
  size_t                  len;
  struct sockaddr_storage from;
  socklen_t               fromlen;
} pkt_t;

typedef struct {
  int                     fd;
  int                     af;
  int                     type; /* SOCK_DGRAM / SOCK_STREAM */
  int                     closed;
  int                     connected;       /* aconnect was called and accepted */
  int                     connect_pending; /* EINPROGRESS not completed yet */
  int                     tfo;             /* TFO sockopt accepted */
  struct sockaddr_storage peer;
  socklen_t               peerlen;
  int                     srv;
  /* UDP inbound */
  pkt_t                  *inq;
  size_t                  inq_n;
  size_t                  inq_cap;
  size_t                  inq_head;
  /* TCP inbound */
  unsigned char          *tin;
  size_t                  tin_len;
  size_t                  tin_off;
  size_t                  tin_cap;
  int                     eof;
  int                     reset;
  size_t                  chunk[MAX_PAT];
  int                     nchunk;
  int                     chunk_i;
  size_t                  wpat[MAX_PAT];
  int                     nwpat;
  int                     wpat_i;
  /* TCP outbound reassembly */
  unsigned char          *tout;
  size_t                  tout_len;
  size_t                  tout_cap;
  int                     wr_event; /* a writability notification is due */
  int                     ss_r;     /* interest last announced by sock_state_cb */
  int                     ss_w;
  int                     wr_short; /* the last asendto was short or returned EAGAIN */
} vsock_t;

typedef struct {
  int            sock;
  int            srv;
  int            tcp;
  unsigned char *msg;
  size_t         len;
  int            valid;
  unsigned int   id;
  unsigned int   flags;
  int            rd;
  unsigned int   qd, an, ns, ar;
  char           qname[1100];   /* presentation, case as sent */
  unsigned char  qwire[300];    /* wire form of the whole question name */
  size_t         qwire_len;
  int            qname_plain;   /* all label chars are hostname chars */
  int            qtype;
  int            qclass;
  int            has_opt;
  unsigned int   udpsize;
  unsigned char  cookie[64];
  int            cookie_len; /* -1 none */
  int            answered;
} tx_t;

typedef struct {
  int   nreq;
  int   ncb;
  char *oncb[MAX_ONCB];
  int   noncb;
} tok_t;

enum {
  CALL_SOCKET,
  CALL_CONNECT,
  CALL_SENDTO,
  CALL_RECVFROM,
  CALL_SETSOCKOPT,
  CALL_BIND,
  CALL_GETSOCKNAME,
  CALL_CLOSE,
  CALL_N
};

static const char *g_callnames[CALL_N] = { "socket",     "connect", "sendto",
                                           "recvfrom",   "setsockopt",
                                           "bind",       "getsockname",
                                           "close" };

typedef struct {
  int countdown; /* 0 = inactive */
  int err;
} failrule_t;

typedef struct {
  /* channel */
  ares_channel_t *channel;
  int             destroyed; /* ares_destroy returned */
  int             in_destroy;
  int             init_failed;
  /* clock, rng */
  ares_int64_t    now_us;
  ares_uint64_t   rng;
  long            idseq; /* -1 = random */
  unsigned short  idlist[64]; /* idlist=: ids handed out first */
  int             nidlist;
  int             idlist_i;
  /* sockets */
  vsock_t        *socks;
  size_t          nsocks;
  /* transmissions */
  tx_t           *tx;
  size_t          ntx;
  size_t          tx_cap;
  /* tokens */
  tok_t           tok[MAX_TOK];
  int             cb_dups;
  int             cb_depth;
  /* servers */
  char            srvaddr[MAX_SRV][64];
  int             nsrv;
  /* network behaviour */
  int             connectlater;
  int             tfo;
  size_t          def_chunk[MAX_PAT];
  int             def_nchunk;
  size_t          def_wpat[MAX_PAT];
  int             def_nwpat;
  failrule_t      fail[CALL_N][MAX_FAIL];
  /* config */
  int             sockstatecb;
  int             pendingwritecb;
  int             serverstatecb;
  int             qdump;      /* qdump=1: log QSTATE */
  char           *qdump_last; /* last QSTATE text printed */
  int             lctrace;       /* lctrace=1: print LC events (sim_ev users, query ids) */
  int             sockfuncs_mode; /* sockfuncs=: 0 ex (default), 1 nogsn, 2 legacy */
  /* alloc */
  int             alloc_report;
  size_t          opno;
} sim_t;

static sim_t G;

/* ------------------------------------------------------------------------- */
/* Virtual clock and RNG (linked with --wrap)                                 */
/* ------------------------------------------------------------------------- */
static ares_uint64_t rng_next(void)
{
  ares_uint64_t x = G.rng;
  x      ^= x >> 12;
  x      ^= x << 25;
  x      ^= x >> 27;
  G.rng   = x;
  return x * 2685821657736338717ULL;
}

/* lctrace=1 in the case configuration */
int sim_lctrace(void)
{
  return G.lctrace;
}

void __wrap_ares_tvnow(ares_timeval_t *now)
{
  now->sec  = G.now_us / 1000000;
  now->usec = (unsigned int)(G.now_us % 1000000);
}

void __wrap_ares_rand_bytes(ares_rand_state *state, unsigned char *buf,
                            size_t len)
{
  size_t i;
  (void)state;
  for (i = 0; i < len; i++) {
    buf[i] = (unsigned char)(rng_next() >> 32);
  }
}

int sim_lctrace(void);

unsigned short __wrap_ares_generate_new_id(ares_rand_state *state)
{
  unsigned short id;
  (void)state;
  if (G.idlist_i < G.nidlist) {
    return G.idlist[G.idlist_i++];
  }
  if (G.idseq >= 0) {
    id      = (unsigned short)(G.idseq & 0xFFFF);
    G.idseq = (G.idseq + 1) & 0xFFFF;
  } else {
    id = (unsigned short)(rng_next() >> 40);
  }
  if (sim_lctrace()) {
    sim_ev("LC TI %u", (unsigned int)id);
  }
  return id;
}

/* Optional (--wrap=ares_htable_hash_FNV1a --wrap=ares_htable_hash_FNV1a_casecmp):
 * the library seeds every hash table from heap/stack addresses and time(); the
 * bucket layout decides how many bucket lists get allocated, so allocation
 * counts (failalloc positions, ALLOCS total) vary from run to run unless the
 * seed is pinned.  Same FNV-1a as the library, seed ignored. */
unsigned int __wrap_ares_htable_hash_FNV1a(const unsigned char *key,
                                           size_t key_len, unsigned int seed)
{
  unsigned int hv = 2166136261U;
  size_t       i;
  (void)seed;
  for (i = 0; i < key_len; i++) {
    hv ^= (unsigned int)key[i];
    hv *= 16777619U;
  }
  return hv;
}

unsigned int __wrap_ares_htable_hash_FNV1a_casecmp(const unsigned char *key,
                                                   size_t       key_len,
                                                   unsigned int seed)
{
  unsigned int hv = 2166136261U;
  size_t       i;
  (void)seed;
  for (i = 0; i < key_len; i++) {
    unsigned char c = key[i];
    if (c >= 'A' && c <= 'Z') {
      c = (unsigned char)(c + 32);
    }
    hv ^= (unsigned int)c;
    hv *= 16777619U;
  }
  return hv;
}

/* ------------------------------------------------------------------------- */
/* Counting / failing allocator                                               */
/* ------------------------------------------------------------------------- */
static int    g_alloc_active = 0; /* counting enabled */
static int    g_alloc_exempt = 0; /* >0: harness's own use of library API */
static long   g_alloc_count  = 0;
static long   g_alloc_failat = 0; /* 0 = never */
static int    g_alloc_sticky = 0;
static long   g_live_blocks  = 0;
static long   g_live_bytes   = 0;

static int alloc_should_fail(void)
{
  if (!g_alloc_active || g_alloc_exempt) {
    return 0;
  }
  g_alloc_count++;
  if (g_alloc_failat > 0 &&
      (g_alloc_count == g_alloc_failat ||
       (g_alloc_sticky && g_alloc_count > g_alloc_failat))) {
    ev("ALLOCFAIL at=%ld", g_alloc_count);
    return 1;
  }
  return 0;
}

static void *sim_malloc(size_t size)
{
  void *p;
  if (alloc_should_fail()) {
    return NULL;
  }
  p = malloc(size);
  if (p != NULL) {
    g_live_blocks++;
    g_live_bytes += (long)malloc_usable_size(p);
  }
  return p;
}

/* Under ASan: is ptr a live heap block?  If not (double free, wild pointer) the
 * accounting is skipped and the pointer is handed to free()/realloc() as is, so
 * that the sanitizer reports the library's error with its proper name. */
int __sanitizer_get_ownership(const volatile void *p) __attribute__((weak));

static int block_is_live(void *ptr)
{
  if (__sanitizer_get_ownership != NULL) {
    return __sanitizer_get_ownership(ptr);
  }
  return 1;
}

static void sim_free(void *ptr)
{
  if (ptr != NULL && !block_is_live(ptr)) {
    free(ptr);
    return;
  }
  if (ptr != NULL) {
    g_live_blocks--;
    g_live_bytes -= (long)malloc_usable_size(ptr);
  }
  free(ptr);
}

static void *sim_realloc(void *ptr, size_t size)
{
  void  *p;
  size_t old = 0;
  if (alloc_should_fail()) {
    return NULL;
  }
  if (ptr != NULL && !block_is_live(ptr)) {
    return realloc(ptr, size);
  }
  if (ptr != NULL) {
    old = malloc_usable_size(ptr);
  }
  p = realloc(ptr, size);
  if (p != NULL) {
    if (ptr == NULL) {
      g_live_blocks++;
    }
    g_live_bytes += (long)malloc_usable_size(p) - (long)old;
  } else if (size == 0 && ptr != NULL) {
    g_live_blocks--;
    g_live_bytes -= (long)old;
  }
  return p;
}

/* ------------------------------------------------------------------------- */
/* Address helpers                                                            */
/* ------------------------------------------------------------------------- */
static void fmt_ip(const struct sockaddr *sa, char *out, size_t outlen)
{
  out[0] = 0;
  if (sa == NULL) {
    snprintf(out, outlen, "-");
    return;
  }
  if (sa->sa_family == AF_INET) {
    struct sockaddr_in in;
    memcpy(&in, sa, sizeof(in));
    inet_ntop(AF_INET, &in.sin_addr, out, (socklen_t)outlen);
  } else if (sa->sa_family == AF_INET6) {
    struct sockaddr_in6 in6;
    memcpy(&in6, sa, sizeof(in6));
    inet_ntop(AF_INET6, &in6.sin6_addr, out, (socklen_t)outlen);
  } else {
    snprintf(out, outlen, "af%d", (int)sa->sa_family);
  }
}

static void fmt_sockaddr(const struct sockaddr *sa, char *out, size_t outlen)
{
  char ip[80];
  if (sa == NULL) {
    snprintf(out, outlen, "-");
    return;
  }
  fmt_ip(sa, ip, sizeof(ip));
  if (sa->sa_family == AF_INET) {
    struct sockaddr_in in;
    memcpy(&in, sa, sizeof(in));
    snprintf(out, outlen, "%s:%u", ip, (unsigned)ntohs(in.sin_port));
  } else if (sa->sa_family == AF_INET6) {
    struct sockaddr_in6 in6;
    memcpy(&in6, sa, sizeof(in6));
    snprintf(out, outlen, "[%s]:%u", ip, (unsigned)ntohs(in6.sin6_port));
  } else {
    snprintf(out, outlen, "%s", ip);
  }
}

/* "1.2.3.4", "1.2.3.4:53", "fd00::1", "[fd00::1]", "[fd00::1]:53" */
static int parse_addrport(const char *s, struct sockaddr_storage *ss,
                          socklen_t *len)
{
  char                 buf[128];
  char                *host = buf;
  char                *port = NULL;
  long                 p    = 0;
  struct sockaddr_in  *in   = (struct sockaddr_in *)ss;
  struct sockaddr_in6 *in6  = (struct sockaddr_in6 *)ss;

  if (strlen(s) >= sizeof(buf)) {
    return 0;
  }
  strcpy(buf, s);
  memset(ss, 0, sizeof(*ss));
  if (buf[0] == '[') {
    char *e = strchr(buf, ']');
    if (e == NULL) {
      return 0;
    }
    *e   = 0;
    host = buf + 1;
    if (e[1] == ':') {
      port = e + 2;
    } else if (e[1] != 0) {
      return 0;
    }
  } else {
    char *c = strchr(buf, ':');
    if (c != NULL && strchr(c + 1, ':') == NULL) {
      *c   = 0;
      port = c + 1;
    }
  }
  if (port != NULL && (!parse_long(port, &p) || p < 0 || p > 65535)) {
    return 0;
  }
  if (inet_pton(AF_INET, host, &in->sin_addr) == 1) {
    in->sin_family = AF_INET;
    in->sin_port   = htons((unsigned short)p);
    *len           = sizeof(*in);
    return 1;
  }
  if (inet_pton(AF_INET6, host, &in6->sin6_addr) == 1) {
    in6->sin6_family = AF_INET6;
    in6->sin6_port   = htons((unsigned short)p);
    *len             = sizeof(*in6);
    return 1;
  }
  return 0;
}

static void srv_add(const char *ip)
{
  int i;
  for (i = 0; i < G.nsrv; i++) {
    if (strcmp(G.srvaddr[i], ip) == 0) {
      return;
    }
  }
  if (G.nsrv < MAX_SRV && strlen(ip) < sizeof(G.srvaddr[0])) {
    strcpy(G.srvaddr[G.nsrv++], ip);
  }
}

/* Register the addresses of a servers csv ("a,b:53,[c]:53") */
static int sim_writefile(const char *patharg, const char *hex); /* defined with the op dispatcher */

static void srv_add_csv(const char *csv)
{
  char  buf[1024];
  char *p;
  char *save = NULL;
  if (strlen(csv) >= sizeof(buf)) {
    return;
  }
  strcpy(buf, csv);
  for (p = strtok_r(buf, ",", &save); p != NULL;
       p = strtok_r(NULL, ",", &save)) {
    struct sockaddr_storage ss;
    socklen_t               l;
    char                    ip[80];
    char                   *pct = strchr(p, '%');
    if (pct) {
      *pct = 0;
    }
    if (parse_addrport(p, &ss, &l)) {
      fmt_ip((struct sockaddr *)&ss, ip, sizeof(ip));
      srv_add(ip);
    }
  }
}

static int srv_lookup(const struct sockaddr *sa)
{
  char ip[80];
  int  i;
  fmt_ip(sa, ip, sizeof(ip));
  for (i = 0; i < G.nsrv; i++) {
    if (strcmp(G.srvaddr[i], ip) == 0) {
      return i;
    }
  }
  return -1;
}

/* ------------------------------------------------------------------------- */
/* Failure injection                                                          */
/* ------------------------------------------------------------------------- */
static int fail_check(int call)
{
  int i;
  int hit = 0;
  for (i = 0; i < MAX_FAIL; i++) {
    failrule_t *r = &G.fail[call][i];
    if (r->countdown > 0) {
      r->countdown--;
      if (r->countdown == 0 && hit == 0) {
        hit = r->err;
      }
    }
  }
  return hit;
}

/* ------------------------------------------------------------------------- */
/* Decoding of transmitted messages                                           */
/* ------------------------------------------------------------------------- */
static int is_hostchar(unsigned char c)
{
  return isalnum(c) || c == '-' || c == '_' || c == '*' || c == '/';
}

/* Parse a (possibly compressed) name at *off.  Presentation to out, wire form
 * (uncompressed) to wire.  Returns 0 on failure. */
static int wire_name(const unsigned char *m, size_t n, size_t *off, char *out,
                     size_t outlen, unsigned char *wire, size_t wirecap,
                     size_t *wirelen, int *plain)
{
  size_t pos    = *off;
  size_t o      = 0;
  size_t w      = 0;
  int    jumped = 0;
  int    hops   = 0;
  int    first  = 1;

  if (plain) {
    *plain = 1;
  }
  if (outlen) {
    out[0] = 0;
  }
  while (1) {
    unsigned char l;
    size_t        i;
    if (pos >= n) {
      return 0;
    }
    l = m[pos];
    if ((l & 0xC0) == 0xC0) {
      if (pos + 1 >= n || ++hops > 32) {
        return 0;
      }
      if (!jumped) {
        *off = pos + 2;
      }
      jumped = 1;
      pos    = (size_t)((l & 0x3F) << 8) | m[pos + 1];
      continue;
    }
    if (l & 0xC0) {
      return 0;
    }
    pos++;
    if (wire) {
      if (w + 1 + l > wirecap) {
        return 0;
      }
      wire[w++] = l;
    }
    if (l == 0) {
      break;
    }
    if (pos + l > n) {
      return 0;
    }
    if (!first) {
      if (o + 2 > outlen) {
        return 0;
      }
      out[o++] = '.';
    }
    first = 0;
    for (i = 0; i < l; i++) {
      unsigned char c = m[pos + i];
      if (wire) {
        wire[w++] = c;
      }
      if (o + 6 > outlen) {
        return 0;
      }
      if (is_hostchar(c)) {
        out[o++] = (char)c;
      } else {
        if (plain) {
          *plain = 0;
        }
        o += (size_t)snprintf(out + o, outlen - o, "\\%03u", (unsigned)c);
      }
    }
    pos += l;
  }
  if (first) {
    if (o + 2 > outlen) {
      return 0;
    }
    out[o++] = '.';
  }
  out[o] = 0;
  if (!jumped) {
    *off = pos;
  }
  if (wirelen) {
    *wirelen = w;
  }
  return 1;
}

static void tx_decode(tx_t *t)
{
  const unsigned char *m = t->msg;
  size_t               n = t->len;
  size_t               off;
  unsigned int         i;
  char                 tmp[1100];

  t->valid      = 0;
  t->cookie_len = -1;
  t->has_opt    = 0;
  t->udpsize    = 0;
  t->qtype      = -1;
  t->qclass     = -1;
  t->qwire_len  = 0;
  t->qname_plain = 0;
  strcpy(t->qname, "?");
  if (n < 12) {
    return;
  }
  t->id    = (unsigned)(m[0] << 8 | m[1]);
  t->flags = (unsigned)(m[2] << 8 | m[3]);
  t->rd    = (t->flags & 0x0100) ? 1 : 0;
  t->qd    = (unsigned)(m[4] << 8 | m[5]);
  t->an    = (unsigned)(m[6] << 8 | m[7]);
  t->ns    = (unsigned)(m[8] << 8 | m[9]);
  t->ar    = (unsigned)(m[10] << 8 | m[11]);
  off      = 12;
  for (i = 0; i < t->qd; i++) {
    if (i == 0) {
      if (!wire_name(m, n, &off, t->qname, sizeof(t->qname), t->qwire,
                     sizeof(t->qwire), &t->qwire_len, &t->qname_plain)) {
        strcpy(t->qname, "?");
        return;
      }
      if (off + 4 > n) {
        return;
      }
      t->qtype  = m[off] << 8 | m[off + 1];
      t->qclass = m[off + 2] << 8 | m[off + 3];
    } else {
      if (!wire_name(m, n, &off, tmp, sizeof(tmp), NULL, 0, NULL, NULL) ||
          off + 4 > n) {
        return;
      }
    }
    off += 4;
  }
  for (i = 0; i < t->an + t->ns + t->ar; i++) {
    unsigned int type;
    unsigned int cls;
    unsigned int rdlen;
    if (!wire_name(m, n, &off, tmp, sizeof(tmp), NULL, 0, NULL, NULL) ||
        off + 10 > n) {
      return;
    }
    type  = (unsigned)(m[off] << 8 | m[off + 1]);
    cls   = (unsigned)(m[off + 2] << 8 | m[off + 3]);
    rdlen = (unsigned)(m[off + 8] << 8 | m[off + 9]);
    off  += 10;
    if (off + rdlen > n) {
      return;
    }
    if (type == 41 && i >= t->an + t->ns) {
      size_t p   = off;
      size_t end = off + rdlen;
      t->has_opt = 1;
      t->udpsize = cls;
      while (p + 4 <= end) {
        unsigned int code = (unsigned)(m[p] << 8 | m[p + 1]);
        unsigned int olen = (unsigned)(m[p + 2] << 8 | m[p + 3]);
        p += 4;
        if (p + olen > end) {
          break;
        }
        if (code == 10 && olen <= sizeof(t->cookie)) {
          memcpy(t->cookie, m + p, olen);
          t->cookie_len = (int)olen;
        }
        p += olen;
      }
    }
    off += rdlen;
  }
  t->valid = 1;
}

static void tx_record(vsock_t *s, int sidx, const unsigned char *msg,
                      size_t len)
{
  tx_t *t;
  sb_t  sb;
  if (G.ntx == G.tx_cap) {
    G.tx_cap = G.tx_cap ? G.tx_cap * 2 : 16;
    G.tx     = xrealloc(G.tx, G.tx_cap * sizeof(*G.tx));
  }
  t = &G.tx[G.ntx];
  memset(t, 0, sizeof(*t));
  t->sock = sidx;
  t->srv  = s->srv;
  t->tcp  = (s->type == SOCK_STREAM);
  t->msg  = xmalloc(len);
  memcpy(t->msg, msg, len);
  t->len = len;
  tx_decode(t);

  sb_init(&sb);
  sb_printf(&sb, "TX x%zu s%d srv=", G.ntx, sidx);
  if (t->srv >= 0) {
    sb_printf(&sb, "%d", t->srv);
  } else {
    sb_putc(&sb, '-');
  }
  sb_printf(&sb, " proto=%s", t->tcp ? "tcp" : "udp");
  if (len >= 12) {
    sb_printf(&sb, " id=%u qname=", t->id);
    sb_safe(&sb, t->qname);
    sb_printf(&sb, " qtype=%d qclass=%d rd=%d opt=%d udpsize=%u cookie=",
              t->qtype, t->qclass, t->rd, t->has_opt, t->udpsize);
    if (t->cookie_len >= 0) {
      sb_hex(&sb, t->cookie, (size_t)t->cookie_len);
    } else {
      sb_putc(&sb, '-');
    }
    sb_printf(&sb, " qd=%u an=%u ns=%u ar=%u valid=%d", t->qd, t->an, t->ns,
              t->ar, t->valid);
  } else {
    sb_puts(&sb, " short=1");
  }
  sb_printf(&sb, " len=%zu hex=", len);
  sb_hex(&sb, msg, len);
  ev_sb(&sb);
  sb_free(&sb);
  G.ntx++;
}

/* ------------------------------------------------------------------------- */
/* Virtual socket layer                                                       */
/* ------------------------------------------------------------------------- */
static vsock_t *sock_get(ares_socket_t fd, const char *call, int *idx)
{
  long k = (long)fd - FD_BASE;
  if (k < 0 || (size_t)k >= G.nsocks) {
    ev("BADFD %s fd=%d", call, (int)fd);
    return NULL;
  }
  *idx = (int)k;
  if (G.socks[k].closed) {
    if (strcmp(call, "close") == 0) {
      ev("DOUBLECLOSE s%ld", k);
    } else {
      ev("USEAFTERCLOSE s%ld %s", k, call);
    }
    return NULL;
  }
  return &G.socks[k];
}

static void sock_free_bufs(vsock_t *s)
{
  size_t i;
  for (i = s->inq_head; i < s->inq_n; i++) {
    free(s->inq[i].data);
  }
  free(s->inq);
  free(s->tin);
  free(s->tout);
  s->inq   = NULL;
  s->inq_n = s->inq_head = s->inq_cap = 0;
  s->tin                              = NULL;
  s->tin_len = s->tin_off = s->tin_cap = 0;
  s->tout                              = NULL;
  s->tout_len = s->tout_cap = 0;
}

static ares_socket_t v_socket(int domain, int type, int protocol, void *ud)
{
  vsock_t *s;
  int      e = fail_check(CALL_SOCKET);
  (void)ud;
  (void)protocol;
  if (e == 0 && G.nsocks >= MAX_SOCKS) {
    e = EMFILE;
  }
  if (e == 0 && domain != AF_INET && domain != AF_INET6) {
    e = EAFNOSUPPORT;
  }
  if (e) {
    ev("SOCKET fail af=%s type=%s errno=%s",
       domain == AF_INET ? "4" : (domain == AF_INET6 ? "6" : "?"),
       type == SOCK_STREAM ? "tcp" : "udp", errno_name(e));
    errno = e;
    return ARES_SOCKET_BAD;
  }
  G.socks = xrealloc(G.socks, (G.nsocks + 1) * sizeof(*G.socks));
  s       = &G.socks[G.nsocks];
  memset(s, 0, sizeof(*s));
  s->fd   = FD_BASE + (int)G.nsocks;
  s->af   = domain;
  s->type = type;
  s->srv  = -1;
  if (type == SOCK_STREAM) {
    memcpy(s->chunk, G.def_chunk, sizeof(s->chunk));
    s->nchunk = G.def_nchunk;
    memcpy(s->wpat, G.def_wpat, sizeof(s->wpat));
    s->nwpat = G.def_nwpat;
  }
  ev("SOCKET s%zu af=%d type=%s", G.nsocks, domain == AF_INET ? 4 : 6,
     type == SOCK_STREAM ? "tcp" : (type == SOCK_DGRAM ? "udp" : "?"));
  G.nsocks++;
  return s->fd;
}

static int v_close(ares_socket_t fd, void *ud)
{
  int      idx;
  vsock_t *s = sock_get(fd, "close", &idx);
  int      e;
  (void)ud;
  if (s == NULL) {
    errno = EBADF;
    return -1;
  }
  e = fail_check(CALL_CLOSE);
  s->closed = 1;
  sock_free_bufs(s);
  if (e) {
    /* the descriptor is gone anyway, as with a real close() */
    ev("CLOSE s%d rc=-1 errno=%s", idx, errno_name(e));
    errno = e;
    return -1;
  }
  ev("CLOSE s%d", idx);
  return 0;
}

static int v_setsockopt(ares_socket_t fd, ares_socket_opt_t opt,
                        const void *val, ares_socklen_t val_size, void *ud)
{
  int         idx;
  vsock_t    *s = sock_get(fd, "setsockopt", &idx);
  int         e;
  const char *name = "?";
  char        vbuf[96];
  (void)ud;
  if (s == NULL) {
    errno = EBADF;
    return -1;
  }
  vbuf[0] = 0;
  switch (opt) {
    case ARES_SOCKET_OPT_SENDBUF_SIZE:
      name = "sndbuf";
      if (val && val_size == sizeof(int)) {
        int v;
        memcpy(&v, val, sizeof(v));
        snprintf(vbuf, sizeof(vbuf), "%d", v);
      }
      break;
    case ARES_SOCKET_OPT_RECVBUF_SIZE:
      name = "rcvbuf";
      if (val && val_size == sizeof(int)) {
        int v;
        memcpy(&v, val, sizeof(v));
        snprintf(vbuf, sizeof(vbuf), "%d", v);
      }
      break;
    case ARES_SOCKET_OPT_BIND_DEVICE:
      name = "binddev";
      if (val && val_size < sizeof(vbuf)) {
        memcpy(vbuf, val, val_size);
        vbuf[val_size] = 0;
      }
      break;
    case ARES_SOCKET_OPT_TCP_FASTOPEN:
      name = "tfo";
      if (val && val_size == sizeof(ares_bool_t)) {
        ares_bool_t v;
        memcpy(&v, val, sizeof(v));
        snprintf(vbuf, sizeof(vbuf), "%d", (int)v);
      }
      break;
    default:
      break;
  }
  e = fail_check(CALL_SETSOCKOPT);
  if (e == 0 && opt == ARES_SOCKET_OPT_TCP_FASTOPEN && !G.tfo) {
    e = ENOSYS;
  }
  if (e) {
    ev("SETSOCKOPT s%d %s val=%s rc=-1 errno=%s", idx, name,
       vbuf[0] ? vbuf : "-", errno_name(e));
    errno = e;
    return -1;
  }
  if (opt == ARES_SOCKET_OPT_TCP_FASTOPEN) {
    s->tfo = 1;
  }
  ev("SETSOCKOPT s%d %s val=%s rc=0", idx, name, vbuf[0] ? vbuf : "-");
  return 0;
}

static int v_connect(ares_socket_t fd, const struct sockaddr *addr,
                     ares_socklen_t addrlen, unsigned int flags, void *ud)
{
  int      idx;
  vsock_t *s = sock_get(fd, "connect", &idx);
  int      e;
  char     a[128];
  (void)ud;
  if (s == NULL) {
    errno = EBADF;
    return -1;
  }
  fmt_sockaddr(addr, a, sizeof(a));
  e = fail_check(CALL_CONNECT);
  if (e == 0 && (addr == NULL || addrlen > sizeof(s->peer))) {
    e = EINVAL;
  }
  if (e == 0 && s->connected) {
    ev("RECONNECT s%d", idx);
  }
  if (e && e != EINPROGRESS) {
    ev("CONNECT s%d %s flags=%u rc=-1 errno=%s", idx, a, flags,
       errno_name(e));
    errno = e;
    return -1;
  }
  memset(&s->peer, 0, sizeof(s->peer));
  memcpy(&s->peer, addr, addrlen);
  s->peerlen   = addrlen;
  s->connected = 1;
  s->srv       = srv_lookup(addr);
  if (s->type == SOCK_STREAM) {
    if (e == EINPROGRESS ||
        (G.connectlater && !(flags & ARES_SOCKET_CONN_TCP_FASTOPEN))) {
      s->connect_pending = 1;
      ev("CONNECT s%d %s flags=%u rc=-1 errno=EINPROGRESS", idx, a, flags);
      errno = EINPROGRESS;
      return -1;
    }
    if (G.connectlater) {
      /* TFO: connect() itself succeeds lazily, completion comes later */
      s->connect_pending = 1;
    } else {
      s->wr_event = 1; /* connection establishment notification */
    }
  }
  ev("CONNECT s%d %s flags=%u rc=0", idx, a, flags);
  return 0;
}


/* ------------------------------------------------------------------------- */
/* qdump=1: QSTATE (internal query / connection / cookie state)               */
/* ------------------------------------------------------------------------- */
static void qstate_dump(void)
{
  sb_t               sb;
  ares_llist_node_t *n;
  ares_slist_node_t *sn;
  int                first = 1;
  int                i;
  if (!G.qdump || G.channel == NULL || G.destroyed || G.in_destroy) {
    return;
  }
  sb_init(&sb);
  sb_puts(&sb, "QSTATE q=[");
  for (n = ares_llist_node_first(G.channel->all_queries); n != NULL;
       n = ares_llist_node_next(n)) {
    const ares_query_t *q   = ares_llist_node_val(n);
    const tok_t        *arg = (const tok_t *)q->arg;
    sb_printf(&sb, "%s%u/", first ? "" : ",", (unsigned int)q->qid);
    first = 0;
    if (arg >= G.tok && arg < G.tok + MAX_TOK) {
      sb_printf(&sb, "t%d/", (int)(arg - G.tok));
    } else {
      sb_puts(&sb, "-/");
    }
    if (q->conn != NULL) {
      sb_printf(&sb, "s%d/", (int)(q->conn->fd - FD_BASE));
    } else {
      sb_puts(&sb, "-/");
    }
    sb_printf(&sb, "%d/%zu/%zu/%zu/%d", q->using_tcp ? 1 : 0, q->try_count,
              q->cookie_try_count, q->timeouts, q->no_retries ? 1 : 0);
  }
  sb_puts(&sb, "] srv=[");
  first = 1;
  for (i = 0; i < G.nsrv; i++) {
    for (sn = ares_slist_node_first(G.channel->servers); sn != NULL;
         sn = ares_slist_node_next(sn)) {
      const ares_server_t *s = ares_slist_node_val(sn);
      char                 a[64];
      a[0] = 0;
      ares_inet_ntop(s->addr.family, &s->addr.addr, a, sizeof(a));
      if (strcmp(a, G.srvaddr[i]) != 0) {
        continue;
      }
      sb_printf(&sb, "%s%d/%zu/%d/", first ? "" : ",", i, s->consec_failures,
                (int)s->cookie.state);
      first = 0;
      sb_hex(&sb, s->cookie.client, sizeof(s->cookie.client));
      sb_putc(&sb, '/');
      if (s->cookie.server_len > 0 &&
          s->cookie.server_len <= sizeof(s->cookie.server)) {
        sb_hex(&sb, s->cookie.server, s->cookie.server_len);
      } else {
        sb_putc(&sb, '-');
      }
      sb_printf(&sb, "/%lld.%u", (long long)s->cookie.unsupported_ts.sec,
                (unsigned int)s->cookie.unsupported_ts.usec);
      break;
    }
  }
  sb_puts(&sb, "] conns=[");
  first = 1;
  for (sn = ares_slist_node_first(G.channel->servers); sn != NULL;
       sn = ares_slist_node_next(sn)) {
    const ares_server_t *s = ares_slist_node_val(sn);
    char                 a[64];
    int                  si = -1;
    a[0] = 0;
    ares_inet_ntop(s->addr.family, &s->addr.addr, a, sizeof(a));
    for (i = 0; i < G.nsrv; i++) {
      if (strcmp(a, G.srvaddr[i]) == 0) {
        si = i;
        break;
      }
    }
    for (n = ares_llist_node_first(s->connections); n != NULL;
         n = ares_llist_node_next(n)) {
      const ares_conn_t *c = ares_llist_node_val(n);
      sb_printf(&sb, "%ss%d/%d/%d/%zu", first ? "" : ",",
                (int)(c->fd - FD_BASE), si,
                (c->flags & ARES_CONN_FLAG_TCP) ? 1 : 0,
                ares_llist_len(c->queries_to_conn));
      first = 0;
    }
  }
  sb_puts(&sb, "]");
  if (G.qdump_last == NULL || strcmp(G.qdump_last, sb.b) != 0) {
    free(G.qdump_last);
    G.qdump_last = xstrdup(sb.b);
    ev_sb(&sb);
  }
  sb_free(&sb);
}

static ares_ssize_t v_recvfrom(ares_socket_t fd, void *buffer, size_t length,
                               int flags, struct sockaddr *address,
                               ares_socklen_t *address_len, void *ud)
{
  int      idx;
  vsock_t *s = sock_get(fd, "recvfrom", &idx);
  int      e;
  (void)ud;
  (void)flags;
  if (s == NULL) {
    errno = EBADF;
    return -1;
  }
  qstate_dump();
  e = fail_check(CALL_RECVFROM);
  if (e) {
    ev("RECVFROM s%d rc=-1 errno=%s", idx, errno_name(e));
    errno = e;
    return -1;
  }
  if (s->type == SOCK_DGRAM) {
    pkt_t *p;
    size_t n;
    char   a[128];
    if (s->inq_head >= s->inq_n) {
      ev("RECVFROM s%d rc=-1 errno=EAGAIN", idx);
      errno = EAGAIN;
      return -1;
    }
    p = &s->inq[s->inq_head++];
    n = p->len < length ? p->len : length;
    if (n) {
      memcpy(buffer, p->data, n);
    }
    if (address != NULL && address_len != NULL) {
      socklen_t l = p->fromlen < *address_len ? p->fromlen : *address_len;
      memcpy(address, &p->from, l);
      *address_len = l;
    }
    fmt_sockaddr((struct sockaddr *)&p->from, a, sizeof(a));
    ev("RECVFROM s%d rc=%zu from=%s%s", idx, n, a,
       n < p->len ? " truncated=1" : "");
    free(p->data);
    p->data = NULL;
    return (ares_ssize_t)n;
  } else {
    size_t avail = s->tin_len - s->tin_off;
    size_t n;
    if (s->reset) {
      ev("RECVFROM s%d rc=-1 errno=ECONNRESET", idx);
      errno = ECONNRESET;
      return -1;
    }
    if (avail == 0) {
      if (s->eof) {
        ev("RECVFROM s%d rc=0 eof=1", idx);
        return 0;
      }
      ev("RECVFROM s%d rc=-1 errno=EAGAIN", idx);
      errno = EAGAIN;
      return -1;
    }
    n = avail < length ? avail : length;
    if (s->nchunk > 0) {
      size_t c = s->chunk[s->chunk_i];
      if (s->chunk_i + 1 < s->nchunk) {
        s->chunk_i++;
      }
      if (c > 0 && c < n) {
        n = c;
      }
    }
    memcpy(buffer, s->tin + s->tin_off, n);
    s->tin_off += n;
    if (address != NULL && address_len != NULL) {
      socklen_t l = s->peerlen < *address_len ? s->peerlen : *address_len;
      memcpy(address, &s->peer, l);
      *address_len = l;
    }
    ev("RECVFROM s%d rc=%zu", idx, n);
    return (ares_ssize_t)n;
  }
}

static ares_ssize_t v_sendto(ares_socket_t fd, const void *buffer,
                             size_t length, int flags,
                             const struct sockaddr *address,
                             ares_socklen_t address_len, void *ud)
{
  int      idx;
  vsock_t *s = sock_get(fd, "sendto", &idx);
  int      e;
  char     a[128];
  size_t   n = length;
  sb_t     sb;
  (void)ud;
  (void)flags;
  (void)address_len;
  if (s == NULL) {
    errno = EBADF;
    return -1;
  }
  qstate_dump();
  a[0] = 0;
  if (address != NULL) {
    strcpy(a, " to=");
    fmt_sockaddr(address, a + 4, sizeof(a) - 4);
  }
  e = fail_check(CALL_SENDTO);
  if (e == 0 && s->type == SOCK_STREAM && s->connect_pending && !s->tfo) {
    e = ENOTCONN;
  }
  if (e == 0 && !s->connected && address == NULL) {
    e = ENOTCONN;
  }
  if (e == 0 && s->nwpat > 0) {
    size_t c = s->wpat[s->wpat_i];
    if (s->wpat_i + 1 < s->nwpat) {
      s->wpat_i++;
    }
    if (c == 0) {
      e = EAGAIN;
    } else if (s->type == SOCK_STREAM && c < n) {
      n = c;
    }
  }
  if (e) {
    if (e == EAGAIN || e == EWOULDBLOCK) {
      s->wr_event = 1;
      s->wr_short = 1;
    }
    ev("SENDTO s%d len=%zu rc=-1 errno=%s%s", idx, length, errno_name(e), a);
    errno = e;
    return -1;
  }
  if (address != NULL && !s->connected) {
    /* TCP FastOpen style implicit connect */
    memset(&s->peer, 0, sizeof(s->peer));
    memcpy(&s->peer, address,
           address_len <= sizeof(s->peer) ? address_len : sizeof(s->peer));
    s->peerlen   = address_len;
    s->connected = 1;
    s->srv       = srv_lookup(address);
  }
  ev("SENDTO s%d len=%zu rc=%zu%s", idx, length, n, a);
  if (s->type == SOCK_DGRAM) {
    s->wr_short = 0;
    tx_record(s, idx, buffer, n);
    return (ares_ssize_t)n;
  }
  if (n < length) {
    s->wr_event = 1;
  }
  s->wr_short = n < length;
  sb_init(&sb);
  sb_printf(&sb, "TCPBYTES s%d ", idx);
  sb_hex(&sb, buffer, n);
  ev_sb(&sb);
  sb_free(&sb);
  if (s->tout_len + n > s->tout_cap) {
    s->tout_cap = (s->tout_len + n) * 2;
    s->tout     = xrealloc(s->tout, s->tout_cap);
  }
  if (n) {
    memcpy(s->tout + s->tout_len, buffer, n);
    s->tout_len += n;
  }
  while (s->tout_len >= 2) {
    size_t fl = (size_t)(s->tout[0] << 8 | s->tout[1]);
    if (s->tout_len < 2 + fl) {
      break;
    }
    tx_record(s, idx, s->tout + 2, fl);
    memmove(s->tout, s->tout + 2 + fl, s->tout_len - 2 - fl);
    s->tout_len -= 2 + fl;
  }
  return (ares_ssize_t)n;
}

static int v_getsockname(ares_socket_t fd, struct sockaddr *address,
                         ares_socklen_t *address_len, void *ud)
{
  int      idx;
  vsock_t *s = sock_get(fd, "getsockname", &idx);
  int      e;
  (void)ud;
  if (s == NULL) {
    errno = EBADF;
    return -1;
  }
  e = fail_check(CALL_GETSOCKNAME);
  if (e == 0 && (address == NULL || address_len == NULL)) {
    e = EINVAL;
  }
  if (e) {
    ev("GETSOCKNAME s%d rc=-1 errno=%s", idx, errno_name(e));
    errno = e;
    return -1;
  }
  if (s->af == AF_INET) {
    struct sockaddr_in in;
    memset(&in, 0, sizeof(in));
    in.sin_family = AF_INET;
    in.sin_port   = htons((unsigned short)(40000 + idx));
    inet_pton(AF_INET, "10.9.9.9", &in.sin_addr);
    if (*address_len < sizeof(in)) {
      ev("GETSOCKNAME s%d rc=-1 errno=EINVAL", idx);
      errno = EINVAL;
      return -1;
    }
    memcpy(address, &in, sizeof(in));
    *address_len = sizeof(in);
  } else {
    struct sockaddr_in6 in6;
    memset(&in6, 0, sizeof(in6));
    in6.sin6_family = AF_INET6;
    in6.sin6_port   = htons((unsigned short)(40000 + idx));
    inet_pton(AF_INET6, "fd00:9::9", &in6.sin6_addr);
    if (*address_len < sizeof(in6)) {
      ev("GETSOCKNAME s%d rc=-1 errno=EINVAL", idx);
      errno = EINVAL;
      return -1;
    }
    memcpy(address, &in6, sizeof(in6));
    *address_len = sizeof(in6);
  }
  ev("GETSOCKNAME s%d rc=0", idx);
  return 0;
}

static int v_bind(ares_socket_t fd, unsigned int flags,
                  const struct sockaddr *address, socklen_t address_len,
                  void *ud)
{
  int      idx;
  vsock_t *s = sock_get(fd, "bind", &idx);
  int      e;
  char     a[128];
  (void)ud;
  (void)address_len;
  if (s == NULL) {
    errno = EBADF;
    return -1;
  }
  fmt_sockaddr(address, a, sizeof(a));
  e = fail_check(CALL_BIND);
  if (e) {
    ev("BIND s%d %s flags=%u rc=-1 errno=%s", idx, a, flags, errno_name(e));
    errno = e;
    return -1;
  }
  ev("BIND s%d %s flags=%u rc=0", idx, a, flags);
  return 0;
}

static unsigned int v_if_nametoindex(const char *ifname, void *ud)
{
  (void)ud;
  ev("IFNAMETOINDEX %s", ifname ? ifname : "-");
  return 0;
}

static const char *v_if_indextoname(unsigned int ifindex, char *buf,
                                    size_t buflen, void *ud)
{
  (void)ud;
  (void)buf;
  (void)buflen;
  ev("IFINDEXTONAME %u", ifindex);
  return NULL;
}

static const struct ares_socket_functions_ex g_sockfuncs = {
  1,
  ARES_SOCKFUNC_FLAG_NONBLOCKING,
  v_socket,
  v_close,
  v_setsockopt,
  v_connect,
  v_recvfrom,
  v_sendto,
  v_getsockname,
  v_bind,
  v_if_nametoindex,
  v_if_indextoname
};

/* sockfuncs=nogsn: the same table without agetsockname */
static const struct ares_socket_functions_ex g_sockfuncs_nogsn = {
  1,
  ARES_SOCKFUNC_FLAG_NONBLOCKING,
  v_socket,
  v_close,
  v_setsockopt,
  v_connect,
  v_recvfrom,
  v_sendto,
  NULL,
  v_bind,
  v_if_nametoindex,
  v_if_indextoname
};

/* sockfuncs=legacy: the deprecated ares_set_socket_functions() table (no setsockopt, bind,
 * getsockname; the library treats the sockets as possibly blocking) */
static int l_connect(ares_socket_t fd, const struct sockaddr *addr,
                     ares_socklen_t addrlen, void *ud)
{
  return v_connect(fd, addr, addrlen, 0, ud);
}

static ares_ssize_t l_sendv(ares_socket_t fd, const struct iovec *vec, int n,
                            void *ud)
{
  size_t         total = 0;
  size_t         off   = 0;
  int            i;
  unsigned char *buf;
  ares_ssize_t   rv;
  for (i = 0; i < n; i++) {
    total += vec[i].iov_len;
  }
  buf = xmalloc(total + 1);
  for (i = 0; i < n; i++) {
    memcpy(buf + off, vec[i].iov_base, vec[i].iov_len);
    off += vec[i].iov_len;
  }
  rv = v_sendto(fd, buf, total, 0, NULL, 0, ud);
  free(buf);
  return rv;
}

static const struct ares_socket_functions g_sockfuncs_legacy = {
  v_socket, v_close, l_connect, v_recvfrom, l_sendv
};

/* ------------------------------------------------------------------------- */
/* Canonical dumps of results                                                 */
/* ------------------------------------------------------------------------- */
static void dump_rr(sb_t *sb, const ares_dns_rr_t *rr)
{
  ares_dns_rec_type_t      type = ares_dns_rr_get_type(rr);
  size_t                   nkeys = 0;
  const ares_dns_rr_key_t *keys  = ares_dns_rr_get_keys(type, &nkeys);
  size_t                   i;
  const char              *tn = ares_dns_rec_type_tostr(type);

  sb_puts(sb, tn ? tn : "?");
  sb_putc(sb, ':');
  sb_safe(sb, ares_dns_rr_get_name(rr));
  sb_printf(sb, ":%u:", ares_dns_rr_get_ttl(rr));
  if (ares_dns_rr_get_class(rr) != ARES_CLASS_IN && type != ARES_REC_TYPE_OPT) {
    sb_printf(sb, "class%d/", (int)ares_dns_rr_get_class(rr));
  }
  for (i = 0; i < nkeys; i++) {
    ares_dns_rr_key_t key = keys[i];
    if (i) {
      sb_putc(sb, '/');
    }
    switch (ares_dns_rr_key_datatype(key)) {
      case ARES_DATATYPE_INADDR:
        {
          char                  a[64] = "-";
          const struct in_addr *p     = ares_dns_rr_get_addr(rr, key);
          if (p) {
            inet_ntop(AF_INET, p, a, sizeof(a));
          }
          sb_puts(sb, a);
        }
        break;
      case ARES_DATATYPE_INADDR6:
        {
          char                        a[80] = "-";
          const struct ares_in6_addr *p     = ares_dns_rr_get_addr6(rr, key);
          if (p) {
            inet_ntop(AF_INET6, p, a, sizeof(a));
          }
          sb_puts(sb, a);
        }
        break;
      case ARES_DATATYPE_U8:
        sb_printf(sb, "%u", (unsigned)ares_dns_rr_get_u8(rr, key));
        break;
      case ARES_DATATYPE_U16:
        sb_printf(sb, "%u", (unsigned)ares_dns_rr_get_u16(rr, key));
        break;
      case ARES_DATATYPE_U32:
        sb_printf(sb, "%u", ares_dns_rr_get_u32(rr, key));
        break;
      case ARES_DATATYPE_NAME:
      case ARES_DATATYPE_STR:
        sb_safe(sb, ares_dns_rr_get_str(rr, key));
        break;
      case ARES_DATATYPE_BIN:
        {
          size_t               l = 0;
          const unsigned char *p = ares_dns_rr_get_bin(rr, key, &l);
          sb_hex(sb, p, p ? l : 0);
        }
        break;
      case ARES_DATATYPE_BINP:
        {
          size_t               l = 0;
          const unsigned char *p = ares_dns_rr_get_bin(rr, key, &l);
          if (p == NULL || l == 0) {
            sb_puts(sb, "\"\"");
          } else {
            sb_safe_n(sb, p, l);
          }
        }
        break;
      case ARES_DATATYPE_ABINP:
        {
          size_t cnt = ares_dns_rr_get_abin_cnt(rr, key);
          size_t j;
          sb_putc(sb, '{');
          for (j = 0; j < cnt; j++) {
            size_t               l = 0;
            const unsigned char *p = ares_dns_rr_get_abin(rr, key, j, &l);
            if (j) {
              sb_putc(sb, '|');
            }
            if (p == NULL || l == 0) {
              sb_puts(sb, "\"\"");
            } else {
              sb_safe_n(sb, p, l);
            }
          }
          sb_putc(sb, '}');
        }
        break;
      case ARES_DATATYPE_OPT:
        {
          size_t cnt = ares_dns_rr_get_opt_cnt(rr, key);
          size_t j;
          sb_putc(sb, '{');
          for (j = 0; j < cnt; j++) {
            const unsigned char *v  = NULL;
            size_t               vl = 0;
            unsigned short       id = ares_dns_rr_get_opt(rr, key, j, &v, &vl);
            if (j) {
              sb_putc(sb, '|');
            }
            sb_printf(sb, "%u~", (unsigned)id);
            sb_hex(sb, v, v ? vl : 0);
          }
          sb_putc(sb, '}');
        }
        break;
      default:
        sb_putc(sb, '?');
        break;
    }
  }
}

static void dump_flags(sb_t *sb, unsigned short f)
{
  int any = 0;
#define FL(bit, name)       \
  if (f & (bit)) {          \
    if (any) {              \
      sb_putc(sb, '+');     \
    }                       \
    sb_puts(sb, name);      \
    any = 1;                \
  }
  FL(ARES_FLAG_QR, "qr")
  FL(ARES_FLAG_AA, "aa")
  FL(ARES_FLAG_TC, "tc")
  FL(ARES_FLAG_RD, "rd")
  FL(ARES_FLAG_RA, "ra")
  FL(ARES_FLAG_AD, "ad")
  FL(ARES_FLAG_CD, "cd")
#undef FL
  if (!any) {
    sb_putc(sb, '-');
  }
}

static void dump_dnsrec(sb_t *sb, const ares_dns_record_t *rec)
{
  size_t                    i;
  size_t                    n;
  int                       sect;
  static const char        *sn[] = { "", "an", "ns", "ar" };
  /* getters take non-const for rr_get; use the const variant */
  if (rec == NULL) {
    sb_puts(sb, "rec=-");
    return;
  }
  sb_printf(sb, "rcode=%s opcode=%d flags=",
            ares_dns_rcode_tostr(ares_dns_record_get_rcode(rec)),
            (int)ares_dns_record_get_opcode(rec));
  dump_flags(sb, ares_dns_record_get_flags(rec));
  sb_puts(sb, " qd=[");
  n = ares_dns_record_query_cnt(rec);
  for (i = 0; i < n; i++) {
    const char         *name = NULL;
    ares_dns_rec_type_t qt   = 0;
    ares_dns_class_t    qc   = 0;
    if (i) {
      sb_putc(sb, ',');
    }
    if (ares_dns_record_query_get(rec, i, &name, &qt, &qc) == ARES_SUCCESS) {
      const char *ts = ares_dns_rec_type_tostr(qt);
      const char *cs = ares_dns_class_tostr(qc);
      sb_safe(sb, name);
      sb_printf(sb, "/%s/%s", ts ? ts : "?", cs ? cs : "?");
    } else {
      sb_putc(sb, '?');
    }
  }
  sb_putc(sb, ']');
  for (sect = ARES_SECTION_ANSWER; sect <= ARES_SECTION_ADDITIONAL; sect++) {
    n = ares_dns_record_rr_cnt(rec, (ares_dns_section_t)sect);
    sb_printf(sb, " %s=[", sn[sect]);
    for (i = 0; i < n; i++) {
      const ares_dns_rr_t *rr =
        ares_dns_record_rr_get_const(rec, (ares_dns_section_t)sect, i);
      if (i) {
        sb_putc(sb, ',');
      }
      if (rr) {
        dump_rr(sb, rr);
      } else {
        sb_putc(sb, '?');
      }
    }
    sb_putc(sb, ']');
  }
}

static void dump_abuf(sb_t *sb, const unsigned char *abuf, int alen)
{
  ares_dns_record_t *rec = NULL;
  ares_status_t      st;
  if (abuf == NULL) {
    sb_printf(sb, "alen=%d abuf=-", alen);
    return;
  }
  sb_printf(sb, "alen=%d ", alen);
  if (alen >= 2) {
    sb_printf(sb, "id=%u ", (unsigned)(abuf[0] << 8 | abuf[1]));
  }
  g_alloc_exempt++;
  st = ares_dns_parse(abuf, alen < 0 ? 0 : (size_t)alen, 0, &rec);
  if (st != ARES_SUCCESS) {
    sb_printf(sb, "parse=%d hex=", (int)st);
    sb_hex(sb, abuf, alen < 0 ? 0 : (size_t)alen);
  } else {
    dump_dnsrec(sb, rec);
  }
  ares_dns_record_destroy(rec);
  g_alloc_exempt--;
}

static void dump_addrinfo(sb_t *sb, const struct ares_addrinfo *ai)
{
  const struct ares_addrinfo_cname *c;
  const struct ares_addrinfo_node  *nd;
  int                               first = 1;
  if (ai == NULL) {
    sb_puts(sb, "ai=-");
    return;
  }
  sb_puts(sb, "cnames=[");
  for (c = ai->cnames; c != NULL; c = c->next) {
    if (!first) {
      sb_putc(sb, ',');
    }
    first = 0;
    sb_safe(sb, c->alias);
    sb_putc(sb, '>');
    sb_safe(sb, c->name);
    sb_printf(sb, ":%d", c->ttl);
  }
  sb_puts(sb, "] nodes=[");
  first = 1;
  for (nd = ai->nodes; nd != NULL; nd = nd->ai_next) {
    char a[80] = "-";
    unsigned port = 0;
    if (!first) {
      sb_putc(sb, ',');
    }
    first = 0;
    if (nd->ai_addr != NULL) {
      fmt_ip(nd->ai_addr, a, sizeof(a));
      if (nd->ai_family == AF_INET) {
        struct sockaddr_in in;
        memcpy(&in, nd->ai_addr, sizeof(in));
        port = ntohs(in.sin_port);
      } else if (nd->ai_family == AF_INET6) {
        struct sockaddr_in6 in6;
        memcpy(&in6, nd->ai_addr, sizeof(in6));
        port = ntohs(in6.sin6_port);
      }
    }
    sb_printf(sb, nd->ai_family == AF_INET6 ? "%d:[%s]:%u:%d" : "%d:%s:%u:%d",
              nd->ai_family == AF_INET ? 4 : (nd->ai_family == AF_INET6 ? 6 : nd->ai_family),
              a, port, nd->ai_ttl);
    if (nd->ai_socktype || nd->ai_protocol || nd->ai_flags) {
      sb_printf(sb, ":st%d:p%d:f%x", nd->ai_socktype, nd->ai_protocol,
                (unsigned)nd->ai_flags);
    }
  }
  sb_puts(sb, "] name=");
  sb_safe(sb, ai->name);
}

static void dump_hostent(sb_t *sb, const struct hostent *h)
{
  int i;
  if (h == NULL) {
    sb_puts(sb, "host=-");
    return;
  }
  sb_puts(sb, "name=");
  sb_safe(sb, h->h_name);
  sb_puts(sb, " aliases=[");
  for (i = 0; h->h_aliases != NULL && h->h_aliases[i] != NULL; i++) {
    if (i) {
      sb_putc(sb, ',');
    }
    sb_safe(sb, h->h_aliases[i]);
  }
  sb_printf(sb, "] addrtype=%d addrs=[",
            h->h_addrtype == AF_INET ? 4 : (h->h_addrtype == AF_INET6 ? 6 : h->h_addrtype));
  for (i = 0; h->h_addr_list != NULL && h->h_addr_list[i] != NULL; i++) {
    char a[80] = "?";
    if (i) {
      sb_putc(sb, ',');
    }
    if (h->h_addrtype == AF_INET || h->h_addrtype == AF_INET6) {
      inet_ntop(h->h_addrtype, h->h_addr_list[i], a, sizeof(a));
    }
    sb_puts(sb, a);
  }
  sb_putc(sb, ']');
}

/* ------------------------------------------------------------------------- */
/* Completion callbacks                                                       */
/* ------------------------------------------------------------------------- */
static void exec_op(const char *optext, int in_cb);

static void cb_common(void *arg, const char *kind, int status, long timeouts,
                      sb_t *summary)
{
  tok_t *t = arg;
  long   T;
  sb_t   sb;
  int    dup = 0;
  int    i;

  if (t < &G.tok[0] || t >= &G.tok[MAX_TOK] ||
      ((char *)t - (char *)&G.tok[0]) % (long)sizeof(tok_t) != 0) {
    ev("CBBADARG kind=%s status=%d timeouts=%ld %s", kind, status, timeouts,
       summary->b);
    return;
  }
  T = t - &G.tok[0];
  t->ncb++;
  sb_init(&sb);
  sb_printf(&sb, "CB t%ld status=%d timeouts=%ld kind=%s %s", T, status,
            timeouts, kind, summary->b);
  if (t->nreq == 0) {
    sb_puts(&sb, " UNKNOWN");
    dup = 1;
  } else if (t->ncb > t->nreq) {
    sb_puts(&sb, " DUP");
    dup = 1;
  }
  if (G.destroyed && !G.in_destroy) {
    sb_puts(&sb, " AFTERDESTROY");
  }
  if (dup) {
    G.cb_dups++;
  }
  ev_sb(&sb);
  sb_free(&sb);

  if (t->ncb == 1 && t->noncb > 0) {
    if (G.cb_depth >= MAX_CBDEPTH) {
      ev("CBDEPTH t%ld", T);
      return;
    }
    G.cb_depth++;
    for (i = 0; i < t->noncb; i++) {
      exec_op(t->oncb[i], 1);
    }
    G.cb_depth--;
  }
}

static void cb_dnsrec(void *arg, ares_status_t status, size_t timeouts,
                      const ares_dns_record_t *dnsrec)
{
  sb_t sb;
  sb_init(&sb);
  dump_dnsrec(&sb, dnsrec);
  cb_common(arg, "dnsrec", (int)status, (long)timeouts, &sb);
  sb_free(&sb);
}

static void cb_abuf(void *arg, int status, int timeouts, unsigned char *abuf,
                    int alen)
{
  sb_t sb;
  sb_init(&sb);
  dump_abuf(&sb, abuf, alen);
  cb_common(arg, "abuf", status, timeouts, &sb);
  sb_free(&sb);
}

static void cb_addrinfo(void *arg, int status, int timeouts,
                        struct ares_addrinfo *res)
{
  sb_t sb;
  sb_init(&sb);
  dump_addrinfo(&sb, res);
  /* the result belongs to the application: release before running nested ops
   * so that a crash in them does not hide a leak of ours */
  if (res != NULL) {
    ares_freeaddrinfo(res);
  }
  cb_common(arg, "addrinfo", status, timeouts, &sb);
  sb_free(&sb);
}

static void cb_host(void *arg, int status, int timeouts, struct hostent *host)
{
  sb_t sb;
  sb_init(&sb);
  dump_hostent(&sb, host);
  cb_common(arg, "hostent", status, timeouts, &sb);
  sb_free(&sb);
}

static void cb_nameinfo(void *arg, int status, int timeouts, char *node,
                        char *service)
{
  sb_t sb;
  sb_init(&sb);
  sb_puts(&sb, "node=");
  sb_safe(&sb, node);
  sb_puts(&sb, " service=");
  sb_safe(&sb, service);
  cb_common(arg, "nameinfo", status, timeouts, &sb);
  sb_free(&sb);
}

/* channel-level callbacks */
static void cb_sockstate(void *data, ares_socket_t fd, int readable,
                         int writable)
{
  long k = (long)fd - FD_BASE;
  (void)data;
  if (k < 0 || (size_t)k >= G.nsocks) {
    ev("SOCKSTATE fd?%d r=%d w=%d", (int)fd, readable, writable);
    return;
  }
  G.socks[k].ss_r = readable;
  G.socks[k].ss_w = writable;
  ev("SOCKSTATE s%ld r=%d w=%d%s", k, readable, writable,
     G.socks[k].closed ? " closed=1" : "");
}

static void cb_pendingwrite(void *data)
{
  (void)data;
  ev("PENDINGWRITE");
}

static void cb_serverstate(const char *server_string, ares_bool_t success,
                           int flags, void *data)
{
  sb_t sb;
  (void)data;
  sb_init(&sb);
  sb_puts(&sb, "SERVERSTATE ");
  sb_safe(&sb, server_string);
  sb_printf(&sb, " success=%d flags=%d", (int)success, flags);
  ev_sb(&sb);
  sb_free(&sb);
}

/* ------------------------------------------------------------------------- */
/* Inbound data                                                               */
/* ------------------------------------------------------------------------- */
static void sock_enqueue(int sidx, const unsigned char *data, size_t len,
                         const struct sockaddr_storage *from,
                         socklen_t                      fromlen)
{
  vsock_t *s = &G.socks[sidx];
  if (s->type == SOCK_DGRAM) {
    pkt_t *p;
    if (s->inq_n == s->inq_cap) {
      s->inq_cap = s->inq_cap ? s->inq_cap * 2 : 8;
      s->inq     = xrealloc(s->inq, s->inq_cap * sizeof(*s->inq));
    }
    p = &s->inq[s->inq_n++];
    memset(p, 0, sizeof(*p));
    p->data = xmalloc(len);
    if (len) {
      memcpy(p->data, data, len);
    }
    p->len = len;
    if (from != NULL) {
      p->from    = *from;
      p->fromlen = fromlen;
    } else {
      p->from    = s->peer;
      p->fromlen = s->peerlen;
    }
  } else {
    if (s->tin_len + len > s->tin_cap) {
      s->tin_cap = (s->tin_len + len) * 2;
      s->tin     = xrealloc(s->tin, s->tin_cap);
    }
    if (len) {
      memcpy(s->tin + s->tin_len, data, len);
    }
    s->tin_len += len;
  }
}

/* ------------------------------------------------------------------------- */
/* Response builder                                                           */
/* ------------------------------------------------------------------------- */
/* split on ':' keeping [bracketed] parts atomic (brackets are removed) */
static int split_fields(char *s, char **f, int max)
{
  int n = 0;
  while (n < max) {
    if (*s == '[') {
      char *e = strchr(s, ']');
      if (e == NULL) {
        return -1;
      }
      f[n++] = s + 1;
      *e     = 0;
      s      = e + 1;
      if (*s == 0) {
        break;
      }
      if (*s != ':') {
        return -1;
      }
      s++;
    } else {
      char *c = strchr(s, ':');
      f[n++]  = s;
      if (c == NULL) {
        break;
      }
      *c = 0;
      s  = c + 1;
    }
  }
  return n;
}

static int fld_u(const char *s, unsigned long max, unsigned long *out)
{
  long v;
  if (!parse_long(s, &v) || v < 0 || (unsigned long)v > max) {
    return 0;
  }
  *out = (unsigned long)v;
  return 1;
}

static int parse_class(const char *s, long *out);

/* one RR: TYPE:rdata...[:ttl][@owner][@@class].  Returns 0 on bad spec. */
static int add_rr(ares_dns_record_t *rec, ares_dns_section_t sect,
                  const char *spec, const char *defowner, long ttlall)
{
  char                buf[2048];
  char               *f[16];
  int                 nf;
  char               *owner;
  ares_dns_rec_type_t type;
  ares_dns_rr_t      *rr  = NULL;
  unsigned long       ttl = 300;
  ares_dns_class_t    rrclass = ARES_CLASS_IN;
  int                 need; /* number of rdata fields */
  char                v6[128];
  unsigned long       u;
  char              **r;

  if (strlen(spec) >= sizeof(buf)) {
    return 0;
  }
  strcpy(buf, spec);
  {
    /* optional "@@<class>" suffix (IN, CH, HS, NONE, ANY or a number); default IN */
    char *cls = strstr(buf, "@@");
    if (cls != NULL) {
      long cv;
      *cls  = 0;
      cls  += 2;
      if (!parse_class(cls, &cv)) {
        return 0;
      }
      rrclass = (ares_dns_class_t)cv;
    }
  }
  owner = strrchr(buf, '@');
  if (owner != NULL) {
    *owner++ = 0;
  }
  nf = split_fields(buf, f, 16);
  if (nf < 1) {
    return 0;
  }
  if (strcasecmp(f[0], "RAW") == 0) {
    type = ARES_REC_TYPE_RAW_RR;
    need = 2;
  } else if (!ares_dns_rec_type_fromstr(&type, f[0])) {
    return 0;
  } else {
    switch (type) {
      case ARES_REC_TYPE_A:
      case ARES_REC_TYPE_AAAA:
      case ARES_REC_TYPE_NS:
      case ARES_REC_TYPE_CNAME:
      case ARES_REC_TYPE_PTR:
      case ARES_REC_TYPE_TXT:
        need = 1;
        break;
      case ARES_REC_TYPE_MX:
      case ARES_REC_TYPE_HINFO:
        need = 2;
        break;
      case ARES_REC_TYPE_URI:
      case ARES_REC_TYPE_CAA:
        need = 3;
        break;
      case ARES_REC_TYPE_SRV:
        need = 4;
        break;
      case ARES_REC_TYPE_NAPTR:
        need = 6;
        break;
      case ARES_REC_TYPE_SOA:
        need = (nf - 1 >= 7) ? 7 : 1;
        break;
      default:
        return 0;
    }
  }
  if (type == ARES_REC_TYPE_AAAA && nf - 1 > 2) {
    /* unbracketed IPv6: everything but the last field is the address */
    int    i;
    size_t o = 0;
    v6[0]    = 0;
    for (i = 1; i < nf - 1; i++) {
      o += (size_t)snprintf(v6 + o, sizeof(v6) - o, "%s%s", i > 1 ? ":" : "",
                            f[i]);
      if (o >= sizeof(v6)) {
        return 0;
      }
    }
    f[1] = v6;
    f[2] = f[nf - 1];
    nf   = 3;
  }
  if (nf - 1 == need + 1) {
    if (!fld_u(f[nf - 1], 0xFFFFFFFFUL, &ttl)) {
      return 0;
    }
  } else if (nf - 1 != need) {
    return 0;
  }
  if (ttlall >= 0) {
    ttl = (unsigned long)ttlall;
  }
  if (owner == NULL) {
    owner = (char *)defowner;
  }
  if (ares_dns_record_rr_add(&rr, rec, sect, owner, type, rrclass,
                             (unsigned int)ttl) != ARES_SUCCESS) {
    return 0;
  }
  r = f + 1;
#define CK(x)                 \
  if ((x) != ARES_SUCCESS) {  \
    goto bad;                 \
  }
#define U(i, max)             \
  if (!fld_u(r[i], max, &u)) { \
    goto bad;                 \
  }
  switch (type) {
    case ARES_REC_TYPE_A:
      {
        struct in_addr a;
        if (inet_pton(AF_INET, r[0], &a) != 1) {
          goto bad;
        }
        CK(ares_dns_rr_set_addr(rr, ARES_RR_A_ADDR, &a));
      }
      break;
    case ARES_REC_TYPE_AAAA:
      {
        struct ares_in6_addr a;
        if (inet_pton(AF_INET6, r[0], &a) != 1) {
          goto bad;
        }
        CK(ares_dns_rr_set_addr6(rr, ARES_RR_AAAA_ADDR, &a));
      }
      break;
    case ARES_REC_TYPE_NS:
      CK(ares_dns_rr_set_str(rr, ARES_RR_NS_NSDNAME, r[0]));
      break;
    case ARES_REC_TYPE_CNAME:
      CK(ares_dns_rr_set_str(rr, ARES_RR_CNAME_CNAME, r[0]));
      break;
    case ARES_REC_TYPE_PTR:
      CK(ares_dns_rr_set_str(rr, ARES_RR_PTR_DNAME, r[0]));
      break;
    case ARES_REC_TYPE_TXT:
      if (r[0][0] == '=') {
        size_t         l;
        unsigned char *b = parse_hex(r[0] + 1, &l);
        ares_status_t  st;
        if (b == NULL) {
          goto bad;
        }
        st = ares_dns_rr_add_abin(rr, ARES_RR_TXT_DATA, b, l);
        free(b);
        CK(st);
      } else {
        CK(ares_dns_rr_add_abin(rr, ARES_RR_TXT_DATA,
                                (const unsigned char *)r[0], strlen(r[0])));
      }
      break;
    case ARES_REC_TYPE_MX:
      U(0, 65535);
      CK(ares_dns_rr_set_u16(rr, ARES_RR_MX_PREFERENCE, (unsigned short)u));
      CK(ares_dns_rr_set_str(rr, ARES_RR_MX_EXCHANGE, r[1]));
      break;
    case ARES_REC_TYPE_HINFO:
      CK(ares_dns_rr_set_str(rr, ARES_RR_HINFO_CPU, r[0]));
      CK(ares_dns_rr_set_str(rr, ARES_RR_HINFO_OS, r[1]));
      break;
    case ARES_REC_TYPE_URI:
      U(0, 65535);
      CK(ares_dns_rr_set_u16(rr, ARES_RR_URI_PRIORITY, (unsigned short)u));
      U(1, 65535);
      CK(ares_dns_rr_set_u16(rr, ARES_RR_URI_WEIGHT, (unsigned short)u));
      CK(ares_dns_rr_set_str(rr, ARES_RR_URI_TARGET, r[2]));
      break;
    case ARES_REC_TYPE_CAA:
      U(0, 255);
      CK(ares_dns_rr_set_u8(rr, ARES_RR_CAA_CRITICAL, (unsigned char)u));
      CK(ares_dns_rr_set_str(rr, ARES_RR_CAA_TAG, r[1]));
      CK(ares_dns_rr_set_bin(rr, ARES_RR_CAA_VALUE, (const unsigned char *)r[2],
                             strlen(r[2])));
      break;
    case ARES_REC_TYPE_SRV:
      U(0, 65535);
      CK(ares_dns_rr_set_u16(rr, ARES_RR_SRV_PRIORITY, (unsigned short)u));
      U(1, 65535);
      CK(ares_dns_rr_set_u16(rr, ARES_RR_SRV_WEIGHT, (unsigned short)u));
      U(2, 65535);
      CK(ares_dns_rr_set_u16(rr, ARES_RR_SRV_PORT, (unsigned short)u));
      CK(ares_dns_rr_set_str(rr, ARES_RR_SRV_TARGET, r[3]));
      break;
    case ARES_REC_TYPE_NAPTR:
      U(0, 65535);
      CK(ares_dns_rr_set_u16(rr, ARES_RR_NAPTR_ORDER, (unsigned short)u));
      U(1, 65535);
      CK(ares_dns_rr_set_u16(rr, ARES_RR_NAPTR_PREFERENCE, (unsigned short)u));
      CK(ares_dns_rr_set_str(rr, ARES_RR_NAPTR_FLAGS, r[2]));
      CK(ares_dns_rr_set_str(rr, ARES_RR_NAPTR_SERVICES, r[3]));
      CK(ares_dns_rr_set_str(rr, ARES_RR_NAPTR_REGEXP, r[4]));
      CK(ares_dns_rr_set_str(rr, ARES_RR_NAPTR_REPLACEMENT, r[5]));
      break;
    case ARES_REC_TYPE_SOA:
      if (need == 7) {
        CK(ares_dns_rr_set_str(rr, ARES_RR_SOA_MNAME, r[0]));
        CK(ares_dns_rr_set_str(rr, ARES_RR_SOA_RNAME, r[1]));
        U(2, 0xFFFFFFFFUL);
        CK(ares_dns_rr_set_u32(rr, ARES_RR_SOA_SERIAL, (unsigned int)u));
        U(3, 0xFFFFFFFFUL);
        CK(ares_dns_rr_set_u32(rr, ARES_RR_SOA_REFRESH, (unsigned int)u));
        U(4, 0xFFFFFFFFUL);
        CK(ares_dns_rr_set_u32(rr, ARES_RR_SOA_RETRY, (unsigned int)u));
        U(5, 0xFFFFFFFFUL);
        CK(ares_dns_rr_set_u32(rr, ARES_RR_SOA_EXPIRE, (unsigned int)u));
        U(6, 0xFFFFFFFFUL);
        CK(ares_dns_rr_set_u32(rr, ARES_RR_SOA_MINIMUM, (unsigned int)u));
      } else {
        CK(ares_dns_rr_set_str(rr, ARES_RR_SOA_MNAME, "ns.sim.test"));
        CK(ares_dns_rr_set_str(rr, ARES_RR_SOA_RNAME, "root.sim.test"));
        CK(ares_dns_rr_set_u32(rr, ARES_RR_SOA_SERIAL, 1));
        CK(ares_dns_rr_set_u32(rr, ARES_RR_SOA_REFRESH, 3600));
        CK(ares_dns_rr_set_u32(rr, ARES_RR_SOA_RETRY, 600));
        CK(ares_dns_rr_set_u32(rr, ARES_RR_SOA_EXPIRE, 86400));
        U(0, 0xFFFFFFFFUL);
        CK(ares_dns_rr_set_u32(rr, ARES_RR_SOA_MINIMUM, (unsigned int)u));
      }
      break;
    case ARES_REC_TYPE_RAW_RR:
      {
        size_t         l;
        unsigned char *b;
        ares_status_t  st;
        U(0, 65535);
        CK(ares_dns_rr_set_u16(rr, ARES_RR_RAW_RR_TYPE, (unsigned short)u));
        b = parse_hex(r[1], &l);
        if (b == NULL) {
          goto bad;
        }
        st = ares_dns_rr_set_bin(rr, ARES_RR_RAW_RR_DATA, b, l);
        free(b);
        CK(st);
      }
      break;
    default:
      goto bad;
  }
#undef CK
#undef U
  return 1;
bad:
  return 0;
}

static int add_rrs(ares_dns_record_t *rec, ares_dns_section_t sect,
                   const char *list, const char *defowner, long ttlall)
{
  char  buf[4096];
  char *p;
  char *save = NULL;
  if (strlen(list) >= sizeof(buf)) {
    return 0;
  }
  strcpy(buf, list);
  for (p = strtok_r(buf, "+", &save); p != NULL;
       p = strtok_r(NULL, "+", &save)) {
    if (!add_rr(rec, sect, p, defowner, ttlall)) {
      return 0;
    }
  }
  return 1;
}

typedef struct {
  unsigned char          *msg;
  size_t                  len;
  int                     have_from;
  struct sockaddr_storage from;
  socklen_t               fromlen;
  int                     on; /* -1 = socket of the transmission */
  long                    dup;
} rsp_t;

static void flip_case(char *s, int mode)
{
  for (; *s; s++) {
    if (isalpha((unsigned char)*s)) {
      *s = (char)(islower((unsigned char)*s) ? toupper((unsigned char)*s)
                                             : tolower((unsigned char)*s));
      if (mode == 2) {
        return;
      }
    }
  }
}

/* Build the response to transmission t according to spec.  Returns NULL and
 * sets *err on a bad spec. */
static int build_response(const tx_t *t, const char *spec, rsp_t *out,
                          const char **err)
{
  char               buf[8192];
  char              *kv[64];
  int                nkv = 0;
  char              *p;
  char              *save = NULL;
  int                i;
  long               v;
  /* parameters */
  long               rcode = 0, tc = 0, aa = 0, ra = 1, rd = t->rd, ad = 0,
       cd = 0, qr = 1, opcode = 0, noq = 0, noopt = 0, ttlall = -1,
       flipcase = 0, trunc = -1, udpsize = 1232, ednsver = 0;
  long               id     = (long)t->id;
  long               qtype  = t->qtype >= 0 ? t->qtype : 1;
  long               qclass = t->qclass >= 0 ? t->qclass : 1;
  const char        *an = NULL, *ns = NULL, *ar = NULL, *cookie = NULL;
  char               qname[1100];
  int                qname_set = 0;
  ares_dns_record_t *rec       = NULL;
  unsigned short     flags     = 0;
  unsigned char     *wire      = NULL;
  size_t             wlen      = 0;
  int                ok        = 0;

  memset(out, 0, sizeof(*out));
  out->on  = -1;
  out->dup = 1;
  *err     = "spec";
  if (strlen(spec) >= sizeof(buf)) {
    *err = "toolong";
    return 0;
  }
  strcpy(buf, spec);
  if (t->qname_plain) {
    snprintf(qname, sizeof(qname), "%s", t->qname);
  } else {
    /* placeholder with identical wire layout; patched after writing */
    size_t w = 0, o = 0;
    while (w < t->qwire_len && t->qwire[w] != 0 && o + 70 < sizeof(qname)) {
      size_t l = t->qwire[w];
      if (o) {
        qname[o++] = '.';
      }
      memset(qname + o, 'x', l);
      o += l;
      w += l + 1;
    }
    qname[o] = 0;
    if (o == 0) {
      strcpy(qname, ".");
    }
  }
  for (p = strtok_r(buf, ",", &save); p != NULL && nkv < 64;
       p = strtok_r(NULL, ",", &save)) {
    kv[nkv++] = p;
  }
  for (i = 0; i < nkv; i++) {
    char *k  = kv[i];
    char *val = strchr(k, '=');
    if (val == NULL) {
      *err = "novalue";
      return 0;
    }
    *val++ = 0;
#define NUM(name, var)                 \
  if (strcmp(k, name) == 0) {          \
    if (!parse_long(val, &v)) {        \
      *err = "num";                    \
      return 0;                        \
    }                                  \
    var = v;                           \
    continue;                          \
  }
    if (strcmp(k, "rcode") == 0) {
      if (!parse_long(val, &v)) {
        static const char *rn[] = { "NOERROR", "FORMERR", "SERVFAIL",
                                    "NXDOMAIN", "NOTIMP", "REFUSED",
                                    "YXDOMAIN", "YXRRSET", "NXRRSET",
                                    "NOTAUTH", "NOTZONE" };
        size_t             j;
        v = -1;
        for (j = 0; j < sizeof(rn) / sizeof(*rn); j++) {
          if (strcasecmp(rn[j], val) == 0) {
            v = (long)j;
          }
        }
        if (v < 0) {
          *err = "rcode";
          return 0;
        }
      }
      rcode = v;
      continue;
    }
    NUM("tc", tc)
    NUM("aa", aa)
    NUM("ra", ra)
    NUM("rd", rd)
    NUM("ad", ad)
    NUM("cd", cd)
    NUM("qr", qr)
    NUM("opcode", opcode)
    NUM("noq", noq)
    NUM("noopt", noopt)
    NUM("ttlall", ttlall)
    NUM("flipcase", flipcase)
    NUM("trunc", trunc)
    NUM("udpsize", udpsize)
    NUM("ednsver", ednsver)
    NUM("dup", out->dup)
#undef NUM
    if (strcmp(k, "id") == 0) {
      if (!parse_long(val[0] == '+' ? val + 1 : val, &v)) {
        *err = "id";
        return 0;
      }
      if (val[0] == '+' || val[0] == '-') {
        id = (id + v) & 0xFFFF;
      } else {
        id = v & 0xFFFF;
      }
      continue;
    }
    if (strcmp(k, "qtype") == 0) {
      ares_dns_rec_type_t qt;
      if (parse_long(val, &v)) {
        qtype = v;
      } else if (ares_dns_rec_type_fromstr(&qt, val)) {
        qtype = (long)qt;
      } else {
        *err = "qtype";
        return 0;
      }
      continue;
    }
    if (strcmp(k, "qclass") == 0) {
      ares_dns_class_t qc;
      if (parse_long(val, &v)) {
        qclass = v;
      } else if (ares_dns_class_fromstr(&qc, val)) {
        qclass = (long)qc;
      } else {
        *err = "qclass";
        return 0;
      }
      continue;
    }
    if (strcmp(k, "qname") == 0) {
      snprintf(qname, sizeof(qname), "%s", val);
      qname_set = 1;
      continue;
    }
    if (strcmp(k, "an") == 0) {
      an = val;
      continue;
    }
    if (strcmp(k, "ns") == 0) {
      ns = val;
      continue;
    }
    if (strcmp(k, "ar") == 0) {
      ar = val;
      continue;
    }
    if (strcmp(k, "cookie") == 0) {
      cookie = val;
      continue;
    }
    if (strcmp(k, "from") == 0) {
      if (!parse_addrport(val, &out->from, &out->fromlen)) {
        *err = "from";
        return 0;
      }
      out->have_from = 1;
      continue;
    }
    if (strcmp(k, "on") == 0) {
      if (val[0] != 's' || !parse_long(val + 1, &v) || v < 0 ||
          (size_t)v >= G.nsocks) {
        *err = "on";
        return 0;
      }
      out->on = (int)v;
      continue;
    }
    *err = "key";
    return 0;
  }
  if (out->dup < 0 || out->dup > 64) {
    *err = "dup";
    return 0;
  }
  if (flipcase) {
    flip_case(qname, (int)flipcase);
    qname_set = 1;
  }

  if (qr) {
    flags |= ARES_FLAG_QR;
  }
  if (aa) {
    flags |= ARES_FLAG_AA;
  }
  if (tc) {
    flags |= ARES_FLAG_TC;
  }
  if (rd) {
    flags |= ARES_FLAG_RD;
  }
  if (ra) {
    flags |= ARES_FLAG_RA;
  }
  if (ad) {
    flags |= ARES_FLAG_AD;
  }
  if (cd) {
    flags |= ARES_FLAG_CD;
  }

  g_alloc_exempt++;
  *err = "build";
  if (ares_dns_record_create(&rec, (unsigned short)id, flags,
                             (ares_dns_opcode_t)(opcode & 15),
                             (ares_dns_rcode_t)rcode) != ARES_SUCCESS) {
    goto done;
  }
  if (!noq) {
    *err = "qname";
    if (ares_dns_record_query_add(rec, qname, (ares_dns_rec_type_t)qtype,
                                  (ares_dns_class_t)qclass) != ARES_SUCCESS) {
      goto done;
    }
  }
  *err = "rr";
  if (an && !add_rrs(rec, ARES_SECTION_ANSWER, an, qname, ttlall)) {
    goto done;
  }
  if (ns && !add_rrs(rec, ARES_SECTION_AUTHORITY, ns, qname, ttlall)) {
    goto done;
  }
  if (ar && !add_rrs(rec, ARES_SECTION_ADDITIONAL, ar, qname, ttlall)) {
    goto done;
  }
  if ((t->has_opt || cookie != NULL || rcode > 15) && !noopt) {
    ares_dns_rr_t *rr = NULL;
    *err              = "opt";
    if (ares_dns_record_rr_add(&rr, rec, ARES_SECTION_ADDITIONAL, "",
                               ARES_REC_TYPE_OPT, ARES_CLASS_IN,
                               0) != ARES_SUCCESS ||
        ares_dns_rr_set_u16(rr, ARES_RR_OPT_UDP_SIZE,
                            (unsigned short)udpsize) != ARES_SUCCESS ||
        ares_dns_rr_set_u8(rr, ARES_RR_OPT_VERSION,
                           (unsigned char)ednsver) != ARES_SUCCESS ||
        ares_dns_rr_set_u16(rr, ARES_RR_OPT_FLAGS, 0) != ARES_SUCCESS) {
      goto done;
    }
    if (cookie != NULL && strcmp(cookie, "none") != 0) {
      unsigned char c[64];
      size_t        cl = 0;
      static const unsigned char scookie[8] = { 0x53, 0x49, 0x4d, 0x53,
                                                0x52, 0x56, 0x30, 0x31 };
      *err = "cookie";
      if (strcmp(cookie, "echo") == 0 || strncmp(cookie, "echo:", 5) == 0 ||
          strcmp(cookie, "bad") == 0 ||
          (strncmp(cookie, "bad", 3) == 0 && cookie[3] >= '0' &&
           cookie[3] <= '7' && cookie[4] == 0)) {
        if (t->cookie_len >= 8) {
          memcpy(c, t->cookie, 8);
        } else {
          memset(c, 0, 8);
        }
        if (strcmp(cookie, "bad") == 0) {
          c[0] ^= 0xFF;
        } else if (strncmp(cookie, "bad", 3) == 0) {
          c[cookie[3] - '0'] ^= 0x01; /* bad<k>: one bit of byte k */
        }
        cl = 8;
        if (strncmp(cookie, "echo:", 5) == 0) {
          size_t         l;
          unsigned char *b = parse_hex(cookie + 5, &l);
          if (b == NULL || l > 32) {
            free(b);
            goto done;
          }
          memcpy(c + 8, b, l);
          cl += l;
          free(b);
        } else {
          memcpy(c + 8, scookie, 8);
          cl += 8;
        }
      } else {
        size_t         l;
        unsigned char *b = parse_hex(cookie, &l);
        if (b == NULL || l > sizeof(c)) {
          free(b);
          goto done;
        }
        memcpy(c, b, l);
        cl = l;
        free(b);
      }
      if (ares_dns_rr_set_opt(rr, ARES_RR_OPT_OPTIONS, ARES_OPT_PARAM_COOKIE,
                              c, cl) != ARES_SUCCESS) {
        goto done;
      }
    }
  }
  *err = "write";
  if (ares_dns_write(rec, &wire, &wlen) != ARES_SUCCESS) {
    goto done;
  }
  out->msg = xmalloc(wlen);
  memcpy(out->msg, wire, wlen);
  out->len = wlen;
  ares_free_string(wire);
  /* restore the exact question bytes that were sent */
  if (!noq && !qname_set && t->qwire_len > 0 &&
      12 + t->qwire_len <= out->len) {
    memcpy(out->msg + 12, t->qwire, t->qwire_len);
  }
  if (trunc >= 0 && (size_t)trunc < out->len) {
    out->len = (size_t)trunc;
  }
  ok = 1;
done:
  ares_dns_record_destroy(rec);
  g_alloc_exempt--;
  return ok;
}

/* ------------------------------------------------------------------------- */
/* Op helpers                                                                 */
/* ------------------------------------------------------------------------- */
static int split_args(char *s, char **argv, int max)
{
  int n = 0;
  while (*s) {
    while (*s == ' ' || *s == '\t' || *s == '\r' || *s == '\n') {
      s++;
    }
    if (*s == 0) {
      break;
    }
    if (n == max) {
      return -1;
    }
    argv[n++] = s;
    while (*s && *s != ' ' && *s != '\t' && *s != '\r' && *s != '\n') {
      s++;
    }
    if (*s) {
      *s++ = 0;
    }
  }
  return n;
}

static long xref(const char *a);

static int sref(const char *a, int allow_closed)
{
  long v;
  /* sx<j> / sxl / sxl-<n>: the socket transmission x<j> / xl / xl-<n> was sent on */
  if (a != NULL && a[0] == 's' && a[1] == 'x') {
    long j = xref(a + 1);
    if (j < 0) {
      return -1;
    }
    v = G.tx[j].sock;
    if (v < 0 || (size_t)v >= G.nsocks) {
      return -1;
    }
    if (!allow_closed && G.socks[v].closed) {
      return -2;
    }
    return (int)v;
  }
  if (a == NULL || a[0] != 's' || !parse_long(a + 1, &v) || v < 0 ||
      (size_t)v >= G.nsocks || !isdigit((unsigned char)a[1])) {
    return -1;
  }
  if (!allow_closed && G.socks[v].closed) {
    return -2;
  }
  return (int)v;
}

static long xref(const char *a)
{
  long v;
  if (a == NULL || a[0] != 'x') {
    return -1;
  }
  if (a[1] == 'l') {
    long back = 0;
    if (a[2] == '-') {
      if (!parse_long(a + 3, &back) || back < 0) {
        return -1;
      }
    } else if (a[2] != 0) {
      return -1;
    }
    v = (long)G.ntx - 1 - back;
  } else if (!isdigit((unsigned char)a[1]) || !parse_long(a + 1, &v)) {
    return -1;
  }
  if (v < 0 || (size_t)v >= G.ntx) {
    return -1;
  }
  return v;
}

static int parse_pat(const char *s, size_t *arr, int *n)
{
  char  buf[512];
  char *p;
  char *save = NULL;
  int   cnt  = 0;
  if (strlen(s) >= sizeof(buf)) {
    return 0;
  }
  strcpy(buf, s);
  for (p = strtok_r(buf, ",", &save); p != NULL;
       p = strtok_r(NULL, ",", &save)) {
    long v;
    if (cnt == MAX_PAT || !parse_long(p, &v) || v < 0 || v > 1000000) {
      return 0;
    }
    arr[cnt++] = (size_t)v;
  }
  *n = cnt;
  return 1;
}

static int parse_class(const char *s, long *out)
{
  ares_dns_class_t c;
  if (parse_long(s, out)) {
    return 1;
  }
  if (ares_dns_class_fromstr(&c, s)) {
    *out = (long)c;
    return 1;
  }
  return 0;
}

static int parse_type(const char *s, long *out)
{
  ares_dns_rec_type_t t;
  if (parse_long(s, out)) {
    return 1;
  }
  if (ares_dns_rec_type_fromstr(&t, s)) {
    *out = (long)t;
    return 1;
  }
  return 0;
}

static tok_t *tokref(const char *a, long *T)
{
  long        v;
  const char *p = a;
  if (p == NULL) {
    return NULL;
  }
  if (*p == 't') {
    p++;
  }
  if (!isdigit((unsigned char)*p) || !parse_long(p, &v) || v < 0 ||
      v >= MAX_TOK) {
    return NULL;
  }
  *T = v;
  return &G.tok[v];
}

/* "-" stands for the empty string in name arguments */
static const char *namearg(const char *a)
{
  return strcmp(a, "-") == 0 ? "" : a;
}

static void log_fdlist(sb_t *sb, const char *label, const int *idx, int n)
{
  int i;
  sb_printf(sb, "%s=[", label);
  for (i = 0; i < n; i++) {
    sb_printf(sb, "%ss%d", i ? "," : "", idx[i]);
  }
  sb_putc(sb, ']');
}

static void do_process(const int *rd, int nrd, const int *wr, int nwr,
                       int legacy)
{
  sb_t sb;
  sb_init(&sb);
  sb_puts(&sb, legacy ? "PROCSEL " : "PROC ");
  log_fdlist(&sb, "r", rd, nrd);
  sb_putc(&sb, ' ');
  log_fdlist(&sb, "w", wr, nwr);
  ev_sb(&sb);
  sb_free(&sb);
  if (legacy) {
    fd_set r;
    fd_set w;
    int    i;
    FD_ZERO(&r);
    FD_ZERO(&w);
    for (i = 0; i < nrd; i++) {
      FD_SET(FD_BASE + rd[i], &r);
    }
    for (i = 0; i < nwr; i++) {
      FD_SET(FD_BASE + wr[i], &w);
    }
    ares_process(G.channel, &r, &w);
    ev("PROCEND");
  } else {
    ares_fd_events_t *evs = xmalloc(sizeof(*evs) * (size_t)(nrd + nwr + 1));
    size_t            n   = 0;
    int               i;
    int               j;
    ares_status_t     st;
    for (i = 0; i < nrd; i++) {
      evs[n].fd     = FD_BASE + rd[i];
      evs[n].events = ARES_FD_EVENT_READ;
      n++;
    }
    for (i = 0; i < nwr; i++) {
      for (j = 0; j < (int)n; j++) {
        if (evs[j].fd == FD_BASE + wr[i]) {
          break;
        }
      }
      if (j < (int)n) {
        evs[j].events |= ARES_FD_EVENT_WRITE;
      } else {
        evs[n].fd     = FD_BASE + wr[i];
        evs[n].events = ARES_FD_EVENT_WRITE;
        n++;
      }
    }
    st = ares_process_fds(G.channel, n ? evs : NULL, n, ARES_PROCESS_FLAG_NONE);
    free(evs);
    ev("PROCEND rc=%d", (int)st);
  }
}

static int op_proc(int legacy, int only_if_events)
{
  int   *rd = xmalloc(sizeof(int) * (G.nsocks + 1));
  int   *wr = xmalloc(sizeof(int) * (G.nsocks + 1));
  int    nrd = 0, nwr = 0;
  size_t i;
  for (i = 0; i < G.nsocks; i++) {
    vsock_t *s = &G.socks[i];
    if (s->closed) {
      continue;
    }
    if (s->type == SOCK_DGRAM) {
      if (s->inq_head < s->inq_n) {
        rd[nrd++] = (int)i;
      }
    } else if (s->tin_off < s->tin_len || s->eof || s->reset) {
      rd[nrd++] = (int)i;
    }
    if (s->wr_event) {
      s->wr_event = 0;
      wr[nwr++]   = (int)i;
    }
  }
  if (nrd + nwr > 0 || !only_if_events) {
    do_process(rd, nrd, wr, nwr, legacy);
  }
  free(rd);
  free(wr);
  return nrd + nwr;
}

/* like op_proc(0, 1), but a socket is reported writable only when the library has announced
 * write interest for it (sock_state_cb if registered, otherwise ares_fds) and it can take
 * data (no connect pending); level triggered, as a poll() based application would do */
static int op_procw(void)
{
  int   *rd  = xmalloc(sizeof(int) * (G.nsocks + 1));
  int   *wr  = xmalloc(sizeof(int) * (G.nsocks + 1));
  int    nrd = 0, nwr = 0;
  size_t i;
  fd_set fr;
  fd_set fw;
  FD_ZERO(&fr);
  FD_ZERO(&fw);
  if (!G.sockstatecb) {
    ares_fds(G.channel, &fr, &fw);
  }
  for (i = 0; i < G.nsocks; i++) {
    vsock_t *s = &G.socks[i];
    int      want_w;
    if (s->closed) {
      continue;
    }
    if (s->type == SOCK_DGRAM) {
      if (s->inq_head < s->inq_n) {
        rd[nrd++] = (int)i;
      }
    } else if (s->tin_off < s->tin_len || s->eof || s->reset) {
      rd[nrd++] = (int)i;
    }
    want_w = G.sockstatecb ? s->ss_w : FD_ISSET(FD_BASE + (int)i, &fw);
    if (want_w && !(s->type == SOCK_STREAM && s->connect_pending && !s->tfo)) {
      s->wr_event = 0;
      wr[nwr++]   = (int)i;
    }
  }
  if (nrd + nwr > 0) {
    do_process(rd, nrd, wr, nwr, 0);
  }
  free(rd);
  free(wr);
  return nrd + nwr;
}

/* returns 1 when the reload is still marked pending after 2 s (reading a few small files
 * takes milliseconds): the helper thread ended without clearing the mark */
static int wait_reinit(void)
{
  /* ares_reinit() re-reads the system configuration on a helper thread; wait
   * for it so that the outcome is deterministic */
  int spins = 0;
  while (spins++ < 10000) {
    ares_bool_t pending;
    ares_channel_lock(G.channel);
    pending = G.channel->reinit_pending;
    ares_channel_unlock(G.channel);
    if (!pending) {
      return 0;
    }
    usleep(200);
  }
  return 1;
}

/* ------------------------------------------------------------------------- */
/* Request ops                                                                */
/* ------------------------------------------------------------------------- */
static void log_req(long T, int argc, char **argv)
{
  sb_t sb;
  int  i;
  sb_init(&sb);
  sb_printf(&sb, "REQ t%ld %s", T, argv[0]);
  for (i = 2; i < argc; i++) {
    sb_putc(&sb, ' ');
    sb_puts(&sb, argv[i]);
  }
  ev_sb(&sb);
  sb_free(&sb);
}

/* build a question record: name class type [rd] [ad] [cd] [edns[=size]] */
static ares_dns_record_t *build_query(int argc, char **argv, int first,
                                      const char **err)
{
  long               cls;
  long               type;
  unsigned short     flags = 0;
  long               edns  = -1;
  int                i;
  ares_dns_record_t *rec = NULL;

  *err = "args";
  if (argc < first + 3 || !parse_class(argv[first + 1], &cls) ||
      !parse_type(argv[first + 2], &type)) {
    return NULL;
  }
  for (i = first + 3; i < argc; i++) {
    if (strcmp(argv[i], "rd") == 0) {
      flags |= ARES_FLAG_RD;
    } else if (strcmp(argv[i], "ad") == 0) {
      flags |= ARES_FLAG_AD;
    } else if (strcmp(argv[i], "cd") == 0) {
      flags |= ARES_FLAG_CD;
    } else if (strcmp(argv[i], "edns") == 0) {
      edns = 1232;
    } else if (strncmp(argv[i], "edns=", 5) == 0) {
      if (!parse_long(argv[i] + 5, &edns) || edns < 0 || edns > 65535) {
        return NULL;
      }
    } else {
      return NULL;
    }
  }
  g_alloc_exempt++;
  *err = "record";
  if (ares_dns_record_create(&rec, 0, flags, ARES_OPCODE_QUERY,
                             ARES_RCODE_NOERROR) != ARES_SUCCESS) {
    rec = NULL;
    goto done;
  }
  *err = "name";
  if (ares_dns_record_query_add(rec, namearg(argv[first]),
                                (ares_dns_rec_type_t)type,
                                (ares_dns_class_t)cls) != ARES_SUCCESS) {
    ares_dns_record_destroy(rec);
    rec = NULL;
    goto done;
  }
  if (edns >= 0) {
    ares_dns_rr_t *rr = NULL;
    *err              = "opt";
    if (ares_dns_record_rr_add(&rr, rec, ARES_SECTION_ADDITIONAL, "",
                               ARES_REC_TYPE_OPT, ARES_CLASS_IN,
                               0) != ARES_SUCCESS ||
        ares_dns_rr_set_u16(rr, ARES_RR_OPT_UDP_SIZE,
                            (unsigned short)edns) != ARES_SUCCESS ||
        ares_dns_rr_set_u8(rr, ARES_RR_OPT_VERSION, 0) != ARES_SUCCESS ||
        ares_dns_rr_set_u16(rr, ARES_RR_OPT_FLAGS, 0) != ARES_SUCCESS) {
      ares_dns_record_destroy(rec);
      rec = NULL;
      goto done;
    }
  }
done:
  g_alloc_exempt--;
  return rec;
}

static void free_query(ares_dns_record_t *rec)
{
  g_alloc_exempt++;
  ares_dns_record_destroy(rec);
  g_alloc_exempt--;
}

/* returns 1 if handled (including BADOP), 0 if not a request op */
static int exec_request(int argc, char **argv, const char *optext)
{
  const char *op = argv[0];
  tok_t      *t;
  long        T = 0;
  const char *err;

  if (strcmp(op, "send") && strcmp(op, "sendraw") && strcmp(op, "query") &&
      strcmp(op, "oquery") && strcmp(op, "search") && strcmp(op, "osearch") &&
      strcmp(op, "gai") && strcmp(op, "ghbn") && strcmp(op, "ghba") &&
      strcmp(op, "gni")) {
    return 0;
  }
  if (G.channel == NULL) {
    ev("IGNORED %s", optext);
    return 1;
  }
  t = tokref(argc > 1 ? argv[1] : NULL, &T);
  if (t == NULL) {
    ev("BADOP token: %s", optext);
    return 1;
  }

  if (strcmp(op, "send") == 0 || strcmp(op, "search") == 0) {
    ares_dns_record_t *rec = build_query(argc, argv, 2, &err);
    ares_status_t      rc;
    if (rec == NULL) {
      ev("BADOP %s: %s", err, optext);
      return 1;
    }
    log_req(T, argc, argv);
    t->nreq++;
    if (strcmp(op, "send") == 0) {
      unsigned short qid = 0;
      rc = ares_send_dnsrec(G.channel, rec, cb_dnsrec, t, &qid);
    } else {
      rc = ares_search_dnsrec(G.channel, rec, cb_dnsrec, t);
    }
    ev("RET t%ld rc=%d", T, (int)rc);
    free_query(rec);
    return 1;
  }
  if (strcmp(op, "sendraw") == 0) {
    size_t         len;
    unsigned char *b;
    if (argc != 3 || (b = parse_hex(argv[2], &len)) == NULL) {
      ev("BADOP hex: %s", optext);
      return 1;
    }
    log_req(T, argc, argv);
    t->nreq++;
    ares_send(G.channel, b, (int)len, cb_abuf, t);
    ev("RET t%ld rc=void", T);
    free(b);
    return 1;
  }
  if (strcmp(op, "query") == 0 || strcmp(op, "oquery") == 0 ||
      strcmp(op, "osearch") == 0) {
    long cls;
    long type;
    if (argc != 5 || !parse_class(argv[3], &cls) ||
        !parse_type(argv[4], &type)) {
      ev("BADOP args: %s", optext);
      return 1;
    }
    log_req(T, argc, argv);
    t->nreq++;
    if (strcmp(op, "query") == 0) {
      unsigned short qid = 0;
      ares_status_t  rc  = ares_query_dnsrec(
        G.channel, namearg(argv[2]), (ares_dns_class_t)cls,
        (ares_dns_rec_type_t)type, cb_dnsrec, t, &qid);
      ev("RET t%ld rc=%d", T, (int)rc);
    } else if (strcmp(op, "oquery") == 0) {
      ares_query(G.channel, namearg(argv[2]), (int)cls, (int)type, cb_abuf, t);
      ev("RET t%ld rc=void", T);
    } else {
      ares_search(G.channel, namearg(argv[2]), (int)cls, (int)type, cb_abuf,
                  t);
      ev("RET t%ld rc=void", T);
    }
    return 1;
  }
  if (strcmp(op, "gai") == 0) {
    struct ares_addrinfo_hints hints;
    long                       fam;
    long                       fl;
    long                       st = 0;
    const char                *service = NULL;
    const char                *name;
    if (argc < 5 || argc > 7 || !parse_long(argv[3], &fam) ||
        !parse_long(argv[4], &fl) ||
        (argc > 6 && !parse_long(argv[6], &st))) {
      ev("BADOP args: %s", optext);
      return 1;
    }
    if (argc > 5 && strcmp(argv[5], "-") != 0) {
      service = argv[5];
    }
    name = strcmp(argv[2], "~") == 0 ? NULL : namearg(argv[2]);
    memset(&hints, 0, sizeof(hints));
    hints.ai_family   = fam == 0 ? AF_UNSPEC : (fam == 4 ? AF_INET : (fam == 6 ? AF_INET6 : (int)fam));
    hints.ai_flags    = (int)fl;
    hints.ai_socktype = (int)st;
    log_req(T, argc, argv);
    t->nreq++;
    ares_getaddrinfo(G.channel, name, service, &hints, cb_addrinfo, t);
    ev("RET t%ld rc=void", T);
    return 1;
  }
  if (strcmp(op, "ghbn") == 0) {
    long fam;
    if (argc != 4 || !parse_long(argv[3], &fam)) {
      ev("BADOP args: %s", optext);
      return 1;
    }
    log_req(T, argc, argv);
    t->nreq++;
    ares_gethostbyname(G.channel, namearg(argv[2]),
                       fam == 0 ? AF_UNSPEC : (fam == 4 ? AF_INET : (fam == 6 ? AF_INET6 : (int)fam)),
                       cb_host, t);
    ev("RET t%ld rc=void", T);
    return 1;
  }
  if (strcmp(op, "ghba") == 0 || strcmp(op, "gni") == 0) {
    struct sockaddr_storage ss;
    socklen_t               sl;
    long                    port = 0;
    long                    fl   = 0;
    int                     isgni = strcmp(op, "gni") == 0;
    if ((isgni ? argc != 5 : argc != 3) || !parse_addrport(argv[2], &ss, &sl) ||
        (isgni && (!parse_long(argv[3], &port) || port < 0 || port > 65535 ||
                   !parse_long(argv[4], &fl)))) {
      ev("BADOP args: %s", optext);
      return 1;
    }
    log_req(T, argc, argv);
    t->nreq++;
    if (isgni) {
      if (ss.ss_family == AF_INET) {
        ((struct sockaddr_in *)&ss)->sin_port = htons((unsigned short)port);
      } else {
        ((struct sockaddr_in6 *)&ss)->sin6_port = htons((unsigned short)port);
      }
      ares_getnameinfo(G.channel, (struct sockaddr *)&ss, sl, (int)fl,
                       cb_nameinfo, t);
    } else if (ss.ss_family == AF_INET) {
      ares_gethostbyaddr(G.channel, &((struct sockaddr_in *)&ss)->sin_addr, 4,
                         AF_INET, cb_host, t);
    } else {
      ares_gethostbyaddr(G.channel, &((struct sockaddr_in6 *)&ss)->sin6_addr,
                         16, AF_INET6, cb_host, t);
    }
    ev("RET t%ld rc=void", T);
    return 1;
  }
  return 0;
}

/* ------------------------------------------------------------------------- */
/* Network scripting ops                                                      */
/* ------------------------------------------------------------------------- */
static void deliver_response(long j, const char *spec, const char *optext)
{
  tx_t       *t = &G.tx[j];
  rsp_t       r;
  const char *err = NULL;
  int         sidx;
  long        d;
  sb_t        sb;

  if (!build_response(t, spec, &r, &err)) {
    ev("BADOP rsp-%s: %s", err ? err : "?", optext);
    free(r.msg);
    return;
  }
  sidx = r.on >= 0 ? r.on : t->sock;
  t->answered = 1;
  sb_init(&sb);
  sb_printf(&sb, "RSP x%ld s%d len=%zu id=%u", j, sidx, r.len,
            r.len >= 2 ? (unsigned)(r.msg[0] << 8 | r.msg[1]) : 0);
  if (G.socks[sidx].closed) {
    sb_puts(&sb, " DROPPED=closed");
  }
  if (r.have_from) {
    char a[128];
    fmt_sockaddr((struct sockaddr *)&r.from, a, sizeof(a));
    sb_printf(&sb, " from=%s", a);
  }
  if (r.dup != 1) {
    sb_printf(&sb, " dup=%ld", r.dup);
  }
  sb_puts(&sb, " hex=");
  sb_hex(&sb, r.msg, r.len);
  ev_sb(&sb);
  sb_free(&sb);
  if (!G.socks[sidx].closed) {
    for (d = 0; d < r.dup; d++) {
      if (G.socks[sidx].type == SOCK_STREAM) {
        unsigned char pfx[2];
        pfx[0] = (unsigned char)(r.len >> 8);
        pfx[1] = (unsigned char)(r.len & 0xFF);
        sock_enqueue(sidx, pfx, 2, NULL, 0);
      }
      sock_enqueue(sidx, r.msg, r.len, r.have_from ? &r.from : NULL,
                   r.fromlen);
    }
  }
  free(r.msg);
}

/* returns 1 if handled */
static int exec_netop(int argc, char **argv, const char *optext)
{
  const char *op = argv[0];
  int         k;
  long        v;

  if (strcmp(op, "rsp") == 0) {
    long j;
    if (argc != 3 || (j = xref(argv[1])) < 0) {
      ev("BADOP ref: %s", optext);
      return 1;
    }
    deliver_response(j, argv[2], optext);
    return 1;
  }
  if (strcmp(op, "rspall") == 0) {
    size_t j;
    size_t n = G.ntx;
    if (argc != 2) {
      ev("BADOP args: %s", optext);
      return 1;
    }
    for (j = 0; j < n; j++) {
      if (!G.tx[j].answered && !G.socks[G.tx[j].sock].closed) {
        deliver_response((long)j, argv[1], optext);
      }
    }
    return 1;
  }
  if (strcmp(op, "raw") == 0 || strcmp(op, "rawfrom") == 0) {
    int                     isfrom = strcmp(op, "rawfrom") == 0;
    struct sockaddr_storage from;
    socklen_t               fl = 0;
    size_t                  len;
    unsigned char          *b;
    if (argc != (isfrom ? 4 : 3) || (k = sref(argv[1], 1)) < 0 ||
        (isfrom && !parse_addrport(argv[2], &from, &fl)) ||
        (b = parse_hex(argv[isfrom ? 3 : 2], &len)) == NULL) {
      ev("BADOP args: %s", optext);
      return 1;
    }
    if (G.socks[k].closed) {
      ev("RAW s%d len=%zu DROPPED=closed", k, len);
    } else {
      ev("RAW s%d len=%zu", k, len);
      sock_enqueue(k, b, len, isfrom ? &from : NULL, fl);
    }
    free(b);
    return 1;
  }
  if (strcmp(op, "zerolen") == 0) {
    if (argc != 2 || (k = sref(argv[1], 0)) < 0 ||
        G.socks[k].type != SOCK_DGRAM) {
      ev("BADOP args: %s", optext);
      return 1;
    }
    ev("RAW s%d len=0", k);
    sock_enqueue(k, (const unsigned char *)"", 0, NULL, 0);
    return 1;
  }
  if (strcmp(op, "chunk") == 0 || strcmp(op, "wpat") == 0) {
    size_t arr[MAX_PAT];
    int    n = 0;
    if (argc != 3 || (k = sref(argv[1], 0)) < 0 ||
        !parse_pat(argv[2], arr, &n)) {
      ev("BADOP args: %s", optext);
      return 1;
    }
    if (strcmp(op, "chunk") == 0) {
      memcpy(G.socks[k].chunk, arr, sizeof(arr));
      G.socks[k].nchunk  = n;
      G.socks[k].chunk_i = 0;
    } else {
      memcpy(G.socks[k].wpat, arr, sizeof(arr));
      G.socks[k].nwpat  = n;
      G.socks[k].wpat_i = 0;
    }
    return 1;
  }
  if (strcmp(op, "reset") == 0 || strcmp(op, "eof") == 0) {
    if (argc != 2 || (k = sref(argv[1], 0)) < 0 ||
        G.socks[k].type != SOCK_STREAM) {
      ev("BADOP args: %s", optext);
      return 1;
    }
    if (strcmp(op, "reset") == 0) {
      G.socks[k].reset = 1;
    } else {
      G.socks[k].eof = 1;
    }
    return 1;
  }
  if (strcmp(op, "writable") == 0) {
    if (argc != 2 || (k = sref(argv[1], 0)) < 0) {
      ev("BADOP args: %s", optext);
      return 1;
    }
    G.socks[k].wr_event = 1;
    return 1;
  }
  if (strcmp(op, "fail") == 0) {
    int call;
    int e;
    int i;
    if (argc != 4 || !parse_long(argv[2], &v) || v < 1 || v > 1000000 ||
        (e = errno_byname(argv[3])) < 0) {
      ev("BADOP args: %s", optext);
      return 1;
    }
    for (call = 0; call < CALL_N; call++) {
      if (strcmp(g_callnames[call], argv[1]) == 0) {
        break;
      }
    }
    if (call == CALL_N) {
      ev("BADOP call: %s", optext);
      return 1;
    }
    for (i = 0; i < MAX_FAIL; i++) {
      if (G.fail[call][i].countdown == 0) {
        G.fail[call][i].countdown = (int)v;
        G.fail[call][i].err       = e;
        break;
      }
    }
    if (i == MAX_FAIL) {
      ev("BADOP toomany: %s", optext);
    }
    return 1;
  }
  if (strcmp(op, "connectlater") == 0) {
    if (argc > 2 || (argc == 2 && !parse_long(argv[1], &v))) {
      ev("BADOP args: %s", optext);
      return 1;
    }
    G.connectlater = argc == 2 ? (v != 0) : 1;
    return 1;
  }
  if (strcmp(op, "connected") == 0 || strcmp(op, "connfail") == 0) {
    if (argc < 2 || (k = sref(argv[1], 0)) < 0 ||
        G.socks[k].type != SOCK_STREAM || !G.socks[k].connect_pending) {
      ev("BADOP args: %s", optext);
      return 1;
    }
    G.socks[k].connect_pending = 0;
    if (strcmp(op, "connected") == 0) {
      G.socks[k].wr_event = 1;
    } else {
      /* failed connect: socket becomes readable and recv reports the error */
      G.socks[k].reset = 1;
    }
    return 1;
  }
  if (strcmp(op, "adv") == 0 || strcmp(op, "advus") == 0) {
    if (argc != 2 || !parse_long(argv[1], &v) || v < 0) {
      ev("BADOP args: %s", optext);
      return 1;
    }
    G.now_us += strcmp(op, "adv") == 0 ? (ares_int64_t)v * 1000 : v;
    ev("NOW %lld.%03d", (long long)(G.now_us / 1000), (int)(G.now_us % 1000));
    return 1;
  }
  if (strcmp(op, "writefile") == 0) {
    /* writefile <path> <hex|->   (re)write a file, e.g. the resolv.conf a later reinit reads */
    if (argc != 3 || !sim_writefile(argv[1], argv[2])) {
      ev("BADOP args: %s", optext);
      return 1;
    }
    ev("WRITEFILE %s", argv[1]);
    return 1;
  }
  if (strcmp(op, "note") == 0) {
    return 1; /* the OP line already carries the text */
  }
  return 0;
}

/* ------------------------------------------------------------------------- */
/* Introspection                                                              */
/* ------------------------------------------------------------------------- */
static void op_fds(void)
{
  fd_set r;
  fd_set w;
  int    nfds;
  size_t i;
  int    first;
  sb_t   sb;
  FD_ZERO(&r);
  FD_ZERO(&w);
  nfds = ares_fds(G.channel, &r, &w);
  sb_init(&sb);
  /* nfds is highest fd + 1; printed relative to the socket numbering, i.e.
   * (highest socket index + 1), 0 when no sockets */
  sb_printf(&sb, "FDS nfds=%d r=[", nfds == 0 ? 0 : nfds - FD_BASE);
  first = 1;
  for (i = 0; i < G.nsocks; i++) {
    if (FD_ISSET(FD_BASE + (int)i, &r)) {
      sb_printf(&sb, "%ss%zu", first ? "" : ",", i);
      first = 0;
    }
  }
  sb_puts(&sb, "] w=[");
  first = 1;
  for (i = 0; i < G.nsocks; i++) {
    if (FD_ISSET(FD_BASE + (int)i, &w)) {
      sb_printf(&sb, "%ss%zu", first ? "" : ",", i);
      first = 0;
    }
  }
  sb_puts(&sb, "] open=[");
  first = 1;
  for (i = 0; i < G.nsocks; i++) {
    if (!G.socks[i].closed) {
      sb_printf(&sb, "%ss%zu", first ? "" : ",", i);
      first = 0;
    }
  }
  sb_putc(&sb, ']');
  ev_sb(&sb);
  sb_free(&sb);
}

static void op_getsock(void)
{
  ares_socket_t socks[ARES_GETSOCK_MAXNUM];
  int           bits;
  int           i;
  int           first;
  sb_t          sb;
  for (i = 0; i < ARES_GETSOCK_MAXNUM; i++) {
    socks[i] = ARES_SOCKET_BAD;
  }
  bits = ares_getsock(G.channel, socks, ARES_GETSOCK_MAXNUM);
  sb_init(&sb);
  sb_puts(&sb, "GETSOCK r=[");
  first = 1;
  for (i = 0; i < ARES_GETSOCK_MAXNUM; i++) {
    if (((unsigned int)bits >> i) & 1U) {
      sb_printf(&sb, "%ss%d", first ? "" : ",", (int)socks[i] - FD_BASE);
      first = 0;
    }
  }
  sb_puts(&sb, "] w=[");
  first = 1;
  for (i = 0; i < ARES_GETSOCK_MAXNUM; i++) {
    /* not ARES_GETSOCK_WRITABLE(): for i == 15 the macro shifts 1 << 31 */
    if (((unsigned int)bits >> (i + ARES_GETSOCK_MAXNUM)) & 1U) {
      sb_printf(&sb, "%ss%d", first ? "" : ",", (int)socks[i] - FD_BASE);
      first = 0;
    }
  }
  sb_putc(&sb, ']');
  ev_sb(&sb);
  sb_free(&sb);
}

static void op_opts(void)
{
  struct ares_options o;
  int                 mask = 0;
  int                 rc;
  int                 i;
  sb_t                sb;
  memset(&o, 0, sizeof(o));
  rc = ares_save_options(G.channel, &o, &mask);
  sb_init(&sb);
  sb_printf(&sb, "OPTS rc=%d", rc);
  if (rc == ARES_SUCCESS) {
    sb_printf(&sb,
              " mask=0x%x flags=0x%x timeout=%d tries=%d ndots=%d udpport=%u "
              "tcpport=%u sndbuf=%d rcvbuf=%d ednspsz=%d udpmaxq=%d "
              "maxtimeout=%d qcachettl=%u failover=%u,%zu nsort=%d servers=[",
              (unsigned)mask, (unsigned)o.flags, o.timeout, o.tries, o.ndots,
              (unsigned)o.udp_port, (unsigned)o.tcp_port,
              o.socket_send_buffer_size, o.socket_receive_buffer_size,
              o.ednspsz, o.udp_max_queries, o.maxtimeout, o.qcache_max_ttl,
              (unsigned)o.server_failover_opts.retry_chance,
              o.server_failover_opts.retry_delay, o.nsort);
    for (i = 0; i < o.nservers; i++) {
      char a[32];
      inet_ntop(AF_INET, &o.servers[i], a, sizeof(a));
      sb_printf(&sb, "%s%s", i ? "," : "", a);
    }
    sb_puts(&sb, "] domains=[");
    for (i = 0; i < o.ndomains; i++) {
      if (i) {
        sb_putc(&sb, ',');
      }
      sb_safe(&sb, o.domains[i]);
    }
    sb_puts(&sb, "] lookups=");
    sb_safe(&sb, o.lookups);
    sb_puts(&sb, " resolvconf=");
    sb_safe(&sb, o.resolvconf_path);
    sb_puts(&sb, " hosts=");
    sb_safe(&sb, o.hosts_path);
  }
  ev_sb(&sb);
  sb_free(&sb);
  ares_destroy_options(&o);
}

/* effcfg: the configuration the channel works with right now, whatever its source (options,
 * resolv.conf, /etc/nsswitch.conf, environment); ares_save_options only reports what was passed
 * as an option.  Read under the channel lock from the channel itself. */
static void op_effcfg(void)
{
  sb_t   sb;
  size_t i;
  sb_init(&sb);
  ares_channel_lock(G.channel);
  sb_printf(&sb, "EFFCFG lookups=");
  sb_safe(&sb, G.channel->lookups != NULL ? G.channel->lookups : "-");
  sb_printf(&sb, " ndots=%u tries=%u timeout=%u nsort=%u domains=[", (unsigned)G.channel->ndots,
            (unsigned)G.channel->tries, (unsigned)G.channel->timeout, (unsigned)G.channel->nsort);
  for (i = 0; i < G.channel->ndomains; i++) {
    if (i) {
      sb_putc(&sb, ',');
    }
    sb_safe(&sb, G.channel->domains[i]);
  }
  sb_puts(&sb, "]");
  ares_channel_unlock(G.channel);
  ev_sb(&sb);
  sb_free(&sb);
}

/* ------------------------------------------------------------------------- */
/* Files written by a case (config key writefile=<path>:<hex>, op writefile)    */
/* ------------------------------------------------------------------------- */
/* A path starting with "@/" lives in the directory named by the environment
 * variable VERIF_SIM_DIR (default: the current directory) and gets the process
 * id as a prefix, so that concurrent runs do not collide.  Files written by a
 * case are removed at its end.  "nameserver <addr>" lines of the content are
 * added to the table of known server addresses (TX srv=, QSTATE srv=). */
static char g_simfiles[16][600];
static int  g_nsimfiles = 0;

static const char *sim_path(const char *arg)
{
  static char bufs[4][600];
  static int  next = 0;
  char       *out;
  const char *dir;
  if (arg == NULL || strncmp(arg, "@/", 2) != 0) {
    return arg;
  }
  out  = bufs[next];
  next = (next + 1) % 4;
  dir  = getenv("VERIF_SIM_DIR");
  if (dir == NULL || *dir == 0) {
    dir = ".";
  }
  snprintf(out, sizeof(bufs[0]), "%s/%ld-%s", dir, (long)getpid(), arg + 2);
  return out;
}

static int sim_writefile(const char *patharg, const char *hex)
{
  size_t         len = 0;
  unsigned char *b   = (hex != NULL && *hex != 0 && strcmp(hex, "-") != 0) ? parse_hex(hex, &len) : NULL;
  const char    *path = sim_path(patharg);
  FILE          *f;
  int            i;
  char          *text;
  char          *line;
  char          *save = NULL;
  if (hex != NULL && *hex != 0 && strcmp(hex, "-") != 0 && b == NULL) {
    return 0;
  }
  f = fopen(path, "wb");
  if (f == NULL) {
    free(b);
    return 0;
  }
  if (len > 0) {
    fwrite(b, 1, len, f);
  }
  fclose(f);
  for (i = 0; i < g_nsimfiles; i++) {
    if (strcmp(g_simfiles[i], path) == 0) {
      break;
    }
  }
  if (i == g_nsimfiles && g_nsimfiles < 16 && strlen(path) < sizeof(g_simfiles[0])) {
    strcpy(g_simfiles[g_nsimfiles++], path);
  }
  text = xmalloc(len + 1);
  if (len > 0) {
    memcpy(text, b, len);
  }
  text[len] = 0;
  for (line = strtok_r(text, "\n", &save); line != NULL; line = strtok_r(NULL, "\n", &save)) {
    while (*line == ' ' || *line == '\t') {
      line++;
    }
    if (strncmp(line, "nameserver", 10) == 0 && (line[10] == ' ' || line[10] == '\t')) {
      char  addr[128];
      char *a = line + 10;
      char *e;
      while (*a == ' ' || *a == '\t') {
        a++;
      }
      snprintf(addr, sizeof(addr), "%s", a);
      e = addr + strcspn(addr, " \t\r#;");
      *e = 0;
      srv_add_csv(addr);
    }
  }
  free(text);
  free(b);
  return 1;
}

static void sim_removefiles(void)
{
  int i;
  for (i = 0; i < g_nsimfiles; i++) {
    unlink(g_simfiles[i]);
  }
  g_nsimfiles = 0;
}

/* ------------------------------------------------------------------------- */
/* Op dispatcher                                                              */
/* ------------------------------------------------------------------------- */
static int needs_channel(const char *op)
{
  static const char *ops[] = { "cancel",  "destroy",  "reinit",  "setservers",
                               "setsortlist", "tmo",   "proc",    "proct",
                               "procfd",  "procsel",  "flushwrites", "fds", "run", "runw",
                               "getsock", "qlen",     "servers", "opts", "effcfg",
                               "setlocalip4", "setlocalip6", "setlocaldev",
                               "setserversl", "setserversp", "setserverscsv",
                               "getservers", "dup",
                               NULL };
  int                i;
  for (i = 0; ops[i]; i++) {
    if (strcmp(ops[i], op) == 0) {
      return 1;
    }
  }
  return 0;
}

static int forbidden_in_cb(const char *op)
{
  static const char *ops[] = { "destroy", "proc",        "proct", "procfd",
                               "procsel", "flushwrites", "oncb",  "reinit", "run", "runw",
                               NULL };
  int                i;
  for (i = 0; ops[i]; i++) {
    if (strcmp(ops[i], op) == 0) {
      return 1;
    }
  }
  return 0;
}

static void do_destroy(const char *why)
{
  ev("DESTROY begin %s", why);
  G.in_destroy = 1;
  ares_destroy(G.channel);
  G.in_destroy = 0;
  G.destroyed  = 1;
  G.channel    = NULL;
  ev("DESTROY end");
}

static void exec_op(const char *optext, int in_cb)
{
  char       *buf = xstrdup(optext);
  char       *argv[MAX_ARGS];
  int         argc = split_args(buf, argv, MAX_ARGS);
  const char *op;
  long        v;

  if (argc == 0) {
    free(buf);
    return;
  }
  if (in_cb) {
    ev("CBOP %s", optext);
  }
  if (argc < 0) {
    ev("BADOP toomanyargs: %s", optext);
    free(buf);
    return;
  }
  op = argv[0];
  if (in_cb && forbidden_in_cb(op)) {
    ev("BADOP incb: %s", optext);
    goto done;
  }
  if (exec_request(argc, argv, optext)) {
    goto done;
  }
  if (exec_netop(argc, argv, optext)) {
    goto done;
  }
  if (strcmp(op, "oncb") == 0) {
    long   T;
    tok_t *t = tokref(argc > 1 ? argv[1] : NULL, &T);
    char  *c;
    if (t == NULL || argc > 3 || t->noncb >= MAX_ONCB) {
      ev("BADOP args: %s", optext);
      goto done;
    }
    c = xstrdup(argc == 3 ? argv[2] : "");
    for (char *q = c; *q; q++) {
      if (*q == ',') {
        *q = ' ';
      }
    }
    t->oncb[t->noncb++] = c;
    goto done;
  }
  if (needs_channel(op) && G.channel == NULL) {
    ev("IGNORED %s", optext);
    goto done;
  }
  if (strcmp(op, "cancel") == 0) {
    ev("CANCEL begin");
    ares_cancel(G.channel);
    ev("CANCEL end");
  } else if (strcmp(op, "destroy") == 0) {
    do_destroy("op");
  } else if (strcmp(op, "reinit") == 0) {
    ares_status_t rc = ares_reinit(G.channel);
    if (wait_reinit()) {
      ev("REINIT rc=%d stuck=1", (int)rc);
    } else {
      ev("REINIT rc=%d", (int)rc);
    }
  } else if (strcmp(op, "setservers") == 0) {
    int rc;
    if (argc != 2) {
      ev("BADOP args: %s", optext);
      goto done;
    }
    srv_add_csv(namearg(argv[1]));
    rc = ares_set_servers_ports_csv(G.channel, namearg(argv[1]));
    ev("SETSERVERS rc=%d", rc);
  } else if (strcmp(op, "setserversl") == 0 || strcmp(op, "setserversp") == 0) {
    /* legacy ares_set_servers / ares_set_servers_ports: <addr[/udp/tcp],...> or - */
    struct ares_addr_node      *ln = NULL, **lt = &ln;
    struct ares_addr_port_node *pn = NULL, **pt = &pn;
    int                         ports = strcmp(op, "setserversp") == 0;
    int                         rc;
    char                       *save2 = NULL, *tok;
    char                       *copy;
    if (argc != 2) {
      ev("BADOP args: %s", optext);
      goto done;
    }
    copy = xstrdup(namearg(argv[1]));
    for (tok = strtok_r(copy, ",", &save2); tok; tok = strtok_r(NULL, ",", &save2)) {
      char            addr[128];
      int             udp = 0, tcp = 0;
      struct in_addr  a4;
      struct in6_addr a6;
      int             fam;
      if (sscanf(tok, "%127[^/]/%d/%d", addr, &udp, &tcp) < 1) {
        continue;
      }
      if (inet_pton(AF_INET, addr, &a4) == 1) {
        fam = AF_INET;
      } else if (inet_pton(AF_INET6, addr, &a6) == 1) {
        fam = AF_INET6;
      } else {
        continue;
      }
      srv_add_csv(addr);
      if (ports) {
        struct ares_addr_port_node *nd = xmalloc(sizeof(*nd));
        memset(nd, 0, sizeof(*nd));
        nd->family   = fam;
        nd->udp_port = udp;
        nd->tcp_port = tcp;
        if (fam == AF_INET) {
          memcpy(&nd->addr.addr4, &a4, sizeof(a4));
        } else {
          memcpy(&nd->addr.addr6, &a6, sizeof(a6));
        }
        *pt = nd;
        pt  = &nd->next;
      } else {
        struct ares_addr_node *nd = xmalloc(sizeof(*nd));
        memset(nd, 0, sizeof(*nd));
        nd->family = fam;
        if (fam == AF_INET) {
          memcpy(&nd->addr.addr4, &a4, sizeof(a4));
        } else {
          memcpy(&nd->addr.addr6, &a6, sizeof(a6));
        }
        *lt = nd;
        lt  = &nd->next;
      }
    }
    free(copy);
    rc = ports ? ares_set_servers_ports(G.channel, pn) : ares_set_servers(G.channel, ln);
    ev("%s rc=%d", ports ? "SETSERVERSP" : "SETSERVERSL", rc);
    while (ln) {
      struct ares_addr_node *nx = ln->next;
      free(ln);
      ln = nx;
    }
    while (pn) {
      struct ares_addr_port_node *nx = pn->next;
      free(pn);
      pn = nx;
    }
  } else if (strcmp(op, "setserverscsv") == 0) {
    int rc;
    if (argc != 2) {
      ev("BADOP args: %s", optext);
      goto done;
    }
    srv_add_csv(namearg(argv[1]));
    rc = ares_set_servers_csv(G.channel, namearg(argv[1]));
    ev("SETSERVERSCSV rc=%d", rc);
  } else if (strcmp(op, "getservers") == 0) {
    /* legacy ares_get_servers / ares_get_servers_ports */
    struct ares_addr_node      *ln = NULL;
    struct ares_addr_port_node *pn = NULL;
    int                         rc = ares_get_servers(G.channel, &ln);
    sb_t                        sb;
    char                        ip[64];
    sb_init(&sb);
    sb_printf(&sb, "GETSERVERS rc=%d list=[", rc);
    for (struct ares_addr_node *nd = ln; rc == ARES_SUCCESS && nd; nd = nd->next) {
      inet_ntop(nd->family, &nd->addr, ip, sizeof(ip));
      sb_printf(&sb, "%s%s", nd == ln ? "" : ",", ip);
    }
    sb_puts(&sb, "]");
    ev_sb(&sb);
    sb_free(&sb);
    ares_free_data(ln);
    rc = ares_get_servers_ports(G.channel, &pn);
    sb_init(&sb);
    sb_printf(&sb, "GETSERVERSP rc=%d list=[", rc);
    for (struct ares_addr_port_node *nd = pn; rc == ARES_SUCCESS && nd; nd = nd->next) {
      inet_ntop(nd->family, &nd->addr, ip, sizeof(ip));
      sb_printf(&sb, "%s%s/%d/%d", nd == pn ? "" : ",", ip, nd->udp_port, nd->tcp_port);
    }
    sb_puts(&sb, "]");
    ev_sb(&sb);
    sb_free(&sb);
    ares_free_data(pn);
  } else if (strcmp(op, "dup") == 0) {
    /* ares_dup, then destroy the copy */
    ares_channel_t *copy = NULL;
    int             rc   = ares_dup(&copy, G.channel);
    ev("DUP rc=%d", rc);
    if (rc == ARES_SUCCESS && copy != NULL) {
      ares_destroy(copy);
    }
  } else if (strcmp(op, "setsortlist") == 0) {
    int rc;
    if (argc != 2) {
      ev("BADOP args: %s", optext);
      goto done;
    }
    for (char *q = argv[1]; *q; q++) {
      if (*q == ',') {
        *q = ' ';
      }
    }
    rc = ares_set_sortlist(G.channel, namearg(argv[1]));
    ev("SETSORTLIST rc=%d", rc);
  } else if (strcmp(op, "setlocalip4") == 0) {
    struct in_addr a;
    if (argc != 2 || inet_pton(AF_INET, argv[1], &a) != 1) {
      ev("BADOP args: %s", optext);
      goto done;
    }
    ares_set_local_ip4(G.channel, ntohl(a.s_addr));
  } else if (strcmp(op, "setlocalip6") == 0) {
    struct in6_addr a;
    if (argc != 2 || inet_pton(AF_INET6, argv[1], &a) != 1) {
      ev("BADOP args: %s", optext);
      goto done;
    }
    ares_set_local_ip6(G.channel, (const unsigned char *)&a);
  } else if (strcmp(op, "setlocaldev") == 0) {
    if (argc != 2) {
      ev("BADOP args: %s", optext);
      goto done;
    }
    ares_set_local_dev(G.channel, namearg(argv[1]));
  } else if (strcmp(op, "tmo") == 0) {
    struct timeval  tv;
    struct timeval  maxtv;
    struct timeval *r;
    if (argc > 2 || (argc == 2 && (!parse_long(argv[1], &v) || v < 0))) {
      ev("BADOP args: %s", optext);
      goto done;
    }
    memset(&tv, 0, sizeof(tv));
    if (argc == 2) {
      maxtv.tv_sec  = v / 1000;
      maxtv.tv_usec = (v % 1000) * 1000;
    }
    r = ares_timeout(G.channel, argc == 2 ? &maxtv : NULL, &tv);
    if (r == NULL) {
      ev("TIMEOUT none");
    } else {
      long long us = (long long)r->tv_sec * 1000000 + r->tv_usec;
      ev("TIMEOUT %lld us=%lld%s", us / 1000, us,
         r == &maxtv ? " ret=max" : (r == &tv ? "" : " ret=?"));
    }
  } else if (strcmp(op, "proc") == 0) {
    op_proc(0, 0);
  } else if (strcmp(op, "procsel") == 0) {
    op_proc(1, 0);
  } else if (strcmp(op, "run") == 0) {
    long max = 200;
    long n   = 0;
    if (argc > 2 || (argc == 2 && (!parse_long(argv[1], &max) || max < 0 ||
                                   max > 100000))) {
      ev("BADOP args: %s", optext);
      goto done;
    }
    while (n < max && G.channel != NULL && op_proc(0, 1) > 0) {
      n++;
    }
    ev("RUN iterations=%ld%s", n, n == max ? " LIMIT" : "");
  } else if (strcmp(op, "runw") == 0) {
    long   max = 200;
    long   n   = 0;
    size_t i;
    sb_t   sb;
    int    first = 1;
    if (argc > 2 || (argc == 2 && (!parse_long(argv[1], &max) || max < 0 ||
                                   max > 100000))) {
      ev("BADOP args: %s", optext);
      goto done;
    }
    while (n < max && G.channel != NULL && op_procw() > 0) {
      n++;
    }
    /* sockets whose last asendto was short / blocked and that were not flushed since
     * (runw ends only when no watched socket is left, so these are not watched) */
    sb_init(&sb);
    sb_printf(&sb, "RUN iterations=%ld%s unwatched=[", n, n == max ? " LIMIT" : "");
    for (i = 0; i < G.nsocks; i++) {
      if (!G.socks[i].closed && G.socks[i].wr_short) {
        sb_printf(&sb, "%ss%zu", first ? "" : ",", i);
        first = 0;
      }
    }
    sb_putc(&sb, ']');
    ev_sb(&sb);
    sb_free(&sb);
  } else if (strcmp(op, "proct") == 0) {
    do_process(NULL, 0, NULL, 0, 0);
  } else if (strcmp(op, "procfd") == 0) {
    int rd[MAX_ARGS];
    int wr[MAX_ARGS];
    int nrd = 0, nwr = 0;
    int i;
    for (i = 1; i < argc; i++) {
      long k;
      if ((argv[i][0] != 'r' && argv[i][0] != 'w') ||
          !isdigit((unsigned char)argv[i][1]) ||
          !parse_long(argv[i] + 1, &k) || k < 0 || (size_t)k >= G.nsocks) {
        ev("BADOP args: %s", optext);
        goto done;
      }
      if (argv[i][0] == 'r') {
        rd[nrd++] = (int)k;
      } else {
        wr[nwr++]               = (int)k;
        G.socks[k].wr_event     = 0;
      }
    }
    do_process(rd, nrd, wr, nwr, 0);
  } else if (strcmp(op, "flushwrites") == 0) {
    ev("FLUSHWRITES begin");
    ares_process_pending_write(G.channel);
    ev("FLUSHWRITES end");
  } else if (strcmp(op, "fds") == 0) {
    op_fds();
  } else if (strcmp(op, "getsock") == 0) {
    op_getsock();
  } else if (strcmp(op, "qlen") == 0) {
    ev("QLEN %zu", ares_queue_active_queries(G.channel));
  } else if (strcmp(op, "servers") == 0) {
    char *csv = ares_get_servers_csv(G.channel);
    sb_t  sb;
    sb_init(&sb);
    sb_printf(&sb, "SERVERS %s", csv ? (csv[0] ? csv : "\"\"") : "-");
    ev_sb(&sb);
    sb_free(&sb);
    ares_free_string(csv);
  } else if (strcmp(op, "opts") == 0) {
    op_opts();
  } else if (strcmp(op, "effcfg") == 0) {
    op_effcfg();
  } else {
    ev("BADOP unknown: %s", optext);
  }
done:
  free(buf);
}

/* ------------------------------------------------------------------------- */
/* Case configuration and channel set-up                                      */
/* ------------------------------------------------------------------------- */
typedef struct {
  long        seed;
  long        servers;
  long        servers6;
  const char *csv;
  int         have_flags;
  int         flags;
  long        tries, timeout, maxtimeout, ndots, udpmaxq, qcachettl, udpsize;
  long        udpport, tcpport, sndbuf, rcvbuf;
  const char *domains;
  const char *lookups;
  const char *sysconf; /* comma list of "lookups","domains": left to the system configuration */
  long        rotate;
  int         have_failover;
  long        fo_chance, fo_delay;
  const char *sortlist;
  const char *hosts;
  const char *resolvconf;
  const char *localdomain;
  const char *resoptions;
  const char *hostaliases;
  const char *localip4;
  const char *localip6;
  const char *localdev;
  long        clock;
  long        failalloc;
  int         failalloc_after_init;
  long        sticky;
  long        allocstats;
  long        idseq;
} cfg_t;

static const struct {
  const char *name;
  int         bit;
} g_flagnames[] = {
  { "usevc",       ARES_FLAG_USEVC       },
  { "primary",     ARES_FLAG_PRIMARY     },
  { "igntc",       ARES_FLAG_IGNTC       },
  { "norecurse",   ARES_FLAG_NORECURSE   },
  { "stayopen",    ARES_FLAG_STAYOPEN    },
  { "nosearch",    ARES_FLAG_NOSEARCH    },
  { "noaliases",   ARES_FLAG_NOALIASES   },
  { "nocheckresp", ARES_FLAG_NOCHECKRESP },
  { "edns",        ARES_FLAG_EDNS        },
  { "nodfltsvr",   ARES_FLAG_NO_DFLT_SVR },
  { "dns0x20",     ARES_FLAG_DNS0x20     },
  { "noedns",      0                     },
  { "none",        0                     },
  { NULL,          0                     }
};

static int parse_flags(const char *s, int *out)
{
  char  buf[256];
  char *p;
  char *save = NULL;
  int   f    = 0;
  if (strlen(s) >= sizeof(buf)) {
    return 0;
  }
  strcpy(buf, s);
  for (p = strtok_r(buf, ",", &save); p != NULL;
       p = strtok_r(NULL, ",", &save)) {
    int  i;
    long v;
    for (i = 0; g_flagnames[i].name; i++) {
      if (strcmp(g_flagnames[i].name, p) == 0) {
        f |= g_flagnames[i].bit;
        break;
      }
    }
    if (g_flagnames[i].name == NULL) {
      if (parse_long(p, &v)) {
        f |= (int)v;
      } else {
        return 0;
      }
    }
  }
  *out = f;
  return 1;
}

static void cfg_defaults(cfg_t *c)
{
  memset(c, 0, sizeof(*c));
  c->seed    = 1;
  c->servers = 1;
  c->tries = c->timeout = c->maxtimeout = c->ndots = c->udpmaxq = -1;
  c->qcachettl = c->udpsize = c->udpport = c->tcpport = -1;
  c->sndbuf = c->rcvbuf = -1;
  c->lookups    = "b";
  c->hosts      = "/dev/null";
  c->resolvconf = "/dev/null";
  c->clock      = 1000000;
  c->idseq      = -1;
}

/* cfgtext is modified in place (values point into it) */
static void parse_config(char *cfgtext, cfg_t *c)
{
  char *argv[64];
  int   argc = split_args(cfgtext, argv, 64);
  int   i;
  if (argc < 0) {
    ev("BADCFG toomany");
    return;
  }
  for (i = 0; i < argc; i++) {
    char *k   = argv[i];
    char *val = strchr(k, '=');
    long  v   = 0;
    int   isnum;
    if (val == NULL) {
      ev("BADCFG %s", k);
      continue;
    }
    *val++ = 0;
    isnum  = parse_long(val, &v);
#define NUMKEY(name, field, lo, hi)                    \
  if (strcmp(k, name) == 0) {                          \
    if (!isnum || v < (lo) || v > (hi)) {              \
      ev("BADCFG %s=%s", k, val);                      \
    } else {                                           \
      c->field = v;                                    \
    }                                                  \
    continue;                                          \
  }
#define STRKEY(name, field)   \
  if (strcmp(k, name) == 0) { \
    c->field = val;           \
    continue;                 \
  }
    NUMKEY("seed", seed, 0, 0x7fffffffL)
    NUMKEY("servers", servers, 0, 32)
    NUMKEY("servers6", servers6, 0, 32)
    NUMKEY("tries", tries, -100, 1000000)
    NUMKEY("timeout", timeout, -100, 0x7fffffffL)
    NUMKEY("maxtimeout", maxtimeout, -100, 0x7fffffffL)
    NUMKEY("ndots", ndots, -100, 1000)
    NUMKEY("udpmaxq", udpmaxq, -100, 1000000)
    NUMKEY("qcachettl", qcachettl, 0, 0x7fffffffL)
    NUMKEY("udpsize", udpsize, -100, 1000000)
    NUMKEY("udpport", udpport, 0, 65535)
    NUMKEY("tcpport", tcpport, 0, 65535)
    NUMKEY("sndbuf", sndbuf, -100, 0x7fffffffL)
    NUMKEY("rcvbuf", rcvbuf, -100, 0x7fffffffL)
    NUMKEY("rotate", rotate, 0, 1)
    NUMKEY("clock", clock, 0, 0x7fffffffffffL)
    NUMKEY("failalloc", failalloc, 0, 0x7fffffffL)
    NUMKEY("failallocsticky", sticky, 0, 1)
    NUMKEY("allocstats", allocstats, 0, 1)
    NUMKEY("idseq", idseq, 0, 65535)
    if (strcmp(k, "writefile") == 0) {
      /* writefile=<path>:<hex>  file created before the channel is initialised */
      char *colon = strrchr(val, ':');
      if (colon == NULL) {
        ev("BADCFG %s", k);
      } else {
        *colon = 0;
        if (!sim_writefile(val, colon + 1)) {
          ev("BADCFG %s", k);
        }
      }
      continue;
    }
    STRKEY("csv", csv)
    STRKEY("domains", domains)
    STRKEY("lookups", lookups)
    STRKEY("sysconf", sysconf)
    STRKEY("sortlist", sortlist)
    STRKEY("hosts", hosts)
    STRKEY("resolvconf", resolvconf)
    STRKEY("localdomain", localdomain)
    STRKEY("resoptions", resoptions)
    STRKEY("hostaliases", hostaliases)
    STRKEY("localip4", localip4)
    STRKEY("localip6", localip6)
    STRKEY("localdev", localdev)
#undef NUMKEY
#undef STRKEY
    if (strcmp(k, "flags") == 0) {
      if (!parse_flags(val, &c->flags)) {
        ev("BADCFG %s=%s", k, val);
      } else {
        c->have_flags = 1;
      }
      continue;
    }
    if (strcmp(k, "failover") == 0) {
      char *comma = strchr(val, ',');
      long  a;
      long  b;
      if (comma == NULL) {
        ev("BADCFG %s=%s", k, val);
        continue;
      }
      *comma = 0;
      if (!parse_long(val, &a) || !parse_long(comma + 1, &b) || a < 0 ||
          a > 65535 || b < 0) {
        ev("BADCFG %s", k);
        continue;
      }
      c->have_failover = 1;
      c->fo_chance     = a;
      c->fo_delay      = b;
      continue;
    }
    if (strcmp(k, "failallocafter") == 0) {
      c->failalloc_after_init = strcmp(val, "init") == 0;
      continue;
    }
    if (strcmp(k, "sockstatecb") == 0 && isnum) {
      G.sockstatecb = v != 0;
      continue;
    }
    if (strcmp(k, "pendingwritecb") == 0 && isnum) {
      G.pendingwritecb = v != 0;
      continue;
    }
    if (strcmp(k, "serverstatecb") == 0 && isnum) {
      G.serverstatecb = v != 0;
      continue;
    }
    if (strcmp(k, "lctrace") == 0 && isnum) {
      G.lctrace = v != 0;
      continue;
    }
    if (strcmp(k, "tfo") == 0 && isnum) {
      G.tfo = v != 0;
      continue;
    }
    if (strcmp(k, "sockfuncs") == 0) {
      if (strcmp(val, "ex") == 0) {
        G.sockfuncs_mode = 0;
      } else if (strcmp(val, "nogsn") == 0) {
        G.sockfuncs_mode = 1;
      } else if (strcmp(val, "legacy") == 0) {
        G.sockfuncs_mode = 2;
      } else {
        ev("BADCFG %s", k);
      }
      continue;
    }
    if (strcmp(k, "qdump") == 0 && isnum) {
      G.qdump = v != 0;
      continue;
    }
    if (strcmp(k, "idlist") == 0) {
      char *save = NULL;
      char *t;
      int   bad = 0;
      G.nidlist = 0;
      for (t = strtok_r(val, ",", &save); t != NULL;
           t = strtok_r(NULL, ",", &save)) {
        long id;
        if (!parse_long(t, &id) || id < 0 || id > 65535 ||
            G.nidlist >= (int)(sizeof(G.idlist) / sizeof(G.idlist[0]))) {
          bad = 1;
          break;
        }
        G.idlist[G.nidlist++] = (unsigned short)id;
      }
      if (bad) {
        G.nidlist = 0;
        ev("BADCFG %s", k);
      }
      continue;
    }
    if (strcmp(k, "connectlater") == 0 && isnum) {
      G.connectlater = v != 0;
      continue;
    }
    if (strcmp(k, "chunk") == 0) {
      if (!parse_pat(val, G.def_chunk, &G.def_nchunk)) {
        ev("BADCFG %s=%s", k, val);
      }
      continue;
    }
    if (strcmp(k, "wpat") == 0) {
      if (!parse_pat(val, G.def_wpat, &G.def_nwpat)) {
        ev("BADCFG %s=%s", k, val);
      }
      continue;
    }
    ev("BADCFG %s=%s", k, val);
  }
}

static void env_set(const char *name, const char *val, int commas_to_spaces)
{
  if (val == NULL) {
    unsetenv(name);
  } else {
    char *v = xstrdup(val);
    if (commas_to_spaces) {
      char *q;
      for (q = v; *q; q++) {
        if (*q == ',') {
          *q = ' ';
        }
      }
    }
    setenv(name, v, 1);
    free(v);
  }
}

static void init_channel(const cfg_t *c)
{
  struct ares_options o;
  int                 mask = 0;
  struct in_addr      v4[32];
  char               *domains[32];
  char               *dombuf = NULL;
  int                 rc;
  long                i;
  char                csv[2048];
  int                 use_csv = 0;

  memset(&o, 0, sizeof(o));
  csv[0] = 0;

  /* servers */
  if (c->csv != NULL) {
    snprintf(csv, sizeof(csv), "%s", namearg(c->csv));
    use_csv = 1;
    srv_add_csv(csv);
  } else {
    size_t off = 0;
    for (i = 0; i < c->servers; i++) {
      char a[32];
      snprintf(a, sizeof(a), "10.0.0.%ld", i + 1);
      inet_pton(AF_INET, a, &v4[i]);
      srv_add(a);
      off += (size_t)snprintf(csv + off, sizeof(csv) - off, "%s%s",
                              off ? "," : "", a);
    }
    for (i = 0; i < c->servers6; i++) {
      char a[48];
      snprintf(a, sizeof(a), "fd00::%lx", (unsigned long)(i + 1));
      srv_add(a);
      off += (size_t)snprintf(csv + off, sizeof(csv) - off, "%s[%s]",
                              off ? "," : "", a);
      use_csv = 1;
    }
  }
  if (!use_csv && c->servers > 0) {
    o.servers   = v4;
    o.nservers  = (int)c->servers;
    mask       |= ARES_OPT_SERVERS;
  }
  if (c->have_flags) {
    o.flags  = c->flags;
    mask    |= ARES_OPT_FLAGS;
  }
#define OPTNUM(field, cfgfield, bit) \
  if (c->cfgfield != -1) {           \
    o.field  = (int)c->cfgfield;     \
    mask    |= (bit);                \
  }
  OPTNUM(tries, tries, ARES_OPT_TRIES)
  OPTNUM(timeout, timeout, ARES_OPT_TIMEOUTMS)
  OPTNUM(maxtimeout, maxtimeout, ARES_OPT_MAXTIMEOUTMS)
  OPTNUM(ndots, ndots, ARES_OPT_NDOTS)
  OPTNUM(udp_max_queries, udpmaxq, ARES_OPT_UDP_MAX_QUERIES)
  OPTNUM(ednspsz, udpsize, ARES_OPT_EDNSPSZ)
  OPTNUM(socket_send_buffer_size, sndbuf, ARES_OPT_SOCK_SNDBUF)
  OPTNUM(socket_receive_buffer_size, rcvbuf, ARES_OPT_SOCK_RCVBUF)
#undef OPTNUM
  if (c->udpport != -1) {
    o.udp_port  = (unsigned short)c->udpport;
    mask       |= ARES_OPT_UDP_PORT;
  }
  if (c->tcpport != -1) {
    o.tcp_port  = (unsigned short)c->tcpport;
    mask       |= ARES_OPT_TCP_PORT;
  }
  if (c->qcachettl != -1) {
    o.qcache_max_ttl  = (unsigned int)c->qcachettl;
    mask             |= ARES_OPT_QUERY_CACHE;
  }
  mask |= c->rotate ? ARES_OPT_ROTATE : ARES_OPT_NOROTATE;
  /* domains: always given so that nothing is derived from the host name */
  o.ndomains = 0;
  o.domains  = domains;
  if (c->domains != NULL && strcmp(c->domains, "-") != 0) {
    char *p;
    char *save = NULL;
    dombuf     = xstrdup(c->domains);
    for (p = strtok_r(dombuf, ",", &save); p != NULL && o.ndomains < 32;
         p = strtok_r(NULL, ",", &save)) {
      domains[o.ndomains++] = p;
    }
  }
  mask            |= ARES_OPT_DOMAINS;
  o.lookups        = (char *)c->lookups;
  mask            |= ARES_OPT_LOOKUPS;
  /* sysconf=lookups,domains: these come from the resolv.conf named by resolvconf= (lookup / search
   * lines) instead, at ares_init_options and again at every ares_reinit */
  if (c->sysconf != NULL) {
    if (strstr(c->sysconf, "lookups") != NULL) {
      mask &= ~ARES_OPT_LOOKUPS;
    }
    if (strstr(c->sysconf, "domains") != NULL) {
      mask &= ~ARES_OPT_DOMAINS;
    }
  }
  o.resolvconf_path = (char *)c->resolvconf;
  mask            |= ARES_OPT_RESOLVCONF;
  o.hosts_path     = (char *)c->hosts;
  mask            |= ARES_OPT_HOSTS_FILE;
  if (c->have_failover) {
    o.server_failover_opts.retry_chance = (unsigned short)c->fo_chance;
    o.server_failover_opts.retry_delay  = (size_t)c->fo_delay;
    mask                               |= ARES_OPT_SERVER_FAILOVER;
  }
  if (G.sockstatecb) {
    o.sock_state_cb       = cb_sockstate;
    o.sock_state_cb_data  = NULL;
    mask                 |= ARES_OPT_SOCK_STATE_CB;
  }

  if (c->failalloc > 0 && !c->failalloc_after_init) {
    g_alloc_failat = c->failalloc;
  }
  g_alloc_active = 1;
  rc             = ares_init_options(&G.channel, &o, mask);
  free(dombuf);
  if (rc != ARES_SUCCESS) {
    G.channel     = NULL;
    G.init_failed = 1;
    ev("INIT rc=%d", rc);
    return;
  }
  if (G.sockfuncs_mode == 2) {
    ares_set_socket_functions(G.channel, &g_sockfuncs_legacy, NULL);
    rc = ARES_SUCCESS;
  } else {
    rc = (int)ares_set_socket_functions_ex(
      G.channel, G.sockfuncs_mode == 1 ? &g_sockfuncs_nogsn : &g_sockfuncs, NULL);
  }
  if (rc != ARES_SUCCESS) {
    ev("SETSOCKFUNCS rc=%d", rc);
  }
  if (use_csv) {
    rc = ares_set_servers_ports_csv(G.channel, csv);
    if (rc != ARES_SUCCESS) {
      ev("SETSERVERS rc=%d", rc);
    }
  }
  if (c->sortlist != NULL) {
    char *sl = xstrdup(c->sortlist);
    char *q;
    for (q = sl; *q; q++) {
      if (*q == ',') {
        *q = ' ';
      }
    }
    rc = ares_set_sortlist(G.channel, sl);
    free(sl);
    if (rc != ARES_SUCCESS) {
      ev("SETSORTLIST rc=%d", rc);
    }
  }
  if (c->localip4 != NULL) {
    struct in_addr a;
    if (inet_pton(AF_INET, c->localip4, &a) == 1) {
      ares_set_local_ip4(G.channel, ntohl(a.s_addr));
    } else {
      ev("BADCFG localip4");
    }
  }
  if (c->localip6 != NULL) {
    struct in6_addr a;
    if (inet_pton(AF_INET6, c->localip6, &a) == 1) {
      ares_set_local_ip6(G.channel, (const unsigned char *)&a);
    } else {
      ev("BADCFG localip6");
    }
  }
  if (c->localdev != NULL) {
    ares_set_local_dev(G.channel, c->localdev);
  }
  if (G.pendingwritecb) {
    ares_set_pending_write_cb(G.channel, cb_pendingwrite, NULL);
  }
  if (G.serverstatecb) {
    ares_set_server_state_callback(G.channel, cb_serverstate, NULL);
  }
  ev("INIT rc=0");
  if (c->failalloc > 0 && c->failalloc_after_init) {
    g_alloc_count  = 0;
    g_alloc_failat = c->failalloc;
  }
}

/* ------------------------------------------------------------------------- */
/* Case runner                                                                */
/* ------------------------------------------------------------------------- */
void sim_global_init(void)
{
  setvbuf(stdout, NULL, _IOLBF, 0);
  unsetenv("LOCALDOMAIN");
  unsetenv("RES_OPTIONS");
  unsetenv("HOSTALIASES");
  unsetenv("CARES_HOSTS");
  ares_library_init_mem(ARES_LIB_INIT_ALL, sim_malloc, sim_free, sim_realloc);
}

void sim_global_cleanup(void)
{
  ares_library_cleanup();
}

void sim_run_case(long idx, const char *line)
{
  char  *copy = xstrdup(line);
  char  *ops;
  char  *p;
  cfg_t  cfg;
  size_t i;
  long   base_blocks;
  long   base_bytes;
  sb_t   sb;
  int    first;
  size_t l;

  g_case = idx;
  memset(&G, 0, sizeof(G));
  g_alloc_active = 0;
  g_alloc_exempt = 0;
  g_alloc_count  = 0;
  g_alloc_failat = 0;
  g_alloc_sticky = 0;
  base_blocks    = g_live_blocks;
  base_bytes     = g_live_bytes;

  l = strlen(copy);
  while (l > 0 && (copy[l - 1] == '\n' || copy[l - 1] == '\r')) {
    copy[--l] = 0;
  }
  ops = strchr(copy, '|');
  if (ops != NULL) {
    *ops++ = 0;
  } else {
    ops = copy + l;
  }

  cfg_defaults(&cfg);
  parse_config(copy, &cfg);
  cfg.resolvconf = sim_path(cfg.resolvconf);
  cfg.hosts      = sim_path(cfg.hosts);
  G.rng = (ares_uint64_t)cfg.seed * 0x9E3779B97F4A7C15ULL;
  if (G.rng == 0) {
    G.rng = 0x9E3779B97F4A7C15ULL;
  }
  G.idseq  = cfg.idseq;
  G.now_us = (ares_int64_t)cfg.clock * 1000;
  g_alloc_sticky = (int)cfg.sticky;
  G.alloc_report = cfg.failalloc > 0 || cfg.allocstats;
  env_set("LOCALDOMAIN", cfg.localdomain, 1);
  env_set("RES_OPTIONS", cfg.resoptions, 1);
  env_set("HOSTALIASES", cfg.hostaliases, 0);

  init_channel(&cfg);

  p = ops;
  while (p != NULL && *p) {
    char *semi = strchr(p, ';');
    char *q;
    if (semi != NULL) {
      *semi = 0;
    }
    /* trim */
    while (*p == ' ' || *p == '\t') {
      p++;
    }
    q = p + strlen(p);
    while (q > p && (q[-1] == ' ' || q[-1] == '\t')) {
      *--q = 0;
    }
    if (*p) {
      ev("OP %zu %s", G.opno, p);
      exec_op(p, 0);
      qstate_dump();
      G.opno++;
    }
    p = semi ? semi + 1 : NULL;
  }

  if (G.channel != NULL) {
    do_destroy("auto");
  }
  g_alloc_failat = 0;

  sb_init(&sb);
  sb_puts(&sb, "ENDSTATE open_sockets=[");
  first = 1;
  for (i = 0; i < G.nsocks; i++) {
    if (!G.socks[i].closed) {
      sb_printf(&sb, "%ss%zu", first ? "" : ",", i);
      first = 0;
    }
  }
  sb_puts(&sb, "] pending_tokens=[");
  first = 1;
  for (i = 0; i < MAX_TOK; i++) {
    if (G.tok[i].nreq > G.tok[i].ncb) {
      sb_printf(&sb, "%st%zu", first ? "" : ",", i);
      first = 0;
    }
  }
  sb_printf(&sb, "] cb_dups=%d sockets=%zu tx=%zu", G.cb_dups, G.nsocks, G.ntx);
  ev_sb(&sb);
  sb_free(&sb);

  g_alloc_active = 0;
  if (G.alloc_report) {
    ev("ALLOCS total=%ld live=%ld/%ld", g_alloc_count,
       g_live_bytes - base_bytes, g_live_blocks - base_blocks);
  }

  /* release simulator state */
  for (i = 0; i < G.nsocks; i++) {
    sock_free_bufs(&G.socks[i]);
  }
  free(G.socks);
  for (i = 0; i < G.ntx; i++) {
    free(G.tx[i].msg);
  }
  free(G.tx);
  for (i = 0; i < MAX_TOK; i++) {
    int j;
    for (j = 0; j < G.tok[i].noncb; j++) {
      free(G.tok[i].oncb[j]);
    }
  }
  unsetenv("LOCALDOMAIN");
  unsetenv("RES_OPTIONS");
  unsetenv("HOSTALIASES");
  sim_removefiles();
  free(G.qdump_last);
  free(copy);
  memset(&G, 0, sizeof(G));
}
