/* Implementation-side driver for the query cache engine (C08).
 *
 * A REAL channel (ares_init_options with ARES_OPT_QUERY_CACHE, one configured server, no sockets
 * are ever opened) whose internal ares_qcache_insert() / ares_qcache_fetch() are called directly
 * with explicit timestamps (both take `now` as a parameter; no clock wrapping is needed).
 *
 * case:  qc max=<max_ttl>|op;op;...
 *   ins t=<sec> id=<n> req=<REQ> rc=<rcode> tc=<0|1> rr=<RR>,<RR>,...   (rr=- for none)
 *   fetch t=<sec> req=<REQ>
 *   flush                    ares_qcache_flush()
 *   servers <A|B|C>          ares_set_servers_csv() with one of three fixed lists
 *   set api=<csv|pcsv|nodes|pnodes> list=<item,item,..|->
 *                            ares_set_servers_csv / ares_set_servers_ports_csv (items as written, e.g.
 *                            10.0.0.1, [fd00::1], 10.0.0.1:5353) / ares_set_servers (items = addresses)
 *                            / ares_set_servers_ports (items = addr/udp/tcp)
 *                            prints "X rc=<n> srv=<addr/udp/tcp/idx,..>" (channel->servers in list order)
 * head keys: max=<max_ttl> udp=<channel udp port> tcp=<channel tcp port> primary=<0|1>
 * first output line of a case: "<k> R init srv=..."
 *   reinit                   ares_reinit() + join of the reinit thread
 *   REQ = <opcode>/<flags>/<qtype>:<qclass>:<name>[+<qtype>:<qclass>:<name>]   flags: letters r(d) c(d) a(d) -
 *         name "@" = empty string, names may end in '.'
 *   RR  = <sect><type>:<ttl>[:<soa minimum>]      sect: n(answer) a(uthority) d(additional)
 *         type: A NS CNAME SOA TXT OPT SIG AAAA
 * output: one line per op
 *   "<k> R <i> I st=<status>"
 *   "<k> R <i> F st=<status>"  and on a hit " id=<n> rc=<rcode> tc=<b> ttl=<getter>/<written>,..."
 *   "<k> R <i> X"  (flush / servers / reinit)
 */
#include "ares_private.h"
#include "drv_common.h"

static const char *srvlists[3] = { "127.0.0.1", "127.0.0.2", "127.0.0.1,127.0.0.3" };

static const char *field(char *step, const char *key, char *buf, size_t buflen)
{
  size_t klen = strlen(key);
  char  *p    = step;
  while ((p = strstr(p, key)) != NULL) {
    if ((p == step || p[-1] == ' ') && p[klen] == '=') {
      size_t i = 0;
      p += klen + 1;
      while (*p && *p != ' ' && i + 1 < buflen) buf[i++] = *p++;
      buf[i] = 0;
      return buf;
    }
    p += klen;
  }
  buf[0] = 0;
  return NULL;
}

static ares_dns_record_t *mkreq(const char *spec)
{
  char               tmp[1024];
  char              *opc, *fl, *qs, *save = NULL, *q;
  unsigned short     flags = 0;
  ares_dns_record_t *rec   = NULL;
  snprintf(tmp, sizeof tmp, "%s", spec);
  opc = tmp;
  fl  = strchr(opc, '/');
  if (!fl) return NULL;
  *fl++ = 0;
  qs    = strchr(fl, '/');
  if (!qs) return NULL;
  *qs++ = 0;
  if (strchr(fl, 'r')) flags |= ARES_FLAG_RD;
  if (strchr(fl, 'c')) flags |= ARES_FLAG_CD;
  if (strchr(fl, 'a')) flags |= ARES_FLAG_AD;
  if (ares_dns_record_create(&rec, 0, flags, (ares_dns_opcode_t)atoi(opc), ARES_RCODE_NOERROR) != ARES_SUCCESS) return NULL;
  if (strcmp(qs, "-") == 0) return rec;
  for (q = strtok_r(qs, "+", &save); q; q = strtok_r(NULL, "+", &save)) {
    char *c1 = strchr(q, ':'), *c2;
    if (!c1) { ares_dns_record_destroy(rec); return NULL; }
    *c1++ = 0;
    c2    = strchr(c1, ':');
    if (!c2) { ares_dns_record_destroy(rec); return NULL; }
    *c2++ = 0;
    if (strcmp(c2, "@") == 0) c2 = "";
    if (ares_dns_record_query_add(rec, c2, (ares_dns_rec_type_t)atoi(q), (ares_dns_class_t)atoi(c1)) != ARES_SUCCESS) {
      ares_dns_record_destroy(rec);
      return NULL;
    }
  }
  return rec;
}

static ares_status_t add_rr(ares_dns_record_t *rec, char *spec)
{
  ares_dns_section_t  sect;
  ares_dns_rec_type_t type;
  ares_dns_rr_t      *rr = NULL;
  char               *c1, *c2;
  unsigned int        ttl, minimum = 0;
  ares_status_t       st;
  struct in_addr      a4;
  struct ares_in6_addr a6;
  switch (spec[0]) {
    case 'n': sect = ARES_SECTION_ANSWER; break;
    case 'a': sect = ARES_SECTION_AUTHORITY; break;
    case 'd': sect = ARES_SECTION_ADDITIONAL; break;
    default: return ARES_EFORMERR;
  }
  c1 = strchr(spec, ':');
  if (!c1) return ARES_EFORMERR;
  *c1++ = 0;
  c2    = strchr(c1, ':');
  if (c2) { *c2++ = 0; minimum = (unsigned int)strtoul(c2, NULL, 10); }
  ttl = (unsigned int)strtoul(c1, NULL, 10);
  if (!ares_dns_rec_type_fromstr(&type, spec + 1)) return ARES_EFORMERR;
  st = ares_dns_record_rr_add(&rr, rec, sect, type == ARES_REC_TYPE_OPT ? "" : "example.com", type,
                              ARES_CLASS_IN, ttl);
  if (st != ARES_SUCCESS) return st;
  switch (type) {
    case ARES_REC_TYPE_A:
      a4.s_addr = htonl(0x01020304);
      return ares_dns_rr_set_addr(rr, ARES_RR_A_ADDR, &a4);
    case ARES_REC_TYPE_AAAA:
      memset(&a6, 1, sizeof a6);
      return ares_dns_rr_set_addr6(rr, ARES_RR_AAAA_ADDR, &a6);
    case ARES_REC_TYPE_NS:
      return ares_dns_rr_set_str(rr, ARES_RR_NS_NSDNAME, "ns.example.com");
    case ARES_REC_TYPE_CNAME:
      return ares_dns_rr_set_str(rr, ARES_RR_CNAME_CNAME, "c.example.com");
    case ARES_REC_TYPE_TXT:
      return ares_dns_rr_add_abin(rr, ARES_RR_TXT_DATA, (const unsigned char *)"x", 1);
    case ARES_REC_TYPE_SOA:
      ares_dns_rr_set_str(rr, ARES_RR_SOA_MNAME, "m.example.com");
      ares_dns_rr_set_str(rr, ARES_RR_SOA_RNAME, "r.example.com");
      ares_dns_rr_set_u32(rr, ARES_RR_SOA_SERIAL, 1);
      ares_dns_rr_set_u32(rr, ARES_RR_SOA_REFRESH, 2);
      ares_dns_rr_set_u32(rr, ARES_RR_SOA_RETRY, 3);
      ares_dns_rr_set_u32(rr, ARES_RR_SOA_EXPIRE, 4);
      return ares_dns_rr_set_u32(rr, ARES_RR_SOA_MINIMUM, minimum);
    case ARES_REC_TYPE_OPT:
      ares_dns_rr_set_u16(rr, ARES_RR_OPT_UDP_SIZE, 1232);
      ares_dns_rr_set_u8(rr, ARES_RR_OPT_VERSION, 0);
      return ares_dns_rr_set_u16(rr, ARES_RR_OPT_FLAGS, 0);
    case ARES_REC_TYPE_SIG:
      ares_dns_rr_set_u16(rr, ARES_RR_SIG_TYPE_COVERED, 1);
      ares_dns_rr_set_u8(rr, ARES_RR_SIG_ALGORITHM, 1);
      ares_dns_rr_set_u8(rr, ARES_RR_SIG_LABELS, 2);
      ares_dns_rr_set_u32(rr, ARES_RR_SIG_ORIGINAL_TTL, 5);
      ares_dns_rr_set_u32(rr, ARES_RR_SIG_EXPIRATION, 6);
      ares_dns_rr_set_u32(rr, ARES_RR_SIG_INCEPTION, 7);
      ares_dns_rr_set_u16(rr, ARES_RR_SIG_KEY_TAG, 8);
      ares_dns_rr_set_str(rr, ARES_RR_SIG_SIGNERS_NAME, "s.example.com");
      return ares_dns_rr_set_bin(rr, ARES_RR_SIG_SIGNATURE, (const unsigned char *)"sig", 3);
    default:
      return ARES_EFORMERR;
  }
}

static ares_dns_record_t *mkresp(unsigned short id, unsigned rcode, int tc, char *rrs)
{
  ares_dns_record_t *rec = NULL, *dup;
  char              *save = NULL, *r;
  if (ares_dns_record_create(&rec, id, (unsigned short)(ARES_FLAG_QR | ARES_FLAG_RD | ARES_FLAG_RA | (tc ? ARES_FLAG_TC : 0)),
                             ARES_OPCODE_QUERY, (ares_dns_rcode_t)rcode) != ARES_SUCCESS) return NULL;
  ares_dns_record_query_add(rec, "example.com", ARES_REC_TYPE_A, ARES_CLASS_IN);
  if (strcmp(rrs, "-") != 0) {
    for (r = strtok_r(rrs, ",", &save); r; r = strtok_r(NULL, ",", &save)) {
      if (add_rr(rec, r) != ARES_SUCCESS) { ares_dns_record_destroy(rec); return NULL; }
    }
  }
  /* as received from the network: through the writer and the parser */
  dup = ares_dns_record_duplicate(rec);
  ares_dns_record_destroy(rec);
  return dup;
}

static void print_hit(const ares_dns_record_t *resp)
{
  unsigned char     *buf = NULL;
  size_t             len = 0, i;
  int                s, first = 1;
  ares_dns_record_t *copy = NULL;
  printf(" id=%u rc=%d tc=%d ttl=", (unsigned)ares_dns_record_get_id(resp), (int)ares_dns_record_get_rcode(resp),
         (ares_dns_record_get_flags(resp) & ARES_FLAG_TC) ? 1 : 0);
  if (ares_dns_write(resp, &buf, &len) == ARES_SUCCESS) ares_dns_parse(buf, len, 0, &copy);
  for (s = ARES_SECTION_ANSWER; s <= ARES_SECTION_ADDITIONAL; s++) {
    for (i = 0; i < ares_dns_record_rr_cnt(resp, (ares_dns_section_t)s); i++) {
      const ares_dns_rr_t *rr  = ares_dns_record_rr_get_const(resp, (ares_dns_section_t)s, i);
      const ares_dns_rr_t *rr2 = copy ? ares_dns_record_rr_get_const(copy, (ares_dns_section_t)s, i) : NULL;
      printf("%s%s:%u/", first ? "" : ",", ares_dns_rec_type_tostr(ares_dns_rr_get_type(rr)), ares_dns_rr_get_ttl(rr));
      if (rr2) printf("%u", ares_dns_rr_get_ttl(rr2)); else printf("?");
      first = 0;
    }
  }
  if (first) printf("-");
  ares_free_string(buf);
  ares_dns_record_destroy(copy);
}

static void dump_servers(ares_channel_t *channel)
{
  ares_slist_node_t *node;
  int                first = 1;
  printf("srv=");
  for (node = ares_slist_node_first(channel->servers); node != NULL; node = ares_slist_node_next(node)) {
    const ares_server_t *sv = ares_slist_node_val(node);
    char                 a[INET6_ADDRSTRLEN];
    ares_inet_ntop(sv->addr.family, &sv->addr.addr, a, sizeof a);
    printf("%s%s/%u/%u/%zu", first ? "" : ",", a, (unsigned)sv->udp_port, (unsigned)sv->tcp_port, sv->idx);
    first = 0;
  }
  if (first) printf("-");
}

static int set_nodes(ares_channel_t *channel, char *list, int with_ports)
{
  struct ares_addr_node      an[16];
  struct ares_addr_port_node pn[16];
  int                        n = 0, rc;
  char                      *save = NULL, *it;
  memset(an, 0, sizeof an);
  memset(pn, 0, sizeof pn);
  if (strcmp(list, "-") != 0) {
    for (it = strtok_r(list, ",", &save); it && n < 16; it = strtok_r(NULL, ",", &save)) {
      int   udp = 0, tcp = 0;
      char *sl = strchr(it, '/');
      if (sl) {
        *sl = 0;
        sscanf(sl + 1, "%d/%d", &udp, &tcp);
      }
      if (strchr(it, ':')) {
        an[n].family = pn[n].family = AF_INET6;
        if (ares_inet_pton(AF_INET6, it, &an[n].addr.addr6) != 1) return -1;
        memcpy(&pn[n].addr.addr6, &an[n].addr.addr6, sizeof pn[n].addr.addr6);
      } else {
        an[n].family = pn[n].family = AF_INET;
        if (ares_inet_pton(AF_INET, it, &an[n].addr.addr4) != 1) return -1;
        memcpy(&pn[n].addr.addr4, &an[n].addr.addr4, sizeof pn[n].addr.addr4);
      }
      pn[n].udp_port = udp;
      pn[n].tcp_port = tcp;
      if (n > 0) {
        an[n - 1].next = &an[n];
        pn[n - 1].next = &pn[n];
      }
      n++;
    }
  }
  if (with_ports) rc = ares_set_servers_ports(channel, n ? pn : NULL);
  else rc = ares_set_servers(channel, n ? an : NULL);
  return rc;
}

static void run_case(long k, char *line)
{
  ares_channel_t     *channel = NULL;
  struct ares_options opts;
  int                 optmask;
  struct in_addr      srv;
  char               *bar = strchr(line, '|');
  char               *save = NULL, *step;
  char                b1[64];
  int                 stepno = 0, cur = 0;
  if (!bar) { printf("%ld R BADCASE\n", k); return; }
  *bar = 0;
  memset(&opts, 0, sizeof opts);
  opts.qcache_max_ttl = field(line, "max", b1, sizeof b1) ? (unsigned int)strtoul(b1, NULL, 10) : 3600;
  srv.s_addr          = htonl(0x7f000001);
  opts.servers        = &srv;
  opts.nservers       = 1;
  opts.lookups        = (char *)"b";
  opts.flags          = ARES_FLAG_NOSEARCH | ARES_FLAG_NOALIASES;
  optmask             = ARES_OPT_QUERY_CACHE | ARES_OPT_SERVERS | ARES_OPT_LOOKUPS | ARES_OPT_FLAGS;
  if (field(line, "primary", b1, sizeof b1) && atoi(b1)) opts.flags |= ARES_FLAG_PRIMARY;
  if (field(line, "udp", b1, sizeof b1) && atoi(b1)) { opts.udp_port = (unsigned short)atoi(b1); optmask |= ARES_OPT_UDP_PORT; }
  if (field(line, "tcp", b1, sizeof b1) && atoi(b1)) { opts.tcp_port = (unsigned short)atoi(b1); optmask |= ARES_OPT_TCP_PORT; }
  if (ares_init_options(&channel, &opts, optmask) != ARES_SUCCESS) { printf("%ld R INITFAIL\n", k); return; }
  printf("%ld R init ", k);
  dump_servers(channel);
  printf("\n");

  for (step = strtok_r(bar + 1, ";", &save); step; step = strtok_r(NULL, ";", &save), stepno++) {
    char           b2[1024], b3[64], b4[64], b5[64], b6[2048];
    ares_timeval_t now;
    now.sec  = 0;
    now.usec = 0;
    if (strncmp(step, "ins ", 4) == 0) {
      ares_dns_record_t *req, *resp;
      ares_query_t       q;
      ares_status_t      st;
      if (!field(step, "t", b1, sizeof b1) || !field(step, "req", b2, sizeof b2) || !field(step, "rc", b3, sizeof b3) ||
          !field(step, "tc", b4, sizeof b4) || !field(step, "id", b5, sizeof b5) || !field(step, "rr", b6, sizeof b6)) {
        printf("%ld R %d BADOP\n", k, stepno);
        continue;
      }
      now.sec = strtoll(b1, NULL, 10);
      req     = mkreq(b2);
      resp    = req ? mkresp((unsigned short)atoi(b5), (unsigned)atoi(b3), atoi(b4), b6) : NULL;
      if (!req || !resp) {
        printf("%ld R %d BADREC\n", k, stepno);
        ares_dns_record_destroy(req);
        ares_dns_record_destroy(resp);
        continue;
      }
      memset(&q, 0, sizeof q);
      q.channel = channel;
      q.query   = req;
      st        = ares_qcache_insert(channel, &now, &q, resp);
      if (st != ARES_SUCCESS) ares_dns_record_destroy(resp);
      ares_dns_record_destroy(req);
      printf("%ld R %d I st=%d\n", k, stepno, (int)st);
    } else if (strncmp(step, "fetch ", 6) == 0) {
      ares_dns_record_t       *req;
      const ares_dns_record_t *resp = NULL;
      ares_status_t            st;
      if (!field(step, "t", b1, sizeof b1) || !field(step, "req", b2, sizeof b2)) { printf("%ld R %d BADOP\n", k, stepno); continue; }
      now.sec = strtoll(b1, NULL, 10);
      req     = mkreq(b2);
      if (!req) { printf("%ld R %d BADREC\n", k, stepno); continue; }
      st = ares_qcache_fetch(channel, &now, req, &resp);
      printf("%ld R %d F st=%d", k, stepno, (int)st);
      if (st == ARES_SUCCESS && resp) print_hit(resp);
      printf("\n");
      ares_dns_record_destroy(req);
    } else if (strcmp(step, "flush") == 0) {
      ares_qcache_flush(channel->qcache);
      printf("%ld R %d X\n", k, stepno);
    } else if (strncmp(step, "servers ", 8) == 0 && step[8] >= 'A' && step[8] <= 'C') {
      int st = ares_set_servers_csv(channel, srvlists[step[8] - 'A']);
      cur    = step[8] - 'A';
      (void)cur;
      printf("%ld R %d X%s\n", k, stepno, st == ARES_SUCCESS ? "" : "fail");
    } else if (strncmp(step, "set ", 4) == 0) {
      int rc = -99;
      if (!field(step, "api", b1, sizeof b1) || !field(step, "list", b6, sizeof b6)) { printf("%ld R %d BADOP\n", k, stepno); continue; }
      if (strcmp(b1, "csv") == 0) rc = ares_set_servers_csv(channel, strcmp(b6, "-") ? b6 : "");
      else if (strcmp(b1, "pcsv") == 0) rc = ares_set_servers_ports_csv(channel, strcmp(b6, "-") ? b6 : "");
      else if (strcmp(b1, "nodes") == 0) rc = set_nodes(channel, b6, 0);
      else if (strcmp(b1, "pnodes") == 0) rc = set_nodes(channel, b6, 1);
      printf("%ld R %d X rc=%d ", k, stepno, rc);
      dump_servers(channel);
      printf("\n");
    } else if (strcmp(step, "reinit") == 0) {
      int st = ares_reinit(channel);
      if (channel->reinit_thread != NULL) {
        void *rv;
        ares_thread_join(channel->reinit_thread, &rv);
        channel->reinit_thread = NULL;
      }
      printf("%ld R %d X%s\n", k, stepno, st == ARES_SUCCESS ? "" : "fail");
    } else {
      printf("%ld R %d BADOP\n", k, stepno);
    }
  }
  ares_destroy(channel);
}

int main(int argc, char **argv)
{
  int rc;
  ares_library_init(ARES_LIB_INIT_ALL);
  rc = drv_main(argc, argv, run_case);
  ares_library_cleanup();
  return rc;
}
