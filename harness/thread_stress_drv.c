/* Thread-stress engine (C11): N client threads hammer one channel that has a live event
 * thread (and its configuration-reload machinery), against a mock DNS server on loopback.
 * Built with ThreadSanitizer (variant "tsan"); a TSan report aborts the case with exit code 96.
 *
 * case: evsys=<epoll|poll|select> threads=<n> ops=<n per thread> seed=<n> yield=<0|1>|
 * output: "<k> R issued=<n> cbs=<n> dup=<n> missing=<n> waitempty=<rc>:<outstanding-after> late=<0|1> lostwake=<n>"
 *   lostwake:    number of the additional concurrent waiter threads (waiters=<n>, default 3) that
 *                were not released with ARES_SUCCESS although the queue drained
 *   dup/missing: requests whose callback fired more than once / never (before destroy returned)
 *   waitempty:   ares_queue_wait_empty() result and the number of requests still outstanding
 *                when it returned success (must be 0)
 */
#include "ares_private.h"
#include "drv_common.h"
#include <pthread.h>
#include <arpa/inet.h>
#include <netinet/in.h>
#include <sys/socket.h>
#include <sys/time.h>
#include <unistd.h>
#include <poll.h>
#include <errno.h>

#define MAXTOK 64
#define SLACK_MS 400

static int             srv_fd   = -1;
static unsigned short  srv_port = 0;
static pthread_t       srv_thr;
static int    srv_stop = 0;

static long now_ms(void)
{
  struct timespec ts;
  clock_gettime(CLOCK_MONOTONIC, &ts);
  return (long)(ts.tv_sec * 1000L + ts.tv_nsec / 1000000L);
}

static void *server_main(void *arg)
{
  unsigned char buf[1500];
  (void)arg;
  while (!__atomic_load_n(&srv_stop, __ATOMIC_ACQUIRE)) {
    struct sockaddr_in from;
    socklen_t          fl = sizeof(from);
    struct pollfd      p;
    ssize_t            n;
    p.fd     = srv_fd;
    p.events = POLLIN;
    if (poll(&p, 1, 50) <= 0) continue;
    n = recvfrom(srv_fd, buf, sizeof(buf), 0, (struct sockaddr *)&from, &fl);
    if (n < 12) continue;
    {
      ares_dns_record_t *req = NULL, *resp = NULL;
      const char        *name = NULL;
      ares_dns_rec_type_t qt;
      ares_dns_class_t    qc;
      unsigned char      *out = NULL;
      size_t              outlen = 0;
      ares_dns_rcode_t    rcode = ARES_RCODE_NOERROR;
      if (ares_dns_parse(buf, (size_t)n, 0, &req) != ARES_SUCCESS) continue;
      if (ares_dns_record_query_get(req, 0, &name, &qt, &qc) != ARES_SUCCESS) { ares_dns_record_destroy(req); continue; }
      if (strncasecmp(name, "sil", 3) == 0) { ares_dns_record_destroy(req); continue; }
      if (strncasecmp(name, "srvfail", 7) == 0) rcode = ARES_RCODE_SERVFAIL;
      if (ares_dns_record_create(&resp, ares_dns_record_get_id(req), ARES_FLAG_QR | ARES_FLAG_RD | ARES_FLAG_RA,
                                 ARES_OPCODE_QUERY, rcode) == ARES_SUCCESS) {
        ares_dns_rr_t *rr = NULL;
        ares_dns_record_query_add(resp, name, qt, qc);
        if (rcode == ARES_RCODE_NOERROR &&
            ares_dns_record_rr_add(&rr, resp, ARES_SECTION_ANSWER, name, ARES_REC_TYPE_A, ARES_CLASS_IN, 60) == ARES_SUCCESS) {
          struct in_addr a;
          a.s_addr = htonl(0x01020304);
          ares_dns_rr_set_addr(rr, ARES_RR_A_ADDR, &a);
        }
        if (ares_dns_write(resp, &out, &outlen) == ARES_SUCCESS) {
          sendto(srv_fd, out, outlen, 0, (struct sockaddr *)&from, fl);
          ares_free_string(out);
        }
        ares_dns_record_destroy(resp);
      }
      ares_dns_record_destroy(req);
    }
  }
  return NULL;
}


#define MAXREQ 4096
typedef struct { volatile int ncb; volatile int status; } req_t;
static req_t           reqs[MAXREQ];
static volatile int    nreq = 0;
static pthread_mutex_t req_mu = PTHREAD_MUTEX_INITIALIZER;
static ares_channel_t *g_channel;
static int             g_ops, g_yield;
static volatile int    g_outstanding = 0;

static void cb_rec(void *arg, ares_status_t status, size_t timeouts, const ares_dns_record_t *rec)
{
  req_t *r = arg;
  (void)timeouts; (void)rec;
  __sync_fetch_and_add(&r->ncb, 1);
  r->status = (int)status;
  __sync_fetch_and_sub(&g_outstanding, 1);
}
static void cb_legacy(void *arg, int status, int timeouts, unsigned char *abuf, int alen)
{
  req_t *r = arg;
  (void)timeouts; (void)abuf; (void)alen;
  __sync_fetch_and_add(&r->ncb, 1);
  r->status = status;
  __sync_fetch_and_sub(&g_outstanding, 1);
}
static void cb_ai(void *arg, int status, int timeouts, struct ares_addrinfo *ai)
{
  req_t *r = arg;
  (void)timeouts;
  if (ai) ares_freeaddrinfo(ai);
  __sync_fetch_and_add(&r->ncb, 1);
  r->status = status;
  __sync_fetch_and_sub(&g_outstanding, 1);
}

static req_t *new_req(void)
{
  int i = __sync_fetch_and_add(&nreq, 1);
  if (i >= MAXREQ) return NULL;
  __sync_fetch_and_add(&g_outstanding, 1);
  return &reqs[i];
}

#ifdef CARES_VERIF
extern void (*cares_verif_yield_fn)(void);
static void yield_cb(void) { sched_yield(); }
#endif

static int          g_waiters = 3;
static volatile int g_wrc[8];
static volatile int g_wout[8];
static void *waiter_main(void *arg)
{
  size_t i = (size_t)arg;
  g_wrc[i]  = (int)ares_queue_wait_empty(g_channel, 5000);
  g_wout[i] = g_outstanding;
  return NULL;
}

static void *client_main(void *arg)
{
  unsigned long long x = (unsigned long long)(size_t)arg * 0x9E3779B97F4A7C15ULL + 88172645463325252ULL;
  int i;
  char csv[64];
  snprintf(csv, sizeof(csv), "127.0.0.1:%u", (unsigned)srv_port);
  for (i = 0; i < g_ops; i++) {
    unsigned r;
    char     name[64];
    req_t   *rq;
    x ^= x << 13; x ^= x >> 7; x ^= x << 17;
    r = (unsigned)(x >> 33) % 100;
    snprintf(name, sizeof(name), "%s%u.example", (r % 3 == 0) ? "sil" : ((r % 3 == 1) ? "ans" : "srvfail"), (unsigned)(x & 0xffff));
    if (r < 40) {
      if ((rq = new_req()) != NULL) ares_query_dnsrec(g_channel, name, ARES_CLASS_IN, ARES_REC_TYPE_A, cb_rec, rq, NULL);
    } else if (r < 50) {
      if ((rq = new_req()) != NULL) ares_search(g_channel, name, ARES_CLASS_IN, ARES_REC_TYPE_A, cb_legacy, rq);
    } else if (r < 58) {
      struct ares_addrinfo_hints h;
      memset(&h, 0, sizeof(h));
      h.ai_family = AF_INET;
      h.ai_flags  = ARES_AI_NOSORT;
      if ((rq = new_req()) != NULL) ares_getaddrinfo(g_channel, name, NULL, &h, cb_ai, rq);
    } else if (r < 60) {
      /* a request whose construction fails (RFC 7686: .onion names are refused): the error
       * path must leave the channel usable for the other threads */
      if ((rq = new_req()) != NULL) ares_search(g_channel, "hidden-service.onion", ARES_CLASS_IN, ARES_REC_TYPE_A, cb_legacy, rq);
    } else if (r < 64) {
      ares_cancel(g_channel);
    } else if (r < 70) {
      ares_set_servers_ports_csv(g_channel, csv);
    } else if (r < 74) {
      ares_reinit(g_channel);
    } else if (r < 80) {
      struct ares_options o;
      int                 m = 0;
      if (ares_save_options(g_channel, &o, &m) == ARES_SUCCESS) ares_destroy_options(&o);
    } else if (r < 85) {
      char *s = ares_get_servers_csv(g_channel);
      ares_free_string(s);
    } else if (r < 90) {
      struct timeval tv;
      (void)ares_timeout(g_channel, NULL, &tv);
      (void)ares_queue_active_queries(g_channel);
    } else if (r < 94) {
      ares_set_sortlist(g_channel, "10.0.0.0/8");
    } else {
      usleep(1000);
    }
  }
  return NULL;
}

#include <signal.h>
static long wd_case;
static void watchdog(int sig)
{
  char   b[96];
  int    n = snprintf(b, sizeof(b), "%ld R DEADLOCK\nEND %ld\nDONE\n", wd_case, wd_case);
  (void)sig;
  if (n > 0) (void)!write(1, b, (size_t)n);
  _exit(0);
}

static void run_case(long k, char *line)
{
  char               *save = NULL, *tokp;
  struct ares_options opts;
  int                 optmask, nthreads = 4, i, dup = 0, missing = 0, cbs = 0, n;
  ares_evsys_t        evsys = ARES_EVSYS_DEFAULT;
  pthread_t           thr[16];
  char                csv[64];
  ares_status_t       wrc;
  int                 out_after, late = 0, lostwake = 0;
  char               *bar = strchr(line, '|');
  if (bar) *bar = 0;
  /* no thread may block forever: 2 tries of 250 ms, waits of 5 s; a case that is still running
   * after 45 s has deadlocked (a normal case takes about a second, a thorough one a few) */
  wd_case = k;
  signal(SIGALRM, watchdog);
  alarm(45);
  g_ops = 50; g_yield = 0;
  nreq = 0; g_outstanding = 0;
  memset(reqs, 0, sizeof(reqs));
  for (tokp = strtok_r(line, " ", &save); tokp; tokp = strtok_r(NULL, " ", &save)) {
    if (!strncmp(tokp, "evsys=", 6)) {
      if (!strcmp(tokp + 6, "epoll")) evsys = ARES_EVSYS_EPOLL;
      else if (!strcmp(tokp + 6, "poll")) evsys = ARES_EVSYS_POLL;
      else if (!strcmp(tokp + 6, "select")) evsys = ARES_EVSYS_SELECT;
    } else if (!strncmp(tokp, "threads=", 8)) nthreads = atoi(tokp + 8);
    else if (!strncmp(tokp, "ops=", 4)) g_ops = atoi(tokp + 4);
    else if (!strncmp(tokp, "yield=", 6)) g_yield = atoi(tokp + 6);
    else if (!strncmp(tokp, "waiters=", 8)) g_waiters = atoi(tokp + 8);
  }
  if (nthreads < 1) nthreads = 1;
  if (nthreads > 16) nthreads = 16;
  if (g_ops > 400) g_ops = 400;
  memset(&opts, 0, sizeof(opts));
  opts.evsys = evsys; opts.timeout = 60; opts.tries = 2; opts.flags = ARES_FLAG_STAYOPEN | ARES_FLAG_EDNS;
  opts.lookups = (char *)"b"; opts.qcache_max_ttl = 0;
  optmask = ARES_OPT_EVENT_THREAD | ARES_OPT_TIMEOUTMS | ARES_OPT_TRIES | ARES_OPT_FLAGS | ARES_OPT_LOOKUPS | ARES_OPT_QUERY_CACHE;
#ifdef CARES_VERIF
  cares_verif_yield_fn = g_yield ? yield_cb : NULL;   /* before any library thread exists */
#endif
  if (ares_init_options(&g_channel, &opts, optmask) != ARES_SUCCESS) { printf("%ld R INITFAIL\n", k); return; }
  snprintf(csv, sizeof(csv), "127.0.0.1:%u", (unsigned)srv_port);
  ares_set_servers_ports_csv(g_channel, csv);
  for (i = 0; i < nthreads; i++) pthread_create(&thr[i], NULL, client_main, (void *)(size_t)(k * 131 + i + 1));
  for (i = 0; i < nthreads; i++) pthread_join(thr[i], NULL);
  /* all requests submitted: several threads wait for the queue to drain at the same time
   * (budget: 2 tries of >= 250 ms, doubled); every one of them must be released */
  {
    pthread_t wthr[8];
    int       nw = g_waiters < 0 ? 0 : (g_waiters > 8 ? 8 : g_waiters);
    for (i = 0; i < nw; i++) { g_wrc[i] = -1; pthread_create(&wthr[i], NULL, waiter_main, (void *)(size_t)i); }
    wrc       = ares_queue_wait_empty(g_channel, 5000);
    out_after = g_outstanding;
    if (wrc != ARES_SUCCESS) late = 1;
    for (i = 0; i < nw; i++) pthread_join(wthr[i], NULL);
    for (i = 0; i < nw; i++) {
      if (g_wrc[i] != ARES_SUCCESS) lostwake++;
      if (g_wrc[i] == ARES_SUCCESS && g_wout[i] != 0) { wrc = ARES_SUCCESS; out_after = g_wout[i]; }
    }
  }
  ares_destroy(g_channel);
  n = nreq < MAXREQ ? nreq : MAXREQ;
  for (i = 0; i < n; i++) {
    cbs += reqs[i].ncb;
    if (reqs[i].ncb > 1) dup++;
    if (reqs[i].ncb == 0) missing++;
  }
  alarm(0);
  printf("%ld R issued=%d cbs=%d dup=%d missing=%d waitempty=%d:%d late=%d lostwake=%d\n", k, n, cbs, dup, missing, (int)wrc, wrc == ARES_SUCCESS ? out_after : 0, late, lostwake);
}

int main(int argc, char **argv)
{
  struct sockaddr_in sa;
  socklen_t          sl = sizeof(sa);
  int                rc;
  ares_library_init(ARES_LIB_INIT_ALL);
  srv_fd = socket(AF_INET, SOCK_DGRAM, 0);
  memset(&sa, 0, sizeof(sa));
  sa.sin_family      = AF_INET;
  sa.sin_addr.s_addr = htonl(INADDR_LOOPBACK);
  if (srv_fd < 0 || bind(srv_fd, (struct sockaddr *)&sa, sizeof(sa)) != 0 ||
      getsockname(srv_fd, (struct sockaddr *)&sa, &sl) != 0) {
    perror("mock server");
    return 2;
  }
  srv_port = ntohs(sa.sin_port);
  pthread_create(&srv_thr, NULL, server_main, NULL);
  rc = drv_main(argc, argv, run_case);
  __atomic_store_n(&srv_stop, 1, __ATOMIC_RELEASE);
  pthread_join(srv_thr, NULL);
  close(srv_fd);
  ares_library_cleanup();
  return rc;
}
