/* Implementation-side driver of the C12 engine "search".
 *
 * case:  <mode>|unit;unit;...     mode L = ares_search_name_list() only
 *                                      S = ares_search_dnsrec() end to end on virtual sockets
 *                                      A = ares_getaddrinfo()  end to end (AF_INET, lookups "b")
 * units (any order, any subset):
 *   f=<int>   ARES_OPT_FLAGS value         n=<int>  ARES_OPT_NDOTS value
 *   d=<hex>   one search domain (repeatable; none = ARES_OPT_DOMAINS not given)
 *   q=<hex>   the name                      a=<hex>  HOSTALIASES file content
 *   a=!missing  HOSTALIASES names a file that does not exist
 *   a=!notdir   HOSTALIASES names a path below a regular file (fopen fails with ENOTDIR)
 *   o=<letters> outcome of candidate i (S/A): D data, C cname only, N no data, X nxdomain,
 *               S servfail, R refused, F formerr, I notimp, Y rcode 6, T timeout
 * output: "<k> E ndots flags ndomains hexdomains..."  effective configuration of the channel
 *         "<k> R L st n hexname..." | "<k> R S st cbs hexq,hexq,..." | "<k> R A st cbs hexq,..."
 */
#include "drv_common.h"
#include "ss_vnet.h"
#include <unistd.h>

static char g_dir[4096];

typedef struct {
  int  cbs;
  int  status;
} cbres_t;

static void search_cb(void *arg, ares_status_t status, size_t timeouts, const ares_dns_record_t *dnsrec)
{
  cbres_t *r = arg;
  (void)timeouts;
  (void)dnsrec;
  r->cbs++;
  r->status = (int)status;
}

static void ai_cb(void *arg, int status, int timeouts, struct ares_addrinfo *ai)
{
  cbres_t *r = arg;
  (void)timeouts;
  r->cbs++;
  r->status = status;
  if (ai != NULL) {
    ares_freeaddrinfo(ai);
  }
}

/* answer one transmitted query according to the outcome letter; returns 0 if the datagram is
 * not a parsable query */
static int serve(ares_channel_t *ch, vn_tx_t *tx, char oc, int first)
{
  ares_dns_record_t  *q = NULL, *resp = NULL;
  const char         *qname = NULL;
  ares_dns_rec_type_t qtype;
  ares_dns_class_t    qclass;
  ares_dns_rcode_t    rcode = ARES_RCODE_NOERROR;
  unsigned char      *buf   = NULL;
  size_t              len   = 0;
  ares_dns_rr_t      *rr    = NULL;

  if (ares_dns_parse(tx->data, tx->len, 0, &q) != ARES_SUCCESS) {
    return 0;
  }
  if (ares_dns_record_query_get(q, 0, &qname, &qtype, &qclass) != ARES_SUCCESS) {
    ares_dns_record_destroy(q);
    return 0;
  }
  printf("%s", first ? "" : ",");
  vn_puthex(qname);

  if (oc == 'T') {
    ares_dns_record_destroy(q);
    vn_advance_ms(600000);
    ares_process_fd(ch, ARES_SOCKET_BAD, ARES_SOCKET_BAD);
    return 1;
  }
  switch (oc) {
    case 'X': rcode = ARES_RCODE_NXDOMAIN; break;
    case 'S': rcode = ARES_RCODE_SERVFAIL; break;
    case 'R': rcode = ARES_RCODE_REFUSED; break;
    case 'F': rcode = ARES_RCODE_FORMERR; break;
    case 'I': rcode = ARES_RCODE_NOTIMP; break;
    case 'Y': rcode = ARES_RCODE_YXDOMAIN; break;
    default: break;
  }
  ares_dns_record_create(&resp, ares_dns_record_get_id(q), ARES_FLAG_QR | ARES_FLAG_RD | ARES_FLAG_RA,
                         ARES_OPCODE_QUERY, rcode);
  ares_dns_record_query_add(resp, qname, qtype, qclass);
  if (oc == 'D') {
    if (qtype == ARES_REC_TYPE_AAAA) {
      struct ares_in6_addr a6;
      memset(&a6, 0, sizeof(a6));
      a6._S6_un._S6_u8[15] = 1;
      ares_dns_record_rr_add(&rr, resp, ARES_SECTION_ANSWER, qname, ARES_REC_TYPE_AAAA, ARES_CLASS_IN, 60);
      ares_dns_rr_set_addr6(rr, ARES_RR_AAAA_ADDR, &a6);
    } else if (qtype == ARES_REC_TYPE_A) {
      struct in_addr a4;
      a4.s_addr = htonl(0x01020304);
      ares_dns_record_rr_add(&rr, resp, ARES_SECTION_ANSWER, qname, ARES_REC_TYPE_A, ARES_CLASS_IN, 60);
      ares_dns_rr_set_addr(rr, ARES_RR_A_ADDR, &a4);
    } else {
      ares_dns_record_rr_add(&rr, resp, ARES_SECTION_ANSWER, qname, ARES_REC_TYPE_PTR, ARES_CLASS_IN, 60);
      ares_dns_rr_set_str(rr, ARES_RR_PTR_DNAME, "target.example");
    }
  } else if (oc == 'C') {
    ares_dns_record_rr_add(&rr, resp, ARES_SECTION_ANSWER, qname, ARES_REC_TYPE_CNAME, ARES_CLASS_IN, 60);
    ares_dns_rr_set_str(rr, ARES_RR_CNAME_CNAME, "alias.target.example");
  }
  if (ares_dns_write(resp, &buf, &len) == ARES_SUCCESS) {
    vn_deliver(ch, tx->sock, buf, len);
    ares_free_string(buf);
  }
  ares_dns_record_destroy(resp);
  ares_dns_record_destroy(q);
  return 1;
}

static void run_case(long k, char *line)
{
  char               *bar = strchr(line, '|');
  char                mode;
  char               *units, *u, *save = NULL;
  struct ares_options opts;
  int                 optmask = 0;
  char               *domains[64];
  int                 ndomains = 0;
  static char         name[70000];
  static char         dombuf[64][1100];
  static unsigned char afile[70000];
  size_t              afile_len = 0;
  int                 alias_mode = 0; /* 0 none, 1 file, 2 missing, 3 notdir */
  const char         *outcomes = "";
  ares_channel_t     *ch = NULL;
  int                 rc;
  size_t              i;
  char                path[4200];
  struct in_addr      srv;

  if (bar == NULL || bar == line) {
    printf("%ld R BADCASE\n", k);
    return;
  }
  mode  = line[0];
  units = bar + 1;
  memset(&opts, 0, sizeof(opts));
  name[0] = 0;

  for (u = strtok_r(units, ";", &save); u != NULL; u = strtok_r(NULL, ";", &save)) {
    if (u[0] == 0 || u[1] != '=') {
      continue;
    }
    switch (u[0]) {
      case 'f':
        opts.flags  = atoi(u + 2);
        optmask    |= ARES_OPT_FLAGS;
        break;
      case 'n':
        opts.ndots  = atoi(u + 2);
        optmask    |= ARES_OPT_NDOTS;
        break;
      case 'd':
        if (ndomains < 64) {
          size_t n          = vn_unhex(u + 2, (unsigned char *)dombuf[ndomains], sizeof(dombuf[0]) - 1);
          dombuf[ndomains][n] = 0;
          domains[ndomains]   = dombuf[ndomains];
          ndomains++;
        }
        break;
      case 'q':
        {
          size_t n = vn_unhex(u + 2, (unsigned char *)name, sizeof(name) - 1);
          name[n]  = 0;
        }
        break;
      case 'a':
        if (strcmp(u + 2, "!missing") == 0) {
          alias_mode = 2;
        } else if (strcmp(u + 2, "!notdir") == 0) {
          alias_mode = 3;
        } else {
          alias_mode = 1;
          afile_len  = vn_unhex(u + 2, afile, sizeof(afile));
        }
        break;
      case 'o':
        outcomes = u + 2;
        break;
      default:
        break;
    }
  }

  /* environment */
  unsetenv("LOCALDOMAIN");
  unsetenv("RES_OPTIONS");
  unsetenv("HOSTALIASES");
  snprintf(path, sizeof(path), "%s/hostaliases.%ld", g_dir, (long)getpid());
  if (alias_mode == 1 || alias_mode == 3) {
    FILE *f = fopen(path, "wb");
    if (f != NULL) {
      fwrite(afile, 1, afile_len, f);
      fclose(f);
    }
  }
  if (alias_mode == 1) {
    setenv("HOSTALIASES", path, 1);
  } else if (alias_mode == 2) {
    char p2[4300];
    snprintf(p2, sizeof(p2), "%s.does-not-exist", path);
    setenv("HOSTALIASES", p2, 1);
  } else if (alias_mode == 3) {
    char p2[4300];
    snprintf(p2, sizeof(p2), "%s/below", path);
    setenv("HOSTALIASES", p2, 1);
  }

  if (ndomains > 0) {
    opts.domains   = domains;
    opts.ndomains  = ndomains;
    optmask       |= ARES_OPT_DOMAINS;
  }
  opts.lookups          = "b";
  optmask              |= ARES_OPT_LOOKUPS;
  opts.resolvconf_path  = "/dev/null";
  optmask              |= ARES_OPT_RESOLVCONF;
  opts.hosts_path       = "/dev/null";
  optmask              |= ARES_OPT_HOSTS_FILE;
  opts.tries            = 1;
  optmask              |= ARES_OPT_TRIES;
  opts.timeout          = 2000;
  optmask              |= ARES_OPT_TIMEOUTMS;
  opts.qcache_max_ttl   = 0;
  optmask              |= ARES_OPT_QUERY_CACHE;
  srv.s_addr            = htonl(0x0a000001);
  opts.servers          = &srv;
  opts.nservers         = 1;
  optmask              |= ARES_OPT_SERVERS;
  if (!(optmask & ARES_OPT_FLAGS)) {
    /* without ARES_OPT_FLAGS the default is ARES_FLAG_EDNS; keep the wire simple */
    opts.flags  = 0;
    optmask    |= ARES_OPT_FLAGS;
  }

  vn_reset();
  rc = ares_init_options(&ch, &opts, optmask);
  if (rc != ARES_SUCCESS) {
    printf("%ld R INITFAIL %d\n", k, rc);
    goto out;
  }
  ares_set_socket_functions_ex(ch, &vn_funcs, NULL);

  printf("%ld E %zu %u %zu", k, ch->ndots, ch->flags, ch->ndomains);
  for (i = 0; i < ch->ndomains; i++) {
    printf(" ");
    vn_puthex(ch->domains[i]);
  }
  printf("\n");

  if (mode == 'L') {
    char        **names = NULL;
    size_t        cnt   = 0;
    ares_status_t st    = ares_search_name_list(ch, name, &names, &cnt);
    printf("%ld R L %d", k, (int)st);
    if (st == ARES_SUCCESS) {
      printf(" %zu", cnt);
      for (i = 0; i < cnt; i++) {
        printf(" ");
        if (names[i] == NULL) {
          printf("NULL");
        } else {
          vn_puthex(names[i]);
        }
      }
      ares_strsplit_free(names, cnt);
    }
    printf("\n");
  } else if (mode == 'S' || mode == 'A') {
    cbres_t  res = { 0, -1 };
    vn_tx_t *tx;
    size_t   nout = strlen(outcomes);
    size_t   qi   = 0;
    int      guard = 0;

    printf("%ld Q ", k);
    if (mode == 'S') {
      ares_dns_record_t *rec = NULL;
      ares_status_t      st;
      st = ares_dns_record_create(&rec, 0, ARES_FLAG_RD, ARES_OPCODE_QUERY, ARES_RCODE_NOERROR);
      if (st == ARES_SUCCESS) {
        st = ares_dns_record_query_add(rec, name, ARES_REC_TYPE_A, ARES_CLASS_IN);
      }
      if (st != ARES_SUCCESS) {
        printf("\n%ld R S BADNAME %d\n", k, (int)st);
        ares_dns_record_destroy(rec);
        goto out;
      }
      ares_search_dnsrec(ch, rec, search_cb, &res);
      ares_dns_record_destroy(rec);
    } else {
      struct ares_addrinfo_hints hints;
      memset(&hints, 0, sizeof(hints));
      hints.ai_family = AF_INET;
      hints.ai_flags  = ARES_AI_NOSORT;
      ares_getaddrinfo(ch, name, NULL, &hints, ai_cb, &res);
    }
    while (res.cbs == 0 && guard++ < 200 && (tx = vn_next_tx()) != NULL) {
      char oc = qi < nout ? outcomes[qi] : 'X';
      if (!serve(ch, tx, oc, qi == 0)) {
        printf("?");
      }
      qi++;
    }
    printf("\n");
    if (res.cbs == 0) {
      /* nothing left on the wire and no callback: cancel so that nothing leaks */
      ares_cancel(ch);
      printf("%ld R %c STUCK %d\n", k, mode, res.cbs);
    } else {
      /* a second callback could only arrive now: drain */
      ares_process_fd(ch, ARES_SOCKET_BAD, ARES_SOCKET_BAD);
      printf("%ld R %c %d %d %zu\n", k, mode, res.status, res.cbs, qi);
    }
  } else {
    printf("%ld R BADMODE\n", k);
  }

out:
  if (ch != NULL) {
    ares_destroy(ch);
  }
  if (alias_mode == 1 || alias_mode == 3) {
    unlink(path);
  }
  unsetenv("HOSTALIASES");
}

int main(int argc, char **argv)
{
  char *slash;
  int   rc;
  ares_library_init(ARES_LIB_INIT_ALL);
  snprintf(g_dir, sizeof(g_dir), "%s", argc > 1 ? argv[1] : ".");
  slash = strrchr(g_dir, '/');
  if (slash != NULL) {
    *slash = 0;
  } else {
    strcpy(g_dir, ".");
  }
  rc = drv_main(argc, argv, run_case);
  ares_library_cleanup();
  return rc;
}
