/* Array case kind of the container engine (C19).
 * ops:  il:<v> if:<v> ia:<idx>:<v>  rf rl ra:<idx>  at:<idx> first last len
 *       sort (ares_array_sort, integer order)   ss:<n> (ares_array_set_size)   fin (anywhere: the case ends with ares_array_finish)
 *       a leading '!' on an insert: the allocator refuses every request during that call
 * output: one line "<k> R tok tok ... dump=v,v,v"
 */
#include "ares_private.h"
#include "drv_common.h"
#include "dsa_reg.h"

static long long destroyed_val;
static int       destroyed_set;
static void arr_destruct(void *p)
{
  destroyed_val = *(long long *)p;
  destroyed_set = 1;
}

static int cmp_ll(const void *a, const void *b)
{
  long long x = *(const long long *)a, y = *(const long long *)b;
  return x < y ? -1 : x > y ? 1 : 0;
}

static void run_arr(long k, char *ops)
{
  ares_array_t *arr = ares_array_create(sizeof(long long), arr_destruct);
  char         *save = NULL, *op;
  size_t        i;
  int           fin = 0;
  printf("%ld R", k);
  for (op = strtok_r(ops, ";", &save); op; op = strtok_r(NULL, ";", &save)) {
    long long     v = 0;
    unsigned long idx = 0;
    ares_status_t st;
    destroyed_set = 0;
    if (op[0] == '!') { dsa_alloc_fail_all = 1; op++; }
    if (sscanf(op, "il:%lld", &v) == 1) {
      st = ares_array_insertdata_last(arr, &v);
      printf(" %d", (int)st);
    } else if (sscanf(op, "if:%lld", &v) == 1) {
      st = ares_array_insertdata_first(arr, &v);
      printf(" %d", (int)st);
    } else if (sscanf(op, "ia:%lu:%lld", &idx, &v) == 2) {
      st = ares_array_insertdata_at(arr, idx, &v);
      printf(" %d", (int)st);
    } else if (strcmp(op, "rf") == 0 || strcmp(op, "rl") == 0 || sscanf(op, "ra:%lu", &idx) == 1) {
      if (op[1] == 'f') st = ares_array_remove_first(arr);
      else if (op[1] == 'l') st = ares_array_remove_last(arr);
      else st = ares_array_remove_at(arr, idx);
      if (destroyed_set) printf(" %d:%lld", (int)st, destroyed_val);
      else printf(" %d", (int)st);
    } else if (sscanf(op, "at:%lu", &idx) == 1) {
      long long *p = ares_array_at(arr, idx);
      if (p) printf(" %lld", *p); else printf(" N");
    } else if (strcmp(op, "first") == 0) {
      long long *p = ares_array_first(arr);
      if (p) printf(" %lld", *p); else printf(" N");
    } else if (strcmp(op, "last") == 0) {
      long long *p = ares_array_last(arr);
      if (p) printf(" %lld", *p); else printf(" N");
    } else if (strcmp(op, "len") == 0) {
      printf(" %zu", ares_array_len(arr));
    } else if (sscanf(op, "ss:%lu", &idx) == 1) {
      printf(" %d", (int)ares_array_set_size(arr, idx));
    } else if (strcmp(op, "sort") == 0) {
      printf(" %d", (int)ares_array_sort(arr, cmp_ll));
    } else if (strcmp(op, "fin") == 0) {
      fin = 1;
    } else {
      printf(" BADOP");
    }
    dsa_alloc_fail_all = 0;
  }
  printf(" dump=");
  for (i = 0; i < ares_array_len(arr); i++) {
    printf("%s%lld", i ? "," : "", *(long long *)ares_array_at(arr, i));
  }
  if (fin) {
    size_t     n = 0;
    long long *p = ares_array_finish(arr, &n);
    printf(" fin=");
    for (i = 0; i < n; i++) printf("%s%lld", i ? "," : "", p[i]);
    ares_free(p);
    printf("\n");
    return;
  }
  printf("\n");
  ares_array_destroy(arr);
}

DSA_REGISTER("arr", run_arr)
