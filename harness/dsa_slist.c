/* Skip-list case kind of the container engine (C19).
 * ops:  i:K:P  !Si:K:P  f:K  fi la  nx:I pv:I v:I  fv lv len  c:I d:I  r:I:K  pf
 *   I = creation index of a node (k-th successful insert), !S = the S-th allocation request of
 *   this insert (0 node, 1 next array, 2 prev array) is refused (dsa_alloc_fail_at).
 * After every mutating op the forward (first/next) and backward (last/prev) traversals and
 * len are printed as [k:p,...|k:p,...|len].  The case ends with ares_slist_destroy and the
 * order in which the destructor saw the values (end=k:p,...).
 * Every case is run several times with different coin-flip streams (ares_rand_bytes is
 * replaced at link time); one "<k> R ..." line per run, all of which must be identical.
 */
#include "ares_private.h"
#include "drv_common.h"
#include "dsa_reg.h"
#include <signal.h>
#include <sys/time.h>
#include <unistd.h>

typedef struct {
  long long key;
  long long payload;
} sl_elem;

#define SL_MAXN 4096

/* ---- deterministic coin flips ---- */
static unsigned long long sl_rng_state = 88172645463325252ULL;
static int                sl_rng_mode  = 0; /* 0 xorshift, 1 all 0x00, 2 all 0xFF */

void __wrap_ares_rand_bytes(ares_rand_state *state, unsigned char *buf, size_t len)
{
  size_t i;
  (void)state;
  for (i = 0; i < len; i++) {
    if (sl_rng_mode == 1) {
      buf[i] = 0x00;
    } else if (sl_rng_mode == 2) {
      buf[i] = 0xFF;
    } else {
      sl_rng_state ^= sl_rng_state << 13;
      sl_rng_state ^= sl_rng_state >> 7;
      sl_rng_state ^= sl_rng_state << 17;
      buf[i] = (unsigned char)(sl_rng_state >> 24);
    }
  }
}

/* ---- destructor log ---- */
static char   sl_dlog[SL_MAXN * 48];
static size_t sl_dlog_len;
static void   sl_destruct(void *p)
{
  sl_elem *e = p;
  if (sl_dlog_len + 64 < sizeof(sl_dlog)) {
    sl_dlog_len += (size_t)snprintf(sl_dlog + sl_dlog_len, sizeof(sl_dlog) - sl_dlog_len, "%s%lld:%lld",
                                    sl_dlog_len ? "," : "", e->key, e->payload);
  }
  free(e);
}

static int sl_cmp(const void *a, const void *b)
{
  const sl_elem *x = a, *y = b;
  if (x->key < y->key) return -1;
  if (x->key > y->key) return 1;
  return 0;
}

static ares_slist_node_t *sl_nodes[SL_MAXN];
static int                sl_live[SL_MAXN];
static long               sl_nnodes;

static void sl_print_node(const ares_slist_node_t *n)
{
  long i;
  if (n == NULL) { printf(" N"); return; }
  for (i = 0; i < sl_nnodes; i++) {
    if (sl_live[i] && sl_nodes[i] == n) { printf(" n%ld", i); return; }
  }
  printf(" n?");
}

static long sl_index_of(const ares_slist_node_t *n)
{
  long i;
  for (i = 0; i < sl_nnodes; i++) {
    if (sl_live[i] && sl_nodes[i] == n) return i;
  }
  return -1;
}

static void sl_print_val(const char *prefix, const sl_elem *e)
{
  if (e == NULL) printf(" N");
  else printf(" %s%lld:%lld", prefix, e->key, e->payload);
}

static void sl_dump(ares_slist_t *l)
{
  ares_slist_node_t *n;
  long               guard;
  int                first = 1;
  printf(" [");
  for (n = ares_slist_node_first(l), guard = 0; n != NULL; n = ares_slist_node_next(n)) {
    sl_elem *e = ares_slist_node_val(n);
    if (guard++ > sl_nnodes + 2) { printf("LOOP"); break; }
    printf("%s%lld:%lld", first ? "" : ",", e->key, e->payload);
    first = 0;
  }
  printf("|");
  first = 1;
  for (n = ares_slist_node_last(l), guard = 0; n != NULL; n = ares_slist_node_prev(n)) {
    sl_elem *e = ares_slist_node_val(n);
    if (guard++ > sl_nnodes + 2) { printf("LOOP"); break; }
    printf("%s%lld:%lld", first ? "" : ",", e->key, e->payload);
    first = 0;
  }
  printf("|%zu]", ares_slist_len(l));
}

static void sl_run_once(long k, const char *ops_in, int mode, unsigned long long seed)
{
  char            *ops  = strdup(ops_in);
  char            *save = NULL, *op;
  ares_rand_state *rs;
  ares_slist_t    *l;

  sl_rng_mode  = mode;
  sl_rng_state = seed ? seed : 88172645463325252ULL;
  sl_nnodes    = 0;
  sl_dlog_len  = 0;
  sl_dlog[0]   = 0;

  rs = ares_init_rand_state();
  l  = ares_slist_create(rs, sl_cmp, sl_destruct);
  printf("%ld R", k);
  if (rs == NULL || l == NULL) {
    printf(" NOCREATE\n");
    free(ops);
    return;
  }
  for (op = strtok_r(ops, ";", &save); op; op = strtok_r(NULL, ";", &save)) {
    long long     key = 0, p = 0;
    unsigned long idx = 0;
    long          site = -1;
    int           mut  = 0;
    if (sscanf(op, "i:%lld:%lld", &key, &p) == 2 ||
        (sscanf(op, "!%ldi:%lld:%lld", &site, &key, &p) == 3 && site >= 0 && site <= 2)) {
      sl_elem           *e = malloc(sizeof(*e));
      ares_slist_node_t *n;
      e->key     = key;
      e->payload = p;
      if (op[0] == '!') {
        dsa_alloc_fail_at = site;
      }
      n                 = ares_slist_insert(l, e);
      dsa_alloc_fail_at = -1;
      if (n == NULL) {
        free(e);
        printf(" N");
      } else if (sl_nnodes < SL_MAXN) {
        sl_nodes[sl_nnodes] = n;
        sl_live[sl_nnodes]  = 1;
        sl_nnodes++;
        sl_print_node(n);
      } else {
        printf(" TOOMANY");
      }
      mut = 1;
    } else if (sscanf(op, "f:%lld", &key) == 1) {
      sl_elem probe;
      probe.key     = key;
      probe.payload = 0;
      sl_print_node(ares_slist_node_find(l, &probe));
    } else if (strcmp(op, "fi") == 0) {
      sl_print_node(ares_slist_node_first(l));
    } else if (strcmp(op, "la") == 0) {
      sl_print_node(ares_slist_node_last(l));
    } else if (sscanf(op, "nx:%lu", &idx) == 1) {
      if (idx < (unsigned long)sl_nnodes && sl_live[idx]) sl_print_node(ares_slist_node_next(sl_nodes[idx]));
      else printf(" D");
    } else if (sscanf(op, "pv:%lu", &idx) == 1) {
      if (idx < (unsigned long)sl_nnodes && sl_live[idx]) sl_print_node(ares_slist_node_prev(sl_nodes[idx]));
      else printf(" D");
    } else if (sscanf(op, "v:%lu", &idx) == 1) {
      if (idx < (unsigned long)sl_nnodes && sl_live[idx]) sl_print_val("", ares_slist_node_val(sl_nodes[idx]));
      else printf(" D");
    } else if (strcmp(op, "fv") == 0) {
      sl_print_val("", ares_slist_first_val(l));
    } else if (strcmp(op, "lv") == 0) {
      sl_print_val("", ares_slist_last_val(l));
    } else if (strcmp(op, "len") == 0) {
      printf(" %zu", ares_slist_len(l));
    } else if (sscanf(op, "c:%lu", &idx) == 1) {
      if (idx < (unsigned long)sl_nnodes && sl_live[idx]) {
        sl_elem *e = ares_slist_node_claim(sl_nodes[idx]);
        sl_live[idx] = 0;
        sl_print_val("", e);
        free(e);
      } else {
        printf(" D");
      }
      mut = 1;
    } else if (sscanf(op, "d:%lu", &idx) == 1) {
      if (idx < (unsigned long)sl_nnodes && sl_live[idx]) {
        sl_dlog_len = 0;
        sl_dlog[0]  = 0;
        ares_slist_node_destroy(sl_nodes[idx]);
        sl_live[idx] = 0;
        printf(" ~%s", sl_dlog_len ? sl_dlog : "NONE");
        sl_dlog_len = 0;
        sl_dlog[0]  = 0;
      } else {
        printf(" D");
      }
      mut = 1;
    } else if (sscanf(op, "r:%lu:%lld", &idx, &key) == 2) {
      if (idx < (unsigned long)sl_nnodes && sl_live[idx]) {
        sl_elem *e = ares_slist_node_val(sl_nodes[idx]);
        e->key = key;
        ares_slist_node_reinsert(sl_nodes[idx]);
        printf(" ok");
      } else {
        printf(" D");
      }
      mut = 1;
    } else if (strcmp(op, "pf") == 0) {
      ares_slist_node_t *n = ares_slist_node_first(l);
      if (n == NULL) {
        printf(" N");
      } else {
        long     j = sl_index_of(n);
        sl_elem *e = ares_slist_node_claim(n);
        if (j >= 0) sl_live[j] = 0;
        sl_print_val("", e);
        free(e);
      }
      mut = 1;
    } else {
      printf(" BADOP");
    }
    if (mut) sl_dump(l);
  }
  sl_dlog_len = 0;
  sl_dlog[0]  = 0;
  ares_slist_destroy(l);
  printf(" end=%s\n", sl_dlog);
  ares_destroy_rand_state(rs);
  free(ops);
}

/* A broken list can make the library loop forever (e.g. find rewinding over a prev cycle):
 * limit the CPU time of a case; exit code 124 is reported by the runner as a timeout of this
 * case and the run resumes with the next one. */
#define SL_CASE_CPU_SECONDS 3
static void sl_watchdog(int sig)
{
  (void)sig;
  _exit(124);
}

static void sl_set_watchdog(long seconds)
{
  struct itimerval it;
  memset(&it, 0, sizeof(it));
  it.it_value.tv_sec = seconds;
  signal(SIGPROF, sl_watchdog);
  setitimer(ITIMER_PROF, &it, NULL);
}

static void run_slist(long k, char *ops)
{
  unsigned long long h = 1469598103934665603ULL;
  const char        *c;
  sl_set_watchdog(SL_CASE_CPU_SECONDS);
  for (c = ops; *c; c++) h = (h ^ (unsigned char)*c) * 1099511628211ULL;
  sl_run_once(k, ops, 0, 0x9E3779B97F4A7C15ULL);
  sl_run_once(k, ops, 0, h | 1);
  if (k % 3 == 0) {
    sl_run_once(k, ops, 1, 0);
    sl_run_once(k, ops, 2, 0);
  }
  sl_set_watchdog(0);
}

DSA_REGISTER("slist", run_slist)
