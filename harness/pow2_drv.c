/* C19: ares_round_up_pow2() of the library under test on the inputs given on stdin (one
 * unsigned decimal per line); prints "<n> <ares_round_up_pow2(n)> <ares_log2 of that>" per line.  Used by lib/pow2check.py. */
#include "ares_private.h"
#include <stdio.h>
#include <stdlib.h>

int main(void)
{
  char line[64];
  while (fgets(line, sizeof(line), stdin) != NULL) {
    unsigned long long n = strtoull(line, NULL, 10);
    size_t             r = ares_round_up_pow2((size_t)n);
    printf("%llu %llu %llu\n", n, (unsigned long long)r, (unsigned long long)ares_log2(r));
  }
  return 0;
}
