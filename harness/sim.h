#ifndef VERIF_SIM_H
#define VERIF_SIM_H
/* reference comment is added once the language is stable */
void sim_global_init(void);
void sim_global_cleanup(void);
void sim_run_case(long idx, const char *line);
#endif
