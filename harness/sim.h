#ifndef VERIF_SIM_H
#define VERIF_SIM_H
/* ==========================================================================================
 * Deterministic channel simulator for c-ares  (harness/sim.c, driver harness/chan_drv.c)
 * ==========================================================================================
 *
 * A REAL channel (library built from the repository's working tree, ASan+UBSan) is driven
 * through the public API with virtual sockets (ares_set_socket_functions_ex), a virtual
 * clock (--wrap=ares_tvnow) and a seeded RNG (--wrap=ares_rand_bytes,
 * --wrap=ares_generate_new_id).  Nothing is read from the system: resolv.conf and the hosts
 * file default to /dev/null, lookups default to "b", domains are always given explicitly,
 * LOCALDOMAIN / RES_OPTIONS / HOSTALIASES / CARES_HOSTS are unset.  No event thread.
 *
 * Build:  vlib.build_harness('chan', ['harness/sim.c','harness/chan_drv.c'], 'asan',
 *                            wraps=['ares_tvnow','ares_rand_bytes','ares_generate_new_id'])
 * Run:    chan_drv <casefile> <start_index>
 *   One case per line.  Cases with index >= start_index (0-based) are run.  Output:
 *       BEGIN k
 *       k <event> ...          (every event line is prefixed by the case index)
 *       END k
 *   and DONE after the last case.  stdout is flushed after every line.  Exit code 0.
 *   Every case gets a fresh channel and fresh simulator state; the log of a case depends on
 *   its line only.
 *
 * ------------------------------------------------------------------------------------------
 * CASE LINE        <config>|<op>;<op>;...
 * ------------------------------------------------------------------------------------------
 * <config>: space separated key=value (no quoting).  All keys optional.
 *   seed=<n>            RNG seed (default 1).  xorshift64*; feeds query ids, DNS cookies,
 *                       0x20 case randomisation, skip-list levels, server retry chance.
 *   idseq=<n>           query ids are n, n+1, ... instead of random
 *   idlist=<a,b,c,..>   query ids handed out first (at most 64; ares_generate_new_id returns them
 *                       in this order, repeats allowed - forces collisions in generate_unique_qid);
 *                       afterwards idseq/random continues
 *   qdump=1             log QSTATE (internal query / connection / cookie state, see EVENTS)
 *   clock=<ms>          start value of the virtual clock (default 1000000)
 *   servers=<n>         n IPv4 servers 10.0.0.1 .. (default 1; via ARES_OPT_SERVERS)
 *   servers6=<n>        n IPv6 servers fd00::1 ..  (appended after the IPv4 ones; the list
 *                       is then installed with ares_set_servers_ports_csv after init)
 *   csv=<servers csv>   explicit list instead (ares_set_servers_ports_csv after init);
 *                       "-" = empty list
 *                       NB without any server ares_init_options installs 127.0.0.1, or
 *                       fails with ENOSERVER(26) under flags=nodfltsvr; for a server-less
 *                       channel use the op "setservers -".
 *   flags=<list>        comma list of usevc,primary,igntc,norecurse,stayopen,nosearch,
 *                       noaliases,nocheckresp,edns,nodfltsvr,dns0x20,noedns,none or numbers.
 *                       noedns/none contribute no bit.  If the key is absent ARES_OPT_FLAGS
 *                       is not passed (library default, which includes EDNS).
 *   tries= timeout=<ms> maxtimeout=<ms> ndots= udpmaxq= udpsize=(EDNSPSZ) udpport= tcpport=
 *   sndbuf= rcvbuf=     passed with their ARES_OPT_* bit only when present
 *   qcachettl=<s>       ARES_OPT_QUERY_CACHE (0 disables the cache; absent = default 3600)
 *   rotate=0|1          ARES_OPT_NOROTATE / ARES_OPT_ROTATE (default 0; one is always passed)
 *   domains=<a.b,c.d>   search domains ("-" or absent: none; ARES_OPT_DOMAINS always passed)
 *   lookups=<bf..>      default "b"
 *   failover=<chance>,<delayms>      ARES_OPT_SERVER_FAILOVER
 *   sortlist=<a/m,b/m>  ares_set_sortlist after init (commas become spaces)
 *   hosts=<path>        ARES_OPT_HOSTS_FILE (default /dev/null)
 *   resolvconf=<path>   ARES_OPT_RESOLVCONF (default /dev/null)
 *   localdomain=<a,b> resoptions=<o1,o2> hostaliases=<path>   environment for this case
 *                       (commas become spaces for the first two)
 *   writefile=<path>:<hex>   create a file before the channel is initialised (e.g. the
                      resolv.conf named by resolvconf=; with servers=0 and no csv= the
                      servers then come from its nameserver lines).  A path "@/name" (also
                      in resolvconf= and hosts=) lives in $VERIF_SIM_DIR (default "."),
                      prefixed with the process id, and is removed at the end of the case;
                      nameserver addresses of the content get srv= indexes.
  localip4=<a> localip6=<a> localdev=<name>   ares_set_local_*  (exercise BIND/SETSOCKOPT)
 *   sockstatecb=1       register ARES_OPT_SOCK_STATE_CB, log SOCKSTATE
 *   pendingwritecb=1    ares_set_pending_write_cb, log PENDINGWRITE (see op flushwrites)
 *   serverstatecb=1     ares_set_server_state_callback, log SERVERSTATE
 *   tfo=1               asetsockopt(TCP_FASTOPEN) succeeds (default: -1/ENOSYS)
 *   connectlater=1      TCP aconnect returns EINPROGRESS (see ops connectlater/connected)
 *   chunk=<n1,n2,..>    default TCP read chunking for every TCP socket (see op chunk)
 *   wpat=<n1,n2,..>     default TCP write acceptance pattern (see op wpat)
 *   failalloc=<n>       the n-th library allocation (malloc or realloc; counted from the
 *                       start of ares_init_options) returns NULL (once).
 *   failallocafter=init count only allocations made after the channel set-up completed
 *   failallocsticky=1   every allocation from the n-th on fails
 *   allocstats=1        print ALLOCS without failing anything
 *   lctrace=1           print "LC <event> ..." lines: LC TI <id> for every query id drawn from
 *                       ares_generate_new_id, plus whatever a trace module linked next to sim.c
 *                       prints through sim_ev() (harness/chan01_trace.c wraps library-internal
 *                       call sites of the request lifecycle, see there).  Off by default.
 *                       Allocations made by the simulator's own use of the record API
 *                       (building requests for send/search, building responses, parsing
 *                       legacy answers for the CB dump) are neither counted nor failed.
 * Unknown/invalid keys are logged as BADCFG and ignored.
 *
 * <op>: words separated by blanks; ops separated by ';'.  T = token, a small integer
 * (0..1023, may be written t5) chosen by the author of the case; s<k> = k-th socket the
 * library created in this case (0-based); x<j> = j-th DNS message the library transmitted;
 * xl = last transmitted message, xl-<n> = n before the last.  In name arguments "-" stands
 * for the empty string.  class/type: mnemonic or number.
 *
 * Requests (each logs REQ, then possibly synchronous events/callbacks, then RET):
 *   send T <name> <class> <type> [rd] [ad] [cd] [edns[=<udpsize>]]
 *                                ares_send_dnsrec with a record built by the record API
 *   sendraw T <hex>              legacy ares_send with the given bytes
 *   query T <name> <class> <type>    ares_query_dnsrec
 *   oquery T <name> <class> <type>   legacy ares_query
 *   search T <name> <class> <type> [rd] [ad] [cd] [edns[=n]]   ares_search_dnsrec
 *   osearch T <name> <class> <type>  legacy ares_search
 *   gai T <name> <family 0|4|6> <flags> [<service>|-] [<socktype>]   ares_getaddrinfo
 *                                (name "~" = NULL pointer; flags e.g. 0x80 = ARES_AI_NOSORT)
 *   ghbn T <name> <family 0|4|6>     ares_gethostbyname
 *   ghba T <addr>                    ares_gethostbyaddr
 *   gni T <addr> <port> <flags>      ares_getnameinfo
 *   oncb T <op,with,commas,for,blanks>   when the FIRST callback for token T arrives, run
 *                                this op from inside the callback (after the CB line;
 *                                logged as CBOP).  Several oncb for one token run in order.
 *                                Any op except destroy, proc, proct, procfd, procsel, run, flushwrites, reinit, oncb.
 * Channel:
 *   cancel                       ares_cancel           (CANCEL begin .. CANCEL end)
 *   destroy                      ares_destroy          (DESTROY begin op .. DESTROY end)
 *                                afterwards ops that need the channel log IGNORED; network
 *                                and clock ops still work
 *   reinit                       ares_reinit, then waits for the helper thread  (REINIT)
 *   setservers <csv|->           ares_set_servers_ports_csv  (SETSERVERS rc=)
 *   setsortlist <a/m,b/m>        ares_set_sortlist
 *   setlocalip4 <a> | setlocalip6 <a> | setlocaldev <name>
 *   flushwrites                  ares_process_pending_write (FLUSHWRITES begin .. end)
  writefile <path> <hex|->     (re)write a file (see writefile= above), e.g. before reinit   (WRITEFILE)
 * Time and processing:
 *   adv <ms> | advus <us>        advance the virtual clock (NOW <ms>.<us>)
 *   tmo [<maxms>]                ares_timeout(channel, maxtv|NULL, &tv):
 *                                TIMEOUT none | TIMEOUT <ms> us=<us> [ret=max]
 *   proc                         ONE ares_process_fds call with: READ for every open socket
 *                                that has inbound data / eof / reset pending, WRITE for
 *                                every socket with a pending writability notification
 *                                (TCP connect completed, or an earlier asendto was short or
 *                                returned EAGAIN).  flags = 0, i.e. timeouts are processed.
 *   proct                        ares_process_fds with no events (timeouts only)
 *   procfd r<k> w<k> ...         ares_process_fds with exactly the listed events (socket
 *                                index; closed sockets allowed, to test stale events)
 *   procsel                      like proc but through legacy ares_process(fd_sets)
 *   run [<max>]                  repeat proc while some socket has an event pending
 *                                (default max 200 iterations)          RUN iterations=<n>
 * Virtual network:
 *   rsp x<j> <spec>              queue a response to transmission j on the socket it was
 *                                sent on (TCP: with length prefix).  <spec> = comma list:
 *        rcode=<n|NOERROR|SERVFAIL|NXDOMAIN|..>  tc= aa= ra=(default 1) rd=(default: copy)
 *        ad= cd= qr=(default 1) opcode=   id=<n>|+<n>|-<n>   qname=<name> qtype= qclass=
 *        flipcase=1 (invert the case of every letter of the question name) | 2 (first letter)
 *        noq=1 (no question)   an=<rrs> ns=<rrs> ar=<rrs>   ttlall=<n>
 *        noopt=1 (no OPT although the query had one)  udpsize=<n> ednsver=<n>
 *        cookie=echo | echo:<server cookie hex> | bad | bad<k> | none | <raw option hex>
 *               (echo: client cookie of the query + server cookie 53494d5352563031)
 *               (bad: first byte of the client cookie inverted; bad<k>, k=0..7: one bit of
 *                byte k flipped; both followed by the server cookie)
 *        from=<addr[:port]> (UDP source address; default the socket's peer)
 *        on=s<k> (deliver on another socket)  dup=<n> (n copies)  trunc=<n> (cut to n bytes)
 *      <rrs> = RR+RR+..., RR = TYPE:rdata[:ttl][@owner][@@class]   (ttl default 300, owner default
 *      the question name, class default IN; @@CH, @@HS, @@NONE, @@<number>).  A:<ip4>  AAAA:[<ip6>] (unbracketed only with a ttl)  NS|CNAME|
 *      PTR:<name>  TXT:<text>|=<hex>  MX:<pref>:<name>  SRV:<prio>:<weight>:<port>:<target>
 *      SOA:<minimum> or SOA:<mname>:<rname>:<serial>:<refresh>:<retry>:<expire>:<minimum>
 *      HINFO:<cpu>:<os>  CAA:<crit>:<tag>:<value>  URI:<prio>:<weight>:<target>
 *      NAPTR:<order>:<pref>:<flags>:<services>:<regexp>:<replacement>  RAW:<type>:<hex>
 *      The message is built with the library's record API + ares_dns_write; the question
 *      bytes are then replaced by the exact bytes of the query (case preserved) unless
 *      qname=/flipcase= was given.  An OPT RR is added iff the query had one (or cookie=
 *      or rcode>15 is given) and noopt is not set.   Logs RSP.
 *   rspall <spec>                rsp for every transmission not yet answered by rsp whose
 *                                socket is still open
 *   raw s<k> <hex>               deliver bytes (UDP: one datagram; TCP: stream bytes)
 *   rawfrom s<k> <addr[:port]> <hex>    same with a UDP source address
 *   zerolen s<k>                 zero length UDP datagram
 *   chunk s<k> <n1,n2,...>       sizes of successive TCP reads (last repeats; 0=unlimited)
 *   wpat s<k> <n1,n2,...>        bytes accepted by successive asendto calls, 0 = EAGAIN
 *                                (last repeats).  On UDP only 0 is meaningful.
 *   reset s<k>                   TCP: recv returns ECONNRESET from now on
 *   eof s<k>                     TCP: recv returns 0 once the queued data is consumed
 *   connectlater [0|1]           TCP aconnect returns EINPROGRESS from now on
 *   connected s<k> | connfail s<k>      complete a pending connect (writability event) /
 *                                fail it (socket readable, recv gives ECONNRESET)
 *   writable s<k>                force a writability notification for the next proc
 *   fail <call> <nth> <errno>    the nth call (1 = next) of socket|connect|sendto|recvfrom|
 *                                setsockopt|bind|getsockname|close from now fails with the
 *                                errno (EAGAIN, ECONNRESET, ECONNREFUSED, ENETUNREACH,
 *                                EMFILE, EINTR, ... or a number)
 * Introspection:
 *   fds        FDS nfds=<highest socket index+1, 0 if none> r=[..] w=[..] open=[simulator's
 *              open sockets]                                  (ares_fds)
 *   getsock    GETSOCK r=[..] w=[..]                          (ares_getsock, 16 slots)
 *   qlen       QLEN <n>                                       (ares_queue_active_queries)
 *   servers    SERVERS <csv>                                  (ares_get_servers_csv)
 *   opts       OPTS rc= mask= flags= timeout= ...             (ares_save_options)
 *   note <text>   no effect (appears in the OP line)
 *
 * ------------------------------------------------------------------------------------------
 * EVENTS   (after the case index; sockets always as s<k>, never fd numbers or pointers)
 * ------------------------------------------------------------------------------------------
 *   BADCFG <key..>                      invalid configuration item (ignored)
 *   INIT rc=<status>                    result of ares_init_options (+ set-up); if != 0 the
 *                                       case has no channel and channel ops log IGNORED
 *   OP <n> <text>                       the n-th top level op is about to be executed
 *   CBOP <text>                         an oncb op is executed inside a callback
 *   BADOP <reason>: <text>              op not understood; nothing was done
 *   IGNORED <text>                      op needs a channel but there is none
 *   REQ t<T> <api> <args>               request is about to be submitted
 *   RET t<T> rc=<status|void>           the API call returned
 *   CB t<T> status=<n> timeouts=<n> kind=<dnsrec|abuf|addrinfo|hostent|nameinfo> <summary>
 *          [UNKNOWN|DUP] [AFTERDESTROY]
 *        DUP: more callbacks than requests for this token; UNKNOWN: token never requested;
 *        AFTERDESTROY: invoked after ares_destroy returned.
 *        dnsrec: rcode=<name> opcode=<n> flags=<qr+aa+tc+rd+ra+ad+cd|-> qd=[name/TYPE/CLASS,..]
 *                an=[RR,..] ns=[..] ar=[..]  or rec=-  (NULL record).  RR = TYPE:owner:ttl:
 *                fields joined by '/' in the order of ares_dns_rr_get_keys (addresses, numbers,
 *                names, hex for binary, {s1|s2} for TXT strings, {id~hex|..} for options).
 *                TTLs as returned by ares_dns_rr_get_ttl.  No message id.
 *        abuf:   alen=<n> id=<n> followed by the dnsrec dump of ares_dns_parse(abuf), or
 *                parse=<status> hex=.. , or abuf=-
 *        addrinfo: cnames=[alias>name:ttl,..] nodes=[family:addr:port:ttl,..] name=<n>  | ai=-
 *                (IPv6 addresses in brackets; :st<socktype>:p<proto>:f<flags> appended when
 *                non-zero)
 *        hostent: name= aliases=[..] addrtype=<4|6> addrs=[..]   | host=-
 *        nameinfo: node=<..|-> service=<..|->
 *        Text taken from the library is escaped: bytes <=0x20, >=0x7f and , [ ] = % | ; +
 *        are written %XX; an empty string is "" and NULL is -.
 *   CBBADARG ..                         callback argument is not one of our tokens
 *   CBDEPTH t<T>                        oncb nesting deeper than 8, ops not run
 *   CANCEL begin|end, DESTROY begin <op|auto>|end, FLUSHWRITES begin|end, REINIT rc=,
 *   SETSERVERS rc=, SETSORTLIST rc=, SETSOCKFUNCS rc=   brackets/results of channel calls
 *   NOW <ms>.<us>                       clock after adv/advus
 *   TIMEOUT ..  PROC/PROCSEL r=[..] w=[..]  PROCEND [rc=<status>]  RUN iterations=<n> [LIMIT]
 *   FDS .. GETSOCK .. QLEN .. SERVERS .. OPTS ..          see ops
 *   Socket layer calls made by the library:
 *   SOCKET s<k> af=<4|6> type=<udp|tcp>   |  SOCKET fail af= type= errno=<E..>
 *   SETSOCKOPT s<k> <sndbuf|rcvbuf|binddev|tfo> val=<v> rc=<0|-1 errno=E..>
 *   BIND s<k> <addr:port> flags=<n> rc=..
 *   CONNECT s<k> <addr:port> flags=<n> rc=<0|-1 errno=E..>     (flags 1 = TCP FastOpen)
 *   RECONNECT s<k>                       aconnect on an already connected socket
 *   GETSOCKNAME s<k> rc=..               (local address 10.9.9.9 / fd00:9::9, port 40000+k)
 *   SENDTO s<k> len=<n> rc=<n|-1 errno=E..> [to=<addr:port>]
 *   TCPBYTES s<k> <hex>                  bytes accepted on a TCP socket by that SENDTO
 *   TX x<j> s<k> srv=<i|-> proto=<udp|tcp> id=<n> qname=<name as sent, case preserved,
 *        non hostname bytes as \DDD> qtype=<n> qclass=<n> rd=<0|1> opt=<0|1> udpsize=<n>
 *        cookie=<hex|-> qd= an= ns= ar= valid=<1 if the whole message parsed> len=<n> hex=<..>
 *        one per complete DNS message (UDP datagram / reassembled TCP frame); srv = index
 *        of the destination in the configured server list (config order, then addresses
 *        added by setservers), - if the destination is not a configured server.
 *   RECVFROM s<k> rc=<n> [from=<addr:port>] [truncated=1] [eof=1] | rc=-1 errno=E..
 *   CLOSE s<k> [rc=-1 errno=..]
 *   USEAFTERCLOSE s<k> <call>            call on a closed descriptor (returns EBADF)
 *   DOUBLECLOSE s<k>                     aclose on a closed descriptor
 *   BADFD <call> fd=<n>                  descriptor that was never issued
 *   IFNAMETOINDEX / IFINDEXTONAME        (never called by this library version)
 *   RSP x<j> s<k> len=<n> id=<n> [DROPPED=closed] [from=..] [dup=n] hex=<message>
 *   RAW s<k> len=<n> [DROPPED=closed]
 *   SOCKSTATE s<k> r=<0|1> w=<0|1> [closed=1]     sock_state_cb
 *   PENDINGWRITE                                    pending write callback
 *   SERVERSTATE <server string> success=<0|1> flags=<n>    server state callback
 *   QSTATE q=[<id>/<t<T>|->/<s<k>|->/<tcp>/<try>/<cookietry>/<timeouts>/<noretry>,..]
 *          srv=[<i>/<consec_failures>/<cookie state>/<client hex>/<server hex|->/<unsup sec.usec>,..]
 *          conns=[s<k>/<srv i>/<tcp>/<queries on it>,..]            only with qdump=1
 *        channel->all_queries (id, token if the callback argument is one of ours, socket the
 *        query is assigned to, using_tcp, try_count, cookie_try_count, timeouts, no_retries), the
 *        per-server cookie record (servers in configuration order) and the open connections.
 *        Evaluated after every top level op, at every asendto call (a query created inside a
 *        callback shows up before its transmission) and at every arecvfrom call (i.e. before a read
 *        batch); printed only when the text differs from the last QSTATE printed - an absent
 *        line means "unchanged".
 *   ALLOCFAIL at=<n>                     the n-th counted allocation returned NULL
 *   ENDSTATE open_sockets=[..] pending_tokens=[tokens with fewer callbacks than requests]
 *            cb_dups=<n> sockets=<created> tx=<transmitted>
 *        always the last but one/two line; a channel still alive at the end of the history
 *        is destroyed first (DESTROY begin auto).
 *   ALLOCS total=<counted allocations> live=<bytes>/<blocks still allocated by the library
 *        after destroy>                  only with failalloc= or allocstats=1
 *
 * Virtual descriptors are 100+k and never reused within a case.  At most 512 sockets per
 * case (then asocket fails with EMFILE).
 */
/* print one event line of the current case ("<k> <text>") / is lctrace=1 set for this case */
void sim_ev(const char *fmt, ...);
int  sim_lctrace(void);
void sim_global_init(void);
void sim_global_cleanup(void);
void sim_run_case(long idx, const char *line);
#endif
