/* Lifecycle trace for the chan01 engine (property C01).
 *
 * Linked next to sim.c / chan_drv.c with -Wl,--wrap=<sym> for every function below.  Each
 * wrapper is on a call that crosses a translation unit inside the library, at a point where
 * the request-lifecycle code takes a decision the application cannot see.  With lctrace=1 in
 * the case configuration the decision is printed as an "LC <ev> ..." line; the model driver
 * (ocaml/chan01_drv.ml) feeds these lines as the *tape* to the extracted model
 * (coq/Core/Lifecycle.v, type tev).  Nothing is changed: every wrapper calls the real
 * function with the same arguments and returns its result.
 *
 *   LC TI <id>                       (printed by sim.c) ares_generate_new_id
 *   LC TQ <rc> <rcode> <an> <id>     ares_qcache_fetch in ares_send_nolock
 *   LC TD <rc>                       ares_dns_record_duplicate_ex in ares_send_nolock
 *   LC TN <rc>                       ares_dns_record_query_set_name (ares_search_next, dns0x20)
 *   LC TO <rc>                       ares_open_connection in ares_send_query
 *   LC TW <qid> s<k> <tcp>           ares_cookie_apply = entry of ares_conn_query_write
 *   LC TF s<k> <rc>                  ares_conn_flush (query write, process_write, pending write)
 *   LC TM <qid> s<k> <rcode> <tc> <an> <respopt> <reqopt> <reqoptcnt>
 *                                    ares_cookie_validate entered: the response matched the query
 *   LC TMR <rc> <requeued>           ... returned (requeued: the query left its connection)
 *   LC TU <n> / LC TUE               ares_servers_update entered (n entries in the new list) / returned
 *   LC TX s<k> <status>              handle_conn_error -> ares_close_connection
 *   LC TE <qid> <status>             ares_metrics_record = entry of end_query
 *   LC TP <rc> <nodes> <v4> <v6>     ares_parse_into_addrinfo in host_callback (ai has nodes / an
 *                                    IPv4 node / an IPv6 node afterwards)
 *   LC TR <rc>                       ares_parse_ptr_reply_dnsrec in addr_callback
 *   LC TK / LC TKE                   ares_check_cleanup_conns entered / returned (ares_cancel,
 *                                    ares_process_fds); the CLOSE lines in between are its work
 * Sockets are printed as simulator socket indexes (descriptor - 100, see sim.h).
 */
#include "ares_private.h"
#include "sim.h"

#define SIDX(fd) ((int)(fd) - 100)

ares_status_t __real_ares_qcache_fetch(ares_channel_t *channel, const ares_timeval_t *now,
                                       const ares_dns_record_t *dnsrec,
                                       const ares_dns_record_t **dnsrec_resp);
ares_status_t __wrap_ares_qcache_fetch(ares_channel_t *channel, const ares_timeval_t *now,
                                       const ares_dns_record_t *dnsrec,
                                       const ares_dns_record_t **dnsrec_resp)
{
  ares_status_t st = __real_ares_qcache_fetch(channel, now, dnsrec, dnsrec_resp);
  if (sim_lctrace()) {
    if (st == ARES_SUCCESS && dnsrec_resp != NULL && *dnsrec_resp != NULL) {
      sim_ev("LC TQ %d %d %d %d", (int)st, (int)ares_dns_record_get_rcode(*dnsrec_resp),
             (int)ares_dns_record_rr_cnt(*dnsrec_resp, ARES_SECTION_ANSWER),
             (int)ares_dns_record_get_id(*dnsrec_resp));
    } else {
      sim_ev("LC TQ %d 0 0 0", (int)st);
    }
  }
  return st;
}

ares_status_t __real_ares_dns_record_duplicate_ex(ares_dns_record_t **dest, const ares_dns_record_t *src);
ares_status_t __wrap_ares_dns_record_duplicate_ex(ares_dns_record_t **dest, const ares_dns_record_t *src)
{
  ares_status_t st = __real_ares_dns_record_duplicate_ex(dest, src);
  if (sim_lctrace()) {
    sim_ev("LC TD %d", (int)st);
  }
  return st;
}

ares_status_t __real_ares_dns_record_query_set_name(ares_dns_record_t *dnsrec, size_t idx, const char *name);
ares_status_t __wrap_ares_dns_record_query_set_name(ares_dns_record_t *dnsrec, size_t idx, const char *name)
{
  ares_status_t st = __real_ares_dns_record_query_set_name(dnsrec, idx, name);
  if (sim_lctrace()) {
    sim_ev("LC TN %d", (int)st);
  }
  return st;
}

ares_status_t __real_ares_open_connection(ares_conn_t **conn_out, ares_channel_t *channel,
                                          ares_server_t *server, ares_bool_t is_tcp);
ares_status_t __wrap_ares_open_connection(ares_conn_t **conn_out, ares_channel_t *channel,
                                          ares_server_t *server, ares_bool_t is_tcp)
{
  ares_status_t st = __real_ares_open_connection(conn_out, channel, server, is_tcp);
  if (sim_lctrace()) {
    sim_ev("LC TO %d", (int)st);
  }
  return st;
}

ares_status_t __real_ares_cookie_apply(ares_dns_record_t *dnsrec, ares_conn_t *conn, const ares_timeval_t *now);
ares_status_t __wrap_ares_cookie_apply(ares_dns_record_t *dnsrec, ares_conn_t *conn, const ares_timeval_t *now)
{
  if (sim_lctrace()) {
    sim_ev("LC TW %u s%d %d", (unsigned int)ares_dns_record_get_id(dnsrec), SIDX(conn->fd),
           (conn->flags & ARES_CONN_FLAG_TCP) ? 1 : 0);
  }
  return __real_ares_cookie_apply(dnsrec, conn, now);
}

ares_status_t __real_ares_conn_flush(ares_conn_t *conn);
ares_status_t __wrap_ares_conn_flush(ares_conn_t *conn)
{
  int           sidx = SIDX(conn->fd);
  ares_status_t st   = __real_ares_conn_flush(conn);
  if (sim_lctrace()) {
    sim_ev("LC TF s%d %d", sidx, (int)st);
  }
  return st;
}

ares_status_t __real_ares_cookie_validate(ares_query_t *query, const ares_dns_record_t *dnsresp,
                                          ares_conn_t *conn, const ares_timeval_t *now,
                                          ares_array_t **requeue);
ares_status_t __wrap_ares_cookie_validate(ares_query_t *query, const ares_dns_record_t *dnsresp,
                                          ares_conn_t *conn, const ares_timeval_t *now,
                                          ares_array_t **requeue)
{
  ares_status_t   st;
  unsigned short  qid     = query->qid;
  ares_channel_t *channel = query->channel;
  if (sim_lctrace()) {
    const ares_dns_rr_t *ropt = ares_dns_get_opt_rr_const(query->query);
    sim_ev("LC TM %u s%d %d %d %d %d %d %d", (unsigned int)qid, SIDX(conn->fd),
           (int)ares_dns_record_get_rcode(dnsresp),
           (ares_dns_record_get_flags(dnsresp) & ARES_FLAG_TC) ? 1 : 0,
           (int)ares_dns_record_rr_cnt(dnsresp, ARES_SECTION_ANSWER),
           ares_dns_get_opt_rr_const(dnsresp) != NULL ? 1 : 0, ropt != NULL ? 1 : 0,
           (ropt != NULL && ares_dns_rr_get_opt_cnt(ropt, ARES_RR_OPT_OPTIONS) > 0) ? 1 : 0);
  }
  st = __real_ares_cookie_validate(query, dnsresp, conn, now, requeue);
  if (sim_lctrace()) {
    /* the query may have been completed and released inside: look it up again */
    const ares_query_t *q = ares_htable_szvp_get_direct(channel->queries_by_qid, qid);
    sim_ev("LC TMR %d %d", (int)st, (st != ARES_SUCCESS && (q == NULL || q->conn == NULL)) ? 1 : 0);
  }
  return st;
}

void __real_ares_close_connection(ares_conn_t *conn, ares_status_t requeue_status);
void __wrap_ares_close_connection(ares_conn_t *conn, ares_status_t requeue_status)
{
  if (sim_lctrace()) {
    sim_ev("LC TX s%d %d", SIDX(conn->fd), (int)requeue_status);
  }
  __real_ares_close_connection(conn, requeue_status);
}

void __real_ares_metrics_record(const ares_query_t *query, ares_server_t *server,
                                ares_status_t status, const ares_dns_record_t *dnsrec);
void __wrap_ares_metrics_record(const ares_query_t *query, ares_server_t *server,
                                ares_status_t status, const ares_dns_record_t *dnsrec)
{
  if (sim_lctrace()) {
    sim_ev("LC TE %u %d", (unsigned int)query->qid, (int)status);
  }
  __real_ares_metrics_record(query, server, status, dnsrec);
}

ares_status_t __real_ares_parse_into_addrinfo(const ares_dns_record_t *dnsrec,
                                              ares_bool_t cname_only_is_enodata,
                                              unsigned short port, struct ares_addrinfo *ai);
ares_status_t __wrap_ares_parse_into_addrinfo(const ares_dns_record_t *dnsrec,
                                              ares_bool_t cname_only_is_enodata,
                                              unsigned short port, struct ares_addrinfo *ai)
{
  ares_status_t st = __real_ares_parse_into_addrinfo(dnsrec, cname_only_is_enodata, port, ai);
  if (sim_lctrace() && cname_only_is_enodata) { /* host_callback; the legacy parsers pass 0 */
    const struct ares_addrinfo_node *n;
    int                              v4 = 0;
    int                              v6 = 0;
    for (n = ai->nodes; n != NULL; n = n->ai_next) {
      if (n->ai_family == AF_INET) {
        v4 = 1;
      }
      if (n->ai_family == AF_INET6) {
        v6 = 1;
      }
    }
    sim_ev("LC TP %d %d %d %d", (int)st, ai->nodes != NULL ? 1 : 0, v4, v6);
  }
  return st;
}

ares_status_t __real_ares_parse_ptr_reply_dnsrec(const ares_dns_record_t *dnsrec, const void *addr,
                                                 int addrlen, int family, struct hostent **host);
ares_status_t __wrap_ares_parse_ptr_reply_dnsrec(const ares_dns_record_t *dnsrec, const void *addr,
                                                 int addrlen, int family, struct hostent **host)
{
  ares_status_t st = __real_ares_parse_ptr_reply_dnsrec(dnsrec, addr, addrlen, family, host);
  if (sim_lctrace() && addr != NULL) { /* addr_callback; ares_parse_ptr_reply may pass NULL */
    sim_ev("LC TR %d", (int)st);
  }
  return st;
}

void __real_ares_check_cleanup_conns(const ares_channel_t *channel);
void __wrap_ares_check_cleanup_conns(const ares_channel_t *channel)
{
  if (sim_lctrace()) {
    sim_ev("LC TK");
  }
  __real_ares_check_cleanup_conns(channel);
  if (sim_lctrace()) {
    sim_ev("LC TKE");
  }
}

ares_status_t __real_ares_servers_update(ares_channel_t *channel, ares_llist_t *server_list,
                                         ares_bool_t user_specified);
ares_status_t __wrap_ares_servers_update(ares_channel_t *channel, ares_llist_t *server_list,
                                         ares_bool_t user_specified)
{
  ares_status_t st;
  if (sim_lctrace()) {
    sim_ev("LC TU %d", (int)ares_llist_len(server_list));
  }
  st = __real_ares_servers_update(channel, server_list, user_specified);
  if (sim_lctrace()) {
    sim_ev("LC TUE");
  }
  return st;
}
