/* Implementation-side driver for the container engine (C19).
 * case:  <kind>|op;op;...      kinds are registered by harness/dsa_<kind>.c (DSA_REGISTER)
 * output per case: one or more lines "<k> R tok tok ..."
 */
#include "ares_private.h"
#include "drv_common.h"
#include "dsa_reg.h"
#include <unistd.h>
#include <sanitizer/lsan_interface.h>

static struct { const char *kind; dsa_run_fn fn; } kinds[32];
static int nkinds;

void dsa_register(const char *kind, dsa_run_fn fn)
{
  if (nkinds < 32) { kinds[nkinds].kind = kind; kinds[nkinds].fn = fn; nkinds++; }
}

long dsa_alloc_fail_at  = -1;
int  dsa_alloc_fail_all = 0;
long dsa_alloc_requests = 0;

static int alloc_refused(void)
{
  dsa_alloc_requests++;
  if (dsa_alloc_fail_all) return 1;
  if (dsa_alloc_fail_at == 0) { dsa_alloc_fail_at = -1; return 1; }
  if (dsa_alloc_fail_at > 0) dsa_alloc_fail_at--;
  return 0;
}
static void *drv_malloc(size_t n) { return alloc_refused() ? NULL : malloc(n); }
static void *drv_realloc(void *p, size_t n) { return alloc_refused() ? NULL : realloc(p, n); }
static void  drv_free(void *p) { free(p); }

/* Leak attribution.  A LeakSanitizer pass costs ~10 ms, so it runs after every LEAK_BATCH cases
 * (and after the last one).  When a pass finds a leak the driver re-executes itself from the
 * first case of the batch in "each" mode (a pass after every case) and exits with the
 * LeakSanitizer exit code at the case that leaks - or at the end of the batch if no single
 * case reproduces it - so that the runner attributes the leak to a replayable case and resumes
 * with the next one.  The cases of the batch print their result lines twice (identical). */
#define LEAK_BATCH 16
static char **g_argv;
static long   batch_start, batch_n, each_until = -1;

static void leak_reexec(long last)
{
  char a[32], b[32];
  fflush(stdout);
  snprintf(a, sizeof(a), "%ld", batch_start);
  snprintf(b, sizeof(b), "%ld", last);
  setenv("DSA_LEAK_EACH_UNTIL", b, 1);
  execl(g_argv[0], g_argv[0], g_argv[1], a, (char *)NULL);
  _exit(97);
}

static void leak_checkpoint(long k)
{
  if (each_until >= 0) {
    if (__lsan_do_recoverable_leak_check() || k >= each_until) { fflush(stdout); _exit(97); }
    return;
  }
  if (++batch_n < LEAK_BATCH) return;
  if (__lsan_do_recoverable_leak_check()) leak_reexec(k);
  batch_n     = 0;
  batch_start = k + 1;
}

static void run_case(long k, char *line)
{
  char *bar = strchr(line, '|');
  int   i;
  if (!bar) { printf("%ld R BADCASE\n", k); return; }
  *bar = 0;
  dsa_alloc_fail_at = -1;
  dsa_alloc_fail_all = 0;
  for (i = 0; i < nkinds; i++) {
    if (strcmp(line, kinds[i].kind) == 0) {
      kinds[i].fn(k, bar + 1);
      leak_checkpoint(k);
      return;
    }
  }
  printf("%ld R BADKIND\n", k);
}

int main(int argc, char **argv)
{
  int rc;
  g_argv = argv;
  batch_start = argc > 2 ? atol(argv[2]) : 0;
  if (getenv("DSA_LEAK_EACH_UNTIL")) each_until = atol(getenv("DSA_LEAK_EACH_UNTIL"));
  ares_library_init_mem(ARES_LIB_INIT_ALL, drv_malloc, drv_free, drv_realloc);
  rc = drv_main(argc, argv, run_case);
  ares_library_cleanup();
  if (each_until < 0 && batch_n > 0 && __lsan_do_recoverable_leak_check()) leak_reexec(batch_start + batch_n - 1);
  return rc;
}
