/* Implementation-side driver for the container engine (C19).
 * case:  <kind>|op;op;...      kinds are registered by harness/dsa_<kind>.c (DSA_REGISTER)
 * output per case: one or more lines "<k> R tok tok ..."
 */
#include "ares_private.h"
#include "drv_common.h"
#include "dsa_reg.h"
#include <unistd.h>
#include <sanitizer/lsan_interface.h>

static struct { const char *kind; dsa_run_fn fn; } kinds[32];
static int nkinds;

void dsa_register(const char *kind, dsa_run_fn fn)
{
  if (nkinds < 32) { kinds[nkinds].kind = kind; kinds[nkinds].fn = fn; nkinds++; }
}

long dsa_alloc_fail_at  = -1;
int  dsa_alloc_fail_all = 0;
long dsa_alloc_requests = 0;

static int alloc_refused(void)
{
  dsa_alloc_requests++;
  if (dsa_alloc_fail_all) return 1;
  if (dsa_alloc_fail_at == 0) { dsa_alloc_fail_at = -1; return 1; }
  if (dsa_alloc_fail_at > 0) dsa_alloc_fail_at--;
  return 0;
}
static void *drv_malloc(size_t n) { return alloc_refused() ? NULL : malloc(n); }
static void *drv_realloc(void *p, size_t n) { return alloc_refused() ? NULL : realloc(p, n); }
static void  drv_free(void *p) { free(p); }

static void run_case(long k, char *line)
{
  char *bar = strchr(line, '|');
  int   i;
  if (!bar) { printf("%ld R BADCASE\n", k); return; }
  *bar = 0;
  dsa_alloc_fail_at = -1;
  dsa_alloc_fail_all = 0;
  for (i = 0; i < nkinds; i++) {
    if (strcmp(line, kinds[i].kind) == 0) {
      kinds[i].fn(k, bar + 1);
      /* attribute a leak to the case that caused it (exit code = LSAN_OPTIONS exitcode);
       * the runner resumes with the next case */
      if (__lsan_do_recoverable_leak_check()) { fflush(stdout); _exit(97); }
      return;
    }
  }
  printf("%ld R BADKIND\n", k);
}

int main(int argc, char **argv)
{
  int rc;
  ares_library_init_mem(ARES_LIB_INIT_ALL, drv_malloc, drv_free, drv_realloc);
  rc = drv_main(argc, argv, run_case);
  ares_library_cleanup();
  return rc;
}
