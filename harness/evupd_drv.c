/* Event-handle registration engine (C11/C07): drives the update queue of the built-in event
 * thread (ares_event_update / the socket-state callback, ares_event_process_updates) directly,
 * single-threaded and deterministic, with a recording event backend.  The library's
 * src/lib/event/ares_event_thread.c is compiled into this driver (so that its static functions
 * can be called); the rest comes from the sanitized library.
 *
 * case: |op;op;...
 *   s <fd> <r> <w>            the channel's socket-state callback (ares_event_thread_sockstate_cb)
 *   x <s|c> <id> <flags> <cbnull>   ares_event_update() on socket <id> / custom handle <id>; prints its status
 *   d                         ares_event_process_updates(); prints the backend calls it made and the table
 * output: "<k> R <i> st=<status>" | "<k> R <i> calls=<add:s5:1,del:s5,...>" | "<k> R <i> tbl=<s5=1,c7=4,...>"
 */
#include "ares_private.h"
#include "event/ares_event_thread.c"
#include "drv_common.h"

#define MAXKEYS 64
static char   calls[8192];
static size_t calls_len;

static void keyname(const ares_event_t *ev, char *buf, size_t len)
{
  if (ev->fd == ARES_SOCKET_BAD) snprintf(buf, len, "c%ld", (long)((size_t)ev->data - 0x1000));
  else snprintf(buf, len, "s%ld", (long)ev->fd);
}
static void logcall(const char *what, const ares_event_t *ev, long flags, int withflags)
{
  char kn[32];
  keyname(ev, kn, sizeof(kn));
  if (withflags) calls_len += (size_t)snprintf(calls + calls_len, sizeof(calls) - calls_len, "%s%s:%s:%ld", calls_len ? "," : "", what, kn, flags);
  else calls_len += (size_t)snprintf(calls + calls_len, sizeof(calls) - calls_len, "%s%s:%s", calls_len ? "," : "", what, kn);
  if (calls_len > sizeof(calls) - 64) calls_len = sizeof(calls) - 64;
}
static ares_bool_t fake_add(ares_event_t *ev) { logcall("add", ev, (long)ev->flags, 1); return ARES_TRUE; }
static void        fake_del(ares_event_t *ev) { logcall("del", ev, 0, 0); }
static void        fake_mod(ares_event_t *ev, ares_event_flags_t nf) { logcall("mod", ev, (long)nf, 1); }
static size_t      fake_wait(ares_event_thread_t *e, unsigned long ms) { (void)e; (void)ms; return 0; }
static const ares_event_sys_t fake_sys = { "fake", NULL, NULL, fake_add, fake_del, fake_mod, fake_wait };

static void dummy_cb(ares_event_thread_t *e, ares_socket_t fd, void *data, ares_event_flags_t flags)
{ (void)e; (void)fd; (void)data; (void)flags; }

static void run_case(long k, char *line)
{
  ares_event_thread_t e;
  char *bar = strchr(line, '|'), *save = NULL, *tokp;
  long  i = 0;
  long  skeys[MAXKEYS], ckeys[MAXKEYS];
  int   nsk = 0, nck = 0, j;
  if (!bar) { printf("%ld R BADCASE\n", k); return; }
  memset(&e, 0, sizeof(e));
  e.mutex           = ares_thread_mutex_create();
  e.ev_updates      = ares_llist_create(NULL);
  e.ev_sock_handles = ares_htable_asvp_create(ares_event_destroy_cb);
  e.ev_cust_handles = ares_htable_vpvp_create(NULL, ares_event_destroy_cb);
  e.ev_sys          = &fake_sys;
  if (!e.mutex || !e.ev_updates || !e.ev_sock_handles || !e.ev_cust_handles) { printf("%ld R INITFAIL\n", k); return; }
  for (tokp = strtok_r(bar + 1, ";", &save); tokp; tokp = strtok_r(NULL, ";", &save), i++) {
    long a, b, c, d;
    char kind;
    if (sscanf(tokp, "s %ld %ld %ld", &a, &b, &c) == 3) {
      for (j = 0; j < nsk && skeys[j] != a; j++) ;
      if (j == nsk && nsk < MAXKEYS) skeys[nsk++] = a;
      ares_event_thread_sockstate_cb(&e, (ares_socket_t)a, (int)b, (int)c);
      printf("%ld R %ld st=0\n", k, i);   /* the callback has no result; the model must accept it */
    } else if (sscanf(tokp, "x %c %ld %ld %ld", &kind, &a, &b, &c) == 4) {
      ares_status_t st;
      if (kind == 's') {
        for (j = 0; j < nsk && skeys[j] != a; j++) ;
        if (j == nsk && nsk < MAXKEYS) skeys[nsk++] = a;
        st = ares_event_update(NULL, &e, (ares_event_flags_t)b, c ? NULL : dummy_cb, (ares_socket_t)a, NULL, NULL, NULL);
      } else {
        for (j = 0; j < nck && ckeys[j] != a; j++) ;
        if (j == nck && nck < MAXKEYS) ckeys[nck++] = a;
        st = ares_event_update(NULL, &e, (ares_event_flags_t)b, c ? NULL : dummy_cb, ARES_SOCKET_BAD, (void *)(size_t)(0x1000 + a), NULL, NULL);
      }
      printf("%ld R %ld st=%d\n", k, i, (int)st);
    } else if (tokp[0] == 'd') {
      char   tbl[4096];
      size_t tl = 0;
      calls_len = 0; calls[0] = 0;
      ares_thread_mutex_lock(e.mutex);
      ares_event_process_updates(&e);
      ares_thread_mutex_unlock(e.mutex);
      printf("%ld R %ld calls=%s\n", k, i, calls);
      tbl[0] = 0;
      for (j = 0; j < nsk; j++) {
        ares_event_t *ev = ares_htable_asvp_get_direct(e.ev_sock_handles, (ares_socket_t)skeys[j]);
        if (ev) tl += (size_t)snprintf(tbl + tl, sizeof(tbl) - tl, "%ss%ld=%ld", tl ? "," : "", skeys[j], (long)ev->flags);
      }
      for (j = 0; j < nck; j++) {
        ares_event_t *ev = ares_htable_vpvp_get_direct(e.ev_cust_handles, (void *)(size_t)(0x1000 + ckeys[j]));
        if (ev) tl += (size_t)snprintf(tbl + tl, sizeof(tbl) - tl, "%sc%ld=%ld", tl ? "," : "", ckeys[j], (long)ev->flags);
      }
      printf("%ld R %ld tbl=%s\n", k, i, tbl);
      (void)d;
    } else {
      printf("%ld R %ld BADOP\n", k, i);
    }
  }
  calls_len = 0;
  ares_thread_mutex_lock(e.mutex);
  ares_event_thread_cleanup(&e);
  ares_thread_mutex_unlock(e.mutex);
  ares_thread_mutex_destroy(e.mutex);
}

int main(int argc, char **argv)
{
  return drv_main(argc, argv, run_case);
}
