/* Linked-list case kind of the container engine (C19): drives src/lib/dsa/ares_llist.c.
 * ops (a leading '!' makes the allocation inside the call fail):
 *   new:<d>  if:<l>:<v> il:<l>:<v> ib:<n>:<v> ia:<n>:<v>
 *   nf:<l> nl:<l> ni:<l>:<idx> nn:<n> np:<n> nv:<n> par:<n> fv:<l> lv:<l> len:<l>
 *   cl:<n> nd:<n> rp:<n>:<v> mf:<n>:<l> ml:<n>:<l> clr:<l> des:<l>
 * <l> = list index in creation order, <n> = node index in creation order, '-' = NULL.
 * An op naming a dead node / destroyed list is not issued (token "skip").
 * Values are small integers carried in the void* itself (never dereferenced).
 * After every mutating op (of the first 120 ops; afterwards after every 8th op if mutating) and
 * at the end all live lists are dumped:
 *   {<l>:f=<node>.<val>.<parent>,...;b=<node>.<val>,...;c=<len>|...}
 * output: one line "<k> R tok tok ..."
 */
#include "ares_private.h"
#include "drv_common.h"
#include "dsa_reg.h"
#include <stdint.h>

#define LL_MAXN 4096
#define LL_MAXL 256

static ares_llist_node_t *ll_nodes[LL_MAXN];
static int                ll_node_live[LL_MAXN];
static long               ll_node_list[LL_MAXN]; /* list the driver put the node in */
static long               ll_nnodes;
static ares_llist_t      *ll_lists[LL_MAXL];
static int                ll_list_live[LL_MAXL];
static long               ll_nlists;

static long long ll_calls[LL_MAXN];
static long      ll_ncalls;

static void ll_destructor(void *p)
{
  if (ll_ncalls < LL_MAXN) {
    ll_calls[ll_ncalls++] = (long long)(intptr_t)p;
  }
}

static void ll_print_calls(void)
{
  long i;
  printf(" d[");
  for (i = 0; i < ll_ncalls; i++) {
    printf("%s%lld", i ? "," : "", ll_calls[i]);
  }
  printf("]");
}

static long ll_node_index(const ares_llist_node_t *n)
{
  long i;
  for (i = 0; i < ll_nnodes; i++) {
    if (ll_node_live[i] && ll_nodes[i] == n) {
      return i;
    }
  }
  return -1;
}

static long ll_list_index(const ares_llist_t *l)
{
  long i;
  for (i = 0; i < ll_nlists; i++) {
    if (ll_list_live[i] && ll_lists[i] == l) {
      return i;
    }
  }
  return -1;
}

static void ll_print_node(ares_llist_node_t *n)
{
  long i;
  if (n == NULL) {
    printf(" N");
    return;
  }
  i = ll_node_index(n);
  if (i < 0) {
    printf(" n?");
  } else {
    printf(" n%ld", i);
  }
}

static void ll_print_list(ares_llist_t *l)
{
  long i;
  if (l == NULL) {
    printf(" N");
    return;
  }
  i = ll_list_index(l);
  if (i < 0) {
    printf(" L?");
  } else {
    printf(" L%ld", i);
  }
}

static void ll_dump(const char *pre)
{
  long l;
  int  firstl = 1;
  printf(" %s{", pre);
  for (l = 0; l < ll_nlists; l++) {
    ares_llist_node_t *n;
    long               steps;
    if (!ll_list_live[l]) {
      continue;
    }
    printf("%s%ld:f=", firstl ? "" : "|", l);
    firstl = 0;
    steps  = 0;
    for (n = ares_llist_node_first(ll_lists[l]); n != NULL; n = ares_llist_node_next(n)) {
      long          ni = ll_node_index(n);
      ares_llist_t *p;
      long          pi;
      if (ni < 0 || steps > ll_nnodes) {
        printf("%sLOST", steps ? "," : "");
        break;
      }
      p  = ares_llist_node_parent(n);
      pi = ll_list_index(p);
      printf("%s%ld.%lld.", steps ? "," : "", ni, (long long)(intptr_t)ares_llist_node_val(n));
      if (p == NULL) {
        printf("N");
      } else if (pi < 0) {
        printf("?");
      } else {
        printf("%ld", pi);
      }
      steps++;
    }
    printf(";b=");
    steps = 0;
    for (n = ares_llist_node_last(ll_lists[l]); n != NULL; n = ares_llist_node_prev(n)) {
      long ni = ll_node_index(n);
      if (ni < 0 || steps > ll_nnodes) {
        printf("%sLOST", steps ? "," : "");
        break;
      }
      printf("%s%ld.%lld", steps ? "," : "", ni, (long long)(intptr_t)ares_llist_node_val(n));
      steps++;
    }
    printf(";c=%zu", ares_llist_len(ll_lists[l]));
  }
  printf("}");
}

/* parse "<idx>" or "-"; returns 0 on syntax error; *isnull set for "-" */
static int ll_parse_ptr(const char *s, long *idx, int *isnull)
{
  char *end;
  if (strcmp(s, "-") == 0) {
    *isnull = 1;
    *idx    = -1;
    return 1;
  }
  *isnull = 0;
  *idx    = strtol(s, &end, 10);
  return *s != 0 && *end == 0 && *idx >= 0;
}

static int ll_node_ok(long i, int isnull)
{
  return isnull || (i < ll_nnodes && ll_node_live[i]);
}
static int ll_list_ok(long i, int isnull)
{
  return isnull || (i < ll_nlists && ll_list_live[i]);
}

static void ll_new_node(ares_llist_node_t *n, long list)
{
  if (n != NULL && ll_nnodes < LL_MAXN) {
    ll_nodes[ll_nnodes]     = n;
    ll_node_live[ll_nnodes] = 1;
    ll_node_list[ll_nnodes] = list;
    ll_nnodes++;
  }
}

static void ll_kill_list_nodes(long l)
{
  long i;
  for (i = 0; i < ll_nnodes; i++) {
    if (ll_node_live[i] && ll_node_list[i] == l) {
      ll_node_live[i] = 0;
    }
  }
}

static void run_llist(long k, char *ops)
{
  char *save = NULL, *op;
  long  i, opidx = -1;

  ll_nnodes    = 0;
  ll_nlists    = 0;

  printf("%ld R", k);
  for (op = strtok_r(ops, ";", &save); op; op = strtok_r(NULL, ";", &save)) {
    char  name[8];
    char  a1[24], a2[24];
    int   nargs, fail = 0, mutating = 1;
    long  x = -1, y = -1;
    int   xnull = 0, ynull = 0;
    long long v = 0;
    char *end;

    opidx++;
    if (*op == '!') {
      fail = 1;
      op++;
    }
    a1[0] = a2[0] = 0;
    nargs = sscanf(op, "%7[a-z]:%23[-0-9]:%23[-0-9]", name, a1, a2);
    if (nargs < 2) {
      printf(" BADOP");
      continue;
    }
    ll_ncalls = 0;

    if (strcmp(name, "new") == 0 && nargs == 2) {
      ares_llist_t *l;
      dsa_alloc_fail_all = fail;
      l            = ares_llist_create(strcmp(a1, "0") != 0 ? ll_destructor : NULL);
      dsa_alloc_fail_all = 0;
      if (l != NULL && ll_nlists < LL_MAXL) {
        ll_lists[ll_nlists]     = l;
        ll_list_live[ll_nlists] = 1;
        ll_nlists++;
      }
      ll_print_list(l);
    } else if ((strcmp(name, "if") == 0 || strcmp(name, "il") == 0) && nargs == 3) {
      ares_llist_node_t *n;
      if (!ll_parse_ptr(a1, &x, &xnull)) { printf(" BADOP"); continue; }
      v = strtoll(a2, &end, 10);
      if (!ll_list_ok(x, xnull)) { printf(" skip"); goto dump; }
      dsa_alloc_fail_all = fail;
      if (name[1] == 'f') {
        n = ares_llist_insert_first(xnull ? NULL : ll_lists[x], (void *)(intptr_t)v);
      } else {
        n = ares_llist_insert_last(xnull ? NULL : ll_lists[x], (void *)(intptr_t)v);
      }
      dsa_alloc_fail_all = 0;
      ll_new_node(n, x);
      ll_print_node(n);
    } else if ((strcmp(name, "ib") == 0 || strcmp(name, "ia") == 0) && nargs == 3) {
      ares_llist_node_t *n;
      if (!ll_parse_ptr(a1, &x, &xnull)) { printf(" BADOP"); continue; }
      v = strtoll(a2, &end, 10);
      if (!ll_node_ok(x, xnull)) { printf(" skip"); goto dump; }
      dsa_alloc_fail_all = fail;
      if (name[1] == 'b') {
        n = ares_llist_insert_before(xnull ? NULL : ll_nodes[x], (void *)(intptr_t)v);
      } else {
        n = ares_llist_insert_after(xnull ? NULL : ll_nodes[x], (void *)(intptr_t)v);
      }
      dsa_alloc_fail_all = 0;
      ll_new_node(n, xnull ? -1 : ll_node_list[x]);
      ll_print_node(n);
    } else if ((strcmp(name, "nf") == 0 || strcmp(name, "nl") == 0) && nargs == 2) {
      mutating = 0;
      if (!ll_parse_ptr(a1, &x, &xnull)) { printf(" BADOP"); continue; }
      if (!ll_list_ok(x, xnull)) { printf(" skip"); continue; }
      ll_print_node(name[1] == 'f' ? ares_llist_node_first(xnull ? NULL : ll_lists[x])
                                   : ares_llist_node_last(xnull ? NULL : ll_lists[x]));
    } else if (strcmp(name, "ni") == 0 && nargs == 3) {
      mutating = 0;
      if (!ll_parse_ptr(a1, &x, &xnull)) { printf(" BADOP"); continue; }
      if (!ll_list_ok(x, xnull)) { printf(" skip"); continue; }
      ll_print_node(ares_llist_node_idx(xnull ? NULL : ll_lists[x], (size_t)strtoul(a2, &end, 10)));
    } else if ((strcmp(name, "nn") == 0 || strcmp(name, "np") == 0) && nargs == 2) {
      mutating = 0;
      if (!ll_parse_ptr(a1, &x, &xnull)) { printf(" BADOP"); continue; }
      if (!ll_node_ok(x, xnull)) { printf(" skip"); continue; }
      ll_print_node(name[1] == 'n' ? ares_llist_node_next(xnull ? NULL : ll_nodes[x])
                                   : ares_llist_node_prev(xnull ? NULL : ll_nodes[x]));
    } else if (strcmp(name, "nv") == 0 && nargs == 2) {
      mutating = 0;
      if (!ll_parse_ptr(a1, &x, &xnull)) { printf(" BADOP"); continue; }
      if (!ll_node_ok(x, xnull)) { printf(" skip"); continue; }
      printf(" %lld", (long long)(intptr_t)ares_llist_node_val(xnull ? NULL : ll_nodes[x]));
    } else if (strcmp(name, "par") == 0 && nargs == 2) {
      mutating = 0;
      if (!ll_parse_ptr(a1, &x, &xnull)) { printf(" BADOP"); continue; }
      if (!ll_node_ok(x, xnull)) { printf(" skip"); continue; }
      ll_print_list(ares_llist_node_parent(xnull ? NULL : ll_nodes[x]));
    } else if ((strcmp(name, "fv") == 0 || strcmp(name, "lv") == 0) && nargs == 2) {
      mutating = 0;
      if (!ll_parse_ptr(a1, &x, &xnull)) { printf(" BADOP"); continue; }
      if (!ll_list_ok(x, xnull)) { printf(" skip"); continue; }
      printf(" %lld", (long long)(intptr_t)(name[0] == 'f' ? ares_llist_first_val(xnull ? NULL : ll_lists[x])
                                                          : ares_llist_last_val(xnull ? NULL : ll_lists[x])));
    } else if (strcmp(name, "len") == 0 && nargs == 2) {
      mutating = 0;
      if (!ll_parse_ptr(a1, &x, &xnull)) { printf(" BADOP"); continue; }
      if (!ll_list_ok(x, xnull)) { printf(" skip"); continue; }
      printf(" #%zu", ares_llist_len(xnull ? NULL : ll_lists[x]));
    } else if (strcmp(name, "cl") == 0 && nargs == 2) {
      if (!ll_parse_ptr(a1, &x, &xnull)) { printf(" BADOP"); continue; }
      if (!ll_node_ok(x, xnull)) { printf(" skip"); goto dump; }
      printf(" %lld", (long long)(intptr_t)ares_llist_node_claim(xnull ? NULL : ll_nodes[x]));
      if (!xnull) {
        ll_node_live[x] = 0;
      }
    } else if (strcmp(name, "nd") == 0 && nargs == 2) {
      if (!ll_parse_ptr(a1, &x, &xnull)) { printf(" BADOP"); continue; }
      if (!ll_node_ok(x, xnull)) { printf(" skip"); goto dump; }
      ares_llist_node_destroy(xnull ? NULL : ll_nodes[x]);
      if (!xnull) {
        ll_node_live[x] = 0;
      }
      ll_print_calls();
    } else if (strcmp(name, "rp") == 0 && nargs == 3) {
      if (!ll_parse_ptr(a1, &x, &xnull)) { printf(" BADOP"); continue; }
      v = strtoll(a2, &end, 10);
      if (!ll_node_ok(x, xnull)) { printf(" skip"); goto dump; }
      ares_llist_node_replace(xnull ? NULL : ll_nodes[x], (void *)(intptr_t)v);
      ll_print_calls();
    } else if ((strcmp(name, "mf") == 0 || strcmp(name, "ml") == 0) && nargs == 3) {
      if (!ll_parse_ptr(a1, &x, &xnull) || !ll_parse_ptr(a2, &y, &ynull)) { printf(" BADOP"); continue; }
      if (!ll_node_ok(x, xnull) || !ll_list_ok(y, ynull)) { printf(" skip"); goto dump; }
      if (name[1] == 'f') {
        ares_llist_node_mvparent_first(xnull ? NULL : ll_nodes[x], ynull ? NULL : ll_lists[y]);
      } else {
        ares_llist_node_mvparent_last(xnull ? NULL : ll_nodes[x], ynull ? NULL : ll_lists[y]);
      }
      if (!xnull && !ynull) {
        ll_node_list[x] = y;
      }
      printf(" v");
    } else if ((strcmp(name, "clr") == 0 || strcmp(name, "des") == 0) && nargs == 2) {
      if (!ll_parse_ptr(a1, &x, &xnull)) { printf(" BADOP"); continue; }
      if (!ll_list_ok(x, xnull)) { printf(" skip"); goto dump; }
      if (name[0] == 'c') {
        ares_llist_clear(xnull ? NULL : ll_lists[x]);
      } else {
        ares_llist_destroy(xnull ? NULL : ll_lists[x]);
        if (!xnull) {
          ll_list_live[x] = 0;
        }
      }
      if (!xnull) {
        ll_kill_list_nodes(x);
      }
      ll_print_calls();
    } else {
      printf(" BADOP");
      continue;
    }
dump:
    if (mutating && (opidx < 120 || opidx % 8 == 0)) {
      ll_dump("");
    }
  }
  ll_dump("end");
  printf("\n");

  /* free everything that is still alive (no destructor output wanted any more) */
  for (i = 0; i < ll_nlists; i++) {
    if (ll_list_live[i]) {
      ares_llist_destroy(ll_lists[i]);
      ll_list_live[i] = 0;
    }
  }
  dsa_alloc_fail_all = 0;
}

DSA_REGISTER("llist", run_llist)
