"""Case generator for the linked-list kind of the container engine (C19).

Keeps a shadow of the lists (node indexes only) so that the boundaries of the proof's case
splits are hit on purpose: insert before the head / after the tail / in the middle, moves
(first and last) into an empty list, out of a one-element list, within the same list, removal
of the only node / head / tail / middle node, operations on an empty list, NULL arguments,
NULL values, failing allocations, and - rarely - operations naming dead nodes / destroyed
lists (skipped identically by every side)."""


def gen_case(rng, maxops):
    n = rng.choice([4, 10, 25, 60, min(maxops, 400)])
    ops = []
    lists = []          # per list index: list of node indexes, or None once destroyed
    where = {}          # live node index -> list index
    nnodes = 0
    nextv = [1]
    mode = rng.choice(["mixed", "mixed", "moves", "middle", "drain", "small", "grow"])

    def val():
        r = rng.random()
        if r < 0.03:
            return 0
        if r < 0.15:
            return rng.randint(1, 5)          # duplicates
        nextv[0] += 1
        return nextv[0] + 10

    def live_lists():
        return [i for i, l in enumerate(lists) if l is not None]

    def pick_list(prefer=None):
        ll = live_lists()
        if not ll or rng.random() < 0.02:
            if lists and rng.random() < 0.5:
                return rng.randrange(len(lists))       # possibly a destroyed one
            return None                                # NULL
        if prefer == "empty":
            e = [i for i in ll if not lists[i]]
            if e:
                return rng.choice(e)
        if prefer == "nonempty":
            e = [i for i in ll if lists[i]]
            if e:
                return rng.choice(e)
        if prefer == "single":
            e = [i for i in ll if len(lists[i]) == 1]
            if e:
                return rng.choice(e)
        return rng.choice(ll)

    def pick_node(pos=None):
        """pos in head/tail/mid/only/any"""
        if not where or rng.random() < 0.02:
            if nnodes and rng.random() < 0.6:
                return rng.randrange(nnodes)           # possibly dead
            return None
        cands = []
        for li in live_lists():
            l = lists[li]
            if not l:
                continue
            if pos == "head":
                cands.append(l[0])
            elif pos == "tail":
                cands.append(l[-1])
            elif pos == "only" and len(l) == 1:
                cands.append(l[0])
            elif pos == "mid" and len(l) >= 3:
                cands.append(l[rng.randrange(1, len(l) - 1)])
        if not cands:
            return rng.choice(sorted(where))
        return rng.choice(cands)

    def p(x):
        return "-" if x is None else str(x)

    def newlist():
        ok = rng.random() >= 0.03
        d = 0 if rng.random() < 0.25 else 1
        ops.append(("" if ok else "!") + "new:%d" % d)
        if ok:
            lists.append([])

    def node_alive(x):
        return x is not None and x in where

    def list_alive(x):
        return x is not None and x < len(lists) and lists[x] is not None

    def remove_node(x):
        lists[where[x]].remove(x)
        del where[x]

    for _ in range(rng.choice([2, 3, 3, 4])):
        newlist()

    for _ in range(n):
        c = rng.random()
        total = len(where)
        if mode == "small" and total > 3:
            c = 0.55 + 0.25 * rng.random()       # removals / moves
        if mode == "drain" and total > 0 and rng.random() < 0.4:
            c = 0.55 + 0.12 * rng.random()
        if mode == "moves" and total > 0 and rng.random() < 0.5:
            c = 0.68 + 0.14 * rng.random()
        if mode == "middle" and total > 0 and rng.random() < 0.5:
            c = 0.2 + 0.2 * rng.random()
        if mode == "grow" and rng.random() < 0.6:
            c = 0.4 * rng.random()
        if c < 0.10:
            l = pick_list(rng.choice([None, "empty"]))
            v = val()
            ok = rng.random() >= 0.04
            ops.append(("" if ok else "!") + "if:%s:%d" % (p(l), v))
            if ok and v != 0 and list_alive(l):
                lists[l].insert(0, nnodes); where[nnodes] = l; nnodes += 1
        elif c < 0.20:
            l = pick_list(rng.choice([None, "empty"]))
            v = val()
            ok = rng.random() >= 0.04
            ops.append(("" if ok else "!") + "il:%s:%d" % (p(l), v))
            if ok and v != 0 and list_alive(l):
                lists[l].append(nnodes); where[nnodes] = l; nnodes += 1
        elif c < 0.40:
            before = rng.random() < 0.5
            x = pick_node(rng.choice(["head", "tail", "mid", "mid", "only", "any"]))
            v = val()
            ok = rng.random() >= 0.04
            ops.append(("" if ok else "!") + "%s:%s:%d" % ("ib" if before else "ia", p(x), v))
            if ok and v != 0 and node_alive(x):
                l = where[x]
                i = lists[l].index(x)
                lists[l].insert(i if before else i + 1, nnodes); where[nnodes] = l; nnodes += 1
        elif c < 0.55:
            r = rng.random()
            if r < 0.12:
                ops.append("nf:%s" % p(pick_list()))
            elif r < 0.24:
                ops.append("nl:%s" % p(pick_list()))
            elif r < 0.36:
                l = pick_list()
                sz = len(lists[l]) if list_alive(l) else 0
                ops.append("ni:%s:%d" % (p(l), rng.randint(0, sz + 1)))
            elif r < 0.48:
                ops.append("nn:%s" % p(pick_node(rng.choice(["tail", "any", "head"]))))
            elif r < 0.60:
                ops.append("np:%s" % p(pick_node(rng.choice(["head", "any", "tail"]))))
            elif r < 0.68:
                ops.append("nv:%s" % p(pick_node("any")))
            elif r < 0.76:
                ops.append("par:%s" % p(pick_node("any")))
            elif r < 0.84:
                ops.append("fv:%s" % p(pick_list()))
            elif r < 0.92:
                ops.append("lv:%s" % p(pick_list()))
            else:
                ops.append("len:%s" % p(pick_list()))
        elif c < 0.68:
            x = pick_node(rng.choice(["head", "tail", "mid", "only", "any"]))
            r = rng.random()
            if r < 0.4:
                ops.append("cl:%s" % p(x))
                if node_alive(x):
                    remove_node(x)
            elif r < 0.8:
                ops.append("nd:%s" % p(x))
                if node_alive(x):
                    remove_node(x)
            else:
                ops.append("rp:%s:%d" % (p(x), val()))
        elif c < 0.82:
            x = pick_node(rng.choice(["head", "tail", "mid", "only", "any"]))
            r = rng.random()
            if r < 0.25 and node_alive(x):
                l = where[x]                               # within the same list
            elif r < 0.5:
                l = pick_list("empty")
            else:
                l = pick_list()
            first = rng.random() < 0.5
            ops.append("%s:%s:%s" % ("mf" if first else "ml", p(x), p(l)))
            if node_alive(x) and list_alive(l):
                remove_node(x)
                if first:
                    lists[l].insert(0, x)
                else:
                    lists[l].append(x)
                where[x] = l
        elif c < 0.87:
            l = pick_list(rng.choice([None, "nonempty", "empty"]))
            ops.append("clr:%s" % p(l))
            if list_alive(l):
                for x in lists[l]:
                    del where[x]
                lists[l] = []
        elif c < 0.90:
            l = pick_list(rng.choice([None, "nonempty", "empty"]))
            ops.append("des:%s" % p(l))
            if list_alive(l):
                for x in lists[l]:
                    del where[x]
                lists[l] = None
        elif c < 0.93 and len(lists) < 8:
            newlist()
        else:
            l = pick_list("nonempty")
            v = val()
            ops.append("il:%s:%d" % (p(l), v))
            if v != 0 and list_alive(l):
                lists[l].append(nnodes); where[nnodes] = l; nnodes += 1
    return "llist|" + ";".join(ops)
