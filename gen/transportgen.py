"""Case generators for the transport properties: C20 (framing / segmentation independence,
engine chan20) and C10 (socket protocol, engine chan10).  Pure functions of the rng passed in.

C20 case = one simulator history (harness/sim.h language).  harness/c20_drv.c runs it twice:
as written ("seg") and with all chunk=/wpat= items removed ("plain").  The first op is always
`note fam=<family>`; the model driver keys its checks on the family:
  pure   servers=1 usevc, only top-level `send` requests, NOERROR/NXDOMAIN answers, no faults:
         the op-level write model (run_wops) is compared event by event
  tc     UDP first, truncated answers -> TCP retry (or IGNTC), zero-length datagrams
  mixed  2 servers usevc, SERVFAIL/REFUSED/dup answers, timeouts, eof/reset at the end
  junk   raw bytes: zero-length frames, frames shorter than a DNS header (connection is
         closed by the library), frames split over several raw ops
"""

TYPES = ["A", "AAAA", "TXT", "MX"]


def pat_read(rng):
    """chunk= pattern (sizes of successive reads, last repeats, 0 = unlimited)"""
    r = rng.random()
    if r < 0.22:
        return "1"
    if r < 0.32:
        return "2"
    if r < 0.40:
        return "1,2,3,5,8,13,21"
    if r < 0.48:
        return "%d,0" % rng.randint(1, 50)             # one short read, then everything
    if r < 0.56:
        return "2,1"                                   # exactly the length prefix, then byte-wise
    if r < 0.62:
        return "3"                                     # prefix + 1 byte
    n = rng.randint(2, 14)
    return ",".join(str(rng.choice([1, 1, 2, 3, 7, 12, 28, 29, 30, 31, 44, 46, 47, 60, 100])) for _ in range(n))


def pat_write(rng):
    """wpat= pattern (bytes accepted by successive sendto calls, 0 = EAGAIN, last repeats)"""
    r = rng.random()
    if r < 0.15:
        return "1"
    if r < 0.25:
        return "2,1"
    if r < 0.33:
        return "0,1000"
    if r < 0.43:
        return "0,0,3,0,%d" % rng.randint(1, 64)
    if r < 0.50:
        return "%d" % rng.choice([29, 30, 31, 32, 60])  # around one frame of a 28 byte query
    n = rng.randint(2, 12)
    xs = [rng.choice([0, 0, 1, 2, 3, 5, 17, 29, 30, 31, 59, 61, 200]) for _ in range(n)]
    xs.append(rng.choice([1, 2, 7, 30, 500]))           # never end on 0 (would block for ever)
    return ",".join(map(str, xs))


def answer(rng, size_bias=0.0):
    r = rng.random()
    if r < 0.45:
        return "an=A:10.%d.%d.%d" % (rng.randint(0, 255), rng.randint(0, 255), rng.randint(1, 254))
    if r < 0.60:
        return "rcode=NXDOMAIN"
    if r < 0.75:
        n = rng.choice([1, 5, 40, 80, 120, 160])
        return "an=TXT:" + "".join(rng.choice("abcdefghijklmnopqrstuvwxyz") for _ in range(n))
    if r < 0.85:
        k = rng.randint(2, 6)
        return "an=" + "+".join("A:10.9.%d.%d" % (i, rng.randint(1, 254)) for i in range(k))
    return "an=MX:10:mx%d.example" % rng.randint(0, 99)


RUN = ["run @", "flushwrites", "run @"]      # @ = iteration bound, filled in by finish()


def name(T):
    return "n%dx.example" % T


def cfg_common(rng, seg=True):
    c = ["seed=%d" % rng.randint(1, 10 ** 6)]
    if seg:
        r = rng.random()
        if r < 0.8:
            c.append("chunk=" + pat_read(rng))
        if r > 0.2 or len(c) == 1:
            c.append("wpat=" + pat_write(rng))
    return c


def gen_pure(rng, tier):
    c = cfg_common(rng)
    flags = ["usevc"]
    stay = rng.random() < 0.4
    if stay:
        flags.append("stayopen")
    if rng.random() < 0.3:
        flags.append("noedns")
    c.insert(0, "servers=1 flags=" + ",".join(flags))
    pw = rng.random() < 0.4
    if pw:
        c.append("pendingwritecb=1")
    if rng.random() < 0.5:
        c.append("sockstatecb=1")
    tfo = rng.random() < 0.15
    if tfo:
        c.append("tfo=1")
    later = (not tfo) and stay and rng.random() < 0.2
    if later:
        c.append("connectlater=1")
    ops = ["note fam=pure"]
    T = 0
    ntx = 0          # transmissions completed after the last run
    queued = 0       # sends since the last run
    answered = 0
    nbatch = rng.choice([1, 1, 2, 3])
    first = True
    for b in range(nbatch):
        k = rng.choice([1, 1, 2, 3, 4, 6, 8, 12, 16])
        for _ in range(k):
            T += 1
            ops.append("send %d %s IN %s rd" % (T, name(T), rng.choice(TYPES)))
            queued += 1
            if pw and rng.random() < 0.3:
                ops.append("flushwrites")
        if pw and rng.random() < 0.8:
            ops.append("flushwrites")
        if first and later:
            ops.extend(RUN)
            ops.append("connected s0")
        first = False
        ops.extend(RUN)
        ntx += queued
        queued = 0
        # answer some or all of the outstanding transmissions, in any order
        pending = list(range(answered, ntx))
        rng.shuffle(pending)
        if b < nbatch - 1 and rng.random() < 0.5 and len(pending) > 1:
            keep = pending[: rng.randint(1, len(pending) - 1)]
        else:
            keep = pending
        if rng.random() < 0.25 and keep == pending:
            ops.append("rspall " + answer(rng))
        else:
            for j in keep:
                extra = ",dup=2" if rng.random() < 0.05 else ""
                ops.append("rsp x%d %s%s" % (j, answer(rng), extra))
                if rng.random() < 0.15:
                    ops.extend(RUN)
        # keep it simple: the model driver does not need to know which are answered
        answered = ntx if keep == pending else answered
        if keep != pending:
            # answer the rest later in one go
            pass
        ops.extend(RUN)
    ops.append("rspall " + answer(rng))
    ops.extend(RUN)
    if rng.random() < 0.3:
        ops.append("fds")
    return " ".join(c) + "|" + ";".join(ops)


def gen_tc(rng, tier):
    c = cfg_common(rng)
    flags = []
    igntc = rng.random() < 0.3
    if igntc:
        flags.append("igntc")
    if rng.random() < 0.5:
        flags.append("noedns")
    if not flags:
        flags.append("none")
    # retry budget: with one server a query may be transmitted `tries` times.  The switch to TCP
    # after a truncated answer must not cost a try: minimal budgets (tries=1) and budgets that
    # earlier failures have used up to the last attempt put the TC answer on the final attempt.
    r = rng.random()
    tries = 1 if r < 0.35 else 2 if r < 0.55 else 3 if r < 0.7 else 0
    c.insert(0, "servers=1 flags=" + ",".join(flags) + (" tries=%d timeout=1000" % tries if tries else ""))
    ops = ["note fam=tc"]
    k = rng.choice([1, 1, 2, 3, 4])
    for T in range(1, k + 1):
        ops.append("send %d %s IN %s rd" % (T, name(T), rng.choice(TYPES)))
    if tries > 1 and rng.random() < 0.6:
        # use up all attempts but the last one, then answer truncated
        for _ in range(tries - 1):
            if rng.random() < 0.7:
                ops.append("rspall rcode=%s" % rng.choice(["SERVFAIL", "SERVFAIL", "REFUSED", "NOTIMP"]))
            else:
                ops.append("adv 5000")
                ops.append("proct")
            ops.extend(RUN)
        ops.append("rspall tc=1")
        ops.extend(RUN)
        ops.append("rspall " + answer(rng))
        ops.extend(RUN)
        ops.append("rspall " + answer(rng))
        ops.extend(RUN)
        return " ".join(c) + "|" + ";".join(ops)
    if rng.random() < 0.3:
        ops.append("zerolen s0")
    order = list(range(k))
    rng.shuffle(order)
    for j in order:
        r = rng.random()
        if r < 0.7:
            ops.append("rsp x%d tc=1%s" % (j, rng.choice(["", "," + answer(rng)])))
        elif r < 0.9:
            ops.append("rsp x%d %s" % (j, answer(rng)))
        if rng.random() < 0.2:
            ops.append("zerolen s0")
        if rng.random() < 0.3:
            ops.extend(RUN)
    ops.extend(RUN)
    ops.append("rspall " + answer(rng))
    ops.extend(RUN)
    ops.append("rspall " + answer(rng))
    ops.extend(RUN)
    return " ".join(c) + "|" + ";".join(ops)


def gen_mixed(rng, tier):
    c = cfg_common(rng)
    flags = ["usevc"]
    if rng.random() < 0.3:
        flags.append("stayopen")
    if rng.random() < 0.3:
        flags.append("nocheckresp")
    nserv = rng.choice([1, 2, 2, 3])
    c.insert(0, "servers=%d flags=%s tries=%d timeout=1000" % (nserv, ",".join(flags), rng.choice([1, 2, 3])))
    if rng.random() < 0.4:
        c.append("pendingwritecb=1")
    if rng.random() < 0.3:
        c[0] += " rotate=1"
    ops = ["note fam=mixed"]
    T = 0
    for b in range(rng.choice([1, 2, 3])):
        for _ in range(rng.choice([1, 2, 3, 5, 9])):
            T += 1
            ops.append("send %d %s IN %s rd" % (T, name(T), rng.choice(TYPES)))
        if rng.random() < 0.5:
            ops.append("flushwrites")
        ops.extend(RUN)
        r = rng.random()
        if r < 0.35:
            ops.append("rspall rcode=%s" % rng.choice(["SERVFAIL", "REFUSED", "NOTIMP"]))
        elif r < 0.55:
            ops.append("rspall %s,dup=2" % answer(rng))
        elif r < 0.7:
            ops.append("adv 1000")
            ops.append("proct")
        else:
            ops.append("rspall " + answer(rng))
        ops.extend(RUN)
    if nserv == 1 and rng.random() < 0.3:
        # (with several servers WHICH connection carries a retry legitimately depends on when the
        # failures were counted, so a disruption aimed at one socket is not comparable)
        ops.append("eof s0")
        ops.extend(RUN)
    ops.append("rspall " + answer(rng))
    ops.extend(RUN)
    ops.append("rspall " + answer(rng))
    ops.extend(RUN)
    return " ".join(c) + "|" + ";".join(ops)


def gen_multi(rng, tier):
    """several servers, rotation (or a demoted first server), every query over TCP, deferred-write
    notification: the query is queued on the established (or fast-open) TCP connection of a
    server that sorts AFTER servers without a TCP connection; ares_process_pending_write() has to
    reach it.  Judged by the nopw variant (same history without the callback) and by the
    never-transmitted oracle."""
    c = cfg_common(rng)
    nserv = rng.choice([2, 2, 3, 4])
    flags = ["usevc"]
    stay = rng.random() < 0.7
    if stay:
        flags.append("stayopen")
    if rng.random() < 0.5:
        flags.append("noedns")
    rotate = rng.random() < 0.75
    c.insert(0, "servers=%d flags=%s tries=%d timeout=1000 rotate=%d" % (nserv, ",".join(flags), rng.choice([2, 3]), 1 if rotate else 0))
    c.append("pendingwritecb=1")
    if rng.random() < 0.4:
        c.append("sockstatecb=1")
    if rng.random() < 0.35:
        c.append("tfo=1")
    ops = ["note fam=multi"]
    T = 0
    if not rotate:
        # demote the first server(s): their answers are SERVFAIL, the queries move on
        T += 1
        ops.append("send %d %s IN A rd" % (T, name(T)))
        ops.extend(RUN)
        ops.append("rspall rcode=%s" % rng.choice(["SERVFAIL", "REFUSED"]))
        ops.extend(RUN)
        ops.append("rspall " + answer(rng))
        ops.extend(RUN)
    for b in range(rng.choice([2, 3, 4])):
        for _ in range(rng.choice([1, 1, 2, 3, 5])):
            T += 1
            ops.append("send %d %s IN %s rd" % (T, name(T), rng.choice(TYPES)))
            if rng.random() < 0.3:
                ops.append("flushwrites")
        ops.append("flushwrites")
        ops.extend(RUN)
        ops.append("rspall " + answer(rng))
        ops.extend(RUN)
    ops.append("rspall " + answer(rng))
    ops.extend(RUN)
    return " ".join(c) + "|" + ";".join(ops)


def gen_udpq(rng, tier):
    """UDP: sendto reports EWOULDBLOCK/EAGAIN (once or k times in a row), further queries are
    queued on the same UDP connection before the socket becomes writable, then the write event
    flushes SEVERAL frames from one out buffer: each must leave as its own datagram, exactly one
    DNS message, without the length prefix."""
    c = cfg_common(rng, seg=False)
    flags = []
    if rng.random() < 0.6:
        flags.append("noedns")
    if rng.random() < 0.4:
        flags.append("stayopen")
    if not flags:
        flags.append("none")
    c.insert(0, "servers=1 flags=%s tries=3 timeout=1000" % ",".join(flags))
    if rng.random() < 0.4:
        c.append("udpmaxq=%d" % rng.choice([4, 8, 16]))
    if rng.random() < 0.5:
        c.append("sockstatecb=1")
    if rng.random() < 0.3:
        c.append("pendingwritecb=1")
    mode = rng.random()
    if mode < 0.35:
        # the socket pattern blocks the first k sends of every UDP socket
        c.append("wpat=%s" % ",".join(["0"] * rng.choice([1, 2, 3, 5]) + ["1000"]))
    ops = ["note fam=udpq"]
    T = 0
    for b in range(rng.choice([1, 2, 3])):
        if mode >= 0.35:
            k = rng.choice([1, 1, 2, 3, 4])
            for i in range(1, k + 1):
                ops.append("fail sendto %d %s" % (i, rng.choice(["EAGAIN", "EWOULDBLOCK"])))
        for _ in range(rng.choice([2, 2, 3, 4, 6, 9])):
            T += 1
            ops.append("send %d %s IN %s rd%s" % (T, name(T), rng.choice(TYPES), rng.choice(["", "", " edns"])))
            if rng.random() < 0.15:
                ops.append("flushwrites")
        ops.extend(RUN)
        ops.append("rspall " + answer(rng))
        ops.extend(RUN)
    ops.append("rspall " + answer(rng))
    ops.extend(RUN)
    return " ".join(c) + "|" + ";".join(ops)


def _wname(n):
    out = b""
    for label in n.split("."):
        out += bytes([len(label)]) + label.encode()
    return out + b"\0"


def raw_request(rng, T):
    """wire bytes of a request whose records REPEAT names (question + authority NS + additional
    A/TXT/MX sharing owner and suffix, like an RFC 2136 UPDATE or a query with glue): the
    library's writer compresses them, so every transmission carries compression pointers."""
    q = "r%dx.sub%d.example" % (T, rng.randint(0, 3))
    zone = q.split(".", 1)[1]
    auth = []
    addl = []
    ttl = bytes([0, 0, 1, 44])
    for _ in range(rng.choice([0, 1, 1, 2])):
        ns = _wname("ns%d.%s" % (rng.randint(1, 3), zone))
        auth.append(_wname(zone) + bytes([0, 2, 0, 1]) + ttl + bytes([0, len(ns)]) + ns)
    for _ in range(rng.choice([1, 1, 2, 3])):
        r = rng.random()
        if r < 0.35:
            addl.append(_wname("ns%d.%s" % (rng.randint(1, 3), zone)) + bytes([0, 1, 0, 1]) + ttl + bytes([0, 4, 10, 0, 0, rng.randint(1, 250)]))
        elif r < 0.65:
            t = bytes([5]) + b"hello"
            addl.append(_wname(q) + bytes([0, 16, 0, 1]) + ttl + bytes([0, len(t)]) + t)
        elif r < 0.85:
            mx = bytes([0, 10]) + _wname("mail." + zone)
            addl.append(_wname(q) + bytes([0, 15, 0, 1]) + ttl + bytes([0, len(mx)]) + mx)
        else:
            cn = _wname("alias." + q)
            addl.append(_wname("www." + zone) + bytes([0, 5, 0, 1]) + ttl + bytes([0, len(cn)]) + cn)
    hdr = bytes([0x12, 0x34, 0x01, 0x00, 0, 1, 0, 0, 0, len(auth), 0, len(addl)])
    m = hdr + _wname(q) + bytes([0, rng.choice([1, 28, 16]), 0, 1]) + b"".join(auth) + b"".join(addl)
    return m.hex()


def gen_rawq(rng, tier):
    """requests with repeated names (compression pointers) serialised while earlier bytes are
    still unsent in the connection's out buffer: batches queued before the TCP connection is
    established or behind short writes / would-blocks, and on UDP behind a blocked send."""
    tcp = rng.random() < 0.7
    c = cfg_common(rng, seg=tcp)
    flags = ["noedns"]
    if tcp:
        flags.insert(0, "usevc")
    if rng.random() < 0.4:
        flags.append("stayopen")
    c.insert(0, "servers=1 flags=%s tries=3 timeout=1000" % ",".join(flags))
    if tcp and rng.random() < 0.3:
        c.append("pendingwritecb=1")
    if rng.random() < 0.4:
        c.append("sockstatecb=1")
    ops = ["note fam=rawq"]
    T = 0
    for b in range(rng.choice([1, 2, 3])):
        if not tcp:
            for i in range(1, rng.choice([1, 2, 3]) + 1):
                ops.append("fail sendto %d %s" % (i, rng.choice(["EAGAIN", "EWOULDBLOCK"])))
        for _ in range(rng.choice([2, 2, 3, 4, 5])):
            T += 1
            if rng.random() < 0.8:
                ops.append("sendraw %d %s" % (T, raw_request(rng, T)))
            else:
                ops.append("send %d %s IN %s rd" % (T, name(T), rng.choice(TYPES)))
        ops.extend(RUN)
        ops.append("rspall " + answer(rng))
        ops.extend(RUN)
    ops.append("rspall " + answer(rng))
    ops.extend(RUN)
    return " ".join(c) + "|" + ";".join(ops)


def gen_idle(rng, tier):
    """kept-open TCP connection, frames nobody is waiting for (the duplicate of an answer, or an
    answer with an unknown id) arrive while the connection is idle, and the chunking splits such
    a frame across an idle -> busy boundary: some reads (`proc`) while idle, then the next query
    is queued, then the rest is read.  Read whole, the frame is simply dropped; the outcome must
    be the same."""
    c = ["seed=%d" % rng.randint(1, 10 ** 6)]
    chunk = rng.choice([1, 2, 3, 5, 7, 11, 13, 30, 44])
    c.append("chunk=%d" % chunk)
    if rng.random() < 0.3:
        c.append("wpat=%s" % pat_write(rng))
    c.insert(0, "servers=1 flags=usevc,stayopen,noedns tries=3 timeout=1000")
    if rng.random() < 0.3:
        c.append("sockstatecb=1")
    ops = ["note fam=idle"]
    T = 0
    for rnd in range(rng.choice([1, 2, 3])):
        T += 1
        ops.append("send %d %s IN A rd" % (T, name(T)))
        ops.extend(RUN)
        first = T
        # the answer, followed by frames nobody waits for
        extra = rng.choice(["dup", "dup", "unknown", "both"])
        ans = "an=A:10.4.4.%d" % rng.randint(1, 250)
        stream = 0
        if extra in ("dup", "both"):
            d = rng.choice([2, 2, 3])
            ops.append("rsp xl %s,dup=%d" % (ans, d))
            stream += d * 47
        else:
            ops.append("rsp xl %s" % ans)
            stream += 47
        if extra in ("unknown", "both"):
            ops.append("rsp xl %s,id=+%d" % (ans, rng.randint(1, 9)))
            stream += 47
        # read part of it, one read per `proc`: the answer completes somewhere in here, the
        # connection goes idle, further reads happen while it is idle
        total_reads = (stream + chunk - 1) // chunk
        lo = (47 + chunk - 1) // chunk
        if rng.random() < 0.8 and lo < total_reads:
            # the answer is complete: the split is inside a frame nobody waits for
            cands = [n for n in range(lo, total_reads) if (n * chunk) % 47 != 0] or [lo]
            nproc = rng.choice(cands)
        else:
            nproc = rng.randint(1, max(1, total_reads - 1))
        ops.extend(["proc"] * min(nproc, 150))
        # idle -> busy: the next query is queued while a frame is half read
        T += 1
        ops.append("send %d %s IN %s rd" % (T, name(T), rng.choice(TYPES)))
        ops.extend(RUN)
        ops.append("rsp xl " + answer(rng))
        ops.extend(RUN)
    ops.append("rspall " + answer(rng))
    ops.extend(RUN)
    return " ".join(c) + "|" + ";".join(ops)


def hexframe(payload):
    n = len(payload)
    return "%04x" % n + "".join("%02x" % b for b in payload)


def gen_junk(rng, tier):
    c = cfg_common(rng)
    c.insert(0, "servers=1 flags=usevc%s tries=%d" % (rng.choice(["", ",stayopen"]), rng.choice([2, 3])))
    ops = ["note fam=junk"]
    k = rng.choice([1, 2, 3, 5])
    for T in range(1, k + 1):
        ops.append("send %d %s IN A rd" % (T, name(T)))
    ops.extend(RUN)
    sock = 0
    steps = rng.randint(1, 5)
    for _ in range(steps):
        r = rng.random()
        if r < 0.35:
            ops.append("raw s%d 0000" % sock)                      # zero length frame: ignored
        elif r < 0.55:
            # a frame split over two raw ops, completed by a real answer later
            ops.append("raw s%d 00" % sock)
            ops.extend(RUN)
            ops.append("raw s%d 00" % sock)
        elif r < 0.75:
            ops.append("rsp x%d %s" % (rng.randint(0, k - 1), answer(rng)))
        else:
            # shorter than a DNS header: rejected by the parser, connection is closed
            n = rng.randint(1, 11)
            ops.append("raw s%d %s" % (sock, hexframe([rng.randint(0, 255) for _ in range(n)])))
            ops.extend(RUN)
            sock += 1
            ops.append("rspall " + answer(rng))
        if rng.random() < 0.5:
            ops.extend(RUN)
    ops.extend(RUN)
    ops.append("rspall " + answer(rng))
    ops.extend(RUN)
    return " ".join(c) + "|" + ";".join(ops)


def _calls(pattern, nbytes):
    """upper bound on the number of reads/writes needed to move nbytes through a pattern"""
    if not pattern:
        return 2
    last = pattern[-1] if pattern[-1] > 0 else 10 ** 6
    return len(pattern) + nbytes // last + 2


def _answer_size(spec):
    n = 90
    for part in spec.split(","):
        if part.startswith("an="):
            n += len(part)
    return n


def finish(case):
    """Fill in the iteration bound of every `run @`: a safe over-estimate of what the transfer
    needs with the case's read/write patterns (so that a library that makes no progress costs
    hundreds, not tens of thousands, of event-loop iterations per case)."""
    head, body = case.split("|", 1)
    chunk, wpat = [], []
    for w in head.split():
        if w.startswith("chunk="):
            chunk = [int(x) for x in w[6:].split(",")]
        if w.startswith("wpat="):
            wpat = [int(x) for x in w[5:].split(",")]
    sends = 0
    rbytes = 0
    out = []
    for op in body.split(";"):
        ws = op.split()
        if ws and ws[0] in ("send", "sendraw"):
            sends += 4 if ws[0] == "sendraw" else 1      # raw requests are up to ~4 times as long
        elif ws and ws[0] == "rsp":
            dup = 2 if "dup=2" in op else 1
            rbytes += dup * _answer_size(ws[2] if len(ws) > 2 else "")
        elif ws and ws[0] == "rspall":
            dup = 2 if "dup=2" in op else 1
            rbytes += dup * 3 * sends * _answer_size(ws[1] if len(ws) > 1 else "")
        elif ws and ws[0] == "raw":
            rbytes += len(ws[2]) // 2 if len(ws) > 2 else 0
        if op in ("run @", "runw @"):
            # every outstanding query may be (re)transmitted on up to 3 connections
            need = 30 + 3 * _calls(wpat, 3 * 40 * sends) + 2 * _calls(chunk, rbytes + 4)
            out.append("%s %d" % (op.split()[0], min(need, 20000)))
            rbytes = 0      # everything queued has been read when the loop went idle
        else:
            out.append(op)
    return head + "|" + ";".join(out)


def gen_c20(rng, tier, n):
    out = []
    for _ in range(n):
        r = rng.random()
        if r < 0.42:
            c = gen_pure(rng, tier)
        elif r < 0.57:
            c = gen_tc(rng, tier)
        elif r < 0.71:
            c = gen_mixed(rng, tier)
        elif r < 0.82:
            c = gen_multi(rng, tier)
        elif r < 0.88:
            c = gen_udpq(rng, tier)
        elif r < 0.93:
            c = gen_rawq(rng, tier)
        elif r < 0.985:
            c = gen_idle(rng, tier)
        else:
            c = gen_junk(rng, tier)
        if rng.random() < 0.35:
            # event loop that reports writability only while the library asks for it
            c = c.replace("run @", "runw @")
        out.append(finish(c))
    return out


def gen_frames(rng, tier, n):
    """C03 (frames handed to sockets): the chan20 engine judged on the frame oracles only;
    histories that put several frames into one out buffer (UDP would-block, TCP batches)."""
    out = []
    for _ in range(n):
        r = rng.random()
        if r < 0.30:
            c = gen_udpq(rng, tier)
        elif r < 0.60:
            c = gen_rawq(rng, tier)
        elif r < 0.75:
            c = gen_pure(rng, tier)
        elif r < 0.88:
            c = gen_multi(rng, tier)
        else:
            c = gen_tc(rng, tier)
        if rng.random() < 0.35:
            c = c.replace("run @", "runw @")
        out.append(finish(c))
    return out


# ------------------------------------------------------------------------------------------
# C10: socket protocol (engine chan10)
# ------------------------------------------------------------------------------------------
ERRNOS = {
    "socket": ["EMFILE", "ENFILE", "EACCES", "EAFNOSUPPORT"],
    "connect": ["ECONNREFUSED", "ENETUNREACH", "EINTR", "EINTR", "EHOSTUNREACH", "EADDRNOTAVAIL"],
    "sendto": ["EAGAIN", "ECONNREFUSED", "ENETUNREACH", "EPIPE", "EINTR"],
    "recvfrom": ["EAGAIN", "ECONNREFUSED", "ECONNRESET", "EINTR"],
    "setsockopt": ["ENOSYS", "EINVAL", "EPERM"],
    "bind": ["EADDRINUSE", "EACCES"],
    "getsockname": ["EBADF", "ENOTSOCK"],
    "close": ["EIO", "EINTR"],
}


def gen_c10_one(rng, tier):
    c = ["seed=%d" % rng.randint(1, 10 ** 6)]
    nserv = rng.choice([1, 1, 2, 3])
    c.append("servers=%d" % nserv)
    if rng.random() < 0.2:
        c.append("servers6=1")
    flags = []
    usevc = rng.random() < 0.3
    if usevc:
        flags.append("usevc")
    if rng.random() < 0.3:
        flags.append("stayopen")
    if rng.random() < 0.5:
        flags.append("noedns")
    if rng.random() < 0.15:
        flags.append("igntc")
    if flags:
        c.append("flags=" + ",".join(flags))
    c.append("tries=%d timeout=1000" % rng.choice([1, 2, 3]))
    if rng.random() < 0.5:
        c.append("udpmaxq=%d" % rng.choice([1, 2, 3]))
    sscb = rng.random() < 0.65
    if sscb:
        c.append("sockstatecb=1")
    if rng.random() < 0.2:
        c.append("tfo=1")
    later = rng.random() < 0.15
    if later:
        c.append("connectlater=1")
    if rng.random() < 0.3:
        c.append("sndbuf=%d" % rng.choice([4096, 65536]))
    if rng.random() < 0.3:
        c.append("rcvbuf=%d" % rng.choice([4096, 65536]))
    if rng.random() < 0.25:
        c.append("localip4=10.7.7.7")
    if rng.random() < 0.15:
        c.append("localdev=eth0")
    if rng.random() < 0.15:
        c.append("wpat=%s" % rng.choice(["0,1000", "5", "1,0,7,1000"]))
    if rng.random() < 0.15:
        c.append("chunk=%s" % rng.choice(["1", "7", "2,0"]))
    # the application's socket function table: without agetsockname, or the deprecated
    # ares_set_socket_functions() (no setsockopt / bind / getsockname at the socket layer)
    r = rng.random()
    sockfuncs = "nogsn" if r < 0.12 else "legacy" if r < 0.24 else None
    if sockfuncs:
        c.append("sockfuncs=" + sockfuncs)
    ops = []
    T = 0
    nsock_guess = 0
    steps = rng.choice([3, 5, 8, 12, 20]) if tier == "quick" else rng.choice([5, 10, 20, 40])
    if rng.random() < (0.5 if sockfuncs else 0.12):
        # a getaddrinfo lookup that succeeds with several addresses and sorts them (RFC 6724
        # source address probes: one UDP socket per candidate address, in ares_sortaddrinfo.c)
        T += 1
        ops.append("gai %d gs%dx.example %s 0" % (T, T, rng.choice(["0", "0", "4", "6"])))
        ops.append("rspall " + rng.choice(["an=A:10.3.3.1+A:10.3.3.2", "an=A:10.3.3.1+A:192.168.1.9+A:127.0.0.1",
                                           "an=AAAA:[fd00::5]+AAAA:[2001:db8::1]", "an=A:10.3.3.1"]))
        ops.append("run 300")
        if rng.random() < 0.5:
            ops.append("qlen")
            ops.append("fds")

    def probe():
        ops.append("qlen")
        ops.append(rng.choice(["fds", "fds", "getsock"]))

    if not usevc and rng.random() < 0.15:
        # UDP send would block k times, more queries queue up on the same connection
        for i in range(1, rng.choice([1, 2, 3]) + 1):
            ops.append("fail sendto %d %s" % (i, rng.choice(["EAGAIN", "EWOULDBLOCK"])))
        for _ in range(rng.choice([2, 3, 5])):
            T += 1
            ops.append("send %d c%dx.example IN A rd" % (T, T))
        ops.append("run 300")
    for _ in range(steps):
        r = rng.random()
        if r < 0.30:
            # a request, possibly with an injected failure at a socket call
            if rng.random() < 0.45:
                call = rng.choice(list(ERRNOS))
                ops.append("fail %s %d %s" % (call, rng.choice([1, 1, 1, 2, 3]), rng.choice(ERRNOS[call])))
            T += 1
            kind = rng.random()
            if rng.random() < 0.25:
                # something the application does from inside the completion callback of this
                # request, i.e. while read_answers() is still working on the connection the answer
                # came in on: cancel everything, drop the server, or start a request whose write
                # fails (the connection is then closed underneath read_answers())
                cbop = rng.random()
                if cbop < 0.35:
                    ops.append("oncb %d cancel" % T)
                elif cbop < 0.65:
                    ops.append("oncb %d setservers,%s" % (T, rng.choice(["10.0.0.9", "10.0.0.8:5353", "10.0.0.2"])))
                else:
                    ops.append("oncb %d fail,sendto,1,%s" % (T, rng.choice(["EPIPE", "ECONNRESET", "ENETUNREACH"])))
                    ops.append("oncb %d send,%d,r%dx.example,IN,A,rd" % (T, 500 + T, T))
            if kind < 0.7:
                ops.append("send %d c%dx.example IN %s rd" % (T, T, rng.choice(["A", "AAAA", "TXT"])))
            elif kind < 0.9:
                ops.append("gai %d g%dx.example %s 0" % (T, T, rng.choice(["0", "4", "6"])))
            else:
                ops.append("search %d s%dx IN A rd" % (T, T))
            nsock_guess += 1
        elif r < 0.45:
            spec = rng.choice(["an=A:10.1.1.%d" % rng.randint(1, 250), "an=A:10.1.1.1+A:10.1.1.2+AAAA:[fd00::5]",
                               "rcode=SERVFAIL", "rcode=NXDOMAIN", "rcode=REFUSED", "tc=1", "an=AAAA:[fd00::7]"])
            ops.append("rspall " + spec)
            ops.append("run 300")
        elif r < 0.55:
            ops.append("run 300")
        elif r < 0.63:
            ops.append("adv %d" % rng.choice([500, 1000, 2000, 5000]))
            ops.append("proct")
        elif r < 0.70:
            if later and nsock_guess > 0:
                ops.append("%s s%d" % (rng.choice(["connected", "connected", "connfail"]), rng.randint(0, max(0, nsock_guess - 1))))
                ops.append("run 300")
            else:
                ops.append("fail %s 1 %s" % ("recvfrom", rng.choice(ERRNOS["recvfrom"])))
                ops.append("rspall an=A:10.2.2.2")
                ops.append("run 300")
        elif r < 0.76:
            if nsock_guess > 0:
                ops.append("%s s%d" % (rng.choice(["reset", "eof"]), rng.randint(0, max(0, nsock_guess - 1))))
                ops.append("run 300")
        elif r < 0.81:
            ops.append("cancel")
        elif r < 0.86:
            ops.append("setservers " + rng.choice(["10.0.0.9", "10.0.0.1,10.0.0.8", "10.0.0.2", "-"]))
        elif r < 0.89:
            ops.append("reinit")
        else:
            probe()
        if rng.random() < 0.25:
            probe()
    ops.append("run 300")
    probe()
    if rng.random() < 0.4:
        ops.append("destroy")
    return " ".join(c) + "|" + ";".join(ops)


def gen_c10(rng, tier, n):
    out = []
    for _ in range(n):
        c = gen_c10_one(rng, tier)
        if rng.random() < 0.3:
            c = c.replace("run 300", "runw 300")
        out.append(c)
    return out
