"""Case generator of the thread-stress engine (C11)."""


def gen(rng, tier, n):
    out = []
    for i in range(n):
        out.append("evsys=%s threads=%d ops=%d seed=%d yield=%d|" % (
            ["epoll", "poll", "select"][i % 3], rng.choice([2, 4, 6, 8, 12]),
            rng.choice([40, 80, 150] if tier == "quick" else [80, 200, 400]), rng.randint(1, 10 ** 6), rng.randint(0, 1)))
    return out
