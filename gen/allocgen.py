"""Case generator of the C14 enumeration engine ("allocfail").

A SCENARIO is a simulator case (harness/sim.h) without failure injection.  For every scenario
the generator runs the implementation once with allocstats=1 (the baseline: number of counted
allocations `total`, API return codes, callback statuses and payload digests) and then emits

    one baseline case, and one case per n in 1..total with failalloc=<n>,

each carrying the baseline expectations in a leading `note` op so that a single case can be
judged (and replayed) on its own.  Every scenario is followed by the common tail

    drain   (advance the clock so that every request that is still pending can run out of
             retries:  it must end with a callback, not wait for ares_destroy)
    fresh   (a new query that is answered at once: the channel is still usable)
    drain   (again, for the fresh query, should the failure hit its own processing)

The case count is data dependent; `n` (n_quick/n_thorough of the engine) is ignored.
corpus/C14/allocfail.scenarios holds scenarios that once exposed a defect ("name|config|ops");
they are always included, and the check finds the failing allocation index again by itself.
"""
import hashlib
import os
import re
import sys

HERE = os.path.dirname(os.path.abspath(__file__))
ROOT = os.path.dirname(HERE)
sys.path.insert(0, os.path.join(ROOT, "lib"))

WRAPS = ["ares_tvnow", "ares_rand_bytes", "ares_generate_new_id", "ares_htable_hash_FNV1a",
         "ares_htable_hash_FNV1a_casecmp", "ares_library_init_mem"]
C_SRCS = ["harness/sim.c", "harness/allocfail_drv.c"]
ENV = {"ASAN_OPTIONS": "detect_leaks=0:abort_on_error=0:exitcode=99:allocator_may_return_null=1:detect_stack_use_after_return=0"}

HOSTS = os.path.join(ROOT, "corpus", "C14", "hosts.txt")
RESOLV = os.path.join(ROOT, "corpus", "C14", "resolv.conf")
ALIASES = os.path.join(ROOT, "corpus", "C14", "hostaliases.txt")
HOSTS2 = os.path.join(ROOT, "corpus", "C14", "hosts-merge.txt")
FRESH_TOKEN = 900


def names(rng):
    """a few host names of varying length (label lengths decide buffer growth steps)"""
    lab = lambda k: "".join(rng.choice("abcdefghijklmnopqrstuvwxyz") for _ in range(k))
    return dict(short=lab(rng.randint(1, 3)) + ".example",
                mid=lab(rng.randint(5, 12)) + "." + lab(rng.randint(3, 9)) + ".example",
                long=".".join(lab(rng.randint(8, 30)) for _ in range(rng.randint(3, 6))) + ".example")


def drain(rounds):
    return ";".join(["adv 20000;proct"] * rounds)


def tail(rounds, ops, cfg=""):
    # the first `run` lets a TCP connection become writable and transmit; harmless on UDP
    rsp = "cookie=echo,an=A:9.9.9.9" if "cookie=echo" in ops else "an=A:9.9.9.9"
    # with a pending-write callback the application has to flush
    flush = "flushwrites;" if "pendingwritecb=1" in cfg else ""
    return "%s;query %d fresh.example IN A;%srun;rspall %s;run;%s" % (drain(rounds), FRESH_TOKEN, flush, rsp, drain(rounds))


def family(rng, tier):
    """returns list of (name, config, ops, with_tail)"""
    nm = names(rng)
    seed = rng.randint(1, 10 ** 6)
    base = "seed=%d tries=2 timeout=500" % seed
    a, m, lg = nm["short"], nm["mid"], nm["long"]
    S = []

    def add(name, cfg, ops, t=True, quick=False):
        S.append((name, (base + " " + cfg).strip(), ops, t, quick))

    # ---- init with options ----
    add("init-plain", "servers=1", "opts;servers", quick=True)
    add("init-options",
        "servers=2 servers6=1 flags=edns,dns0x20 ndots=2 udpmaxq=3 udpsize=1400 udpport=5353 tcpport=5354 "
        "sndbuf=65536 rcvbuf=65536 domains=a.test,b.test lookups=bf sortlist=10.0.0.0/8,192.168.0.0/255.255.0.0 "
        "rotate=1 failover=10,5000 qcachettl=60 maxtimeout=4000 sockstatecb=1 serverstatecb=1 pendingwritecb=1 "
        "localip4=10.1.1.1 localip6=fd00::99 localdev=eth9 resoptions=ndots:3,timeout:1,attempts:2,rotate "
        "localdomain=c.test,d.test hosts=%s resolvconf=%s" % (HOSTS, RESOLV),
        "opts;servers;fds;getsock;qlen;tmo", quick=True)
    add("init-csv", "csv=10.0.0.1:53,[fd00::1]:5353,10.0.0.2 flags=primary,stayopen,igntc", "opts;servers")
    add("init-resolvconf", "servers=1 resolvconf=%s hosts=%s lookups=fb" % (RESOLV, HOSTS), "opts;servers")

    # ---- send / query ----
    add("send-udp-retry", "servers=2 flags=noedns",
        "send 1 %s IN A rd;rspall rcode=2;run;rspall an=A:1.2.3.4;run" % a, quick=True)
    add("send-edns-cookie", "servers=1",
        "send 1 %s IN A rd edns;rspall cookie=echo,an=A:1.2.3.4;run;send 2 %s IN AAAA rd edns;rspall cookie=echo,an=AAAA:[2001:db8::1];run" % (m, m))
    add("send-0x20", "servers=1 flags=dns0x20,edns", "send 1 %s IN A rd;rspall an=A:1.2.3.4;run" % lg)
    add("send-timeout-retry", "servers=2 flags=noedns",
        "send 1 %s IN A rd;adv 600;proct;rspall an=A:1.2.3.4;run" % m, quick=(tier != "quick"))
    add("send-timeout-all", "servers=2 flags=noedns",
        "send 1 %s IN A rd;adv 600;proct;adv 2000;proct;adv 4000;proct;adv 8000;proct;adv 16000;proct" % a)
    add("query-nxdomain", "servers=1", "query 1 %s IN MX;rspall rcode=3,ns=SOA:60;run" % m)
    add("query-tcp", "servers=1 flags=usevc",
        "query 1 %s IN A;run;rspall an=A:1.2.3.4;run" % m, quick=True)
    add("query-tc-fallback", "servers=1",
        "query 1 %s IN TXT;rspall tc=1;run;run;rspall an=TXT:hello+TXT:world;run" % m)
    add("query-tcp-chunked", "servers=1 flags=usevc,stayopen chunk=1,7,3 wpat=5,0,9",
        "query 1 %s IN A;query 2 %s IN AAAA;run;rspall an=A:1.2.3.4;run;run" % (a, a))
    add("query-many-rr", "servers=1",
        "query 1 %s IN ANY;rspall an=A:1.2.3.4+AAAA:[2001:db8::1]+MX:10:mx.%s+TXT:hello+SRV:1:2:3:srv.%s+CAA:0:issue:ca.example+NAPTR:1:2:u:sip:re:rep.example,ns=NS:ns1.example+NS:ns2.example,ar=A:5.6.7.8@ns1.example;run" % (m, a, a))
    add("legacy-send-query", "servers=1",
        "oquery 1 %s IN A;rspall an=A:1.2.3.4;run;sendraw 2 123401000001000000000000016103636f6d0000010001;rspall an=A:1.1.1.1;run;osearch 3 %s IN A;rspall an=A:2.2.2.2;run" % (m, a))
    add("udp-maxqueries", "servers=1 udpmaxq=2",
        "send 1 %s IN A rd;send 2 %s IN A rd;send 3 %s IN A rd;rspall an=A:1.2.3.4;run" % (a, m, lg))

    # ---- search ----
    add("search-domains", "servers=1 domains=a.test,b.test ndots=1",
        "search 1 host IN A rd;rspall rcode=3;run;rspall an=A:1.2.3.4;run", quick=True)
    add("search-ndots", "servers=1 domains=a.test ndots=2",
        "search 1 x.y.%s IN A rd;rspall rcode=3;run;rspall rcode=3;run" % a)

    # ---- getaddrinfo / gethostby* / getnameinfo ----
    add("gai-both", "servers=1",
        "gai 1 www.%s 0 0x80 http;rsp x0 an=A:1.2.3.4+A:1.2.3.5;rsp x1 an=AAAA:[2001:db8::1];run;rspall an=A:1.2.3.4+A:1.2.3.5+AAAA:[2001:db8::1];run" % a, quick=True)
    add("gai-sort-cname", "servers=1 sortlist=10.0.0.0/8",
        "gai 1 www.%s 4 0x2;rspall an=CNAME:real.%s+A:192.168.1.1@real.%s+A:10.2.3.4@real.%s;run" % (m, m, m, m))
    add("gai-hosts-file", "servers=1 lookups=fb hosts=%s" % HOSTS, "gai 1 filehost.example 0 0x80;gai 2 v6only.example 6 0x80")
    add("gai-search", "servers=1 domains=a.test,b.test ndots=1",
        "gai 1 host 4 0x80;rspall rcode=3;run;rspall an=A:1.2.3.4;run")
    add("ghbn", "servers=1", "ghbn 1 %s 4;rspall an=A:1.2.3.4+A:5.6.7.8;run;ghbn 2 %s 6;rspall an=AAAA:[2001:db8::2];run" % (m, m),
        quick=(tier != "quick"))
    add("ghbn-unspec", "servers=1", "ghbn 1 %s 0;rspall an=A:1.2.3.4;run;rspall an=A:1.2.3.4;run" % m)
    add("ghbn-hosts", "servers=1 lookups=f hosts=%s" % HOSTS, "ghbn 1 filehost.example 4;ghbn 2 missing.example 4")
    add("ghba", "servers=1", "ghba 1 10.1.2.3;rspall an=PTR:ptr.%s;run;ghba 2 fd00::77;rspall an=PTR:ptr6.%s;run" % (a, a))
    add("ghba-hosts", "servers=1 lookups=fb hosts=%s" % HOSTS, "ghba 1 10.9.8.7")
    add("gni", "servers=1", "gni 1 10.1.2.3 80 0x0;rspall an=PTR:ptr.%s;run;gni 2 10.1.2.3 53 0x8" % m)

    # ---- IP literals (fake_addrinfo), localhost rule, numeric services, NULL name ----
    add("gai-literals", "servers=1",
        "gai 1 10.1.2.3 4 0x80;gai 2 10.1.2.3 0 0x81 http;gai 3 fd00::5 6 0x81 443;gai 4 fd00::5 0 0x80;"
        "gai 5 10.1.2.3 6 0x80;gai 6 ::ffff:1.2.3.4 0 0x81;gai 7 10.1.2.3 0 0x89 8080 1;gai 8 1.2.3 4 0x80;rspall rcode=3;run",
        quick=True)
    add("ghbn-literals", "servers=1", "ghbn 1 10.1.2.3 4;ghbn 2 fd00::5 6;ghbn 3 fd00::5 0;ghbn 4 10.1.2.3 0;ghbn 5 10.1.2.3 6",
        quick=True)
    add("gai-localhost", "servers=1 lookups=b",
        "gai 1 localhost 0 0x80;gai 2 foo.localhost 4 0x81 http;ghbn 3 localhost 6;gai 4 localhost 6 0x80 53")
    add("gai-localhost-hosts", "servers=1 lookups=bf hosts=%s" % HOSTS,
        "gai 1 localhost 0 0x81;ghbn 2 localhost 4;gai 3 ip6-localhost 6 0x80")
    add("gai-service-forms", "servers=1",
        # (a NULL name is not used: ares_getaddrinfo(channel, NULL, ..) dereferences it in
        #  fake_addrinfo - an API-robustness matter, not an allocation one)
        "gai 1 10.1.2.3 0 0x84 http;gai 2 %s 4 0x80 8080 1;gai 3 %s 4 0x88 99999;gai 4 %s 4 0x80 nosuchservice;"
        "gai 5 %s 4 0x88 53 2;rspall an=A:1.2.3.4;run" % (lg, a, a, m))

    # ---- cache ----
    add("cache-hit", "servers=1 qcachettl=3600",
        "query 1 %s IN A;rspall an=A:1.2.3.4:100;run;adv 40000;query 2 %s IN A;oquery 3 %s IN A;adv 100000;query 4 %s IN A;rspall an=A:1.2.3.4:100;run" % (m, m, m, m),
        quick=True)
    add("cache-nxdomain", "servers=1 qcachettl=3600",
        "query 1 %s IN A;rspall rcode=3,ns=SOA:60;run;query 2 %s IN A" % (a, a))

    # ---- reconfiguration ----
    add("reconfig", "servers=2 sortlist=10.0.0.0/8",
        "send 1 %s IN A rd;setservers 10.0.0.7,10.0.0.8:5353;setsortlist 192.168.0.0/16;setlocalip4 10.4.4.4;setlocaldev eth1;rspall an=A:1.2.3.4;run;reinit;servers;opts" % a,
        quick=True)
    # no tail: a failing `setservers` leaves the (empty) previous configuration in force
    add("setservers-empty", "servers=1", "send 1 %s IN A rd;setservers -;send 2 %s IN A rd;setservers 10.0.0.3;servers;destroy" % (a, m), t=False)

    # ---- legacy server APIs, ares_dup, reinit with a resolv.conf, sortlists ----
    add("legacy-servers", "servers=1",
        "setserversl 10.0.0.5,fd00::5;getservers;setserversp 10.0.0.6/5353/5354,10.0.0.7/0/0;getservers;servers;"
        "setserverscsv 10.0.0.8,10.0.0.9;servers;setserversl -;getservers;setserversl 10.0.0.3;setserversl 10.0.0.4", quick=True)
    add("legacy-servers-busy", "servers=2",
        "send 1 %s IN A rd;setserversl 10.0.0.5;send 2 %s IN A rd;setserversp 10.0.0.1/53/53,10.0.0.6/5353/5354;rspall an=A:1.2.3.4;run" % (a, m))
    add("dup-plain", "servers=2", "dup;opts", quick=(tier != "quick"))
    add("dup-options",
        "servers=2 servers6=1 flags=edns,dns0x20,stayopen ndots=2 udpmaxq=3 udpsize=1400 domains=a.test,b.test lookups=bf "
        "sortlist=10.0.0.0/8,192.168.0.0/255.255.0.0 rotate=1 failover=10,5000 qcachettl=60 maxtimeout=4000 "
        "localip4=10.1.1.1 localip6=fd00::99 localdev=eth9 hosts=%s resolvconf=%s" % (HOSTS, RESOLV),
        "dup;send 1 %s IN A rd;dup;rspall an=A:1.2.3.4;run" % a, quick=True)
    add("reinit-resolvconf", "servers=1 resolvconf=%s hosts=%s lookups=fb" % (RESOLV, HOSTS),
        "reinit;servers;opts;send 1 %s IN A rd;reinit;rspall an=A:1.2.3.4;run;servers" % a, quick=True)
    add("reinit-options", "servers=2 domains=a.test sortlist=10.0.0.0/8 resoptions=ndots:3,timeout:1,attempts:2,rotate localdomain=c.test,d.test resolvconf=%s" % RESOLV,
        "reinit;opts;servers")
    add("sortlist-forms", "servers=1",
        "setsortlist 10.0.0.0/8,192.168.1.0/255.255.255.0,fd00::/16,172.16.0.0;opts;setsortlist 130.155.160.0/255.255.240.0;"
        "setsortlist bogus/xx;gai 1 sorted.%s 4 0x0;rspall an=A:192.168.1.9+A:8.8.8.8+A:10.3.3.3;run" % a)
    add("gai-sort-rfc6724", "servers=1",
        "gai 1 many.%s 0 0x0 443 1;rsp x0 an=A:10.0.0.9+A:8.8.8.8+A:127.0.0.1+A:169.254.1.1;"
        "rsp x1 an=AAAA:[2001:db8::1]+AAAA:[fe80::1]+AAAA:[::1]+AAAA:[fd00::7];run;"
        # a re-sent query (after a lost answer) gets the complete set
        "rspall an=A:10.0.0.9+A:8.8.8.8+A:127.0.0.1+A:169.254.1.1+AAAA:[2001:db8::1]+AAAA:[fe80::1]+AAAA:[::1]+AAAA:[fd00::7];run" % a)

    # ---- search with HOSTALIASES, flags ----
    add("search-aliases", "servers=1 domains=a.test hostaliases=%s" % ALIASES,
        "search 1 short IN A rd;rspall an=A:1.2.3.4;run;gai 2 other 4 0x80;rspall an=A:5.6.7.8;run;osearch 3 short IN A;rspall an=A:1.2.3.4;run",
        quick=True)
    add("search-noaliases-nosearch", "servers=1 domains=a.test flags=noaliases,nosearch hostaliases=%s" % ALIASES,
        "search 1 short IN A rd;rspall rcode=3;run;gai 2 short 4 0x80;rspall rcode=3;run")
    add("search-localdomain", "servers=1 localdomain=l1.test,l2.test ndots=1",
        "search 1 host IN AAAA rd;rspall rcode=3;run;rspall rcode=3;run;rspall an=AAAA:[2001:db8::9];run")

    # ---- getnameinfo ----
    add("gni-forms", "servers=1 lookups=fb hosts=%s" % HOSTS,
        "gni 1 10.9.8.7 80 0x300;gni 2 fd00::8 53 0x310;gni 3 10.1.2.3 12345 0x30a;"
        "gni 5 fd00::77 443 0x301;rspall an=PTR:ptr6.dom.%s;run;rspall an=PTR:ptr6.dom.%s;run;"
        "gni 4 10.1.2.3 25 0x104;rspall rcode=3;run;rspall rcode=3;run" % (a, a), quick=(tier != "quick"))
    add("ghbn-cname-chain", "servers=1",
        "ghbn 1 www.%s 4;rspall an=CNAME:c1.%s+CNAME:c2.%s@c1.%s+A:1.2.3.4@c2.%s+A:1.2.3.5@c2.%s;run" % (m, m, m, m, m, m))
    # ---- answers carrying CNAME records (1- and 2-link chains): every API whose completion
    # converts them (alias and target are duplicated one by one); the result must be the
    # baseline's or the request must fail ----
    l1 = "CNAME:real.%s+A:1.2.3.4@real.%s+A:1.2.3.5@real.%s" % (m, m, m)
    # (another address set in every answer: a retry answered by a later step of the script is
    # then not mistaken for a partial result)
    l2 = "CNAME:c1.%s+CNAME:c2.%s@c1.%s+A:1.2.4.4@c2.%s" % (m, m, m, m)
    l1u = "CNAME:real.%s+A:1.2.5.4@real.%s+AAAA:[2001:db8::5]@real.%s" % (m, m, m)
    l2u = "CNAME:c1.%s+CNAME:c2.%s@c1.%s+A:1.2.6.4@c2.%s+AAAA:[2001:db8::6]@c2.%s" % (m, m, m, m, m)
    l26 = "CNAME:c1.%s+CNAME:c2.%s@c1.%s+AAAA:[2001:db8::7]@c2.%s" % (m, m, m, m)
    p1 = "CNAME:3.2.1.10.rev.%s+PTR:host.%s@3.2.1.10.rev.%s" % (m, m, m)
    arpa6 = "8.0.0.0.0.0.0.0.0.0.0.0.0.0.0.0.0.0.0.0.0.0.0.0.0.0.0.0.0.0.d.f"
    p2 = "CNAME:%s.r1.%s+CNAME:%s.r2.%s@%s.r1.%s+PTR:host6.%s@%s.r2.%s+PTR:alias6.%s@%s.r2.%s" % (
        arpa6, m, arpa6, m, arpa6, m, m, arpa6, m, m, arpa6, m)
    add("cname-lookups", "servers=1",
        "gai 1 www.%s 4 0x81;rspall an=%s;run;ghbn 2 w2.%s 4;rspall an=%s;run;ghba 3 10.1.2.3;rspall an=%s;run;"
        "gai 4 w4.%s 0 0x81 http;rspall an=%s;run" % (m, l1, m, l2, p1, m, l2u), quick=True)
    add("cname-gai-1link", "servers=1",
        "gai 1 www.%s 4 0x80;rspall an=%s;run;gai 2 w2.%s 4 0x81;rspall an=%s;run;gai 3 w3.%s 0 0x81;rspall an=%s;run;gai 4 w4.%s 0 0x0;rspall an=%s;run"
        % (m, l1, m, l1, m, l1u, m, l1u))
    add("cname-gai-2link", "servers=1",
        "gai 1 www.%s 6 0x80;rspall an=%s;run;gai 2 w2.%s 6 0x81;rspall an=%s;run;gai 3 w3.%s 0 0x81 443;rspall an=%s;run"
        % (m, l26, m, l26, m, l2u))
    add("cname-ghbn", "servers=1",
        "ghbn 1 www.%s 4;rspall an=%s;run;ghbn 2 w2.%s 6;rspall an=%s;run;ghbn 3 w3.%s 0;rspall an=%s;run" % (m, l1, m, l26, m, l2u))
    add("cname-ptr", "servers=1",
        "ghba 1 10.1.2.3;rspall an=%s;run;ghba 2 fd00::8;rspall an=%s;run;gni 3 10.1.2.3 80 0x300;rspall an=%s;run;"
        "gni 4 fd00::8 53 0x310;rspall an=%s;run" % (p1, p2, p1, p2))
    add("cname-search", "servers=1 domains=a.test,b.test ndots=2",
        "gai 1 short 4 0x81;rspall rcode=3;run;rspall an=CNAME:real.b.test+A:1.2.3.4@real.b.test;run;"
        "search 2 other IN A rd;rspall an=CNAME:real.a.test+A:1.2.3.4@real.a.test;run;"
        "ghbn 3 third 4;rspall an=CNAME:x1.a.test+CNAME:x2.a.test@x1.a.test+A:1.2.3.4@x2.a.test;run")
    add("cname-legacy-query", "servers=1 flags=noedns",
        "oquery 1 www.%s IN A;osearch 2 w2.%s IN AAAA;send 3 w3.%s IN A rd;rspall an=%s;run;query 4 w4.%s IN CNAME;rspall an=CNAME:real.%s;run"
        % (m, m, m, l2u, m, m))
    add("hosts-merge-lines", "servers=1 lookups=fb hosts=%s" % HOSTS2,
        "gai 1 multi.example 0 0x80;ghbn 2 multi.example 4;ghbn 3 multi.example 6;ghba 4 10.7.7.2;ghba 5 fd00::72;"
        "gai 6 other.example 0 0x81;gai 7 multi 4 0x80", quick=True)
    add("hosts-all-apis", "servers=1 lookups=f hosts=%s" % HOSTS,
        "gai 1 filehost.example 0 0x82 http;ghbn 2 alias1.example 4;ghbn 3 v6only.example 6;ghba 4 10.9.8.7;ghba 5 fd00::8;"
        "gni 6 10.9.8.8 80 0x300;gai 7 localhost 0 0x80;gai 8 missing.example 0 0x80")

    # ---- legacy ares_process(fd_sets), pending-write callback ----
    add("legacy-process-select", "servers=2 flags=noedns sockstatecb=1",
        "send 1 %s IN A rd;fds;getsock;rspall rcode=2;procsel;procsel;rspall an=A:1.2.3.4;procsel;procsel" % a)
    add("tcp-pendingwrite", "servers=1 flags=usevc,stayopen pendingwritecb=1",
        "query 1 %s IN A;run;query 2 %s IN AAAA;flushwrites;run;rspall an=A:1.2.3.4;run;run" % (a, m))

    # ---- cancel / destroy ----
    add("cancel", "servers=2",
        "send 1 %s IN A rd;query 2 %s IN A;gai 3 www.%s 0 0x80;cancel;qlen" % (a, m, a), quick=True)
    add("destroy-pending", "servers=2 flags=usevc",
        "send 1 %s IN A rd;query 2 %s IN A;search 4 %s IN A rd;gai 3 www.%s 0 0x80;ghba 5 10.1.2.3;destroy" % (a, m, lg, a), t=False, quick=True)

    # ---- error paths of the network layer ----
    add("socket-errors", "servers=2",
        "fail socket 1 EMFILE;send 1 %s IN A rd;fail connect 1 ECONNREFUSED;send 2 %s IN A rd;fail sendto 1 ECONNRESET;send 3 %s IN A rd;rspall an=A:1.2.3.4;run" % (a, m, lg))
    # the branch modelled in coq/Alloc/SendWork.v: a refused write closes a connection that
    # carries other requests; they are requeued, then the request itself
    add("write-refused-requeue-others", "servers=2 flags=noedns",
        "send 1 %s IN A rd;send 2 %s IN A rd;fail sendto 1 ECONNRESET;send 3 %s IN A rd;qlen;rspall an=A:1.2.3.4;run" % (a, m, lg),
        quick=True)
    add("write-refused-tcp", "servers=2 flags=usevc,stayopen",
        "query 1 %s IN A;run;query 2 %s IN A;run;fail sendto 1 EPIPE;query 3 %s IN A;run;rspall an=A:1.2.3.4;run;run" % (a, m, lg))
    add("write-refused-single-server", "servers=1 tries=1",
        "send 1 %s IN A rd;fail sendto 1 ECONNRESET;send 2 %s IN A rd;rspall an=A:1.2.3.4;run" % (a, m))
    add("tcp-reset", "servers=2 flags=usevc",
        "query 1 %s IN A;run;reset s0;run;rspall an=A:1.2.3.4;run" % m)
    add("bad-responses", "servers=1",
        "send 1 %s IN A rd;raw s0 00;raw s0 ffff;rsp x0 id=+1;rsp x0 trunc=20;rsp x0 qname=other.example;run;rspall an=A:1.2.3.4;run" % m)

    if tier == "quick":
        S = [s for s in S if s[4]]
    return [(n_, c, o, t) for (n_, c, o, t, _q) in S]


def corpus_scenarios():
    p = os.path.join(ROOT, "corpus", "C14", "allocfail.scenarios")
    out = []
    if os.path.exists(p):
        for line in open(p):
            line = line.rstrip("\n")
            if not line or line.startswith("#"):
                continue
            parts = line.split("|", 2)
            if len(parts) == 3:
                cfg = parts[1].replace("@HOSTS@", HOSTS).replace("@RESOLV@", RESOLV).replace("@ALIASES@", ALIASES).replace("@HOSTS2@", HOSTS2)
                out.append(("corpus-" + parts[0], cfg, parts[2], True))
    return out


def tail_rounds(cfg):
    m = re.search(r"\bservers=(\d+)", cfg)
    ns = int(m.group(1)) if m else 3
    m6 = re.search(r"\bservers6=(\d+)", cfg)
    ns += int(m6.group(1)) if m6 else 0
    if "csv=" in cfg:
        ns = 3
    return 2 * max(ns, 1) + 2


def digest(text):
    return hashlib.md5(text.encode("utf-8", "replace")).hexdigest()[:8]


def cb_payload(rest):
    """rest = text of a CB line after 'CB tN '; the payload excludes the timeouts counter and
    the simulator's bookkeeping markers"""
    m = re.match(r"status=(-?\d+) timeouts=\d+ ?(.*)$", rest)
    if not m:
        return None, ""
    pay = re.sub(r"( (DUP|UNKNOWN|AFTERDESTROY))+$", "", m.group(2))
    return int(m.group(1)), pay


def payload_norm(pay):
    """what is compared with the baseline: names without case (DNS 0x20 mixes it from the random
    stream), a legacy answer buffer without its message id and an OPT record without the value
    of its COOKIE option (random stream again: a submission that failed before has drawn an id,
    or the client cookie is drawn at another moment)"""
    pay = re.sub(r"(?<=[{,])10~[0-9a-fA-F]*", "10~*", pay)      # EDNS COOKIE option: random as well
    return " ".join(w for w in pay.split(" ") if not w.startswith("id=")).lower()


def payload_items(pay):
    """members of a result set that a partial answer could be missing: addrinfo nodes,
    hostent addresses"""
    m = re.search(r"kind=addrinfo .*nodes=\[(.*)\] name=", pay) or re.search(r"kind=hostent .*addrs=\[(.*)\]$", pay)
    if not m or not m.group(1):
        return []
    return m.group(1).split(",")


def items_digest(pay):
    it = payload_items(pay)
    return "".join("~" + digest(x)[:4] for x in it)


def dialogue_item(l):
    """the network dialogue of a run: questions put on the wire and datagrams/segments read.
    (ocaml/allocfail_drv.ml computes the same items for the failing run: a successful callback
    reached without asking a question or reading a datagram that the baseline run did not ask /
    read - the run's items are a subsequence of the baseline's - must carry the baseline's
    payload)"""
    if l.startswith("TX "):
        kv = dict(w.split("=", 1) for w in l.split(" ") if "=" in w)
        return "T%s/%s/%s/%s" % (kv.get("srv", "?"), kv.get("proto", "?"), kv.get("qname", "?").lower(), kv.get("qtype", "?"))
    if l.startswith("RECVFROM ") or l.startswith("RECV "):
        m = re.search(r" rc=(\d+)", l)
        if m and int(m.group(1)) > 0:
            return "R" + m.group(1)
    return None


def parse_baseline(lines):
    """lines of one case (without the index prefix) -> (total, expect string) or None"""
    total = None
    init = None
    toks = {}
    order = []
    api = []
    dlg = []
    for l in lines:
        d = dialogue_item(l)
        if d:
            dlg.append(d)
        if l.startswith("INIT rc="):
            init = int(l[8:])
        elif l.startswith("REQ t"):
            t = int(l[5:].split(" ", 1)[0])
            if t not in toks:
                toks[t] = dict(ret="v", cbs=[])
                order.append(t)
        elif l.startswith("RET t"):
            t, rc = l[5:].split(" rc=")
            t = int(t)
            if t in toks:
                toks[t]["ret"] = rc if rc != "void" else "v"
        elif l.startswith("CB t"):
            t, rest = l[4:].split(" ", 1)
            st, pay = cb_payload(rest)
            t = int(t)
            if t not in toks:
                toks[t] = dict(ret="v", cbs=[])
                order.append(t)
            toks[t]["cbs"].append("%d.%s:%d%s" % (st, digest(payload_norm(pay)), len(dlg), items_digest(pay)))
        elif re.match(r"(SETSERVERS|SETSORTLIST|REINIT|SETSOCKFUNCS|SETSERVERSL|SETSERVERSP|SETSERVERSCSV|GETSERVERS|GETSERVERSP|DUP) rc=", l):
            k, rc = l.split(" rc=")
            api.append("%s.%s" % (k, rc.split()[0]))
        elif l.startswith("ALLOCS total="):
            total = int(l.split("total=")[1].split()[0])
    if total is None or init is None:
        return None
    items = ["i%d" % init]
    for t in order:
        items.append("t%d/%s/%s" % (t, toks[t]["ret"], "+".join(toks[t]["cbs"]) if toks[t]["cbs"] else "-"))
    for a in api:
        items.append("a" + a)
    # the baseline's network dialogue, one 4-digit digest per item; a callback entry carries
    # the number of items that preceded it
    items.append("d" + "".join(digest(d)[:4] for d in dlg))
    return total, ",".join(items)


def run_baselines(exe, scen, workdir):
    import vlib
    casefile = os.path.join(workdir, "allocfail-baseline-%d.cases" % os.getpid())
    with open(casefile, "w") as f:
        for (name, cfg, ops, t) in scen:
            f.write("%s allocstats=1|%s\n" % (cfg, full_ops(cfg, ops, t)))
    env = dict(os.environ)
    env.update(vlib.SAN_ENV)
    env.update(ENV)
    # a baseline that crashes (sanitizer abort) must not take the following ones with it
    out = ""
    start = 0
    rc = 0
    err = ""
    while start < len(scen):
        rc, o, err = vlib.sh([exe, casefile, str(start)], timeout=300, env=env)
        out += o
        if rc == 0:
            break
        last = start
        for line in o.split("\n"):
            m = re.match(r"^BEGIN (\d+)", line)
            if m:
                last = int(m.group(1))
        # drop the partial log of the crashed case
        out = "\n".join(l for l in out.split("\n") if not l.startswith("%d " % last))
        start = last + 1
    os.unlink(casefile)
    per = {}
    for line in out.split("\n"):
        m = re.match(r"^(\d+) (.*)$", line)
        if m:
            per.setdefault(int(m.group(1)), []).append(m.group(2))
    return rc, per, err


def full_ops(cfg, ops, with_tail):
    return ops + (";" + tail(tail_rounds(cfg), ops, cfg) if with_tail else "")


def gen(rng, tier, n):
    import vlib
    scen = corpus_scenarios() + family(rng, tier)
    if tier == "thorough":
        # two more instantiations of the family (other names, label lengths, RNG seeds)
        for rep in (2, 3):
            scen += [("%s#%d" % (n_, rep), c, o, t) for (n_, c, o, t) in family(rng, tier)]
    exe = vlib.build_harness("allocfail", C_SRCS, "asan", WRAPS)
    rc, per, err = run_baselines(exe, scen, vlib.CACHE)
    cases = []
    for i, (name, cfg, ops, t) in enumerate(scen):
        b = parse_baseline(per.get(i, []))
        fo = full_ops(cfg, ops, t)
        if b is None:
            # the baseline itself crashed: emit it alone so that the monitor reports it
            cases.append("%s allocstats=1|note s=%s expect=?;%s" % (cfg, name, fo))
            continue
        total, expect = b
        note = "note s=%s expect=%s" % (name, expect)
        cases.append("%s allocstats=1|%s;%s" % (cfg, note, fo))
        for k in range(1, total + 1):
            cases.append("%s failalloc=%d|%s;%s" % (cfg, k, note, fo))
    return cases


if __name__ == "__main__":
    import random
    tier = sys.argv[1] if len(sys.argv) > 1 else "quick"
    seed = int(sys.argv[2]) if len(sys.argv) > 2 else 1
    for c in gen(random.Random(seed), tier, 0):
        print(c)
