"""Case generator of the C12 engine "search" (see harness/search_drv.c for the case format).

Streams:
  L  name-list cases aimed at the case splits of the proof: dots vs ndots on both sides of the
     boundary, trailing dot (also as an escaped dot), NOSEARCH / NOALIASES, 0..8 domains with
     the root domain, empty and duplicate domains, lengths around 253..256, HOSTALIASES files
     (match / no match / malformed lines / missing file / unreadable path)
  S  ares_search_dnsrec end to end, A ares_getaddrinfo end to end: ALL outcome vectors up to
     length 5 (quick) / 6 (thorough) over {D,N,X,S,R,T} (up to length 4 / 5 on all three
     candidate-list shapes and both entry points), plus random longer vectors over the full
     alphabet.
"""
import itertools

ALPHA = "abcdefghijklmnopqrstuvwxyz"
LABELCH = ALPHA + "0123456789-"
OUT_CORE = "DNXSRT"
OUT_ALL = "DCNXSRFIYT"


def hx(s):
    if isinstance(s, str):
        s = s.encode("latin-1")
    return s.hex()


def label(rng, lo=1, hi=8):
    n = rng.randint(lo, hi)
    return "".join(rng.choice(ALPHA) for _ in range(n))


def plain_name(rng, dots):
    return ".".join(label(rng, 1, 6) for _ in range(dots + 1))


DOMAIN_POOL = ["a", "example.com", ".", "x.y.z", "", "d.", "corp.example.", "UPPER.Case", "xn--bcher-kva.example", "a\\.b.c"]


def gen_domains(rng, maxn=8):
    n = rng.choice([0, 0, 1, 1, 2, 2, 3, 4, 5, 8][: maxn + 2]) if maxn < 8 else rng.choice([0, 1, 1, 2, 2, 3, 4, 5, 8])
    doms = []
    for _ in range(n):
        r = rng.random()
        if r < 0.55:
            doms.append(rng.choice(DOMAIN_POOL))
        elif r < 0.7 and doms:
            doms.append(rng.choice(doms))            # duplicate
        elif r < 0.8:
            doms.append(plain_name(rng, rng.randint(0, 3)) + rng.choice(["", "."]))
        else:
            doms.append(plain_name(rng, rng.randint(0, 2)))
    return doms


def gen_name_L(rng, ndots_eff):
    """name whose raw dot count sits around ndots"""
    r = rng.random()
    if r < 0.55:
        dots = max(0, ndots_eff + rng.choice([-2, -1, -1, 0, 0, 1, 1, 2]))
        dots = min(dots, 24)
    else:
        dots = rng.randint(0, 6)
    nm = plain_name(rng, dots)
    r = rng.random()
    if r < 0.12:
        nm += "."                                     # trailing dot
    elif r < 0.16:
        nm += "\\."                                   # escaped trailing dot: still "ends in a dot"
    elif r < 0.24 and len(nm) > 2:
        i = rng.randrange(1, len(nm))
        nm = nm[:i] + "\\." + nm[i:]                  # escaped dot inside: counted as a dot
    elif r < 0.27:
        nm = "." + nm
    elif r < 0.30:
        nm = rng.choice(["", ".", "..", "a..b", "\\", "a\\", " ", "a b", "\xe9t\xe9.example", "localhost", "x.onion", "X.ONION."])
    elif r < 0.34:
        nm = nm.upper()
    return nm


def long_name_case(rng):
    """name + domain lengths around 253..256"""
    dom = rng.choice(["example.com", ".", "a", label(rng, 60, 63) + "." + label(rng, 60, 63)])
    total = rng.choice([250, 252, 253, 254, 255, 256, 257, 300])
    room = max(1, total - len(dom) - 1)
    labels = []
    left = room
    while left > 0:
        n = min(left, rng.choice([63, 63, 40, 10]))
        labels.append("".join(rng.choice(ALPHA) for _ in range(n)))
        left -= n + 1
    return ".".join(labels), dom


def gen_alias(rng, name):
    """(alias unit, description)"""
    r = rng.random()
    if r < 0.08:
        return "a=!missing"
    if r < 0.14:
        return "a=!notdir"
    lines = []
    key = name if name else "h"

    def variant(k):
        c = rng.random()
        if c < 0.3:
            return k.upper()
        if c < 0.4:
            return k.capitalize()
        return k
    nlines = rng.randint(0, 5)
    for _ in range(nlines):
        c = rng.random()
        target = plain_name(rng, rng.randint(0, 3))
        if c < 0.35:
            lines.append(variant(key) + rng.choice([" ", "\t", "   ", " \t "]) + target)
        elif c < 0.45:
            lines.append(label(rng) + " " + target)                      # other host
        elif c < 0.50:
            lines.append(variant(key))                                   # no fqdn
        elif c < 0.55:
            lines.append(variant(key) + " " + target + " trailing words")
        elif c < 0.60:
            lines.append(variant(key) + " bad!" + target)                # invalid character
        elif c < 0.64:
            lines.append(variant(key) + " " + "x" * rng.choice([255, 256, 300]))
        elif c < 0.68:
            lines.append("h" * rng.choice([63, 64, 70]) + " " + target)
        elif c < 0.72:
            lines.append("  \t " + variant(key) + " " + target + "  ")   # surrounding blanks
        elif c < 0.76:
            lines.append("")
        elif c < 0.80:
            lines.append(variant(key) + " " + target + "\r")             # CRLF file
        elif c < 0.84:
            lines.append(variant(key) + "x " + target)                   # prefix only
        elif c < 0.88:
            lines.append(variant(key) + " " + rng.choice(["_srv._tcp.x", "*.wild", "a/b", "-dash-"]))
        elif c < 0.92:
            lines.append(variant(key) + "\x01 " + target)                # unprintable host token
        elif c < 0.96:
            lines.append(variant(key) + " t\x7f" + target)               # unprintable fqdn
        else:
            lines.append("# comment " + variant(key) + " " + target)
    txt = "\n".join(lines)
    if rng.random() < 0.7:
        txt += "\n"
    return "a=" + hx(txt)


def case_L(rng):
    units = []
    nd = rng.choice([None, None, 0, 1, 1, 2, 2, 3, 4, 5, 8, 15, 16, -1, 2147483647])
    ndots_eff = 1 if nd is None or nd < 0 else nd
    if nd is not None:
        units.append("n=%d" % nd)
    flags = rng.choice([None, 0, 0, 32, 64, 96, 16, 8 | 32, 4 | 64, 2, 128])
    if flags is not None:
        units.append("f=%d" % flags)
    if rng.random() < 0.08:
        nm, dom = long_name_case(rng)
        doms = [dom] + gen_domains(rng, 2)
    else:
        nm = gen_name_L(rng, min(ndots_eff, 20))
        doms = gen_domains(rng)
    for d in doms:
        units.append("d=" + hx(d))
    units.append("q=" + hx(nm))
    if rng.random() < (0.45 if "." not in nm else 0.1):
        units.append(gen_alias(rng, nm))
    rng.shuffle(units)          # units are position independent; the order of the d= units IS the configured order
    return "L|" + ";".join(units)


def wf_label(rng):
    n = rng.randint(0, 6)
    return rng.choice(ALPHA) + "".join(rng.choice(LABELCH[:-1]) for _ in range(n))


def wf_name(rng, dots):
    return ".".join(wf_label(rng) for _ in range(dots + 1))


def e2e_case(rng, mode, outs, shape=None):
    """shape 0: single label, as-is first (ndots 0); 1: single label, as-is last (ndots 1);
       2: dotted name as-is first; None: random"""
    ncand = max(1, len(outs))
    units = []
    flags = rng.choice([0, 0, 0, 128, 128, 8, 16, 64, 4])
    if shape is None:
        ndots = rng.choice([0, 1, 1, 2, 3])
        dots = rng.choice([0, 0, 1, 2, 3])
        nm = wf_name(rng, dots)
        r = rng.random()
        if r < 0.08:
            nm += "."
        elif r < 0.12:
            flags |= 32
        elif r < 0.15:
            nm = rng.choice(["x.onion", "www.deep.onion.", "ONION", "onion", "a.Onion"])
        ndom = rng.randint(0, 6)
    else:
        ndots = [0, 1, 1][shape]
        nm = wf_label(rng) if shape < 2 else wf_label(rng) + "." + wf_label(rng)
        ndom = ncand - 1
    doms = []
    for _ in range(ndom):
        r = rng.random()
        if r < 0.12:
            doms.append(".")
        elif r < 0.2 and doms:
            doms.append(rng.choice(doms))
        else:
            doms.append(wf_name(rng, rng.randint(0, 2)))
    units.append("n=%d" % ndots)
    units.append("f=%d" % flags)
    for d in doms:
        units.append("d=" + hx(d))
    units.append("q=" + hx(nm))
    if shape is None and "." not in nm and rng.random() < 0.15:
        units.append("a=" + hx("%s  %s\n" % (nm.upper(), wf_name(rng, 2))))
    units.append("o=" + outs)
    return "%s|%s" % (mode, ";".join(units))


def exhaustive(rng, maxlen, full_upto):
    """every outcome vector up to maxlen; vectors up to full_upto on all three candidate-list
    shapes and both entry points, longer ones on one (shape, entry point) drawn at random"""
    out = []
    for n in range(1, maxlen + 1):
        for v in itertools.product(OUT_CORE, repeat=n):
            if n <= full_upto:
                combos = [(sh, m) for sh in (0, 1, 2) for m in "SA"]
            else:
                combos = [(rng.randrange(3), rng.choice("SA"))]
            for sh, m in combos:
                out.append(e2e_case(rng, m, "".join(v), sh))
    return out


def gen(rng, tier, n):
    cases = []
    if tier == "thorough":
        cases += exhaustive(rng, 6, 5)
    else:
        cases += exhaustive(rng, 5, 4)
    for _ in range(n):
        r = rng.random()
        if r < 0.7:
            cases.append(case_L(rng))
        else:
            ln = rng.choice([1, 2, 3, 4, 5, 6, 7, 8, 9])
            outs = "".join(rng.choice(OUT_ALL if rng.random() < 0.5 else "NXSR") for _ in range(ln))
            if rng.random() < 0.5:
                outs = outs[:-1] + rng.choice(OUT_ALL)
            cases.append(e2e_case(rng, rng.choice("SA"), outs, rng.choice([None, None, 0, 1, 2])))
    return cases


if __name__ == "__main__":
    import random
    import sys
    for c in gen(random.Random(int(sys.argv[1]) if len(sys.argv) > 1 else 1), "quick", 30)[-30:]:
        print(c)
