"""Case generator of the event-handle registration engine: sequences of socket-state callbacks,
raw ares_event_update calls and drains over a small pool of descriptor numbers, so that a
descriptor is often closed and opened again before the event thread drains its queue."""


def gen(rng, tier, n):
    out = []
    for i in range(n):
        nfd = rng.choice([1, 2, 3, 5])
        fds = rng.sample(range(3, 40), nfd)
        nops = rng.randint(3, 14 if tier == "quick" else 60)
        pdrain = rng.choice([0.1, 0.2, 0.35, 0.5])
        ops = []
        open_ = {}
        for _ in range(nops):
            r = rng.random()
            if r < pdrain:
                ops.append("d")
            elif r < pdrain + 0.08:
                # custom handles (wake pipe, configuration monitor): OTHER only, never removed by an update
                ops.append("x c %d %d %d" % (rng.randint(1, 3), rng.choice([4, 4, 4, 0, 1, 5]), rng.choice([0, 0, 0, 1])))
            elif r < pdrain + 0.14:
                ops.append("x s %d %d %d" % (rng.choice(fds), rng.choice([0, 1, 2, 3, 4, 5, 7]), rng.choice([0, 0, 1])))
            else:
                fd = rng.choice(fds)
                if open_.get(fd) and rng.random() < 0.45:
                    ops.append("s %d 0 0" % fd)         # connection closed
                    open_[fd] = False
                    if rng.random() < 0.6:              # ... and the number is reused at once
                        ops.append("s %d %d %d" % ((fd,) + rng.choice([(1, 0), (1, 1), (0, 1)])))
                        open_[fd] = True
                else:
                    ops.append("s %d %d %d" % ((fd,) + rng.choice([(1, 0), (1, 1), (1, 0), (0, 1)])))
                    open_[fd] = True
        ops.append("d")
        out.append("|" + ";".join(ops))
    return out
