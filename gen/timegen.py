"""Case generators for the "time" engine (C06 / C07): boundary-directed.

Every boundary is a case split of a proof in coq/Core/*_proofs.v: usec 0/999999 and the
borrow in ares_timeval_remaining, equal seconds in ares_timedout, now just before/at/after a
deadline, maxtv smaller/equal/larger than the remaining time, MIN/MAX_TIMEOUT_MS +-1,
maxtimeout below/above the base, rounds 0/1/51/52/63/64/65, bucket period boundaries.
"""

P62 = 1 << 62
USECS = [0, 1, 2, 499999, 500000, 999998, 999999]
SECS = [0, 1, 2, 59, 60, 1000, 86399, 86400, 10 ** 9, (1 << 31) - 1, 1 << 31, 1 << 40, (1 << 61) - 1,
        P62 - 2, P62 - 1, -1, -2, -1000, -(1 << 31), -(P62 - 1), -P62]


def tv(rng, near=None):
    """a normalised timeval (|sec| < 2^62); near = (sec, usec) to stay within a few us/s of"""
    if near is not None and rng.random() < 0.8:
        s, u = near
        d = rng.choice([0, 0, 1, -1, 2, -2, 999999, -999999, 1000000, -1000000, 1000001, -1000001,
                        rng.randint(-3000000, 3000000), rng.randint(-10 ** 10, 10 ** 10)])
        t = s * 1000000 + u + d
        s2, u2 = t // 1000000, t % 1000000
        if -P62 <= s2 < P62:
            return (s2, u2)
    s = rng.choice(SECS) if rng.random() < 0.6 else rng.randint(-P62, P62 - 1)
    u = rng.choice(USECS) if rng.random() < 0.6 else rng.randint(0, 999999)
    return (s, u)


def f(t):
    return "%d,%d" % t


def gen_td(rng):
    a = tv(rng)
    b = tv(rng, near=a)
    return "td|%s,%s" % (f(a), f(b))


def gen_rem(rng):
    a = tv(rng)
    b = tv(rng, near=a)
    return "rem|%s,%s" % (f(a), f(b))


def gen_diff(rng):
    a = tv(rng)
    b = tv(rng, near=a)
    return "diff|%s,%s" % (f(a), f(b))


def gen_tmo(rng):
    now = tv(rng)
    # keep deadlines representable
    if not (-(1 << 61) < now[0] < (1 << 61)):
        now = (rng.choice([0, 1000, 10 ** 9]), now[1])
    n = rng.choice([0, 0, 1, 1, 2, 3, 5, 8, 20, 60])
    dls = []
    for _ in range(n):
        r = rng.random()
        if dls and r < 0.15:
            dls.append(rng.choice(dls))           # duplicates
        elif r < 0.85:
            dls.append(tv(rng, near=now))
        else:
            dls.append(tv(rng))
    m = "-"
    r = rng.random()
    if r < 0.7:
        if dls and rng.random() < 0.7:
            first = min(dls, key=lambda t: t[0] * 1000000 + t[1])
            rem = max(0, (first[0] - now[0]) * 1000000 + first[1] - now[1])
            rem += rng.choice([0, 0, 1, -1, 1000000, -1000000, 999999, -999999, rng.randint(-5000000, 5000000)])
            rem = max(0, rem)
            if rem // 1000000 >= P62:
                rem = 5000000
            m = "%d,%d" % (rem // 1000000, rem % 1000000)
        else:
            m = "%d,%d" % (rng.choice([0, 0, 1, 5, 3600, 1 << 40]), rng.choice(USECS))
    return "tmo|%s;%s%s" % (f(now), m, "".join(";" + f(d) for d in dls))


TIMEOUTS = [1, 100, 249, 250, 251, 500, 2000, 4999, 5000, 5001, 60000, (1 << 31) - 1]
MAXTIMEOUTS = [0, 0, 0, 1, 100, 249, 250, 251, 1000, 3000, 4999, 5000, 5001, 100000, (1 << 31) - 1]
PERIODS = [60, 900, 3600, 86400]


def gen_met(rng):
    timeout = rng.choice(TIMEOUTS)
    maxt = rng.choice(MAXTIMEOUTS)
    t = rng.choice([0, 59, 1000, 86399, 10 ** 9, 1 << 40])
    ops = []
    n = rng.choice([1, 3, 4, 8, 20, 50])
    for _ in range(n):
        r = rng.random()
        if r < 0.25:
            # move the clock, preferably across a bucket period boundary
            p = rng.choice(PERIODS)
            c = rng.random()
            if c < 0.4:
                t = (t // p + 1) * p - rng.choice([0, 1])          # to (just before) the next period
            elif c < 0.6:
                t = (t // p + 2) * p + rng.choice([0, 1, p - 1])   # skip a whole period
            else:
                t += rng.choice([0, 1, 30, 61, 1000])
        u = rng.choice(USECS)
        if r < 0.75:
            lat_us = rng.choice([0, 1, 999, 1000, 1001, 49999, 50000, 51000, 999000, 1000000, 1000001, 5000000,
                                 10 ** 9, rng.randint(0, 3000000), (1 << 32) * 1000 + 5])
            q = t * 1000000 + u - lat_us
            status = 0 if rng.random() < 0.9 else rng.choice([1, 12, 4])
            rcode = rng.choice([0, 0, 0, 3, 2, 5])
            ops.append("r,%d,%d,%d,%d,%d,%d" % (q // 1000000, q % 1000000, t, u, status, rcode))
        if rng.random() < 0.5 or r >= 0.75:
            ops.append("q,%d,%d" % (t, u))
    if not any(o.startswith("q") for o in ops):
        ops.append("q,%d,0" % t)
    return "met|%d,%d|%s" % (timeout, maxt, ";".join(ops))


TRIES = [1, 1, 2, 2, 3, 3, 4, 5, 10, 51, 52, 53, 63, 64, 65, 66, 70, 100, 200]
REPLIES = ["a", "x", "s", "n", "r", "c", "f", "F", "b", "z", "g", "G"]
RETRYING = "snrcfFb"     # replies that make the library re-send
GARBAGE = "gG"           # messages that do not parse


def batch(rng):
    """one read: retry-triggering replies, duplicates, answers, garbage, in every order"""
    n = rng.choice([2, 2, 3, 3, 4, 6])
    r = rng.random()
    if r < 0.35:      # the critical shape: a re-send is pending when the walk hits garbage
        s = rng.choice(RETRYING) + "".join(rng.choice(RETRYING + "az") for _ in range(n - 2)) + rng.choice(GARBAGE)
    elif r < 0.5:     # garbage first
        s = rng.choice(GARBAGE) + "".join(rng.choice("asnrcfFbxzgG") for _ in range(n - 1))
    else:
        s = "".join(rng.choice("aaxsnrcfFbzgG" + RETRYING) for _ in range(n))
    return "B" + s


def gen_retry(rng, tier, timers_only=False):
    S = rng.choice([1, 1, 2, 2, 3, 4, 8])
    tries = rng.choice(TRIES)
    cap = 600 if tier == "quick" else 1600
    while S * tries > cap:
        S = max(1, S // 2)
    timeout = rng.choice(TIMEOUTS)
    maxt = rng.choice(MAXTIMEOUTS)
    jmode = rng.choice([0, 1, 2])
    flags = 0
    for bit, p in ((1, 0.2), (2, 0.3), (4, 0.1), (8, 0.1), (16, 0.12), (32, 0.15), (64, 0.08)):
        if rng.random() < p:
            flags |= bit
    t0 = rng.choice([0, 1000, 10 ** 9, 1 << 40])
    acts = []
    if not timers_only and rng.random() < 0.07:
        # the server list flaps between disjoint single-server lists under the query, faster
        # than the timeout, more often than servers*tries: every removal of the server the
        # query waits on must count against its budget
        tries = rng.choice([1, 2, 2, 3, 4, 5])
        acts = []
        cur = 1
        for _ in range(tries + 6 + rng.choice([0, 1, 3, 10])):
            cur = rng.choice([x for x in (1, 2, 3, 4) if x != cur])
            acts.append("V%d" % cur)
            r = rng.random()
            if r < 0.1:
                acts.append("e")
            elif r < 0.2:
                acts.append(rng.choice(["Rs", "Rz", "X", "Rn"]))
        return "retry|1,%d,%d,%d,%d,%d,%d|%s" % (tries, timeout, maxt, jmode, flags & ~64, t0, ";".join(acts))
    if not timers_only and rng.random() < 0.07:
        # DNS cookies: a server that answers BADCOOKIE k times in a row with the same / a changing /
        # alternating server cookie, then answers or stays silent.  At most COOKIE_RESEND_MAX
        # re-sends may come from that, the last one over TCP.  (No 'f' here: a reply without a
        # cookie from a server that has shown one is dropped, with timers of its own - C17.)
        k = rng.choice([1, 2, 3, 4, 4, 5, 6, 8, 12])
        pat = rng.choice(["same", "changing", "alternating", "mixed"])
        acts = []
        for i in range(k):
            kind = {"same": "K", "changing": "k", "alternating": "kK"[i % 2], "mixed": rng.choice("kKb")}[pat]
            r = rng.random()
            if r < 0.75:
                acts.append("R" + kind + (str(rng.choice([2, 3])) if rng.random() < 0.1 else ""))
            elif r < 0.9:
                acts.append("B" + kind + rng.choice(["k", "K", "s", "a", "g", "kk"]))
            else:
                acts.append(rng.choice(["t", "Rs", "X", "e"]))
                acts.append("R" + kind)
        acts.append(rng.choice(["Ra", "Ra", "", "Rx", "Rs", "t"]))
        f2 = flags & ~(16 | 32 | 64)          # UDP first, EDNS on, retries allowed
        return "retry|%d,%d,%d,%d,%d,%d,%d|%s" % (rng.choice([1, 1, 2, 3]), rng.choice([1, 1, 2, 3, 4]), timeout, maxt, jmode, f2, t0,
                                                    ";".join(a for a in acts if a))
    if not timers_only and rng.random() < 0.07:
        # numeric extremes: many tries answered PROMPTLY with error rcodes, so that rounds 30..70+
        # are reached while the clock stands still; no maxtimeout (or a huge one): the waits are the
        # saturating doubling itself (up to 2^63-1 ms).  Every re-send must still be accounted for
        # by a reply, and the attempt finally left alone must wait at least the base timeout.
        S2 = rng.choice([1, 1, 1, 2])
        tries2 = rng.choice([45, 50, 64, 65, 70, 100, 120, 200 // S2])
        to2 = rng.choice([1, 250, 2000, 5000, 2147483, 2147483647])
        mt2 = rng.choice([0, 0, 0, 2147483647])
        n = rng.choice([S2 * 30, S2 * 43, S2 * 44, S2 * 52, S2 * 64, S2 * tries2 - 1, S2 * tries2, rng.randint(S2 * 30, S2 * tries2)])
        n = min(n, S2 * tries2)
        acts = []
        for i in range(n):
            r = rng.random()
            acts.append("R" + rng.choice("snr") if r < 0.9 else rng.choice(["X", "Bsg", "Rs2", "o1", "Rz"]))
        tail = rng.choice(["", "", "t", "e", "Ra", "t;t"])
        if tail:
            acts.append(tail)
        f2 = flags & ~(4 | 64)          # rcodes checked, retries allowed
        return "retry|%d,%d,%d,%d,%d,%d,%d|%s" % (S2, tries2, to2, mt2, jmode, f2, rng.choice([0, 1000, 10 ** 9]), ";".join(acts))
    style = "timers" if timers_only else rng.choice(["timeouts", "timeouts", "mixed", "mixed", "replies", "faults", "servers", "dups", "batches", "batches"])
    n = 0 if style == "timeouts" else rng.choice([1, 2, 4, 8, 16, 30])
    cur = S
    for _ in range(n):
        r = rng.random()
        if style == "timers":
            acts.append(rng.choice(["t", "e", "e", "l1", "l%d" % rng.choice([0, 1, 999, 100000])]))
        elif style == "replies" or (style == "mixed" and r < 0.4):
            k = rng.choice(REPLIES)
            acts.append("R" + k + (str(rng.choice([2, 3, 8])) if rng.random() < 0.15 else ""))
        elif style == "batches" or (style == "mixed" and r < 0.6):
            acts.append(batch(rng) if rng.random() < 0.8 else rng.choice(["t", "Rg", "RG", "X"]))
        elif style == "dups":
            acts.append("R" + rng.choice(["c", "b", "s", "f", "a"]) + str(rng.choice([2, 3, 8, 40])))
        elif style == "faults" or (style == "mixed" and r < 0.75):
            acts.append(rng.choice(["X", "o1", "o2", "w1", "w2", "t", "e", "X", "o%d" % rng.randint(1, 6)]))
        elif style == "servers":
            c = rng.random()
            if c < 0.35 and cur >= 1:
                cur -= 1
                acts.append("S%d" % cur)
            elif c < 0.6:
                cur = min(12, cur + rng.choice([1, 2, 5]))
                acts.append("S%d" % cur)
            else:
                acts.append(rng.choice(["t", "Rs", "X", "t", "Rc"]))
        else:
            acts.append(rng.choice(["t", "e", "l1", "l5000"]))
    return "retry|%d,%d,%d,%d,%d,%d,%d|%s" % (S, tries, timeout, maxt, jmode, flags, t0, ";".join(acts))


def gen_pt(rng):
    S = rng.choice([1, 1, 2, 3])
    tries = rng.choice([1, 1, 2, 3])
    timeout = rng.choice([250, 251, 500, 2000, 5000])
    maxt = rng.choice([0, 0, 1000, 5000])
    base_ms = min(timeout, maxt) if maxt else timeout
    t0 = rng.choice([0, 100, 10 ** 9])
    p_us = t0 * 1000000 + rng.choice([0, 500000, 999999]) + base_ms * 1000 + rng.randint(0, 2000000)
    n = rng.choice([1, 2, 3, 5, 8, 20, 40])
    sends = []
    for _ in range(n):
        r = rng.random()
        if sends and r < 0.2:
            sends.append(rng.choice(sends))                       # equal deadlines
        elif r < 0.7:
            # deadline within a few microseconds of the processing instant
            s = p_us - base_ms * 1000 + rng.choice([0, 0, 1, -1, 2, -2, 1000, -1000, 999999, -999999])
            sends.append(max(0, s))
        else:
            sends.append(max(0, p_us - base_ms * 1000 + rng.randint(-3000000, 3000000)))
    # 30 %: usevc - every query sits on the server's one TCP connection; a timeout of the oldest must
    # not end the attempts of the younger ones
    return "pt|%d,%d,%d,%d%s|%s|%d,%d" % (S, tries, timeout, maxt, ",16" if rng.random() < 0.3 else "", ";".join("%d,%d" % (s // 1000000, s % 1000000) for s in sends),
                                          p_us // 1000000, p_us % 1000000)


def gen_c06(rng, tier, n):
    out = []
    for _ in range(n):
        r = rng.random()
        if r < 0.45:
            out.append(gen_met(rng))
        else:
            out.append(gen_retry(rng, tier))
    return out


def gen_c07(rng, tier, n):
    out = []
    for _ in range(n):
        r = rng.random()
        if r < 0.2:
            out.append(gen_td(rng))
        elif r < 0.4:
            out.append(gen_rem(rng))
        elif r < 0.45:
            out.append(gen_diff(rng))
        elif r < 0.82:
            out.append(gen_tmo(rng))
        elif r < 0.92:
            out.append(gen_pt(rng))
        else:
            out.append(gen_retry(rng, tier, timers_only=True))
    return out
