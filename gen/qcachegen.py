"""Case generator for the query cache engine (C08).

    qc max=<max_ttl>|ins ...;fetch ...;flush;servers B;reinit        (syntax: harness/qcache_drv.c)

Aimed at the case splits of the proofs and of ares_qcache.c: fetches landing on expiry-1 / expiry /
expiry+1 of entries the generator knows about (it mirrors the TTL rule only to aim, not to judge),
TTL 0 / 1 / 2^31 / 2^32-1, max_ttl 0 / 1 / huge, negative answers with and without SOA (SOA TTL above
and below MINIMUM), answers consisting only of SOA / OPT / SIG records, TC, non-cacheable rcodes,
key near-collisions (case, trailing dot, RD, CD, AD, qtype incl. types the library has no name for,
qclass, opcode, second question), the same key inserted twice with different lifetimes, flushes by
API / server-list change / reinit.  Every random choice comes from the rng passed in.
"""

NAMES = ["example.com", "Example.COM", "example.com.", "EXAMPLE.COM.", "example.com..", "a.example.com",
         "A.Example.Com.", "example.org", "b-1.example.org", "x", "X.", "@", "."]
QTYPES = [1, 1, 1, 28, 6, 255, 16, 48, 43, 99, 65280]
QCLASSES = [1, 1, 1, 1, 3, 4, 254, 255]
TTLS = [0, 1, 2, 5, 5, 59, 60, 60, 61, 300, 300, 3599, 3600, 3601, 86400, 2 ** 31 - 1, 2 ** 31, 2 ** 32 - 1]
RRTYPES = ["A", "A", "A", "AAAA", "CNAME", "NS", "TXT", "SOA", "OPT", "SIG"]
TNUM = {"A": 1, "NS": 2, "CNAME": 5, "SOA": 6, "TXT": 16, "SIG": 24, "AAAA": 28, "OPT": 41}


def gen_req(rng):
    opcode = 0 if rng.random() < 0.9 else rng.choice([1, 2, 4, 5])
    flags = "".join(f for f in "rca" if rng.random() < (0.8 if f == "r" else 0.15)) or "-"
    nq = 1 if rng.random() < 0.92 else rng.choice([0, 2])
    qs = [[rng.choice(QTYPES), rng.choice(QCLASSES), rng.choice(NAMES)] for _ in range(nq)]
    return [opcode, flags, qs]


def mutate(rng, req):
    opcode, flags, qs = req[0], req[1], [list(q) for q in req[2]]
    m = rng.randrange(10)
    if m == 0 or not qs:
        opcode = rng.choice([0, 1, 2, 4, 5])
    elif m == 1:
        flags = "".join(sorted(set(flags.replace("-", "")) ^ {rng.choice("rca")})) or "-"
    elif m == 2:
        qs[0][0] = rng.choice(QTYPES)
    elif m == 3:
        qs[0][1] = rng.choice(QCLASSES)
    elif m == 4:
        qs[0][2] = rng.choice(NAMES)
    elif m == 5:
        n = qs[0][2]
        qs[0][2] = n.swapcase() if n not in ("@", ".") else n
    elif m == 6:
        n = qs[0][2]
        qs[0][2] = (n[:-1] if n.endswith(".") and len(n) > 1 else (n + "." if n != "@" else "."))
    elif m == 7:
        qs.append([rng.choice(QTYPES), 1, rng.choice(NAMES)])
    elif m == 8 and len(qs) > 1:
        qs.pop()
    return [opcode, flags, qs]


def req_txt(req):
    qs = "+".join("%d:%d:%s" % (q[0], q[1], q[2]) for q in req[2]) or "-"
    return "%d/%s/%s" % (req[0], req[1], qs)


def gen_resp(rng):
    r = rng.random()
    rcode = 0 if r < 0.75 else (3 if r < 0.93 else rng.choice([1, 2, 5, 9]))
    tc = 1 if rng.random() < 0.04 else 0
    rrs = []
    shape = rng.random()
    if rcode == 3 or shape < 0.15:           # negative / NODATA: SOA in authority (or not)
        if rng.random() < 0.8:
            ttl = rng.choice(TTLS)
            mn = rng.choice([0, 1, 30, ttl, max(ttl - 1, 0), ttl + 1, 2 ** 32 - 1])
            rrs.append(("a", "SOA", ttl, min(mn, 2 ** 32 - 1)))
        if rng.random() < 0.2:
            rrs.insert(0, ("n", "CNAME", rng.choice(TTLS), None))
        if rng.random() < 0.3:
            rrs.append(("d", "OPT", 0, None))
    else:
        n = rng.choice([0, 1, 1, 1, 2, 2, 3, 4])
        base = rng.choice(TTLS)
        for _ in range(n):
            ty = rng.choice(RRTYPES)
            sect = rng.choice("nnnad") if ty not in ("OPT",) else "d"
            ttl = base if rng.random() < 0.5 else rng.choice(TTLS)
            mn = rng.choice([0, 30, 300, 2 ** 32 - 1]) if ty == "SOA" else None
            rrs.append((sect, ty, ttl, mn))
    order = {"n": 0, "a": 1, "d": 2}
    rrs.sort(key=lambda x: order[x[0]])
    return rcode, tc, rrs


def aim_ttl(rcode, rrs, max_ttl):
    """lifetime the generator expects (only used to aim fetch times)"""
    if rcode == 3:
        soa = [r for r in rrs if r[0] == "a" and r[1] == "SOA"]
        ttl = min(soa[0][2], soa[0][3]) if soa else 0
    else:
        vals = [r[2] for r in rrs if r[1] not in ("OPT", "SIG")]
        ttl = min(vals) if vals else 2 ** 32 - 1
    return min(ttl, max_ttl)


def gen_case(rng, tier):
    max_ttl = rng.choice([0, 1, 2, 60, 60, 3600, 3600, 3600, 3600, 86400, 86400, 2 ** 32 - 1, 2 ** 32 - 1])
    t = rng.choice([0, 1, 1000, 10 ** 6, 2 ** 31 - 100, 2 ** 32 - 50, 2 ** 40]) + rng.randrange(100)
    nops = rng.choice([4, 8, 12, 16, 24]) if tier != "thorough" else rng.choice([8, 16, 40])
    known = []       # (req, expiry)
    steps = []
    nid = 0
    for _ in range(nops):
        r = rng.random()
        # time advance
        a = rng.random()
        if a < 0.4:
            t += rng.choice([0, 0, 1, 1, 2, 5])
        elif a < 0.8 and known:
            exp = rng.choice(known)[1]
            target = exp + rng.choice([-2, -1, -1, 0, 0, 1])
            if target >= t:
                t = target
            else:
                t += rng.choice([0, 1])
        else:
            t += rng.choice([10, 59, 60, 61, 300, 3600, 86400])
        if r < 0.45 or not known:
            if known and rng.random() < 0.3:
                req = rng.choice(known)[0]          # same key again
                if rng.random() < 0.3:
                    req = mutate(rng, req)
            else:
                req = gen_req(rng)
            rcode, tc, rrs = gen_resp(rng)
            nid += 1
            rr_txt = ",".join("%s%s:%d%s" % (s, ty, ttl, (":%d" % mn) if mn is not None else "") for (s, ty, ttl, mn) in rrs) or "-"
            steps.append("ins t=%d id=%d req=%s rc=%d tc=%d rr=%s" % (t, nid, req_txt(req), rcode, tc, rr_txt))
            life = aim_ttl(rcode, rrs, max_ttl)
            known.append((req, t + life))
            known = known[-8:]
        elif r < 0.92:
            req = rng.choice(known)[0] if rng.random() < 0.85 else gen_req(rng)
            x = rng.random()
            if x < 0.35:
                req = mutate(rng, req)
            steps.append("fetch t=%d req=%s" % (t, req_txt(req)))
        else:
            y = rng.random()
            if y < 0.4:
                steps.append("flush")
            elif y < 0.85:
                steps.append("servers %s" % rng.choice("ABC"))
            else:
                steps.append("reinit")
    return "qc max=%d|%s" % (max_ttl, ";".join(steps))


ADDRS = ["127.0.0.1", "10.0.0.2", "10.0.0.3", "192.168.7.7", "fd00::1", "fd00::2"]


def fmt_items(rng, api, lst):
    """lst: [(addr, udp, tcp)] with 0 = default; returns the list= text for the API, or None if the
    API cannot express it"""
    out = []
    for (a, u, t) in lst:
        if api == "nodes":
            if u or t:
                return None
            out.append(a)
        elif api == "pnodes":
            out.append("%s/%d/%d" % (a, u, t))
        else:
            if u != t:
                return None
            host = "[%s]" % a if ":" in a else a
            if u == 0 and ":" in a and rng.random() < 0.5:
                host = "[%s]" % a
            out.append(host + (":%d" % u if u else ""))
    return ",".join(out) or "-"


def set_step(rng, lst):
    apis = ["csv", "pcsv", "nodes", "pnodes"]
    rng.shuffle(apis)
    for api in apis:
        txt = fmt_items(rng, api, lst)
        if txt is not None:
            return "set api=%s list=%s" % (api, txt)
    return "set api=pnodes list=%s" % fmt_items(rng, "pnodes", lst)


def edit(rng, cur, kind):
    cur = list(cur)
    unused = [a for a in ADDRS if a not in [c[0] for c in cur]]
    if kind == "identical":
        return cur
    if kind == "explicit53":        # same list, default ports written out
        return [(a, u or 53, t or 53) for (a, u, t) in cur]
    if kind == "repeat":            # same list with an entry repeated
        return cur + [rng.choice(cur)] if cur else cur
    if kind == "add" and unused:    # strict superset, order kept
        return cur + [(rng.choice(unused), 0, 0)]
    if kind == "addfront" and unused:
        return [(rng.choice(unused), 0, 0)] + cur
    if kind == "remove" and len(cur) > 1:
        i = rng.randrange(len(cur))
        return cur[:i] + cur[i + 1:]
    if kind == "replace" and unused and cur:
        i = rng.randrange(len(cur))
        return cur[:i] + [(rng.choice(unused), 0, 0)] + cur[i + 1:]
    if kind == "reorder" and len(set(cur)) > 1:
        new = list(cur)
        for _ in range(20):
            rng.shuffle(new)
            if new != cur:
                break
        return new
    if kind == "port" and cur:
        i = rng.randrange(len(cur))
        a, u, t = cur[i]
        if rng.random() < 0.5:
            p = rng.choice([5353, 54, 1053])
            return cur[:i] + [(a, p, p)] + cur[i + 1:]
        return cur[:i] + [(a, u, rng.choice([5353, 54]))] + cur[i + 1:]
    if kind == "empty":
        return []
    return cur


EDITS = ["identical", "explicit53", "repeat", "add", "addfront", "remove", "replace", "reorder", "reorder", "port", "empty"]


def gen_edit_case(rng, tier):
    """cache an answer, edit the server list in one systematic way, repeat the request"""
    max_ttl = rng.choice([60, 3600, 86400])
    primary = 1 if rng.random() < 0.1 else 0
    chanports = rng.random() < 0.15
    head = "qc max=%d%s%s" % (max_ttl, " primary=1" if primary else "", " udp=5300 tcp=5301" if chanports else "")
    n0 = rng.choice([1, 2, 2, 3, 3, 4])
    cur = [(a, 0, 0) for a in rng.sample(ADDRS, n0)]
    t = 1000 + rng.randrange(1000)
    steps = [set_step(rng, cur)]
    nid = 0
    kinds = []
    for _ in range(rng.choice([1, 2, 3])):
        req = [0, "r", [[1, 1, rng.choice(["example.com", "Example.COM", "a.example.com"])]]]
        nid += 1
        ttl = rng.choice([30, 300, 3600])
        steps.append("ins t=%d id=%d req=%s rc=0 tc=0 rr=nA:%d" % (t, nid, req_txt(req), ttl))
        t += rng.choice([0, 1, 2])
        steps.append("fetch t=%d req=%s" % (t, req_txt(req)))
        kind = rng.choice(EDITS)
        kinds.append(kind)
        if rng.random() < 0.12:
            steps.append("reinit")
            kinds[-1] = "reinit"
        else:
            cur = edit(rng, cur, kind)
            steps.append(set_step(rng, cur))
            if primary:
                pass
        t += rng.choice([0, 1])
        steps.append("fetch t=%d req=%s" % (t, req_txt(mutate(rng, req) if rng.random() < 0.1 else req)))
    return "%s ek=%s|%s" % (head, "+".join(kinds), ";".join(steps))


def gen(rng, tier, n):
    return [(gen_edit_case(rng, tier) if rng.random() < 0.3 else gen_case(rng, tier)) for _ in range(n)]
