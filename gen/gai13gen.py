"""Histories for the end-to-end engine of C13 (channel simulator, harness/sim.h language).

Every case: one channel, a few requests run one after the other (gai / ghbn / ghba / gni); DNS
answers are scripted relative to the last transmissions (`rsp xl-1 ..; rsp xl ..; run`), so the
script does not depend on how many names the search list yields.  Hosts files are written
under <root>/.cache/hosts13/ (a fixed catalogue cat<i>.hosts regenerated on every call plus
per-run files named by content hash).
"""
import hashlib
import os
import random

ROOT = os.path.dirname(os.path.dirname(os.path.abspath(__file__)))
HDIR = os.path.join(ROOT, ".cache", "hosts13")

V4 = ["192.0.2.1", "192.0.2.7", "192.0.2.8", "10.1.2.3", "10.0.0.9", "172.16.5.5", "198.51.100.20", "127.0.0.1", "127.0.0.2", "8.8.8.8"]
V6 = ["2001:db8::1", "2001:db8::7", "2001:db8:1::5", "fe80::1", "fd00::12", "::1", "2001:db8::abcd"]
HNAMES = ["alpha.test", "beta.test", "Mixed.Example", "mixed.example", "gamma", "delta.example.org", "dup.test",
          "localhost", "ip6-localhost", "foo.localhost", "Host1", "host1", "rev.example", "www.example.com"]
TTLS = [0, 1, 60, 300, 300, 3600, 86400, 2147483647]


def hosts_text(rng):
    lines = []
    n = rng.choice([0, 2, 4, 6, 9, 14])
    for _ in range(n):
        r = rng.random()
        if r < 0.08:
            lines.append("# " + rng.choice(["comment", "192.0.2.99 commented.out", ""]))
            continue
        if r < 0.12:
            lines.append(rng.choice(["", "   ", "not-an-ip somehost", "300.1.2.3 badip.test", "192.0.2.77", "gggg::1 bad6.test"]))
            continue
        ip = rng.choice(V4) if rng.random() < 0.55 else rng.choice(V6)
        if ip in V6 and rng.random() < 0.2:
            ip = ip.upper()
        k = rng.choice([1, 1, 2, 3])
        names = [rng.choice(HNAMES) for _ in range(k)]
        if rng.random() < 0.15:
            names[0] = names[0].upper()
        line = rng.choice(["", " ", "\t"]) + ip + rng.choice([" ", "\t", "   "]) + rng.choice([" ", "\t"]).join(names)
        if rng.random() < 0.15:
            line += rng.choice([" # trailing comment", " #alias.in.comment", "#x"])
        lines.append(line)
    return "\n".join(lines) + ("\n" if rng.random() < 0.9 else "")


def write_hosts(text, name=None):
    os.makedirs(HDIR, exist_ok=True)
    if name is None:
        name = "h" + hashlib.sha256(text.encode()).hexdigest()[:12]
    path = os.path.join(HDIR, name + ".hosts")
    if not os.path.exists(path) or open(path).read() != text:
        with open(path, "w") as f:
            f.write(text)
    return path


CATALOGUE = None


def catalogue():
    global CATALOGUE
    fixed = [
        "127.0.0.1 localhost\n::1 localhost ip6-localhost\n192.0.2.7 Mixed.Example mixalias   # v4\n2001:db8::7 mixed.example\n192.0.2.8 mixed.example other\n10.1.2.3 rev.example revalias\n",
        "192.0.2.1 alpha.test a1\n192.0.2.1 alpha.test a2\n2001:db8::1 ALPHA.TEST\n10.0.0.9 beta.test alpha.test\n",
        "::1 localhost\n",
        "127.0.0.2 localhost foo.localhost\n",
        "2001:db8::7 v6only.test\n192.0.2.8 v4only.test\n",
        "",
    ]
    paths = [write_hosts(t, "cat%d" % i) for i, t in enumerate(fixed)]
    for i in range(len(fixed), 16):
        paths.append(write_hosts(hosts_text(random.Random(1000 + i)), "cat%d" % i))
    CATALOGUE = paths
    return paths


def hosts_names(path):
    out = []
    for line in open(path):
        line = line.split("#")[0].split()
        if len(line) >= 2:
            out += line[1:]
    return out


def hosts_ips(path):
    out = []
    for line in open(path):
        line = line.split("#")[0].split()
        if len(line) >= 2:
            out.append(line[0])
    return out


def rnd_v4(rng):
    return rng.choice(V4) if rng.random() < 0.5 else "%d.%d.%d.%d" % tuple(rng.choice([0, 1, 9, 10, 99, 100, 200, 255, rng.randrange(256)]) for _ in range(4))


def rnd_v6(rng):
    if rng.random() < 0.5:
        return rng.choice(V6)
    return "2001:db8:%x::%x" % (rng.randrange(65536), rng.randrange(1, 65536))


def answer_spec(rng, qtype, owner_hint, tier):
    """rsp spec for a successful answer to an A (1) / AAAA (28) question"""
    shape = rng.choice(["plain", "plain", "plain", "cname", "cname2", "mixed", "otherfam", "dups", "many", "junk", "cnameonly", "foreign"])
    rrs = []
    owner = None
    ttl = lambda: rng.choice(TTLS)
    if shape in ("cname", "cname2", "cnameonly"):
        t1 = rng.choice(["c1.example.net", "edge.cdn.test", owner_hint])
        rrs.append("CNAME:%s:%d" % (t1, ttl()))
        owner = t1
        if shape == "cname2":
            t2 = "c2.example.net"
            rrs.append("CNAME:%s:%d@%s" % (t2, ttl(), owner))
            owner = t2
    def addr_rr(t):
        if t == 1:
            return "A:%s:%d" % (rnd_v4(rng), ttl())
        return "AAAA:%s:%d" % (rnd_v6(rng), ttl())
    n = {"foreign": rng.choice([1, 2, 3]), "plain": rng.choice([1, 1, 2, 3]), "cname": rng.choice([1, 2]), "cname2": 1, "mixed": rng.choice([2, 4]),
         "otherfam": rng.choice([1, 2]), "dups": 2, "many": rng.choice([12, 30]), "junk": rng.choice([1, 2]), "cnameonly": 0}[shape]
    last = None
    for i in range(n):
        t = qtype
        if shape == "mixed" and rng.random() < 0.5:
            t = 28 if qtype == 1 else 1
        if shape == "otherfam":
            t = 28 if qtype == 1 else 1
        rr = addr_rr(t)
        if shape == "dups" and last is not None:
            rr = last
        last = rr
        if owner:
            rr += "@" + owner
        if shape == "foreign" and (i == 0 or rng.random() < 0.5):
            rr += "@@" + rng.choice(["CH", "HS", "NONE", "CH"])     # same type, foreign class: must be ignored
        rrs.append(rr)
    if shape == "junk":
        for _ in range(rng.choice([1, 2])):
            rrs.insert(rng.randrange(len(rrs) + 1), rng.choice(["TXT:hello:60", "RAW:99:0102", "MX:10:mx.example.com:60", "RAW:1:c0000263", "NS:ns.example.com"]))
    if not rrs:
        return "rcode=NOERROR"
    return "an=" + "+".join(rrs)


def sub_outcome(rng, qtype, owner_hint, tier, good):
    """returns rsp spec or None (timeout)"""
    if good:
        return answer_spec(rng, qtype, owner_hint, tier)
    r = rng.random()
    if r < 0.35:
        return "rcode=NXDOMAIN"
    if r < 0.65:
        return "rcode=NOERROR"          # NODATA
    if r < 0.75:
        return "an=CNAME:only.example.net:30"
    if r < 0.83:
        return "rcode=SERVFAIL"
    if r < 0.88:
        return "rcode=REFUSED"
    if r < 0.94:
        return "an=TXT:nothing+RAW:99:00"
    return None


def round_ops(rng, family, name, tier, good):
    """ops answering the sub-queries of the candidate name currently outstanding"""
    ops = []
    if family == 0:
        mode = rng.choice(["both", "both", "a-only", "aaaa-only", "both"]) if good else "none"
        sa = sub_outcome(rng, 1, name, tier, good and mode in ("both", "a-only"))
        s6 = sub_outcome(rng, 28, name, tier, good and mode in ("both", "aaaa-only"))
        order = rng.choice(["a6", "6a", "a;6", "6;a"])
        first = ("xl-1", sa) if order[0] == "a" else ("xl", s6)
        second = ("xl", s6) if order[0] == "a" else ("xl-1", sa)
        pend = False
        # both answers must be queued relative to the SAME pair of transmissions: the second
        # rsp is issued before any `run` could start the next candidate, unless the first
        # answer alone cannot complete the round (it never can: remaining == 2)
        for (ref, spec) in (first, second):
            if spec is None:
                pend = True
                continue
            ops.append("rsp %s %s" % (ref, spec))
            if ";" in order:
                ops.append("run")
        ops.append("run")
        if pend:
            ops += ["adv 1500", "proct"]
    else:
        s = sub_outcome(rng, 1 if family == 4 else 28, name, tier, good)
        if s is None:
            ops += ["adv 1500", "proct"]
        else:
            ops += ["rsp xl %s" % s, "run"]
    return ops


# names that LOOK like address literals but are not (they must be looked up like any other name,
# or be rejected as names - never be answered with a made-up address), and odd spellings that are
NEAR_LITERALS = ["10.20.30.400", "999.1.1.1", "1.2.3.256", "300.300.300.300", "1.2.3.", "1..2.3", ".1.2.3", "1.2.3", "1.2",
                 "1.2.3.4.5", "1.2.3.4.", "256.0.0.1", "1.2.3.1000000000000", "0.0.0.256", "99999999999.1.1.1", "1.2.3.04x",
                 "0x7f.0.0.1", "127.1", "1.2.3.4a", "12345", "1.2.3.-4",
                 "::g", "1::2::3", "fe80::1%zz", "1:2:3:4:5:6:7:8:9", "2001:db8::12345", ":::1", "1:2:3:4:5:6:7", "[::1]"]


def near_literal(rng):
    k = rng.choice([3, 3, 3, 2, 4])
    parts = []
    for _ in range(k + 1):
        parts.append(rng.choice(["0", "1", "9", "10", "099", "255", "256", "260", "999", "1000", "", "00000000000000000001", "4294967296"]))
    return ".".join(parts)


QNAMES = ["www.example.com", "host", "a.b", "deep.sub.example.org", "WWW.Example.COM", "x", "www.example.com.", "gamma", "alpha.test", "mixed.example"]


def gen_case(rng, tier, cat):
    hosts = rng.choice(cat) if rng.random() < 0.7 else write_hosts(hosts_text(rng))
    lookups = rng.choice(["b", "b", "bf", "fb", "f", "fb", "bf"])
    doms = rng.choice(["-", "-", "d1.test", "d1.test,d2.test", "a.test,b.test,c.test"])
    ndots = rng.choice([0, 1, 1, 2, 3])
    cfg = "servers=1 qcachettl=0 flags=noedns tries=1 timeout=1000 lookups=%s hosts=%s domains=%s ndots=%d seed=%d" % (
        lookups, hosts, doms, ndots, rng.randrange(1, 1000))
    if rng.random() < 0.25:
        cfg += " sortlist=" + rng.choice(["10.0.0.0/8", "192.0.2.0/24,10.0.0.0/8", "2001:db8::/32", "198.51.100.0/24,2001:db8::/32"])
    ops = []
    tok = 1
    hn = hosts_names(hosts)
    hips = hosts_ips(hosts)
    nreq = rng.choice([1, 1, 2, 3])
    ndom = 0 if doms == "-" else len(doms.split(","))
    for _ in range(nreq):
        kind = rng.choice(["gai", "gai", "gai", "gai", "ghbn", "ghbn", "ghba", "ghba", "gni"])
        family = rng.choice([0, 0, 4, 6])
        if kind in ("gai", "ghbn"):
            r = rng.random()
            if r < 0.10:
                name = rng.choice(NEAR_LITERALS)
            elif r < 0.12:
                name = near_literal(rng)
            elif r < 0.20:
                name = rng.choice(["192.0.2.1", "0.0.0.0", "255.255.255.255", "10.1.2.3", "::1", "2001:db8::1", "fe80::1", "2001:DB8::A",
                                   "010.001.002.003", "0000000010.1.2.3", "255.255.255.0255"])
            elif r < 0.24:
                name = rng.choice(["localhost", "LocalHost", "foo.localhost", "a.b.LOCALHOST", "localhost.", "notlocalhost"])
            elif r < 0.45 and hn:
                name = rng.choice(hn)
                if rng.random() < 0.3:
                    name = name.swapcase()
            else:
                name = rng.choice(QNAMES)
            if kind == "gai":
                flags = rng.choice([0x80, 0x80, 0x80, 0x81, 0x0, 0x1, 0x88, 0x82, 0x90, 0xC0])
                svc = rng.choice(["-", "-", "80", "443", "0", "65535", "0x50", "65536", "53"])
                ops.append("gai %d %s %d 0x%x %s" % (tok, name, family, flags, svc))
            else:
                ops.append("ghbn %d %s %d" % (tok, name, family))
            # rounds: some failing candidates, then (usually) a winner; extra answers are harmless
            nfail = rng.choice([0, 0, 0, 1, 1, 2, ndom + 1])
            for _ in range(nfail):
                ops += round_ops(rng, family, name, tier, False)
            if rng.random() < 0.85:
                ops += round_ops(rng, family, name, tier, True)
            else:
                for _ in range(ndom + 1):
                    ops += round_ops(rng, family, name, tier, False)
            # drain: whatever is still outstanding ends with NXDOMAIN so that requests never overlap
            for _ in range(ndom + 2):
                ops += ["rspall rcode=NXDOMAIN", "run"]
        else:
            r = rng.random()
            if r < 0.4 and hips:
                addr = rng.choice(hips)
            elif r < 0.7:
                addr = rnd_v4(rng)
            else:
                addr = rnd_v6(rng)
            if kind == "ghba":
                ops.append("ghba %d %s" % (tok, addr))
            else:
                ops.append("gni %d %s %d 0" % (tok, addr, rng.choice([0, 80])))
            r = rng.random()
            if r < 0.6:
                k = rng.choice([1, 1, 2, 3, 6])
                rrs = []
                owner = None
                if rng.random() < 0.25:
                    owner = "ptr.alias.arpa"
                    rrs.append("CNAME:%s:%d" % (owner, rng.choice(TTLS)))
                for i in range(k):
                    rr = "PTR:%s:%d" % (rng.choice(["one.example", "two.example", "Three.Example", "four.example.org", "one.example"]), rng.choice(TTLS))
                    if owner:
                        rr += "@" + owner
                    rrs.append(rr)
                if rng.random() < 0.2:
                    rrs.insert(0, "TXT:x")
                ops += ["rsp xl an=" + "+".join(rrs), "run"]
            elif r < 0.75:
                ops += ["rsp xl rcode=NXDOMAIN", "run"]
            elif r < 0.85:
                ops += ["rsp xl rcode=NOERROR", "run"]
            elif r < 0.92:
                ops += ["rsp xl an=CNAME:nowhere.arpa", "run"]
            else:
                ops += ["adv 1500", "proct"]
            ops += ["rspall rcode=NXDOMAIN", "run"]
        tok += 1
    return cfg + "|" + ";".join(ops)


def fixed_cases(cat):
    """regression histories that need a hosts file (the corpus cannot carry absolute paths)"""
    base = "servers=1 qcachettl=0 flags=noedns tries=1 timeout=1000 "
    h0, h1, h2, h3, h4 = cat[0], cat[1], cat[2], cat[3], cat[4]
    near = [base + "lookups=b|gai 1 %s %d 0x80 80;%s;rspall rcode=NXDOMAIN;run;ghbn 2 %s %d;%s;rspall rcode=NXDOMAIN;run" %
            (n, f, ("rsp xl-1 an=A:203.0.113.9:60;rsp xl an=AAAA:[2001:db8::99]:60;run" if f == 0 else ("rsp xl an=A:203.0.113.9:60;run" if f == 4 else "rsp xl an=AAAA:[2001:db8::99]:60;run")),
             n, f, ("rsp xl-1 an=A:203.0.113.9:60;rsp xl an=AAAA:[2001:db8::99]:60;run" if f == 0 else ("rsp xl an=A:203.0.113.9:60;run" if f == 4 else "rsp xl an=AAAA:[2001:db8::99]:60;run")))
            for n in ("10.20.30.400", "999.1.1.1", "1.2.3.256", "1.2.3.") for f in (0, 4, 6)]
    return near + [
        # one name with IPv4 and IPv6 lines: AF_UNSPEC takes all, single families filter, case-insensitive
        base + "lookups=fb hosts=%s|gai 1 mixed.example 0 0x80 443;gai 2 MIXED.example 4 0x81 80;gai 3 mixed.example 6 0x80 -;ghbn 4 mixed.example 0;ghbn 5 Mixed.Example 6;ghba 6 192.0.2.7;ghba 7 2001:db8::7;ghba 8 10.1.2.3;gni 9 10.1.2.3 0 0" % h0,
        # merged entries: same address twice, a second address joined through a shared name
        base + "lookups=f hosts=%s|gai 1 alpha.test 0 0x81 80;gai 2 beta.test 0 0x80 80;gai 3 a2 4 0x80 80;ghbn 4 ALPHA.test 6" % h1,
        # the entry has no address of the family: falls through to DNS (fb) / fails (f)
        base + "lookups=fb hosts=%s|gai 1 v6only.test 4 0x80 80;rsp xl an=A:203.0.113.5:60;run;gai 2 v4only.test 6 0x80 80;rsp xl rcode=NXDOMAIN;run" % h4,
        base + "lookups=f hosts=%s|gai 1 v6only.test 4 0x80 80;gai 2 v6only.test 0 0x80 80" % h4,
        # loopback rule fills in the family the hosts file lacks
        base + "lookups=fb hosts=%s|gai 1 localhost 0 0x80 80;gai 2 localhost 4 0x80 80;gai 3 localhost 6 0x80 80" % h2,
        base + "lookups=f hosts=%s|gai 1 localhost 0 0x80 80;gai 2 foo.localhost 0 0x80 80;gai 3 foo.localhost 6 0x80 80" % h3,
        # DNS before the file: the answer wins; NXDOMAIN falls through to the file
        base + "lookups=bf hosts=%s|gai 1 mixed.example 0 0x80 80;rsp xl-1 an=A:198.51.100.1:30;rsp xl rcode=NOERROR;run;gai 2 mixed.example 0 0x80 80;rsp xl-1 rcode=NXDOMAIN;rsp xl rcode=NXDOMAIN;run" % h0,
        # reverse lookup: DNS has no PTR, the hosts file has the address
        base + "lookups=bf hosts=%s|ghba 1 10.1.2.3;rsp xl rcode=NXDOMAIN;run;ghba 2 10.1.2.3;rsp xl an=PTR:dns.name.example;run" % h0,
    ]


def plain_answer(rng, qtype, k=None):
    k = k or rng.choice([1, 2, 3])
    if rng.random() < 0.3:
        t1 = "c.cache.test"
        rrs = ["CNAME:%s:%d" % (t1, rng.choice([5, 30, 300, 4000]))]
        own = "@" + t1
    else:
        rrs, own = [], ""
    for _ in range(k):
        ttl = rng.choice([1, 5, 30, 60, 300, 4000, 86400])
        rrs.append(("A:%s:%d" % (rnd_v4(rng), ttl) if qtype == 1 else "AAAA:%s:%d" % (rnd_v6(rng), ttl)) + own)
    return rrs


def min_ttl(rrs):
    out = []
    for rr in rrs:
        body = rr.split("@")[0]
        out.append(int(body.rsplit(":", 1)[1]))
    return min(out)


def gen_cache_case(rng, tier):
    """query cache on: repeated lookups of one name, the clock advanced in between; the generator
    tracks which sub-queries the library will answer from its cache (no transmission)"""
    q = rng.choice([3600, 3600, 60, 10, 2])
    cfg = "servers=1 qcachettl=%d flags=noedns tries=1 timeout=1000 lookups=b domains=- ndots=1 seed=%d" % (q, rng.randrange(1, 1000))
    name = rng.choice(["cache.example.com", "c2.example.org", "single"])
    now = 1000000
    cache = {}            # qtype -> expiry second
    ops = []
    for tok in range(1, rng.choice([2, 3, 4, 5]) + 1):
        family = rng.choice([0, 0, 4, 6])
        if rng.random() < 0.7:
            ops.append("gai %d %s %d 0x%x %s" % (tok, name, family, rng.choice([0x80, 0x80, 0x81, 0]), rng.choice(["80", "443", "-"])))
        else:
            ops.append("ghbn %d %s %d" % (tok, name, family))
        types = [1, 28] if family == 0 else ([1] if family == 4 else [28])
        miss = [t for t in types if not (t in cache and cache[t] > now // 1000)]
        # answers for the transmitted sub-queries (A was sent before AAAA)
        specs = {}
        for t in miss:
            r = rng.random()
            if r < 0.75:
                rrs = plain_answer(rng, t)
                specs[t] = ("an=" + "+".join(rrs), min(q, min_ttl(rrs)))
            elif r < 0.9:
                specs[t] = ("rcode=NOERROR", q)          # NODATA is cached for the maximum
            else:
                specs[t] = ("rcode=NXDOMAIN", 0)
        order = list(miss)
        if rng.random() < 0.4:
            order.reverse()
        for t in order:
            ref = "xl" if (len(miss) == 1 or t == miss[-1]) else "xl-1"
            ops.append("rsp %s %s" % (ref, specs[t][0]))
        if miss:
            ops.append("run")
            for t in miss:
                if specs[t][1] > 0:
                    cache[t] = now // 1000 + specs[t][1]
        adv = rng.choice([0, 400, 999, 1000, 1500, 4000, 9000, 59000, 61000, 3599000, 3601000])
        if adv:
            ops.append("adv %d" % adv)
            now += adv
    return cfg + "|" + ";".join(ops)


def gen_overlap_case(rng, tier):
    """several requests in flight at the same time, answered in a shuffled order"""
    cfg = "servers=1 qcachettl=0 flags=noedns tries=1 timeout=1000 lookups=b domains=- ndots=1 seed=%d" % rng.randrange(1, 1000)
    names = rng.sample(["one.example.com", "two.example.com", "three.example.org", "four.test", "five"], rng.choice([2, 2, 3]))
    ops = []
    txs = []          # (x index, rsp spec)
    x = 0
    for i, nm in enumerate(names):
        if rng.random() < 0.25:
            a = rnd_v4(rng) if rng.random() < 0.5 else rnd_v6(rng)
            ops.append("ghba %d %s" % (i + 1, a))
            txs.append((x, rng.choice(["an=PTR:%s.rev.example:60" % nm.split(".")[0], "rcode=NXDOMAIN", "an=PTR:a.example+PTR:b.example"])))
            x += 1
            continue
        family = rng.choice([0, 0, 4, 6])
        api = rng.choice(["gai", "gai", "ghbn"])
        ops.append("gai %d %s %d 0x80 %d" % (i + 1, nm, family, rng.choice([80, 443, 25])) if api == "gai" else "ghbn %d %s %d" % (i + 1, nm, family))
        for t in ([1, 28] if family == 0 else ([1] if family == 4 else [28])):
            good = rng.random() < 0.75
            txs.append((x, answer_spec(rng, t, nm, tier) if good else rng.choice(["rcode=NXDOMAIN", "rcode=NOERROR", "rcode=SERVFAIL"])))
            x += 1
    rng.shuffle(txs)
    for (j, spec) in txs:
        if rng.random() < 0.1:
            continue                       # left to time out
        ops.append("rsp x%d %s" % (j, spec))
        if rng.random() < 0.4:
            ops.append("run")
    ops += ["run", "adv 1500", "proct", "rspall rcode=NXDOMAIN", "run"]
    return cfg + "|" + ";".join(ops)


def gen(rng, tier, n):
    cat = catalogue()
    fixed = fixed_cases(cat)
    out = list(fixed)
    for _ in range(max(0, n - len(fixed))):
        r = rng.random()
        if r < 0.12:
            out.append(gen_cache_case(rng, tier))
        elif r < 0.24:
            out.append(gen_overlap_case(rng, tier))
        else:
            out.append(gen_case(rng, tier, cat))
    return out


if __name__ == "__main__":
    import sys
    r = random.Random(int(sys.argv[1]) if len(sys.argv) > 1 else 1)
    for c in gen(r, "quick", int(sys.argv[2]) if len(sys.argv) > 2 else 10):
        print(c)
