"""Case generator of the C12 end-to-end engine "chan12" on the channel simulator
(harness/sim.c; case format in harness/SIM.md).

One request per case - ares_search_dnsrec, ares_getaddrinfo (AF_INET, AF_INET6, AF_UNSPEC) or
ares_gethostbyname - on a channel with one server, tries=1, no EDNS, no cache; the scripted
server answers the queries of candidate r (one query, or the A and the AAAA query for
AF_UNSPEC) with data / CNAME only / no data / NXDOMAIN / SERVFAIL / REFUSED / FORMERR or not at
all (timeout).  The script is repeated in a leading `note script=...` op for the oracle:
per candidate either one letter, or `a<first><last>` / `b<first><last>` (A resp. AAAA query
completes first).
"""
import os

HERE = os.path.dirname(os.path.abspath(__file__))
ROOT = os.path.dirname(HERE)
ALIASES = os.path.join(ROOT, "corpus", "C12", "aliases", "hostaliases1.txt")
ALIAS_KEYS = ["alpha", "beta", "gamma", "delta", "epsilon", "Alpha", "zeta"]
ALPHA = "abcdefghijklmnopqrstuvwxyz"
LETTERS = "DCNXSRFT"


def lab(rng):
    return rng.choice(ALPHA) + "".join(rng.choice(ALPHA + "0123456789") for _ in range(rng.randint(0, 5)))


def name(rng, dots):
    return ".".join(lab(rng) for _ in range(dots + 1))


def spec(letter, qtype):
    if letter == "D":
        return "an=AAAA:[fd00::7]" if qtype == "AAAA" else "an=A:1.2.3.4"
    if letter == "C":
        return "an=CNAME:alias.target.example"
    if letter == "N":
        return "rcode=NOERROR"
    return {"X": "rcode=NXDOMAIN", "S": "rcode=SERVFAIL", "R": "rcode=REFUSED", "F": "rcode=FORMERR"}[letter]


def mirror(tok):
    """same per-family outcomes, the other query completes first (not possible with a timeout)"""
    if len(tok) != 3 or "T" in tok:
        return tok
    return ("b" if tok[0] == "a" else "a") + tok[2] + tok[1]


def rounds(script, unspec, qt):
    """ops answering, round by round, the transmission(s) made last: xl (single query) or
    xl-1 = A and xl = AAAA (AF_UNSPEC)"""
    ops = []
    for tok in script:
        if unspec:
            first, l1, l2 = tok[0], tok[1], tok[2]
            fx, fq = ("xl-1", "A") if first == "a" else ("xl", "AAAA")
            sx, sq = ("xl", "AAAA") if first == "a" else ("xl-1", "A")
            if l1 != "T":
                ops.append("rsp %s %s" % (fx, spec(l1, fq)))
            if l2 != "T":
                ops.append("rsp %s %s" % (sx, spec(l2, sq)))
            ops.append("proc")
            if l2 == "T":
                ops += ["adv 10000", "proct"]
        else:
            if tok == "T":
                ops += ["adv 10000", "proct"]
            else:
                ops += ["rsp xl %s" % spec(tok, qt), "proc"]
    return ops


def gen_case(rng, tier, forced=None):
    api = rng.choice(["search", "search", "gai4", "gai6", "gai0", "gai0", "gai0", "ghbn4", "ghbn0"])
    if forced is not None:
        api = rng.choice(["gai0", "gai0", "ghbn0"])
    ndots = rng.choice([None, 0, 1, 1, 2, 3])
    ndom = rng.choice([0, 1, 1, 2, 2, 3, 4])
    doms = []
    for _ in range(ndom):
        r = rng.random()
        if r < 0.1:
            doms.append(".")
        elif r < 0.18 and doms:
            doms.append(rng.choice(doms))
        else:
            doms.append(name(rng, rng.randint(0, 2)))
    flags = ["noedns"]
    for f, p in (("nosearch", 0.08), ("noaliases", 0.1), ("nocheckresp", 0.3), ("norecurse", 0.1), ("stayopen", 0.2)):
        if rng.random() < p:
            flags.append(f)
    r = rng.random()
    use_alias = False
    if r < 0.2:
        nm = rng.choice(ALIAS_KEYS)
        use_alias = rng.random() < 0.8
    else:
        eff = 1 if ndots is None else ndots
        dots = max(0, eff + rng.choice([-1, -1, 0, 0, 1])) if rng.random() < 0.6 else rng.randint(0, 3)
        nm = name(rng, dots)
        r2 = rng.random()
        if r2 < 0.08:
            nm += "."
        elif r2 < 0.11:
            nm = rng.choice(["x.onion", "deep.y.Onion.", "onion"])
        use_alias = rng.random() < 0.1
    cfg = ["seed=%d" % rng.randrange(1, 10 ** 6), "servers=1", "tries=1", "timeout=2000", "flags=" + ",".join(flags),
           "qcachettl=0", "idseq=1", "domains=" + (",".join(doms) if doms else "-")]
    if ndots is not None:
        cfg.append("ndots=%d" % ndots)
    if use_alias:
        cfg.append("hostaliases=" + ALIASES)
    ncand = len(doms) + 1
    nrounds = ncand + 1
    unspec = api in ("gai0", "ghbn0")
    qt = {"search": "A", "gai4": "A", "gai6": "AAAA", "ghbn4": "A"}.get(api)
    # outcome letters: mostly soft so that the walk gets somewhere
    mood = rng.random()
    alphabet = "NX" * 4 + LETTERS if mood < 0.5 else ("NXSR" * 2 + LETTERS if mood < 0.8 else LETTERS)
    script = []
    for r_ in range(nrounds):
        if forced is not None and r_ < len(forced):
            tok = forced[r_]
        elif unspec:
            tok = rng.choice("ab") + rng.choice(alphabet) + rng.choice(alphabet)
            if rng.random() < 0.4:                  # consistent server: same verdict for both families
                tok = tok[0] + tok[1] + (tok[1] if tok[1] in "NXSRT" else tok[2])
        else:
            tok = rng.choice(alphabet)
        if unspec and tok[1] == "T" and tok[2] != "T":
            tok = ("b" if tok[0] == "a" else "a") + tok[2] + "T"   # the one that times out completes last
        script.append(tok)
    nmx = nm if nm else "-"

    def req(t):
        if api == "search":
            return "search %d %s IN A rd" % (t, nmx)
        if api.startswith("gai"):
            return "gai %d %s %s 0x80" % (t, nmx, api[3])
        return "ghbn %d %s %s" % (t, nmx, api[4])
    ops = ["note script=" + "/".join(script), req(1)] + rounds(script, unspec, qt)
    if unspec:
        # the same request again with the two answers of every candidate arriving in the
        # opposite order: the result must be the same
        ops += ["note mirror", req(2)] + rounds([mirror(t) for t in script], unspec, qt)
    return " ".join(cfg) + "|" + ";".join(ops)


def gen(rng, tier, n):
    cases = []
    # every (completion order, first outcome, last outcome) of an AF_UNSPEC candidate, as the only
    # decisive candidate, after a no-data candidate, and before a not-found one
    for first in "ab":
        for l1 in LETTERS:
            for l2 in LETTERS:
                if l1 == "T" and l2 != "T":
                    continue
                tok = first + l1 + l2
                for forced in ([tok], ["aNN", tok], [tok, "aXX"]):
                    cases.append(gen_case(rng, tier, forced))
    return cases + [gen_case(rng, tier) for _ in range(n)]


if __name__ == "__main__":
    import random
    import sys
    for c in gen(random.Random(int(sys.argv[1]) if len(sys.argv) > 1 else 1), "quick", 8):
        print(c)
