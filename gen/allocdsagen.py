"""Case generator of the C14 container engine ("allocdsa").

For every generated operation sequence the implementation is run once without failure to learn
the number of allocation requests `total`; the sequence is then emitted once per n in 0..total
("n=<idx>": the n-th request is refused; n=0: none).  Sequences aim at the growth points of the
containers: skip-list level growth (more than 16 members with maximal levels), hash-table
expansion at 12/24/48 keys with and without recorded collisions, buffer growth at 32/64/128..
bytes with consumed prefixes and tags (reclaim), array growth at powers of two with a front
offset.  Kinds without a model: `wire` (ares_dns_write, names read back) and `parse` (the legacy
ares_parse_*_reply functions on generated messages; the case carries the fault-free result as
base=<dump> and the judge wants that result or a failure)."""
import os
import re
import sys

HERE = os.path.dirname(os.path.abspath(__file__))
ROOT = os.path.dirname(HERE)
sys.path.insert(0, os.path.join(ROOT, "lib"))

C_SRCS = ["harness/allocfail_dsa_drv.c"]
WRAPS = ["ares_rand_bytes"]


def seq_llist(rng, n):
    ops, size = [], 0
    for _ in range(n):
        c = rng.random()
        if c < 0.3:
            ops.append("if:%d" % rng.randint(0, 99)); size += 1
        elif c < 0.6:
            ops.append("il:%d" % rng.randint(0, 99)); size += 1
        elif c < 0.8:
            ops.append("ib:%d:%d" % (rng.randint(0, size + 1), rng.randint(0, 99))); size += 1
        else:
            ops.append("rm:%d" % rng.randint(0, max(size, 1))); size = max(0, size - 1)
    return "llist", "", ops


def seq_slist(rng, n):
    bits = rng.choice([0, 1, 1])
    ops, size = [], 0
    n = n if bits == 0 else max(n, rng.choice([18, 20, 35]))
    for _ in range(n):
        if size > 2 and rng.random() < 0.15:
            ops.append("rm:%d" % rng.randint(0, size)); size -= 1
        else:
            ops.append("in:%d" % rng.randint(0, 60)); size += 1
    return "slist", " bits=%d" % bits, ops


def seq_htab(rng, n):
    ops, keys = [], []
    mode = rng.choice(["spread", "collide", "mixed"])
    target = rng.choice([14, 15, 27, 30, 52])
    base = rng.randint(0, 15)
    for i in range(target):
        if mode == "spread":
            k = i * 1 + base
        elif mode == "collide":
            k = base + 16 * i if i % 3 else base + i
        else:
            k = rng.randint(0, 200)
        ops.append("in:%d:%d" % (k, rng.randint(1, 999))); keys.append(k)
        r = rng.random()
        if r < 0.08 and keys:
            ops.append("rm:%d" % rng.choice(keys))
        elif r < 0.16 and keys:
            ops.append("get:%d" % rng.choice(keys + [777]))
        elif r < 0.2 and keys:
            ops.append("in:%d:%d" % (rng.choice(keys), rng.randint(1, 999)))     # replace
    return "htab", "", ops


def seq_buf(rng, n):
    ops, length = [], 0
    for _ in range(n):
        c = rng.random()
        if c < 0.55:
            k = rng.choice([1, 2, 7, 15, 16, 30, 31, 33, 64, 100, 300])
            ops.append("ap:%d:%d" % (k, rng.randint(1, 250))); length += k
        elif c < 0.8:
            k = rng.randint(0, length + 2)
            ops.append("co:%d" % k)
            if k <= length:
                length -= k
        elif c < 0.9:
            ops.append("tag")
        else:
            ops.append("untag")
    return "buf", "", ops


def seq_arr(rng, n):
    ops, size = [], 0
    mode = rng.choice(["grow", "front", "mixed"])
    for _ in range(n):
        c = rng.random()
        if mode == "front" and size > 0 and c < 0.4:
            ops.append("rf"); size -= 1
        elif c < 0.5 or mode == "grow":
            ops.append("il:%d" % rng.randint(0, 99)); size += 1
        elif c < 0.6:
            ops.append("if:%d" % rng.randint(0, 99)); size += 1
        elif c < 0.75:
            ops.append("ia:%d:%d" % (rng.randint(0, size + 1), rng.randint(0, 99))); size += 1
        elif c < 0.85:
            ops.append("rl"); size = max(0, size - 1)
        else:
            ops.append("ra:%d" % rng.randint(0, max(size, 1))); size = max(0, size - 1)
    return "arr", "", ops


def seq_wire(rng):
    """records whose names share suffixes (compression) and end in a dot or not"""
    lab = lambda: "".join(rng.choice("abcdefghijklmnopqrstuvwxyz") for _ in range(rng.randint(1, 8)))
    dom = lab() + "." + lab()
    dot = lambda s: s + "." if rng.random() < 0.5 else s
    ops = ["q:%s" % dot("host." + dom)]
    for _ in range(rng.randint(1, 3)):
        ops.append("an:%s" % dot(rng.choice(["host." + dom, lab() + "." + lab(), "www." + dom])))
    for _ in range(rng.randint(0, 2)):
        ops.append("ns:%s:%s" % (dot(dom), dot("ns." + rng.choice([dom, lab() + ".test"]))))
    return "wire", "", ops


# ---------------- legacy reply parsers: DNS messages built here ----------------
def _name(n):
    out = b""
    for lab in n.rstrip(".").split("."):
        if lab:
            out += bytes([len(lab)]) + lab.encode()
    return out + b"\0"


def _rr(owner, typ, rdata, ttl=300):
    import struct
    return _name(owner) + struct.pack(">HHIH", typ, 1, ttl, len(rdata)) + rdata


def _msg(qname, qtype, answers):
    import struct
    hdr = struct.pack(">HHHHHH", 0x1234, 0x8180, 1, len(answers), 0, 0)
    return (hdr + _name(qname) + struct.pack(">HH", qtype, 1) + b"".join(answers)).hex()


def _cstr(s):
    return bytes([len(s)]) + s.encode()


def seq_parse(rng, which=None):
    """one message for one legacy parser: address answers behind CNAME chains of 0..2 links
    (alias and target are duplicated one by one), PTR through CNAMEs, list-valued replies"""
    import socket
    import struct
    lab = lambda: "".join(rng.choice("abcdefghijklmnopqrstuvwxyz") for _ in range(rng.randint(1, 8)))
    dom = lab() + "." + lab()
    fn = which or rng.choice(["a", "aaaa", "ptr", "ptr6", "ns", "mx", "srv", "txt", "soa", "naptr", "caa"])
    links = rng.choice([0, 1, 1, 2, 2])

    def chain(q):
        an, cur = [], q
        for i in range(links):
            nxt = "c%d.%s" % (i + 1, rng.choice([dom, lab() + ".test"]))
            an.append(_rr(cur, 5, _name(nxt), ttl=rng.choice([60, 300])))
            cur = nxt
        return an, cur

    if fn in ("a", "aaaa"):
        q = "www." + dom
        an, cur = chain(q)
        for i in range(rng.randint(1, 3)):
            if fn == "a":
                an.append(_rr(cur, 1, bytes([10, 0, rng.randint(0, 9), i + 1]), ttl=100 + i))
            else:
                an.append(_rr(cur, 28, socket.inet_pton(socket.AF_INET6, "2001:db8::%x" % (i + 1)), ttl=100 + i))
        hexmsg = _msg(q, 1 if fn == "a" else 28, an)
    elif fn in ("ptr", "ptr6"):
        q = "3.2.1.10.in-addr.arpa" if fn == "ptr" else "8.0.0.0.0.0.0.0.0.0.0.0.0.0.0.0.0.0.0.0.0.0.0.0.0.0.0.0.0.0.d.f.ip6.arpa"
        an, cur = chain(q)
        for i in range(rng.randint(1, 3)):
            an.append(_rr(cur, 12, _name("host%d.%s" % (i, dom))))
        hexmsg = _msg(q, 12, an)
    elif fn == "ns":
        an = [_rr(dom, 2, _name("ns%d.%s" % (i, dom))) for i in range(rng.randint(1, 3))]
        hexmsg = _msg(dom, 2, an)
    elif fn == "mx":
        an = [_rr(dom, 15, struct.pack(">H", 10 * i) + _name("mx%d.%s" % (i, dom))) for i in range(rng.randint(1, 3))]
        hexmsg = _msg(dom, 15, an)
    elif fn == "srv":
        an = [_rr("_sip._tcp." + dom, 33, struct.pack(">HHH", i, 5, 5060) + _name("sip%d.%s" % (i, dom))) for i in range(rng.randint(1, 3))]
        hexmsg = _msg("_sip._tcp." + dom, 33, an)
    elif fn == "txt":
        an = [_rr(dom, 16, b"".join(_cstr(lab()) for _ in range(rng.randint(1, 3)))) for i in range(rng.randint(1, 3))]
        hexmsg = _msg(dom, 16, an)
    elif fn == "soa":
        an = [_rr(dom, 6, _name("ns." + dom) + _name("hostmaster." + dom) + struct.pack(">IIIII", 2024, 3600, 600, 86400, 60))]
        hexmsg = _msg(dom, 6, an)
    elif fn == "naptr":
        an = [_rr(dom, 35, struct.pack(">HH", 10 + i, 20) + _cstr("u") + _cstr("E2U+sip") + _cstr("!^.*$!sip:info@%s!" % dom) + _name("."))
              for i in range(rng.randint(1, 2))]
        hexmsg = _msg(dom, 35, an)
    else:
        an = [_rr(dom, 257, bytes([0]) + _cstr("issue") + ("ca%d.%s" % (i, dom)).encode()) for i in range(rng.randint(1, 2))]
        hexmsg = _msg(dom, 257, an)
    return "parse", " fn=%s" % fn, [hexmsg]


def sequences(rng, tier):
    per = 3 if tier == "quick" else 12
    out = []
    for _ in range(per):
        out.append(seq_llist(rng, rng.choice([6, 12, 25])))
        out.append(seq_slist(rng, rng.choice([5, 12])))
        out.append(seq_htab(rng, 0))
        # buffers and arrays allocate rarely: more and longer sequences
        for _ in range(4):
            out.append(seq_buf(rng, rng.choice([12, 20, 40])))
            out.append(seq_arr(rng, rng.choice([12, 20, 40, 80])))
        for _ in range(3):
            out.append(seq_wire(rng))
    # every legacy parser once, the address and PTR parsers (CNAME chains) more often
    for fn in ["a", "aaaa", "ptr", "ptr6", "ns", "mx", "srv", "txt", "soa", "naptr", "caa"]:
        out.append(seq_parse(rng, fn))
    for _ in range(per * 2):
        out.append(seq_parse(rng, rng.choice(["a", "aaaa", "ptr", "ptr6"])))
    return out


def gen(rng, tier, n):
    import vlib
    seqs = sequences(rng, tier)
    exe = vlib.build_harness("allocdsa", C_SRCS, "asan", WRAPS)
    casefile = os.path.join(vlib.CACHE, "allocdsa-baseline-%d.cases" % os.getpid())
    with open(casefile, "w") as f:
        for (kind, extra, ops) in seqs:
            f.write("%s n=0%s|%s\n" % (kind, extra, ";".join(ops)))
    env = dict(os.environ)
    env.update(vlib.SAN_ENV)
    rc, out, err = vlib.sh([exe, casefile, "0"], timeout=120, env=env)
    os.unlink(casefile)
    totals = {}
    dumps = {}
    for line in out.split("\n"):
        m = re.match(r"^(\d+) R (.*)$", line)
        if m:
            cnts = re.findall(r"@(\d+)/", m.group(2))
            totals[int(m.group(1))] = int(cnts[-1]) if cnts else 0
            d = re.search(r" dump=(\S*)", m.group(2))
            dumps[int(m.group(1))] = d.group(1) if d else "?"
    cases = []
    for i, (kind, extra, ops) in enumerate(seqs):
        total = totals.get(i, 0)
        if kind == "parse":
            # the judge compares a successful result with the result without failure
            extra += " base=%s" % dumps.get(i, "?")
        for k in range(0, total + 1):
            cases.append("%s n=%d%s|%s" % (kind, k, extra, ";".join(ops)))
    return cases


if __name__ == "__main__":
    import random
    for c in gen(random.Random(int(sys.argv[2]) if len(sys.argv) > 2 else 1), sys.argv[1] if len(sys.argv) > 1 else "quick", 0):
        print(c)
