"""Case generator of the configuration engine (C15, C16); see harness/config_drv.c for the case
syntax.  Pure functions of the random.Random passed in.

Streams
  rc     valid system configuration (all directives, duplicates, many name servers, long search
         lists, nsswitch/netsvc/svc, LOCALDOMAIN / RES_OPTIONS), optionally with junk lines of ONE
         grammar class inserted (so a failure names its class), user options, a reinit-time file
  opt    channels from generated options and setters: save->init, dup, csv round trip, reinit
  fn     line-level internals (options string, sortlist string, server string, host aliases)
  hosts  hosts file robustness / metamorphic
Boundaries aimed at: option[32] / value[512] / ipaddr[46] / maskstr[16] / portstr[6] / iface[16]
buffers, ndots 15/16, timeout 0, 2^32 wrap, port 0/65535/65536, mask 32/33/128/129, equal vs
differing udp/tcp ports, link-local with / without interface, IPv6 text shapes."""


def hx(b):
    if isinstance(b, str):
        b = b.encode("latin1")
    return b.hex()


# ---------------------------------------------------------------------------------- addresses
IFACES = ["lo", "eth0", "br-lan", "wlan0", "eth0.100", "abcdefghijklmno", "eth0:1"]
BAD_IFACES = ["nope0", "abcdefghijklmnop", "eth0/1", "", "99", "0"]


def ipv4(rng):
    c = rng.random()
    if c < 0.6:
        return "%d.%d.%d.%d" % (rng.choice([1, 8, 10, 127, 128, 172, 191, 192, 223, 224, 240, 255]), rng.randint(0, 255), rng.randint(0, 255), rng.randint(0, 255))
    if c < 0.8:
        return rng.choice(["1.2.3.4", "8.8.8.8", "9.9.9.9", "10.0.0.1", "192.168.1.1", "127.0.0.1"])
    return "%d.%d.%d.%d" % tuple(rng.randint(0, 255) for _ in range(4))


def ipv6_words(rng):
    shape = rng.choice(["full", "lead0", "trail0", "mid0", "two-runs", "v4mapped", "v4compat", "all0", "one", "max", "single0"])
    w = [rng.randint(1, 0xffff) for _ in range(8)]
    if shape == "lead0":
        n = rng.randint(1, 7)
        w[:n] = [0] * n
    elif shape == "trail0":
        n = rng.randint(1, 7)
        w[8 - n:] = [0] * n
    elif shape == "mid0":
        a = rng.randint(1, 5)
        n = rng.randint(1, 7 - a)
        w[a:a + n] = [0] * n
    elif shape == "two-runs":
        w = [rng.randint(1, 0xffff), 0, 0, rng.randint(1, 0xffff), 0, 0, rng.choice([0, 5]), rng.randint(1, 0xffff)]
    elif shape == "v4mapped":
        w = [0, 0, 0, 0, 0, 0xffff, rng.randint(0, 0xffff), rng.randint(0, 0xffff)]
    elif shape == "v4compat":
        w = [0, 0, 0, 0, 0, 0, rng.randint(0, 0xffff), rng.randint(0, 0xffff)]
    elif shape == "all0":
        w = [0] * 8
    elif shape == "one":
        w = [0] * 7 + [1]
    elif shape == "max":
        w = [0xffff] * 8
    elif shape == "single0":
        w[rng.randint(0, 7)] = 0
    return w


def ipv6_text(rng, w=None):
    if w is None:
        w = ipv6_words(rng)
    style = rng.random()
    full = ":".join("%x" % x for x in w)
    if style < 0.3:
        return full
    # compress the first longest zero run
    best, bl, i = -1, 0, 0
    while i < 8:
        if w[i] == 0:
            j = i
            while j < 8 and w[j] == 0:
                j += 1
            if j - i > bl:
                best, bl = i, j - i
            i = j
        else:
            i += 1
    if bl >= 1 and style < 0.9:
        txt = ":".join("%x" % x for x in w[:best]) + "::" + ":".join("%x" % x for x in w[best + bl:])
    else:
        txt = full
    if style > 0.8:
        txt = txt.upper()
    if rng.random() < 0.1:
        txt = ":".join("%04x" % x for x in w)
    return txt


def linklocal(rng):
    return "fe80::%x" % rng.randint(1, 0xffff) if rng.random() < 0.7 else "fe80:0:0:0:%x:%x:%x:%x" % tuple(rng.randint(0, 0xffff) for _ in range(4))


# ---------------------------------------------------------------------------------- numeric extremes
# Every numeric field of every directive gets values around the powers of two at which a C integer
# type ends (2^8, 2^16, 2^31, 2^32, 2^63, 2^64), multiples of those plus a residue that lies INSIDE
# the field's valid range [lo, hi] (so that a value narrowed before its range check lands in the
# range), negative numbers, leading zeros, a plus sign, trailing garbage and very long digit strings.
WRAPS_AT = [2 ** 8, 2 ** 16, 2 ** 32, 2 ** 64]


def num_extreme(rng, lo, hi, digits_only=False):
    r = rng.randint(lo, hi) if rng.random() < 0.85 else 0          # 0: a wrap onto zero, which many fields treat specially
    c = rng.random()
    if c < 0.22:
        v = 2 ** rng.choice([8, 16, 31, 32, 63, 64]) + rng.choice([-1, 0, 1])
    elif c < 0.55:
        v = rng.choice(WRAPS_AT) * rng.randint(1, 3) + r
    elif c < 0.65:
        v = hi + rng.choice([1, 2, 10, 100, 1000])
    elif c < 0.72:
        v = 2 ** 64 * rng.randint(10 ** 5, 10 ** rng.choice([6, 30, 280])) + r         # very long, wraps to r
    elif c < 0.78:
        return "0" * rng.choice([1, 2, 8, 9, 40]) + str(r)
    elif digits_only:
        v = rng.choice([hi + 1, 255, 256 + r, 999, 1000 + r, 10 ** 9 + r, 10 ** 10 + r])
    elif c < 0.86:
        return "-" + str(rng.choice([1, max(r, 1), 256 - r if r else 256, 2 ** 31, 2 ** 31 + 1, 2 ** 32 - r if r else 2 ** 32]))
    elif c < 0.91:
        return "+" + str(r)
    else:
        return str(r) + rng.choice(["x", ".", ".0", "e1", "-", "+1", "\x01"])
    return str(v)


def int_extreme(rng, lo, hi):
    """the same for a C int passed through struct ares_options"""
    r = rng.randint(lo, hi)
    return rng.choice([255, 256, 257, 256 + r, 512 + r, 65535, 65536, 65536 + r, 131072 + r, 2 ** 31 - 1, 2 ** 31 - 2, -(2 ** 31), -(2 ** 31) + 1,
                       -1, -r if r else -1, -256 + r, hi + 1, lo - 1])


def port(rng):
    if rng.random() < 0.2:
        return num_extreme(rng, 1, 65535)
    return str(rng.choice([53, 53, 5353, 1, 65535, 0, 65536, 99999, 100000, 853, rng.randint(1, 65535)]))


def server_token(rng, valid_only=False):
    """one server specification as accepted in resolv.conf / CSV (mostly valid)"""
    c = rng.random()
    if c < 0.30:
        t = ipv4(rng)
        if rng.random() < 0.3:
            t += ":%s" % port(rng)
        return t
    if c < 0.40:
        return "[%s]:%s" % (ipv4(rng), port(rng))
    if c < 0.55:
        return ipv6_text(rng)
    if c < 0.70:
        t = "[%s]" % ipv6_text(rng)
        if rng.random() < 0.7:
            t += ":%s" % port(rng)
        return t
    if c < 0.82:
        ifc = rng.choice(IFACES) if (valid_only or rng.random() < 0.8) else rng.choice(BAD_IFACES)
        if rng.random() < 0.15:
            ifc = str(rng.randint(0, 8)) if rng.random() < 0.7 else num_extreme(rng, 1, 7)
        form = rng.random()
        if form < 0.4:
            return "%s%%%s" % (linklocal(rng), ifc)
        if form < 0.8:
            return "[%s]:%s%%%s" % (linklocal(rng), port(rng), ifc)
        return "[%s]%%%s" % (linklocal(rng), ifc)
    if c < 0.86 and not valid_only:
        return uri_junk(rng)
    if c < 0.92:
        # dns:// URI forms as ares_get_server_addr emits them, and near misses
        host = rng.choice([ipv4(rng), "[%s]" % ipv6_text(rng), "[%s%%%s]" % (linklocal(rng), rng.choice(IFACES + ["br-lan"]))])
        t = "dns://%s" % host
        if rng.random() < 0.8:
            t += ":%s" % (num_extreme(rng, 1, 65535) if rng.random() < 0.2 else rng.choice([53, 5353, 1, 65535, 0]))
        if rng.random() < 0.7:
            t += "?tcpport=%s" % (num_extreme(rng, 1, 65535) if rng.random() < 0.25 else rng.choice([53, 54, 5353, 65535, 0, 70000]))
        return t
    if valid_only:
        return ipv4(rng)
    return rng.choice(["fec0::1", "fe80::1", "1.2.3", "10", "1.2.3.4.5", "256.1.1.1", "[1.2.3.4", "1.2.3.4:", "1.2.3.4:123456", "::1::", "[::1]x",
                       "0x7f000001", "[0x7f000001]", "[1.2.3.0/24]", "[2001:db8::1/32]", "1::/0", "dns://", "dns://host.example", "http://1.2.3.4",
                       "DNS://1.2.3.4:53", "dns://1.2.3.4:53?tcpport=", "dns://u@1.2.3.4", "dns://1.2.3.4/p", "dns://1.2.3.4:53?x=1",
                       "12345::", ":1", "1:::2", "::ffff:1.2.3.4", "::1.2.3.4", "1:2:3:4:5:6:1.2.3.4", "a" * 50, "1" * 46 + ".1",
                       "fe80::1%" + "i" * 16, "fe80::1%eth0%eth0", "[fe80::1%eth0]", "1.2.3.4%eth0", "fe80::1%25lo"])


def uri_junk(rng):
    """dns:// entries with URI-syntax junk: most cannot name a server, all must be survived"""
    host = rng.choice(["10.9.9.9", "1.2.3.4", "[2001:db8::1]", "[fe80::1%25eth0]", "[fe80::1%eth0]", "host.example", "", "[::1", "::1", "1.2.3.4.5", "256.1.1.1", "[]", "%31.2.3.4", "1.2.3.4%", "u@1.2.3.4", "u:p@1.2.3.4", "@1.2.3.4", "1.2.3.4@"])
    port = rng.choice(["", "", ":53", ":5353", ":", ":0", ":65536", ":99999999999", ":5x", ":-1", ":+53", "::53", ":53:54"])
    path = rng.choice(["", "", "", "/", "/p", "//", "/%", "/%4", "/%zz", "/a%20b", "/" + "p" * rng.choice([10, 300, 600])])
    pairs = ["tcpport=5353", "tcpport=53", "x=1", "x", "x=", "=1", "=", "tcpport", "tcpport=", "tcpport=abc", "tcpport=70000", "tcpport=5353&tcpport=54", "a%3Db=c", "k=%", "k=%4", "k=%zz",
             "%=1", "%41=1", "k=v=w", "k==v", "tcpport=%35%33", "sp%20ace=1", "k=" + "v" * rng.choice([10, 300, 600, 5000])]
    q = rng.random()
    if q < 0.25:
        query = ""
    elif q < 0.55:
        # empty pairs: leading '&', '&&', trailing '&' / '&&'
        n = rng.randint(1, 3)
        ps = [rng.choice(pairs) for _ in range(n)]
        form = rng.choice(["&%s", "%s&&%s", "%s&&", "%s&", "&&", "&", "&&%s", "%s&&&%s", "&=&", "%s&=%s"])
        query = "?" + form.replace("%s", "{}").format(*[rng.choice(ps) for _ in range(form.count("%s"))])
    else:
        query = "?" + "&".join(rng.choice(pairs) for _ in range(rng.choice([1, 1, 2, 3, 40])))
    frag = rng.choice(["", "", "", "#", "#frag", "#%", "#a#b", "#" + "f" * 300])
    scheme = rng.choice(["dns", "dns", "dns", "dns", "DNS", "Dns", "http", "dns+tls", "1dns", "d_ns", ""])
    if rng.random() < 0.65:
        # one defect at a time on an otherwise well-formed entry, so that the parser gets that far
        keep = rng.choice(["host", "port", "path", "query", "query", "query", "frag", "scheme"])
        if keep != "host":
            host = rng.choice(["10.9.9.9", "1.2.3.4", "[2001:db8::1]", "[fe80::1%eth0]"])
        if keep != "port":
            port = rng.choice(["", ":53", ":5353"])
        if keep != "path":
            path = ""
        if keep != "query":
            query = rng.choice(["", "?tcpport=5353"])
        if keep != "frag":
            frag = ""
        if keep != "scheme":
            scheme = "dns"
    return "%s://%s%s%s%s%s" % (scheme, host, port, path, query, frag)


def domain(rng):
    labels = [rng.choice(["example", "corp", "lan", "a", "b-c", "x_y", "test", "sub1", "Example", "EXAMPLE"]) for _ in range(rng.randint(1, 3))]
    return ".".join(labels) + rng.choice([".com", ".org", ".net", "", ".", ".local"])


def sort_pattern(rng):
    c = rng.random()
    if c < 0.3:
        return ipv4(rng)
    if c < 0.45:
        return "%s/%d" % (ipv4(rng), rng.choice([0, 1, 8, 16, 24, 31, 32, 33, 128, 129]))
    if c < 0.55:
        return "%s/%s" % (ipv4(rng), num_extreme(rng, 0, 32))
    if c < 0.7:
        return "%s/%s" % (ipv4(rng), rng.choice(["255.0.0.0", "255.255.0.0", "255.255.255.0", "255.255.255.255", "0.0.0.0", "255.255", "255.0.255.0", "1.2.3.4.5"]))
    if c < 0.78:
        return "%s/%d" % (ipv6_text(rng), rng.choice([0, 10, 64, 127, 128, 129]))
    if c < 0.85:
        return "%s/%s" % (ipv6_text(rng), num_extreme(rng, 0, 128))
    if c < 0.92:
        return ipv6_text(rng)
    return rng.choice(["1.2.3.4/", "/8", "1.2.3.4/08", "1.2.3.4/8x", "1.2.3.4/99999999999", "1.2.3.4/4294967304", "junk", "1.2.3.4/255.255.255.255.255", "1.2.3.4/1234567890123456", "fe80::/10"])


def option_token(rng):
    if rng.random() < 0.15:
        name, lo, hi = rng.choice([("ndots", 0, 15), ("timeout", 1, 30), ("retrans", 1, 30), ("attempts", 1, 5), ("retry", 1, 5)])
        return "%s:%s" % (name, num_extreme(rng, lo, hi))
    c = rng.random()
    if c < 0.22:
        return "ndots:%s" % rng.choice(["0", "1", "2", "5", "14", "15", "16", "100", "255", "4294967295", "4294967296", "99999999999999999999"])
    if c < 0.40:
        return "%s:%s" % (rng.choice(["timeout", "retrans"]), rng.choice(["1", "2", "5", "30", "0", "4294967", "4294968", "536870912", "99999999999999999999"]))
    if c < 0.58:
        return "%s:%s" % (rng.choice(["attempts", "retry"]), rng.choice(["1", "2", "3", "5", "0", "4294967295", "4294967296"]))
    if c < 0.68:
        return "rotate"
    if c < 0.76:
        return rng.choice(["use-vc", "usevc"])
    if c < 0.88:
        return rng.choice(["edns0", "trust-ad", "single-request", "no-aaaa", "inet6", "debug", "no-tld-query"])
    return rng.choice(["ndots", "ndots:", "ndots:abc", "ndots:-1", "ndots:+3", "ndots: 3", "timeout", "timeout:", "timeout:abc", "timeout:5x", "timeout:-1",
                       "attempts:", "attempts:x", ":", "::", ":5", "ndots:1:2", "rotate:1", "use-vc:0", "NDOTS:3", "ndots:0x10", "ndots:007"])


def lookup_words(rng):
    return " ".join(rng.choice(["bind", "file", "files", "dns", "local", "resolv", "resolve", "BIND", "Files", "mdns4", "nis", "x"]) for _ in range(rng.randint(1, 4)))


# ---------------------------------------------------------------------------------- lines
def valid_resolv_lines(rng):
    ls = []
    n = rng.choice([0, 1, 1, 2, 3, 3, 6, 12])
    for _ in range(n):
        toks = [server_token(rng, valid_only=rng.random() < 0.85) for _ in range(rng.choice([1, 1, 1, 2, 3]))]
        ls.append("nameserver" + rng.choice([" ", "  ", "\t", " \t "]) + rng.choice([" ", ",", ", "]).join(toks))
    if ls and rng.random() < 0.3:
        ls.append(rng.choice(ls))                      # duplicate
    if rng.random() < 0.6:
        k = rng.choice([1, 2, 3, 6, 8, 40, 90])
        ls.append("search " + rng.choice([" ", ",", ", "]).join(domain(rng) for _ in range(k)))
    if rng.random() < 0.3:
        ls.append("domain " + domain(rng))
    if rng.random() < 0.2:
        ls.append("search " + " ".join(domain(rng) for _ in range(rng.randint(1, 3))))
    if rng.random() < 0.35:
        ls.append("sortlist " + rng.choice([" ", ";", "  "]).join(sort_pattern(rng) for _ in range(rng.randint(1, 4))))
    if rng.random() < 0.15:
        ls.append("sortlist " + " ".join(sort_pattern(rng) for _ in range(rng.randint(1, 3))))
    for _ in range(rng.choice([0, 1, 1, 2])):
        ls.append("options " + rng.choice([" ", "  "]).join(option_token(rng) for _ in range(rng.randint(1, 5))))
    if rng.random() < 0.25:
        ls.append(rng.choice(["lookup", "hostresorder"]) + " " + lookup_words(rng))
    rng.shuffle(ls)
    return ls


JUNK_CLASSES = ["comment", "blank", "unknown-keyword", "no-argument", "unprintable", "overlong", "nameserver-tokens",
                "sortlist-token", "sortlist-mask", "uri-malformed", "options-plain", "options-numeric", "search-empty", "lookup-noword", "binary"]


def junk_line(rng, cls):
    if cls == "comment":
        return rng.choice(["#", ";", "# nameserver 6.6.6.6", "; search evil.example", "#options ndots:9", "   # indented comment", ";;;;", "#" + "x" * rng.choice([10, 600, 5000])])
    if cls == "blank":
        return rng.choice(["", " ", "\t", "   \t  ", "\r", " \r", "\x0b\x0c"])
    if cls == "unknown-keyword":
        return rng.choice(["nameservers 6.6.6.6", "Nameserver 6.6.6.6", "NAMESERVER 6.6.6.6", "server 6.6.6.6", "option ndots:9", "searchx evil.example", "family inet6",
                           "x" * rng.choice([31, 32, 33, 1000, 10000]) + " 6.6.6.6", "nameserver6.6.6.6", "options:ndots:9", "=", "nameserver=6.6.6.6", "\"nameserver\" 6.6.6.6"])
    if cls == "no-argument":
        return rng.choice(["nameserver", "search", "domain ", "options   ", "sortlist\t", "lookup", "hostresorder \r"])
    if cls == "unprintable":
        return rng.choice(["nameserver 6.6.6.6\x01", "name\x01server 6.6.6.6", "search evil\x7f.example", "options ndots:9\x00", "nameserver 6.6.6.6 \x80\xff", "search a.example\tb.example",
                           "options ndots:9\trotate", "\x00nameserver 6.6.6.6", "sortlist 10.0.0.0/8\x0b1.2.3.4", "nameserver \xe2\x80\x8b6.6.6.6"])
    if cls == "overlong":
        return rng.choice(["search " + " ".join("d%d.example" % i for i in range(rng.choice([60, 200, 900]))), "nameserver " + "6" * rng.choice([512, 1024, 10240]),
                           "options " + "ndots:9 " * 70, "nameserver 6.6.6.6 " + "#" * 600])
    if cls == "nameserver-tokens":
        return "nameserver " + rng.choice(["junk", "none", "localhost", "ns1.example.com", "# 6.6.6.6", "%eth0", "/24", "-1", "x6.6.6.6", "junk1 junk2,junk3", "\"6.6.6.6\"", "*", "g::1"])
    if cls == "sortlist-token":
        return "sortlist " + rng.choice(["junk", "junk 10.0.0.0/8", "/8 10.0.0.0/8", "x1.2.3.4", "net/8", "*", ";", "; ;", ";;;"])
    if cls == "uri-malformed":
        # nameserver entries in URI form that cannot name a server; the driver keeps only the lines
        # its own syntactic criterion calls malformed for the metamorphic verdict, all of them are run
        return "nameserver " + rng.choice([" ", ",", ", "]).join(uri_junk(rng) for _ in range(rng.choice([1, 1, 2, 3])))
    if cls == "sortlist-mask":
        # an entry whose numeric prefix length is no prefix length for any family (above 128 or more
        # than three digits), alone or among valid entries
        bad = "%s/%s" % (rng.choice([ipv4(rng), "10.0.0.0", ipv6_text(rng), "2001:db8::"]),
                         rng.choice(["129", "255", "256", "264", "288", "300", "384", "520", "640", "792", "896", "999", "1000", "0264", "4294967304",
                                     str(2 ** 64 + 8), num_extreme(rng, 129, 999, digits_only=True).lstrip("0") or "999"]))
        if not bad.rsplit("/", 1)[1].isdigit() or (len(bad.rsplit("/", 1)[1]) <= 3 and int(bad.rsplit("/", 1)[1]) <= 128):
            bad = bad.rsplit("/", 1)[0] + "/264"
        ents = [rng.choice(["10.0.0.0/8", "192.168.0.0/255.255.0.0", "172.16.0.0/12", "2001:db8::/32", "1.2.3.4"]) for _ in range(rng.choice([0, 0, 1, 2]))]
        ents.insert(rng.randint(0, len(ents)), bad)
        return "sortlist " + rng.choice([" ", ";", "  "]).join(ents)
    if cls == "options-plain":
        return "options " + " ".join(rng.choice(["edns0", "trust-ad", "single-request", "no-aaaa", "inet6", "debug", "Rotate", "ROTATE", "use_vc", "ndot"]) for _ in range(rng.randint(1, 3)))
    if cls == "options-numeric":
        return "options " + " ".join(rng.choice(["timeout:0", "attempts:0", "retry:0", "retrans:0", "timeout:", "timeout", "attempts", "attempts:x", "timeout:abc", "timeout:5x",
                                                 "ndots:abc", "ndots", "ndots:", "ndots:-1", "ndots:5x", "timeout:-1", "timeout:00", "unknown:5",
                                                 "ndots:+3", "ndots:4294967299", "ndots:0000000003", "ndots:18446744073709551619", "timeout:4294967301", "timeout:+5",
                                                 "attempts:4294967299", "attempts:-4294967293", "retry:18446744073709551619", "timeout:" + "9" * 300]) for _ in range(rng.randint(1, 2)))
    if cls == "search-empty":
        return rng.choice(["search ,", "search , ,", "domain ,", "search ,,,"])
    if cls == "lookup-noword":
        return rng.choice(["lookup nis", "lookup yp mdns", "hostresorder x", "lookup bindx"])
    # binary: arbitrary bytes (never a newline)
    n = rng.choice([1, 3, 16, 64, 300, 2000])
    return bytes(rng.choice([0, 1, 7, 8, 9, 11, 12, 13, 27, 32, 35, 58, 59, 127, 128, 255, rng.randint(0, 255)]) if rng.random() < 0.6 else rng.randint(32, 126) for _ in range(n)).replace(b"\n", b"\r").decode("latin1")


def junk_db_line(rng, kind):
    d = ":" if kind == "n" else "="
    return rng.choice(["# comment", "", "passwd%s files" % d, "group%s files dns" % d, "hosts", "hosts%s" % d, "hosts%s nis mdns4_minimal" % d, "networks%s files" % d,
                       "hostsx%s files" % d, "\x01\x02", "no delimiter here", "#hosts%s dns" % d])


def units(tag, lines, crlf=False):
    return [tag + hx(l + ("\r" if crlf else "")) for l in lines]


# ---------------------------------------------------------------------------------- user options
def user_options(rng, dense=False):
    p = []
    pr = 0.5 if dense else 0.2
    if rng.random() < pr:
        p.append("flags=%d" % rng.choice([0, 0x100, 0x110, 0x1, 0x101, 0x2, 0x102, 0x10, 0x400, 0x7ff, 0x120, 0x140, 0x300, 0x200 if rng.random() < 0.2 else 0x100]))
    c = rng.random()
    if c < pr * 0.55:
        p.append("timeoutms=%d" % (int_extreme(rng, 1, 5000) if rng.random() < 0.25 else rng.choice([1, 250, 1234, 2000, 5000, 2147483647, 0, -1])))
    elif c < pr * 0.95:
        p.append("timeout=%d" % rng.choice([1, 2, 5, 30, 2147483, 2147484, 3000000, 4294967, 4294968, 2147483647, 0, -1]))
    elif c < pr:
        # both bits name the same field: the C driver passes the value of timeout=
        v = rng.choice([1, 5, 2147484, 0, -1])
        p.append("timeoutms=%d&timeout=%d" % (v, v))
    if rng.random() < pr:
        p.append("tries=%d" % (int_extreme(rng, 1, 5) if rng.random() < 0.25 else rng.choice([1, 2, 3, 5, 100, 2147483647, 0, -1])))
    if rng.random() < pr:
        p.append("ndots=%d" % (int_extreme(rng, 0, 15) if rng.random() < 0.25 else rng.choice([0, 1, 2, 3, 15, 16, 100, 2147483647, -1])))
    if rng.random() < pr * 0.6:
        p.append("maxtimeout=%d" % (int_extreme(rng, 1, 5000) if rng.random() < 0.25 else rng.choice([1, 5000, 2147483647, 0, -5])))
    if rng.random() < pr * 0.6:
        p.append(rng.choice(["rotate=1", "norotate=1", "rotate=1&norotate=1"]))
    if rng.random() < pr:
        p.append("udp=%d" % rng.choice([53, 5353, 1, 65535, 0, 255, 256, 257, 32767, 32768, 65534]))
    if rng.random() < pr:
        p.append("tcp=%d" % rng.choice([53, 5353, 1, 65535, 0, 54, 255, 256, 309, 32768, 65534]))
    if rng.random() < pr * 0.5:
        p.append("sndbuf=%d" % (int_extreme(rng, 1, 4096) if rng.random() < 0.25 else rng.choice([1, 4096, 2147483647, 0, -1])))
    if rng.random() < pr * 0.5:
        p.append("rcvbuf=%d" % (int_extreme(rng, 1, 4096) if rng.random() < 0.25 else rng.choice([1, 4096, 2147483647, 0, -1])))
    if rng.random() < pr * 0.6:
        p.append("ednspsz=%d" % (int_extreme(rng, 512, 4096) if rng.random() < 0.25 else rng.choice([512, 1232, 4096, 65535, 0, -1])))
    if rng.random() < pr * 0.6:
        p.append("udpmaxq=%d" % (int_extreme(rng, 1, 100) if rng.random() < 0.25 else rng.choice([1, 100, 2147483647, 0, -1])))
    if rng.random() < pr * 0.6:
        p.append("qcache=%d" % rng.choice([0, 1, 3600, 4294967295]))
    if rng.random() < pr * 0.6:
        p.append("retry=%d:%d" % (rng.choice([0, 1, 10, 65535]), rng.choice([0, 1, 5000, 4294967296])))
    if rng.random() < pr * 0.4:
        p.append("sscb=1")
    if rng.random() < pr:
        n = rng.choice([0, 1, 2, 3, 8])
        p.append("domains=" + ",".join(hx(domain(rng)) for _ in range(n)))
    if rng.random() < pr:
        p.append("lookups=" + rng.choice([hx("b"), hx("f"), hx("bf"), hx("fb"), "-", hx("x"), hx("bfbf")]))
    if rng.random() < pr:
        n = rng.choice([0, 1, 2, 4])
        pats = []
        for _ in range(n):
            if rng.random() < 0.7:
                pats.append("%s/%d" % (bytes(rng.randint(0, 255) for _ in range(4)).hex(), rng.choice([0, 8, 16, 24, 32])))
            else:
                pats.append("%s/%d" % (bytes(rng.randint(0, 255) for _ in range(16)).hex(), rng.choice([0, 10, 64, 128])))
        p.append("sortlist=" + ",".join(pats))
    if rng.random() < pr:
        n = rng.choice([0, 1, 2, 3, 16])
        srv = [bytes([rng.choice([1, 8, 9, 10, 127]), rng.randint(0, 3), 0, rng.randint(1, 3)]).hex() for _ in range(n)]
        p.append("servers=" + ",".join(srv))
    return p


def env_params(rng, junk_ok=False):
    p = []
    if junk_ok and rng.random() < 0.08:
        p.append("jenv.L=" + hx(rng.choice(["", ",", " ", " , ", "\x01", "x\x7f.example", ",,,"])))
        return p
    if junk_ok and rng.random() < 0.08:
        p.append("jenv.R=" + hx(rng.choice(["", " ", "edns0", "trust-ad no-aaaa", "timeout:0", "attempts:x", "ndots:abc", "ndots", "ndots:-1", "unknown:5 debug"])))
        return p
    if rng.random() < 0.2:
        p.append("env.L=" + hx(rng.choice([domain(rng), domain(rng) + " " + domain(rng), "x.example,y.example"])))
    if rng.random() < 0.2:
        p.append("env.R=" + hx(" ".join(option_token(rng) for _ in range(rng.randint(1, 3)))))
    if rng.random() < 0.25:
        p.append("host=" + hx(rng.choice(["localhost", "host.example.com", "h.", ".x", "a.b.c.d", "nodots", "x" * 300 + ".y"])))
    return p


# ---------------------------------------------------------------------------------- cases
def gen_rc(rng):
    base = valid_resolv_lines(rng)
    crlf = rng.random() < 0.08
    us = units("L", base, crlf)
    params = env_params(rng, junk_ok=True)
    if rng.random() < 0.3:
        params += user_options(rng)
    mode = rng.random()
    if mode < 0.6:
        cls = rng.choice(JUNK_CLASSES)
        if cls.startswith("sortlist") and rng.random() < 0.7:
            # the junk line comes after a valid sortlist line, whose sortlist must survive
            us.insert(0, "L" + hx("sortlist " + rng.choice(["10.0.0.0/8", "192.168.0.0/255.255.0.0 172.16.0.0/12", "2001:db8::/32;10.1.0.0/16"]) + ("\r" if crlf else "")))
            for _ in range(rng.choice([1, 1, 2])):
                us.insert(rng.randint(1, len(us)), "J" + hx(junk_line(rng, cls)))
        else:
            for _ in range(rng.choice([1, 1, 2, 4])):
                us.insert(rng.randint(0, len(us)), "J" + hx(junk_line(rng, cls)))
    elif mode < 0.7:
        for _ in range(rng.randint(1, 5)):
            us.insert(rng.randint(0, len(us)), "J" + hx(junk_line(rng, rng.choice(JUNK_CLASSES))))
    if rng.random() < 0.25:
        kind = rng.choice(["N", "V", "S"])
        d = ":" if kind == "N" else "="
        seps = " " if kind == "N" else ","
        dbl = ["hosts%s%s" % (rng.choice([d, " " + d + " ", d + " "]), seps.join(rng.choice(["files", "dns", "bind", "local", "mdns4", "resolve", "nis"]) for _ in range(rng.randint(1, 3))))]
        if rng.random() < 0.5:
            dbl.insert(0, "passwd%s files" % d)
        us += units(kind, dbl)
        if rng.random() < 0.6:
            for _ in range(rng.randint(1, 2)):
                us.append(kind.lower() + hx(junk_db_line(rng, kind.lower())))
    if rng.random() < 0.15:
        re = valid_resolv_lines(rng)
        us += units("R", re)
        if rng.random() < 0.5:
            us.append("r" + hx(junk_line(rng, rng.choice(JUNK_CLASSES))))
    elif rng.random() < 0.1:
        params.append("reinit=1")
    if rng.random() < 0.1:
        params.append("noeol=1")
    return "rc" + ("," + "&".join(params) if params else "") + "|" + ";".join(us)


def csv_servers(rng):
    n = rng.choice([1, 1, 2, 3, 5, 16])
    toks = [server_token(rng, valid_only=rng.random() < 0.9) for _ in range(n)]
    if rng.random() < 0.2 and toks:
        toks.append(toks[0])
    return rng.choice([",", ",", " ", ", "]).join(toks)


def mixed_csv(rng):
    """IPv4 and IPv6 servers in every order (the legacy options struct keeps the IPv4 ones only)"""
    n = rng.choice([2, 3, 3, 4, 5, 8])
    fam = [rng.choice("46") for _ in range(n)]
    if "4" not in fam:
        fam[rng.randrange(n)] = "4"
    if "6" not in fam:
        fam[rng.randrange(n)] = "6"
    ents = []
    for f in fam:
        if f == "4":
            ents.append(ipv4(rng) if rng.random() < 0.7 else "%s:%s" % (ipv4(rng), rng.choice(["53", "5353"])))
        else:
            ents.append(rng.choice(["%s", "[%s]:53", "[%s]:5353"]) % ipv6_text(rng) if rng.random() < 0.85 else "%s%%%s" % (linklocal(rng), rng.choice(IFACES)))
    return ",".join(ents)


def gen_opt(rng):
    params = user_options(rng, dense=True) + env_params(rng)
    if rng.random() < 0.15:
        params.append("csv=" + hx(mixed_csv(rng)))
    elif rng.random() < 0.55:
        csv = csv_servers(rng)
        if rng.random() < 0.3:
            # a user-specified list with a link-local server on an interface of the virtual table:
            # save/dup/reinit must keep its interface name and scope id
            ll = "%s%%%s" % (linklocal(rng), rng.choice(IFACES))
            if rng.random() < 0.5:
                ll = "[%s]:%s%%%s" % (linklocal(rng), rng.choice(["53", "5353", "853"]), rng.choice(IFACES))
            parts = [x for x in csv.split(",") if x] if "," in csv or " " not in csv else [csv]
            parts.insert(rng.randint(0, len(parts)), ll)
            csv = ",".join(parts)
        params.append("csv=" + hx(csv))
    elif rng.random() < 0.2:
        ents = []
        for _ in range(rng.randint(1, 4)):
            if rng.random() < 0.6:
                a = bytes(rng.randint(1, 223) if i == 0 else rng.randint(0, 255) for i in range(4)).hex()
            else:
                w = ipv6_words(rng)
                if (w[0] & 0xffc0) == 0xfe80:
                    w[0] = 0x2001          # no link-local here: the binary API carries no scope (docs/C16.md)
                a = b"".join(x.to_bytes(2, "big") for x in w).hex()
            ents.append("%s/%d/%d" % (a, rng.choice([0, 53, 5353]), rng.choice([0, 53, 54])))
        params.append("ports=" + ",".join(ents))
    if rng.random() < 0.3:
        params.append("sortstr=" + hx(" ".join(sort_pattern(rng) for _ in range(rng.randint(1, 3)))))
    if rng.random() < 0.2:
        params.append("ldev=" + hx(rng.choice(["eth0", "lo", "x" * 31, "y" * 40])))
    if rng.random() < 0.2:
        params.append("lip4=%d" % rng.choice([0, 0x01020304, 0xffffffff]))
    if rng.random() < 0.2:
        params.append("lip6=" + bytes(rng.randint(0, 255) for _ in range(16)).hex())
    if rng.random() < 0.6:
        params.append("poke=1")
    base = valid_resolv_lines(rng) if rng.random() < 0.8 else ["nameserver 9.9.9.9"]
    us = units("L", base)
    if rng.random() < 0.3:
        us += units("R", valid_resolv_lines(rng))
    return "opt," + "&".join(params) + "|" + ";".join(us)


def addr_text(rng):
    c = rng.random()
    if c < 0.35:
        return ipv4(rng)
    if c < 0.85:
        return ipv6_text(rng)
    return rng.choice(["10", "10.1", "10.1.2", "0x7f000001", "0x7f", "1.2.3.4/24", "1.2.3.4/33", "1.2.3.4.5", "256.1.1.1", "01.02.03.04", "1..2",
                       "::", "::1", "1::", "1::/0", "2001:db8::1/32", "2001:db8::1/129", "2001:db8::1/064", "::ffff:1.2.3.4", "::1.2.3.4", "1:2:3:4:5:6:1.2.3.4",
                       "1:2:3:4:5:6:7:1.2.3.4", "::1.2.3", "12345::", ":1", "1:::2", "1:2:3:4:5:6:7:8:9", "1:2:3:4:5:6:7::", "::2:3:4:5:6:7:8", "g::1", "", "fe80::1%eth0",
                       "1:2:3:4:5:6:7:8/0", "::ffff:0:0", "0:0:0:0:0:ffff:102:304", "::0.0.0.1", "::1.0.0.0"])


def gen_fn(rng):
    c = rng.random()
    if c < 0.2:
        return "fn,f=addr|X" + hx(addr_text(rng))
    c = rng.random()
    if c < 0.08:
        # one numeric option with an extreme value: judged against the documentation alone
        name, lo, hi = rng.choice([("ndots", 0, 15), ("timeout", 1, 30), ("retrans", 1, 30), ("attempts", 1, 5), ("retry", 1, 5)])
        return "fn,f=setopt|X" + hx("%s:%s" % (name, num_extreme(rng, lo, hi, digits_only=rng.random() < 0.7)))
    if c < 0.3:
        s = rng.choice([" ", "  ", "\t"]).join(option_token(rng) for _ in range(rng.randint(0, 6)))
        if rng.random() < 0.1:
            s = junk_line(rng, "binary").replace("\x00", "\x01")
        return "fn,f=setopt|X" + hx(s)
    if c < 0.55:
        if rng.random() < 0.3:
            s = junk_line(rng, rng.choice(["sortlist-mask", "sortlist-mask", "sortlist-token"]))[len("sortlist "):]
        else:
            s = rng.choice([" ", ";", "  ", " ; "]).join(sort_pattern(rng) for _ in range(rng.randint(0, 5)))
        # ares_parse_sortlist directly, or ares_set_sortlist() on a channel that has a sortlist
        return "fn,f=%s|X%s" % (rng.choice(["sortlist", "setsort"]), hx(s))
    if c < 0.9:
        s = csv_servers(rng)
        if rng.random() < 0.1:
            s = junk_line(rng, "binary").replace("\x00", "\x01")
        return "fn,f=%s%s|X%s" % (rng.choice(["srv", "srv", "srvstrict"]), "&poke=1" if rng.random() < 0.7 else "", hx(s))
    name = rng.choice(["foo", "www", "Foo", "a.b", "x" * 63, "x" * 64])
    ls = []
    for _ in range(rng.randint(0, 5)):
        ls.append(("A", "%s %s" % (rng.choice(["foo", "www", "FOO", "bar", "x" * 63, "x" * 64]), rng.choice(["www.example.com", "a_b.example", "bad!name", "", "x" * 255, "x" * 256]))))
    if rng.random() < 0.6:
        # a line that does define the alias, so that junk for the SAME alias before it matters
        ls.insert(rng.randint(0, len(ls)), ("A", "%s%s%s%s" % (rng.choice([name, name.upper(), name.capitalize()]), rng.choice([" ", "\t", "   "]),
                                                                 rng.choice(["real.example.com", "h-1.example.", "a_b", "x" * 255]), rng.choice(["", " trailing words", "\t# c"]))))
    same = lambda: rng.choice([name, name.upper(), name.lower(), name.capitalize()])
    for _ in range(rng.choice([0, 1, 1, 2, 3])):
        c = rng.random()
        if c < 0.6:
            # the same alias with a target that is no host name: other characters, nothing, over-long, garbage glued on
            j = same() + rng.choice([" ", "\t", "  "]) + rng.choice(["www.exa!mple.com", "=> realhost", "-> realhost", "", "  ", "x" * 256, "h." * 200, "host.example.com!",
                                                                        "host.example.com,other", "\"host.example\"", "host\x01.example", "host\x80\xff", "(none)", "h:53", "[::1]", "caf\xc3\xa9.example"])
        elif c < 0.8:
            j = rng.choice(["# comment", "", "other www.example.org", "\x01\x02 x", "lonely", "#%s real.example.com" % name, "%sx real.example.com" % name,
                            "x" * rng.choice([64, 65, 300]) + " real.example.com"])
        else:
            j = junk_line(rng, "binary").replace("\x00", "\x01")
        # mostly BEFORE the lines that define aliases
        ls.insert(0 if rng.random() < 0.5 else rng.randint(0, len(ls)), ("a", j))
    return "fn,f=alias&name=%s|%s" % (hx(name), ";".join(t + hx(l) for t, l in ls))


HOST_NAMES = ["myhost", "other", "Alias1", "v6host", "MYHOST", "a.b.example", "x_y", "h-1", "h*", "net/24", "1.2.3.4", "::1"]


def gen_hosts(rng):
    ls = []
    ips = [ipv4(rng) for _ in range(3)] + [ipv6_text(rng) for _ in range(2)]
    for _ in range(rng.randint(1, 8)):
        c = rng.random()
        ip = rng.choice(ips) if c < 0.5 else (ipv4(rng) if c < 0.8 else ipv6_text(rng))
        if rng.random() < 0.1:
            ip = rng.choice(["01.2.3.4", "1.2.3", "0x01020304", "::ffff:1.2.3.4", "1:0:0:0:0:0:0:1", "FE80::1", "1.2.3.4/24"])
        toks = [rng.choice(HOST_NAMES) for _ in range(rng.randint(1, 4))]
        if rng.random() < 0.15:
            toks.insert(rng.randint(0, len(toks)), rng.choice(["bad!name", "x" * 255, "x" * 256, "h\x01", "#c", "a#b", ip]))
        line = rng.choice(["", " ", "\t"]) + ip + rng.choice([" ", "\t", "   ", " \t"]) + rng.choice([" ", "\t", "  "]).join(toks)
        if rng.random() < 0.2:
            line += rng.choice([" # comment", "#tail", " #"])
        if rng.random() < 0.1:
            line += "\r"
        ls.append(("H", line))
    for _ in range(rng.randint(0, 4)):
        j = rng.choice(["# comment", "", "   ", "\t\r", "junk line here", "not-an-ip myhost", "#1.2.3.4 myhost", "\x01\x02\x03", "x" * 5000 + " myhost", "zzz",
                        "1.2.3.4", "1.2.3.4   ", "1.2.3.4 # myhost", "1.2.3.4 bad!name", "1.2.3.4 " + "x" * 300 + " myhost", "1.2.3.4 \x01 myhost",
                        "1.2.3.4.5 myhost", "256.1.1.1 myhost", "12345::1 myhost", "1" * 46 + " myhost", "9.9.9.9 9.9.9.9", "   # indented", ":: #x"])
        ls.insert(rng.randint(0, len(ls)), ("h", j))
    names = rng.sample(HOST_NAMES, 4) + ["nohost"]
    return "hosts,names=%s%s|%s" % (",".join(hx(n) for n in names), "&noeol=1" if rng.random() < 0.1 else "", ";".join(t + hx(l) for t, l in ls))


def gen(rng, tier, n):
    out = []
    for _ in range(n):
        c = rng.random()
        if c < 0.55:
            out.append(gen_rc(rng))
        elif c < 0.80:
            out.append(gen_opt(rng))
        elif c < 0.95:
            out.append(gen_fn(rng))
        else:
            out.append(gen_hosts(rng))
    return out


def gen_c15(rng, tier, n):
    out = []
    for _ in range(n):
        c = rng.random()
        if c < 0.75:
            out.append(gen_rc(rng))
        elif c < 0.93:
            out.append(gen_fn(rng))
        else:
            out.append(gen_hosts(rng))
    return out


def gen_c16(rng, tier, n):
    out = []
    for _ in range(n):
        c = rng.random()
        if c < 0.70:
            out.append(gen_opt(rng))
        elif c < 0.90:
            # system configuration against user options: init and reinit
            base = valid_resolv_lines(rng)
            us = units("L", base) + (units("R", valid_resolv_lines(rng)) if rng.random() < 0.6 else [])
            params = user_options(rng, dense=True) + env_params(rng)
            if not any(x.startswith("R") for x in us):
                params.append("reinit=1")
            out.append("rc," + "&".join(params) + "|" + ";".join(us))
        elif c < 0.95:
            s = csv_servers(rng)
            out.append("fn,f=%s%s|X%s" % (rng.choice(["srv", "srvstrict"]), "&poke=1" if rng.random() < 0.7 else "", hx(s)))
        else:
            out.append("fn,f=addr|X" + hx(addr_text(rng)))
    return out


def gen_hosts_only(rng, tier, n):
    return [gen_hosts(rng) for _ in range(n)]
