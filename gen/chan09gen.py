"""Case generator of the C09 end-to-end engine "chan09" on the channel simulator
(harness/sim.c; case format in harness/SIM.md): histories of ares_send_dnsrec requests on
1..8 servers with scripted answers / SERVFAIL / REFUSED / NOTIMP / silence (timeouts), clock
advances around the retry delay, and server-list edits (add / remove / reorder / mix / replace / empty) between queries and
while attempts are in flight: ares_set_servers_ports_csv, or - a fifth of the histories - a
rewritten resolv.conf followed by ares_reinit (sim op writefile).  serverstatecb=1 and
qdump=1 so that the oracle sees the server-state callbacks and the library's own failure
counters; idseq=1 so that probe copies can be told from user queries.
"""


def addr(i):
    return "10.0.0.%d" % i


def edit(rng, ids):
    universe = list(range(1, 13))
    fresh = [x for x in universe if x not in ids]
    kind = rng.choice(["add", "append", "remove", "remove", "reverse", "rotate", "swap", "mix", "mix", "same", "replace", "dup", "empty"])
    new = list(ids)
    if kind == "add" and fresh:
        for x in rng.sample(fresh, rng.randint(1, min(3, len(fresh)))):
            new.insert(rng.randrange(len(new) + 1), x)
    elif kind == "append" and fresh:
        new += rng.sample(fresh, rng.randint(1, min(3, len(fresh))))
    elif kind == "remove" and len(ids) > 1:
        for x in rng.sample(ids, rng.randint(1, len(ids) - 1)):
            new.remove(x)
    elif kind == "reverse":
        new.reverse()
    elif kind == "rotate" and len(ids) > 1:
        k = rng.randrange(1, len(ids))
        new = new[k:] + new[:k]
    elif kind == "swap" and len(ids) > 1:
        i, j = rng.sample(range(len(ids)), 2)
        new[i], new[j] = new[j], new[i]
    elif kind == "mix":
        keep = rng.sample(ids, rng.randint(0, len(ids))) if ids else []
        add = rng.sample(fresh, rng.randint(0, min(3, len(fresh)))) if fresh else []
        new = keep + add
        rng.shuffle(new)
    elif kind == "replace" and fresh:
        new = rng.sample(fresh, rng.randint(1, min(3, len(fresh))))
    elif kind == "dup" and ids:
        new.insert(rng.randrange(len(new) + 1), rng.choice(ids))
    elif kind == "empty":
        new = []
    uniq = list(dict.fromkeys(new))
    if len(uniq) > 8:
        uniq = uniq[:8]
        new = uniq
    return "setservers " + (",".join(addr(x) for x in new) if new else "-"), uniq


def resolvconf_hex(ids):
    return "".join("nameserver %s\n" % addr(i) for i in ids).encode().hex()


def do_edit(rng, ids, via_reinit):
    """ops of one list edit; updates ids in place"""
    e, new = edit(rng, ids)
    if via_reinit:
        if not new:                      # a resolv.conf without nameserver leaves the list alone
            return ["reinit", "servers"]
        ids[:] = new
        return ["writefile @/rc.conf " + resolvconf_hex(new), "reinit", "servers"]
    ids[:] = new
    return [e, "servers"]


def gen_case(rng, tier):
    n = rng.choice([1, 2, 2, 3, 3, 3, 4, 5, 6, 8])
    ids = list(range(1, n + 1))
    # a fifth of the histories take their servers from a resolv.conf and edit the list by
    # rewriting the file and calling ares_reinit
    via_reinit = rng.random() < 0.2
    if via_reinit:
        rng.shuffle(ids)
        srv = ["servers=0", "resolvconf=@/rc.conf", "writefile=@/rc.conf:" + resolvconf_hex(ids)]
    else:
        srv = ["servers=%d" % n]
    cfg = ["seed=%d" % rng.randrange(1, 10 ** 6)] + srv + ["flags=noedns", "rotate=%d" % rng.choice([0, 0, 1, 1]),
           "timeout=2000", "maxtimeout=5000", "qcachettl=0", "idseq=1", "serverstatecb=1", "qdump=1"]
    tries = rng.choice([None, 1, 1, 2, 3])
    if tries is not None:
        cfg.append("tries=%d" % tries)
    delay = 5000
    if rng.random() > 0.25:
        chance = rng.choice([0, 1, 1, 1, 2, 3, 10])
        delay = rng.choice([0, 0, 100, 5000, 5000, 30000, 120000])
        cfg.append("failover=%d,%d" % (chance, delay))
    nev = rng.choice([4, 8, 12, 20, 30]) if tier != "thorough" else rng.choice([8, 20, 40, 80])
    mood = rng.random()
    p_fail = 0.15 if mood < 0.3 else (0.45 if mood < 0.8 else 0.8)
    p_edit_inflight = rng.choice([0.0, 0.1, 0.25])
    ops = []
    tok = 0
    pending = 0
    for _ in range(nev):
        r = rng.random()
        if pending == 0:
            if r < 0.6:
                tok += 1
                ops.append("send %d q%d.example IN A rd" % (tok, tok))
                pending = 1 + (1 if rng.random() < 0.3 else 0)
                if rng.random() < 0.15:
                    tok += 1
                    ops.append("send %d q%d.example IN A rd" % (tok, tok))
                    pending += 1
            elif r < 0.78:
                ops.append("adv %d" % rng.choice([0, 1, 99, 100, 101, 4999, 5000, 5001, max(0, delay - 1), delay, delay + 1, 60000, 200000]))
                ops.append("proct")
            else:
                ops += do_edit(rng, ids, via_reinit)
        else:
            if r < p_edit_inflight:
                ops += do_edit(rng, ids, via_reinit)
            elif r < p_edit_inflight + p_fail * (1 - p_edit_inflight):
                k = rng.choice(["s", "r", "i", "x", "x", "s"])
                if k == "x":
                    ops += ["adv 60000", "proct"]
                    pending = rng.choice([0, 1])
                else:
                    ops += ["rsp xl rcode=%s" % {"s": "SERVFAIL", "r": "REFUSED", "i": "NOTIMP"}[k], "proc"]
            else:
                ops += ["rspall an=A:1.1.1.1" if rng.random() < 0.5 else "rsp xl an=A:1.1.1.1", "proc"]
                pending -= 1
    ops += ["rspall an=A:1.1.1.1", "proc", "rspall an=A:1.1.1.1", "proc", "servers"]
    return " ".join(cfg) + "|" + ";".join(ops)


def gen(rng, tier, n):
    return [gen_case(rng, tier) for _ in range(n)]


if __name__ == "__main__":
    import random
    import sys
    for c in gen(random.Random(int(sys.argv[1]) if len(sys.argv) > 1 else 1), "quick", 5):
        print(c)
