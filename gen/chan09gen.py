"""Case generator of the C09 end-to-end engine "chan09" on the channel simulator
(harness/sim.c; case format in harness/SIM.md): histories of ares_send_dnsrec requests on
1..8 servers, over UDP, UDP with truncated answers (TC fallback to TCP) or TCP only (usevc; the
server may close or reset a connection with queries outstanding), with scripted answers / SERVFAIL / REFUSED / NOTIMP / silence (timeouts), clock
advances around the retry delay, and server-list edits (add / remove / reorder / mix / replace / empty) between queries and
while attempts are in flight: ares_set_servers_ports_csv, or - a fifth of the histories - a
rewritten resolv.conf followed by ares_reinit (sim op writefile).  serverstatecb=1 and
qdump=1 so that the oracle sees the server-state callbacks and the library's own failure
counters; idseq=1 so that probe copies can be told from user queries.  UDP histories also start
queries from inside completion callbacks (oncb <T> send,...) and run search / getaddrinfo
requests whose next candidate is started from the internal completion callback (names h<T>.x).
A third of the UDP histories (retry chance 1) make socket() / connect() / sendto() fail for a probe
copy or a user query (sim op fail), then let the retry delay pass and send fresh queries.
"""


def addr(i):
    return "10.0.0.%d" % i


def edit(rng, ids):
    universe = list(range(1, 13))
    fresh = [x for x in universe if x not in ids]
    kind = rng.choice(["add", "append", "remove", "remove", "reverse", "rotate", "swap", "mix", "mix", "same", "replace", "dup", "empty"])
    new = list(ids)
    if kind == "add" and fresh:
        for x in rng.sample(fresh, rng.randint(1, min(3, len(fresh)))):
            new.insert(rng.randrange(len(new) + 1), x)
    elif kind == "append" and fresh:
        new += rng.sample(fresh, rng.randint(1, min(3, len(fresh))))
    elif kind == "remove" and len(ids) > 1:
        for x in rng.sample(ids, rng.randint(1, len(ids) - 1)):
            new.remove(x)
    elif kind == "reverse":
        new.reverse()
    elif kind == "rotate" and len(ids) > 1:
        k = rng.randrange(1, len(ids))
        new = new[k:] + new[:k]
    elif kind == "swap" and len(ids) > 1:
        i, j = rng.sample(range(len(ids)), 2)
        new[i], new[j] = new[j], new[i]
    elif kind == "mix":
        keep = rng.sample(ids, rng.randint(0, len(ids))) if ids else []
        add = rng.sample(fresh, rng.randint(0, min(3, len(fresh)))) if fresh else []
        new = keep + add
        rng.shuffle(new)
    elif kind == "replace" and fresh:
        new = rng.sample(fresh, rng.randint(1, min(3, len(fresh))))
    elif kind == "dup" and ids:
        new.insert(rng.randrange(len(new) + 1), rng.choice(ids))
    elif kind == "empty":
        new = []
    uniq = list(dict.fromkeys(new))
    if len(uniq) > 8:
        uniq = uniq[:8]
        new = uniq
    return "setservers " + (",".join(addr(x) for x in new) if new else "-"), uniq


def resolvconf_hex(ids):
    return "".join("nameserver %s\n" % addr(i) for i in ids).encode().hex()


def do_edit(rng, ids, via_reinit):
    """ops of one list edit; updates ids in place"""
    e, new = edit(rng, ids)
    if via_reinit:
        if not new:                      # a resolv.conf without nameserver leaves the list alone
            return ["reinit", "servers"]
        ids[:] = new
        return ["writefile @/rc.conf " + resolvconf_hex(new), "reinit", "servers"]
    ids[:] = new
    return [e, "servers"]


def gen_case(rng, tier):
    n = rng.choice([1, 2, 2, 3, 3, 3, 4, 5, 6, 8])
    ids = list(range(1, n + 1))
    # a fifth of the histories take their servers from a resolv.conf and edit the list by
    # rewriting the file and calling ares_reinit
    via_reinit = rng.random() < 0.2
    if via_reinit:
        rng.shuffle(ids)
        srv = ["servers=0", "resolvconf=@/rc.conf", "writefile=@/rc.conf:" + resolvconf_hex(ids)]
    else:
        srv = ["servers=%d" % n]
    # transport: UDP, UDP with truncated answers (TC -> the query moves to TCP), or TCP only (usevc);
    # on TCP the server may close (eof) or reset the connection with queries outstanding.  TCP
    # Fast Open (tfo=1) and a `run` after every op make the library write a query at the moment it
    # chooses the server, so that the TX line shows the decision as on UDP
    transport = rng.choice(["udp", "udp", "udp", "tc", "usevc", "usevc"])
    rot = rng.choice([0, 0, 1, 1])
    cfg = ["seed=%d" % rng.randrange(1, 10 ** 6)] + srv + ["flags=noedns" + (",usevc" if transport == "usevc" else "")] + (["tfo=1"] if transport != "udp" else []) + ["rotate=%d" % rot,
           "timeout=2000", "maxtimeout=5000", "qcachettl=0", "idseq=1", "serverstatecb=1", "qdump=1"]
    tries = rng.choice([None, 1, 1, 2, 3])
    if tries is not None:
        cfg.append("tries=%d" % tries)
    delay = 5000
    # probe liveness: a probe copy that fails synchronously (socket / connect / sendto error) must
    # not leave the server marked "probe pending": after the retry delay it is probed again
    syncfail = transport == "udp" and n >= 2 and rng.random() < 0.3
    # configured option values: retry chance 0 DISABLES probing (no probe copy ever), the retry delay is
    # the configured one - long runs of fresh queries after both the configured and the default delay
    # (5 s) have passed show whether library defaults (chance 10) are used instead
    nochance = not syncfail and n >= 2 and rng.random() < 0.12
    if syncfail:
        delay = rng.choice([0, 100, 100, 5000])
        cfg.append("failover=1,%d" % delay)
    elif nochance:
        delay = rng.choice([0, 1, 5000, 2147483647])
        cfg.append("failover=0,%d" % delay)
    elif rng.random() > 0.25:
        chance = rng.choice([0, 1, 1, 1, 2, 3, 10, 10, 65535])
        delay = rng.choice([0, 0, 1, 100, 5000, 5000, 30000, 120000, 2147483647])
        cfg.append("failover=%d,%d" % (chance, delay))
    delay = min(delay, 10 ** 7)          # for the clock advances below
    nev = rng.choice([4, 8, 12, 20, 30]) if tier != "thorough" else rng.choice([8, 20, 40, 80])
    mood = rng.random()
    p_fail = 0.15 if mood < 0.3 else (0.45 if mood < 0.8 else 0.8)
    p_edit_inflight = rng.choice([0.0, 0.1, 0.25])
    ops = []
    tok = 0
    pending = 0
    flush = ["run"] if transport != "udp" else []    # TCP: connect completes and writes go out
    if transport == "tc" and n >= 2 and rng.random() < 0.5:
        # two queries in flight over UDP (x0, x1: nothing has failed yet, so no probe copies);
        # the second fails (its server is demoted), THEN the first is answered with TC: the TCP
        # retry is a fresh attempt and must go to a server with the fewest failures
        k = rng.choice(["SERVFAIL", "REFUSED", "NOTIMP"])
        ops += ["send 1 q1.example IN A rd", "send 2 q2.example IN A rd", "run",
                "rsp x1 rcode=%s" % k, "proc", "run", "rsp x0 tc=1", "proc", "run"]
        tok = 2
        pending = 2
    # callback re-entrancy: a query started from inside a completion callback (sim op oncb), or the
    # next candidate of a search / getaddrinfo request (started from the internal completion
    # callback), is a fresh attempt made AFTER the success of the answering server was recorded
    def fail_op():
        call = rng.choice(["socket", "connect", "connect", "sendto"])
        err = rng.choice(["ENETUNREACH", "ENETUNREACH", "ECONNREFUSED", "EHOSTUNREACH"] + (["EMFILE"] if call == "socket" else []))
        # with no connection open, call 1 is the user's query and call 2 its probe copy
        return "fail %s %d %s" % (call, rng.choice([2, 2, 2, 1]), err)
    if syncfail:
        # query 1 fails on its server (demoted) and is answered by another; all connections are
        # closed again.  After the retry delay query 2 goes to a healthy server and spawns the probe,
        # which fails while being sent; after the delay again, query 3 must be accompanied by a probe
        k = rng.choice(["SERVFAIL", "REFUSED", "NOTIMP"])
        ops += ["send 1 q1.example IN A rd", "rsp xl rcode=%s" % k, "proc", "rspall an=A:1.1.1.1", "proc",
                "adv %d" % rng.choice([delay, delay + 1, 60000]), "proct", fail_op(),
                "send 2 q2.example IN A rd", "rspall an=A:1.1.1.1", "proc",
                "adv %d" % rng.choice([delay, delay, delay + 1, max(0, delay - 1), 60000]), "proct",
                "send 3 q3.example IN A rd", "rspall an=A:1.1.1.1", "proc"]
        tok = 3
    if nochance:
        # a server fails while another stays healthy, time passes, then dozens of fresh queries
        tok += 1
        ops += ["send %d q%d.example IN A rd" % (tok, tok)] + flush + ["rsp xl rcode=%s" % rng.choice(["SERVFAIL", "REFUSED"]), "proc"] + flush
        ops += ["rspall an=A:1.1.1.1", "proc"] + flush + ["rspall an=A:1.1.1.1", "proc"] + flush
        ops += ["adv %d" % (max(delay, 5000) + rng.choice([0, 1, 1000])), "proct"] + flush
        for _ in range(rng.choice([30, 40, 50])):
            tok += 1
            ops += ["send %d q%d.example IN A rd" % (tok, tok)] + flush + ["rspall an=A:1.1.1.1", "proc"] + flush
        pending = 0
    reentry = not syncfail and not nochance and transport == "udp" and n >= 2 and rng.random() < 0.4
    if reentry:
        # queries 1 and 2 in flight; 2 fails (once without rotation: the first server is demoted;
        # once on every server with rotation: all servers have one failure); then 1 is answered
        # by the server it is still outstanding on - which is thereby restored to full priority -
        # and its completion starts a new query: that one must go to the restored server
        how = rng.choice(["oncb", "oncb", "search", "gai"])
        k = rng.choice(["SERVFAIL", "REFUSED", "NOTIMP"])
        if how == "oncb":
            ops += ["oncb 1 send,101,q101.example,IN,A,rd", "send 1 q1.example IN A rd"]
            good = "rsp x0 an=A:1.1.1.1"
        else:
            cfg += ["domains=a.test,b.test", "ndots=2"]
            ops += ["search 1 h1.x IN A rd" if how == "search" else "gai 1 h1.x 4 0"]
            good = rng.choice(["rsp x0 rcode=NXDOMAIN", "rsp x0 rcode=NXDOMAIN", "rsp x0 aa=1"])
        ops += ["send 2 q2.example IN A rd", "run"]
        for _ in range(n if rot else 1):
            ops += ["rsp xl rcode=%s" % k, "proc", "run"]
        ops += [good, "proc", "run"]
        tok = 2
        pending = 2
    for _ in range(nev):
        r = rng.random()
        if pending == 0:
            if r < 0.6:
                tok += 1
                if syncfail and rng.random() < 0.3:
                    ops.append(fail_op())
                if transport == "udp" and rng.random() < 0.2:
                    # its completion callback starts another query
                    ops.append("oncb %d send,%d,q%d.example,IN,A,rd" % (tok, 100 + tok, 100 + tok))
                ops.append("send %d q%d.example IN A rd" % (tok, tok))
                pending = 1 + (1 if rng.random() < 0.3 else 0)
                if rng.random() < 0.15:
                    tok += 1
                    ops.append("send %d q%d.example IN A rd" % (tok, tok))
                    pending += 1
                ops += flush
                if transport == "tc" and rng.random() < 0.6:
                    ops += ["rsp xl tc=1", "proc"] + flush     # truncated: retried over TCP
            elif r < 0.78:
                ops.append("adv %d" % rng.choice([0, 1, 99, 100, 101, 4999, 5000, 5001, max(0, delay - 1), delay, delay + 1, 60000, 200000]))
                ops.append("proct")
                ops += flush
            else:
                ops += do_edit(rng, ids, via_reinit) + flush
        else:
            if r < p_edit_inflight:
                ops += do_edit(rng, ids, via_reinit) + flush
            elif r < p_edit_inflight + p_fail * (1 - p_edit_inflight):
                k = rng.choice(["s", "r", "i", "x", "x", "s"] + (["eof", "eof", "eof", "reset"] if transport != "udp" else []))
                if k == "x":
                    ops += ["adv 60000", "proct"] + flush
                    pending = rng.choice([0, 1])
                elif k in ("eof", "reset"):
                    # the server closes (orderly) / resets the TCP connection the last query went out on
                    ops += ["%s sxl" % k, "proc"] + flush
                else:
                    ops += ["rsp xl rcode=%s" % {"s": "SERVFAIL", "r": "REFUSED", "i": "NOTIMP"}[k], "proc"] + flush
            else:
                ops += ["rspall an=A:1.1.1.1" if rng.random() < 0.5 else "rsp xl an=A:1.1.1.1", "proc"] + flush
                pending -= 1
    ops += ["rspall an=A:1.1.1.1", "proc"] + flush + ["rspall an=A:1.1.1.1", "proc"] + flush + ["servers"]
    return " ".join(cfg) + "|" + ";".join(ops)


def gen(rng, tier, n):
    return [gen_case(rng, tier) for _ in range(n)]


if __name__ == "__main__":
    import random
    import sys
    for c in gen(random.Random(int(sys.argv[1]) if len(sys.argv) > 1 else 1), "quick", 5):
        print(c)
