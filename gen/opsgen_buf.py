"""Case generator for the byte buffer kind of the container engine (C19). Placeholder v0."""


def hx(bs):
    return "".join("%02x" % b for b in bs) if bs else "-"


def gen_case(rng, maxops):
    n = rng.choice([3, 8, 20, 60, maxops])
    ops = []
    for _ in range(n):
        c = rng.random()
        if c < 0.25:
            ops.append("a:" + hx([rng.randrange(256) for _ in range(rng.choice([1, 2, 3, 7, 15, 16, 17, 31, 33]))]))
        elif c < 0.3:
            ops.append("ab:%d" % rng.randrange(256))
        elif c < 0.36:
            ops.append("a16:%d" % rng.randrange(65536))
        elif c < 0.4:
            ops.append("a32:%d" % rng.randrange(1 << 32))
        elif c < 0.5:
            ops.append("f:%d" % rng.choice([0, 1, 2, 3, 5, 9]))
        elif c < 0.56:
            ops.append(rng.choice(["f16", "f32", "pb"]))
        elif c < 0.66:
            ops.append("c:%d" % rng.choice([0, 1, 2, 4, 8, 20]))
        elif c < 0.74:
            ops.append("t")
        elif c < 0.82:
            ops.append(rng.choice(["tr", "tc"]))
        elif c < 0.88:
            ops.append("rc")
        else:
            ops.append("sp:%d" % rng.randrange(40))
    return "buf|" + ";".join(ops)
