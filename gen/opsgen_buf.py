"""Case generator for the byte buffer kind of the container engine (C19).

A case is "buf|op;op;..." (ops: see harness/dsa_buf.c).  The generator keeps a scalar
simulation of the buffer (data_len / offset / tag / alloc_buf_len, exactly the arithmetic of
ares_buf_ensure_space and ares_buf_reclaim) ONLY to aim operations at the boundaries of the
case splits of the proofs: fetch of exactly remaining / remaining+1 bytes, be16 with 1/2 and
be32 with 3/4 bytes left, appends that just fit / just do not fit the allocation (reclaim
instead of growth when consumed bytes can be discarded, growth across 32/64/128...), a tag that
survives a reclaim, rollback without a tag, set_length at alloc-offset-1 / alloc-offset,
set_position at data_len / data_len+1 / below an active tag, allocation failure exactly when
the allocator is asked, finish after partial consumption (with and without a tag), split with
empty fields / leading / trailing / repeated delimiters / whitespace / duplicates differing in
case, NUL and non-printable bytes for the string functions; append_num_dec / _hex with 0, 9/10,
99/100, 2^32, 10^19 - 1 / 10^19, 2^64 - 1, width 0 (natural) / smaller / larger than the digit count /
beyond 16 and 19, with exactly one byte of room and a refusing allocator; parse_dns_binstr / _str
over crafted character-strings (length 0, 1, 255, length byte beyond remaining_len / beyond the
data, several strings, non-printable bytes, remaining_len 0, each allocation request refused in
turn); split with the n-th allocation request refused (n = 0 .. 10: array, piece objects, array
growth at pieces 0 and 4).  What is CHECKED is decided by the extracted model and specification,
never by this simulation.
"""


def hx(bs):
    return "".join("%02x" % b for b in bs) if bs else "-"


class Sim:
    def __init__(self):
        self.new()

    def new(self):
        self.dlen = 0
        self.off = 0
        self.tag = None
        self.alloc = 0
        self.const = False

    def newconst(self, n):
        self.new()
        self.dlen = n
        self.const = True

    @property
    def rem(self):
        return self.dlen - self.off

    def broken(self):
        return self.tag is not None and self.tag > self.off

    def reclaim(self):
        if self.const or self.alloc == 0:
            return
        prefix = self.tag if (self.tag is not None and self.tag < self.off) else self.off
        if prefix == 0:
            return
        self.dlen -= prefix
        self.off -= prefix
        if self.tag is not None:
            self.tag -= prefix

    def room(self):
        """bytes that can be appended without the allocator being asked (after a reclaim)"""
        if self.const:
            return 0
        prefix = self.tag if (self.tag is not None and self.tag < self.off) else self.off
        direct = self.alloc - self.dlen - 1
        return max(direct, self.alloc - (self.dlen - prefix) - 1, 0)

    def ensure(self, n, fail):
        if self.const:
            return False
        need = n + 1
        if self.alloc - self.dlen >= need:
            return True
        self.reclaim()
        if self.alloc - self.dlen >= need:
            return True
        if fail:
            return False
        a = self.alloc or 16
        while True:
            a *= 2
            if a - self.dlen >= need:
                break
        self.alloc = a
        return True

    def append(self, n, fail=False):
        if n == 0:
            return
        if self.ensure(n, fail):
            self.dlen += n

    def consume(self, n):
        if n <= self.rem:
            self.off += n

    def fetch(self, n):
        if n > 0 and n <= self.rem:
            self.off += n


def rbytes(rng, n, printable=False):
    if printable:
        return [rng.randrange(0x20, 0x7f) for _ in range(n)]
    return [rng.randrange(256) for _ in range(n)]


def near(rng, x):
    """a value at or next to the boundary x"""
    return max(0, x + rng.choice([-1, 0, 0, 1, 1]))


def op_append(rng, sim, ops, n=None, fail=False, kind=None):
    if n is None:
        r = sim.room()
        n = rng.choice([1, 2, 3, 5, 16, 17, 31, 33, near(rng, r), near(rng, r), near(rng, r + 1)])
    n = min(n, 300)
    kind = kind or rng.choice(["a", "a", "a", "ab", "a16", "a32", "as", "av"])
    pre = "!" if fail else ""
    if kind == "ab":
        ops.append(pre + "ab:%d" % rng.randrange(256)); sim.append(1, fail)
    elif kind == "a16":
        ops.append(pre + "a16:%d" % rng.choice([0, 1, 255, 256, 0x1234, 65535, rng.randrange(65536)])); sim.append(2, fail)
    elif kind == "a32":
        ops.append(pre + "a32:%d" % rng.choice([0, 1, 0x01020304, 0xffffffff, rng.randrange(1 << 32)])); sim.append(4, fail)
    elif kind == "as":
        bs = [rng.randrange(1, 256) for _ in range(n)]
        ops.append(pre + "as:" + hx(bs)); sim.append(len(bs), fail)
    elif kind == "av":
        want = max(n, 1) if rng.random() < 0.9 else 0
        k = rng.choice([0, want // 2, want]) if want else 0
        ops.append(pre + "av:%d:%s" % (want, hx(rbytes(rng, k))))
        if want and sim.ensure(want, fail):
            sim.dlen += k
    else:
        bs = rbytes(rng, n)
        ops.append(pre + "a:" + hx(bs)); sim.append(n, fail)


def op_fetch(rng, sim, ops):
    r = sim.rem
    c = rng.random()
    if c < 0.3:
        n = rng.choice([0, 1, 2, near(rng, r), near(rng, r), r + 1, max(0, r // 2)])
        n = min(n, 400)
        ops.append("f:%d" % n); sim.fetch(n)
    elif c < 0.45:
        ops.append("f16"); sim.fetch(2)
    elif c < 0.6:
        ops.append("f32"); sim.fetch(4)
    elif c < 0.68:
        ops.append("pb")
    elif c < 0.76:
        n = min(rng.choice([0, 1, near(rng, r), max(0, r // 2)]), 400)
        fail = rng.random() < 0.1
        ops.append(("!" if fail else "") + "fd:%d:%d" % (n, rng.randrange(2)))
        if not fail:
            sim.fetch(n)
    elif c < 0.84:
        n = min(rng.choice([0, 1, near(rng, r), max(0, r // 2)]), 400)
        ops.append("fs:%d" % n)  # printable or not is unknown to the simulation
        return "unknown"
    elif c < 0.92:
        n = min(rng.choice([0, 1, near(rng, r), max(0, r // 2)]), 400)
        fail = rng.random() < 0.1
        ops.append(("!" if fail else "") + "fi:%d" % n)
        if not fail:
            sim.fetch(n)
    else:
        n = min(rng.choice([0, 1, near(rng, r), max(0, r // 2)]), 400)
        ops.append("c:%d" % n); sim.consume(n)
    return None


def resync(sim, ops):
    """after an op whose effect the simulation cannot predict: restart from a known state"""
    ops.append("N")
    sim.new()


def op_tag(rng, sim, ops):
    c = rng.random()
    if c < 0.35:
        ops.append("t"); sim.tag = sim.off
    elif c < 0.55:
        ops.append("tr")
        if sim.tag is not None:
            sim.off = sim.tag; sim.tag = None
    elif c < 0.65:
        ops.append("tc"); sim.tag = None
    elif c < 0.78:
        tl = (sim.off - sim.tag) if sim.tag is not None else 0
        ops.append("tf:%d" % near(rng, tl))
    elif c < 0.88:
        tl = (sim.off - sim.tag) if sim.tag is not None else 0
        ops.append("ts:%d" % rng.choice([0, 1, tl, tl + 1, tl + 2]))
    elif c < 0.94:
        ops.append(("!" if rng.random() < 0.15 else "") + "td")
    else:
        ops.append(("!" if rng.random() < 0.15 else "") + "tk")


def op_pos(rng, sim, ops, allow_contract):
    c = rng.random()
    if c < 0.3:
        ops.append("rc"); sim.reclaim()
    elif c < 0.65:
        if sim.const:
            ops.append("sl:%d:%d" % (rng.randrange(5), rng.randrange(256)))
            return
        lim = sim.alloc - sim.off  # len >= lim is refused
        n = rng.choice([0, max(0, sim.rem - 1), sim.rem, sim.rem + 1, max(0, lim - 1), lim, lim + 1, max(0, lim - 2)])
        ops.append("sl:%d:%d" % (n, rng.randrange(256)))
        if n < lim:
            sim.dlen = sim.off + n
    else:
        cands = [0, sim.dlen, sim.dlen + 1, max(0, sim.off - 1), sim.off, min(sim.dlen, sim.off + 1)]
        if sim.tag is not None:
            cands += [sim.tag, sim.tag]
            if allow_contract and sim.tag > 0:
                cands += [sim.tag - 1]
        idx = rng.choice(cands)
        if sim.tag is not None and idx < sim.tag and idx <= sim.dlen and not allow_contract:
            idx = sim.tag
        ops.append("sp:%d" % idx)
        if idx <= sim.dlen:
            sim.off = idx


TEXT_WORDS = ["alpha", "Alpha", "ALPHA", "beta", "b", "", " ", "  ", "\t", " \t ", "  x ", "x ", " x", "x", "\tq\t", "nameserver",
              "a b", "A B", "z\n"]


def text_bytes(rng):
    """text with fields, delimiters, whitespace, case variants, sometimes raw bytes"""
    delims = rng.choice([",", ", ", " ", ":", ";,", "\n", ", \t"])
    n = rng.choice([0, 1, 2, 3, 5, 8])
    parts = []
    for i in range(n):
        parts.append(rng.choice(TEXT_WORDS))
    sep = [rng.choice(delims) for _ in range(n + 1)]
    s = ""
    if rng.random() < 0.3:
        s += sep[0]
    for i, p in enumerate(parts):
        s += p
        if i + 1 < n or rng.random() < 0.3:
            s += sep[i + 1]
            if rng.random() < 0.2:
                s += sep[i + 1]
    bs = [ord(ch) for ch in s]
    if rng.random() < 0.15 and bs:
        bs[rng.randrange(len(bs))] = rng.choice([0, 0x7f, 0x80, 0xff, 0x1f])
    return bs, [ord(ch) for ch in delims]


def op_parse(rng, sim, ops):
    c = rng.random()
    if c < 0.15:
        ops.append("ws:%d" % rng.randrange(2))
    elif c < 0.3:
        ops.append("nws")
    elif c < 0.45:
        ops.append("ln:%d" % rng.randrange(2))
    elif c < 0.6:
        ops.append("cs:" + hx([ord(ch) for ch in rng.choice(["ab", "alph", " ,", "", "x", "ALPHAalph"])]))
    elif c < 0.8:
        ops.append("uc:%s:%d" % (hx([ord(ch) for ch in rng.choice([",", " ", ":,", "\n", "", "zq"])]), rng.randrange(2)))
    else:
        ops.append("bw:" + hx([ord(ch) for ch in rng.choice(["a", "alpha", "Alpha", "", "nameserver", " ", "alphaalphaalphaalphaalpha"])]))
    return "unknown"


FLAGSETS = [0, 0, 48, 48, 4, 12, 4 | 48, 12 | 48, 2, 2 | 4, 2 | 12, 2 | 48, 1, 1 | 2, 16, 32, 16, 32, 16 | 2, 32 | 2,
            16 | 4, 32 | 4, 32 | 12, 1 | 48, 1 | 16, 1 | 32, 2 | 4 | 48, 63]


def op_split(rng, sim, ops, delims=None, failat=0.12):
    if delims is None:
        delims = [ord(ch) for ch in rng.choice([",", " ", ", ", ":", "\n", ""])]
    fl = rng.choice(FLAGSETS)
    mx = rng.choice([0, 0, 0, 1, 2, 3])
    r = rng.random()
    pre = ""
    if r < 0.05:
        pre = "!"
    elif r < 0.05 + failat:
        # the n-th allocation request of the call is refused: 0 = the array, then per kept piece the
        # ares_buf_t and (pieces 0, 4, 8, 16 ...) the growth of the array
        pre = "!%d" % rng.choice([0, 1, 1, 2, 2, 3, 3, 4, 5, 6, 7, 8, 10])
    ops.append(pre + "sx:%s:%d:%d" % (hx(delims), fl, mx))
    return "unknown"


NUMS = [0, 1, 9, 10, 99, 100, 255, 256, 4095, 4096, 65535, 65536, (1 << 32) - 1, 1 << 32, 10 ** 10,
        10 ** 18, 10 ** 19 - 1, 10 ** 19, (1 << 63), (1 << 64) - 1]


def op_num(rng, sim, ops, fail=False, num=None, ln=None):
    """ares_buf_append_num_dec / _hex"""
    hexa = rng.random() < 0.4
    if num is None:
        num = rng.choice(NUMS) if rng.random() < 0.7 else rng.randrange(1 << rng.choice([4, 8, 16, 33, 64]))
    nd = len("%x" % num) if hexa else len("%d" % num)
    if ln is None:
        ln = rng.choice([0, 0, 0, 1, 2, max(1, nd - 1), nd, nd + 1, nd + 3, 16, 17, 19, 20, 21, 25])
    pre = ""
    if fail:
        pre = rng.choice(["!", "!", "!0", "!1"])
    ops.append(pre + "%s:%d:%d" % ("nh" if hexa else "nd", num, ln))
    sim.append(ln or nd, fail and pre != "!1")


def scenario_num_boundary(rng, sim, ops):
    """a number when exactly 0..3 bytes of room are left, with a refusing allocator: the unpatched
    code appended the digits that still fit and then reported ARES_ENOMEM"""
    if sim.const or sim.broken():
        resync(sim, ops)
    direct = sim.alloc - sim.dlen - 1
    if direct < 0:
        op_append(rng, sim, ops, n=1, kind="a")
        direct = sim.alloc - sim.dlen - 1
    left = rng.choice([0, 1, 1, 2, 3])
    if direct > left:
        op_append(rng, sim, ops, n=direct - left, kind="a")
    op_num(rng, sim, ops, fail=(rng.random() < 0.7), num=rng.choice([12, 123, 1234, 65535, 10 ** 19]), ln=rng.choice([0, 0, 4, 6]))


def binstr_bytes(rng):
    """one or more DNS character-strings <len><bytes>, possibly damaged"""
    out = []
    for _ in range(rng.choice([1, 1, 2, 3, 5])):
        n = rng.choice([0, 0, 1, 1, 2, 5, 12, 63, 64, 254, 255])
        printable = rng.random() < 0.75
        body = rbytes(rng, n, printable=printable)
        if n and not printable and rng.random() < 0.5:
            body = rbytes(rng, n, printable=True)
            body[rng.randrange(n)] = rng.choice([0, 0x1f, 0x7f, 0x80, 0xff])
        out += [n] + body
    c = rng.random()
    if c < 0.15 and out:
        out = out[:rng.randrange(len(out))]              # truncated: a length byte points beyond the data
    elif c < 0.25:
        out += [rng.choice([1, 2, 200, 255])]            # a trailing length byte without data
    return out


def op_binstr(rng, sim, ops, fresh=True):
    """ares_buf_parse_dns_binstr / _str: remaining_len at and around the string, 0, huge"""
    if fresh:
        bs = binstr_bytes(rng)
        if rng.random() < 0.8:
            ops.append("K:" + hx(bs))
            if bs:
                sim.newconst(len(bs))
        else:
            ops.append("N"); sim.new()
            if bs:
                ops.append("a:" + hx(bs)); sim.append(len(bs))
        left = list(bs)
    else:
        left = None
    for _ in range(rng.choice([1, 2, 3, 6])):
        if left:
            ln = left[0]
            rl = rng.choice([0, 1, ln, ln + 1, ln + 1, ln + 2, len(left), len(left) + 1, 300, 70000])
        else:
            rl = rng.choice([0, 1, 2, 5, 256, 300])
        want = 0 if rng.random() < 0.2 else 1
        r = rng.random()
        pre = "!" if r < 0.06 else "!0" if r < 0.12 else "!1" if r < 0.22 else "!2" if r < 0.24 else ""
        ops.append(pre + "%s:%d:%d" % (rng.choice(["pb", "pb", "ps"]), rl, want))
        if left:
            # where the cursor probably is afterwards (the model decides): behind the string on success
            ln = left[0]
            left = left[1 + ln:] if (rl > ln and len(left) > ln and not pre) else left[1:]
    return "unknown"


def scenario_boundary_fetch(rng, sim, ops):
    k = rng.choice([1, 2, 3, 4, 5, 8])
    op_append(rng, sim, ops, n=k, kind="a")
    which = rng.choice(["f", "f16", "f32"])
    if which == "f":
        n = sim.rem + rng.choice([0, 1])
        ops.append("f:%d" % n); sim.fetch(n)
    elif which == "f16":
        left = rng.choice([1, 2])
        if sim.rem > left:
            ops.append("c:%d" % (sim.rem - left)); sim.consume(sim.rem - left)
        ops.append("f16"); sim.fetch(2)
    else:
        left = rng.choice([3, 4])
        if sim.rem > left:
            ops.append("c:%d" % (sim.rem - left)); sim.consume(sim.rem - left)
        ops.append("f32"); sim.fetch(4)


def scenario_tag_reclaim(rng, sim, ops):
    """append while tagged so that ares_buf_ensure_space has to call ares_buf_reclaim, in both
    shapes: tag == offset (nothing consumed since the tag) and tag < offset; with a prefix consumed
    BEFORE the tag (reclaim discards it) or without (nothing to discard: growth); the append just
    fits after the reclaim / needs growth after it; then tag_length (every dump), tag_fetch_*,
    rollback / clear / reclaim"""
    if sim.const or sim.broken():
        resync(sim, ops)
    op_append(rng, sim, ops, n=rng.choice([6, 12, 20, 27]), kind="a")
    pre = rng.choice([0, 1, 3, 5])           # consumed before the tag
    pre = min(pre, sim.rem)
    if pre:
        ops.append("c:%d" % pre); sim.consume(pre)
    ops.append("t"); sim.tag = sim.off
    mid = rng.choice([0, 0, 1, 2, 4])        # 0: tag == offset
    mid = min(mid, sim.rem)
    if mid:
        ops.append(rng.choice(["c:%d", "f:%d"]) % mid); sim.consume(mid)
    direct = max(0, sim.alloc - sim.dlen - 1)
    room = sim.room()                        # = direct + what a reclaim can discard
    n = rng.choice([direct + 1, direct + 1, room, room, room + 1, direct])
    op_append(rng, sim, ops, n=max(1, min(n, 200)), fail=(rng.random() < 0.15),
              kind=rng.choice(["a", "a", "as", "av", "ab", "a16", "a32"]))
    for _ in range(rng.choice([1, 2, 3])):
        tl = (sim.off - sim.tag) if sim.tag is not None else 0
        ops.append(rng.choice(["tf:64", "tf:%d" % tl, "ts:64", "td", "tk", "pb", "f:1"]))
        if ops[-1] == "f:1":
            sim.fetch(1)
    ops.append(rng.choice(["tr", "tr", "tr", "tc", "rc"]))
    if ops[-1] == "tr" and sim.tag is not None:
        sim.off = sim.tag; sim.tag = None
    elif ops[-1] == "tc":
        sim.tag = None
    elif ops[-1] == "rc":
        sim.reclaim()


def scenario_growth(rng, sim, ops):
    if sim.const:
        resync(sim, ops)
    for _ in range(rng.choice([1, 2, 3])):
        direct = max(0, sim.alloc - sim.dlen - 1)
        n = rng.choice([direct, direct + 1, direct + 2, max(1, direct - 1)])
        fail = rng.random() < 0.25
        op_append(rng, sim, ops, n=max(1, min(n, 260)), fail=fail, kind=rng.choice(["a", "a", "as", "av"]))
        if rng.random() < 0.4:
            k = rng.choice([1, sim.rem // 2, sim.rem])
            ops.append("c:%d" % k); sim.consume(k)


def scenario_be_boundary(rng, sim, ops):
    """be16/be32 (and a failing allocation) when exactly 1..4 bytes of room are left"""
    if sim.const:
        resync(sim, ops)
    direct = sim.alloc - sim.dlen - 1
    if direct < 0:
        op_append(rng, sim, ops, n=1, kind="a")
        direct = sim.alloc - sim.dlen - 1
    left = rng.choice([0, 1, 2, 3, 4, 5])
    if direct > left:
        op_append(rng, sim, ops, n=direct - left, kind="a")
    fail = rng.random() < 0.6
    op_append(rng, sim, ops, fail=fail, kind=rng.choice(["a16", "a32", "ab"]))


def scenario_setpos_contract(rng, sim, ops):
    if sim.rem < 4:
        op_append(rng, sim, ops, n=8, kind="a") if not sim.const else None
    k = min(sim.rem, rng.choice([2, 3, 5]))
    ops.append("c:%d" % k); sim.consume(k)
    ops.append("t"); sim.tag = sim.off
    if sim.tag == 0:
        return
    ops.append("sp:%d" % (sim.tag - 1)); sim.off = sim.tag - 1
    for _ in range(rng.choice([1, 2, 4])):
        ops.append(rng.choice(["tf:4", "td", "f:1", "rc", "sp:%d" % sim.dlen, "a:00", "tr", "fz", "ts:9"]))
    ops.append(rng.choice(["t", "tc"]))
    return "unknown"


def scenario_finish(rng, sim, ops):
    if rng.random() < 0.3:
        ops.append("t"); sim.tag = sim.off
    if sim.rem > 0 and rng.random() < 0.7:
        k = rng.choice([1, max(1, sim.rem // 2), sim.rem])
        ops.append("c:%d" % k); sim.consume(k)
    if rng.random() < 0.3:
        ops.append("t"); sim.tag = sim.off
    fail = rng.random() < 0.15
    ops.append(("!" if fail else "") + rng.choice(["fb", "fz"]))
    return "unknown"


def gen_case(rng, maxops):
    n = rng.choice([4, 10, 25, 60, maxops])
    ops = []
    sim = Sim()
    mode = rng.choice(["mixed", "mixed", "write", "parse", "split", "tagreclaim", "grow", "contract", "enomem",
                       "num", "binstr", "splitfail"])
    allow_contract = mode == "contract"
    if mode in ("parse", "split", "splitfail") or rng.random() < 0.1:
        bs, delims = text_bytes(rng)
        if rng.random() < 0.7:
            ops.append("K:" + hx(bs))
            if bs:
                sim.newconst(len(bs))
        else:
            ops.append("as:" + hx([b for b in bs if b != 0])); sim.append(len([b for b in bs if b != 0]))
    else:
        delims = None
    while len(ops) < n:
        # keep buffers small: every op dumps the whole remaining data and the extracted model works
        # on lists, so a long case whose boundary scenarios keep filling the allocation (doubling
        # it each time) becomes quadratic - 32 KB buffers overflowed the model driver's stack in
        # a thorough run.  Growth up to 4 KB (8 doublings) is plenty.
        if not sim.const and sim.alloc > 4096:
            resync(sim, ops)
            continue
        if sim.broken():
            ops.append(rng.choice(["t", "tc"]))
            sim.tag = sim.off if ops[-1] == "t" else None
            continue
        r = rng.random()
        unknown = None
        if mode == "parse" and r < 0.55:
            unknown = op_parse(rng, sim, ops)
        elif mode == "split" and r < 0.35:
            unknown = op_split(rng, sim, ops, delims if rng.random() < 0.8 else None)
        elif mode == "splitfail" and r < 0.5:
            # a fresh text for every split (the previous one consumed everything)
            bs, delims = text_bytes(rng)
            ops.append("K:" + hx(bs))
            if bs:
                sim.newconst(len(bs))
            unknown = op_split(rng, sim, ops, delims if rng.random() < 0.9 else None, failat=0.75)
        elif mode == "num" and r < 0.5:
            if rng.random() < 0.4:
                scenario_num_boundary(rng, sim, ops)
            else:
                if sim.const and rng.random() < 0.8:
                    resync(sim, ops)
                op_num(rng, sim, ops, fail=(rng.random() < 0.15))
        elif mode == "binstr" and r < 0.5:
            unknown = op_binstr(rng, sim, ops, fresh=(rng.random() < 0.8))
        elif mode == "tagreclaim" and r < 0.3:
            scenario_tag_reclaim(rng, sim, ops)
        elif mode == "grow" and r < 0.4:
            scenario_growth(rng, sim, ops)
        elif mode == "enomem" and r < 0.4:
            rng.choice([scenario_be_boundary, scenario_growth])(rng, sim, ops)
        elif mode == "contract" and r < 0.15:
            unknown = scenario_setpos_contract(rng, sim, ops)
        elif r < 0.02 and not sim.const:
            scenario_tag_reclaim(rng, sim, ops)
        elif r < 0.04:
            scenario_boundary_fetch(rng, sim, ops) if not sim.const else op_fetch(rng, sim, ops)
        elif r < 0.07:
            unknown = scenario_finish(rng, sim, ops)
        elif r < 0.075:
            op_num(rng, sim, ops, fail=(rng.random() < 0.1))
        elif r < 0.08:
            unknown = op_binstr(rng, sim, ops, fresh=(rng.random() < 0.5))
        elif r < 0.09:
            unknown = op_split(rng, sim, ops)
        elif r < 0.11:
            unknown = op_parse(rng, sim, ops)
        elif r < 0.13:
            fail = rng.random() < 0.2
            if rng.random() < 0.5:
                ops.append(("!" if fail else "") + "N")
                if not fail:
                    sim.new()
            else:
                bs, delims = text_bytes(rng)
                ops.append(("!" if fail else "") + "K:" + hx(bs))
                if bs and not fail:
                    sim.newconst(len(bs))
        elif r < 0.45 and not (mode == "parse"):
            op_append(rng, sim, ops, fail=(rng.random() < (0.25 if mode == "enomem" else 0.04)))
        elif r < 0.7:
            unknown = op_fetch(rng, sim, ops)
        elif r < 0.87:
            op_tag(rng, sim, ops)
        else:
            op_pos(rng, sim, ops, allow_contract)
        if unknown and rng.random() < 0.5 and mode not in ("parse", "split", "splitfail", "binstr"):
            resync(sim, ops)
        elif unknown:
            # keep going with a stale simulation: only the aim of later ops gets worse
            sim.tag = None if sim.tag is not None and rng.random() < 0.5 else sim.tag
    return "buf|" + ";".join(ops[:max(n, 1) + 12])
