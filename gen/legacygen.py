"""Case generator for the legacy-parser engine (C18) and the addrinfo engine (C13).

A case is one line

    <mode>,<cap>,<hex of header+question>|<unit>;<unit>;...

mode  A : the driver patches ANCOUNT/NSCOUNT/ARCOUNT from the units (answer units are plain
          hex, authority units are prefixed "n:", additional units "r:"), so that the runner's
          shrinker can delete resource records and keep a well-formed message
      R : raw - header and units are concatenated unchanged (malformed stream)
cap     : one extra caller capacity for the addrttl arrays (the driver always also tries
          0, 1, exact-1, exact, exact+1, large, negative and a NULL array)

Everything is built from bytes here (small DNS encoder with optional name compression);
nothing is shared with the wire-format generators of other properties.
"""
import struct

T_A, T_NS, T_CNAME, T_SOA, T_PTR, T_HINFO, T_MX, T_TXT, T_AAAA, T_SRV, T_NAPTR, T_OPT = 1, 2, 5, 6, 12, 13, 15, 16, 28, 33, 35, 41
T_URI, T_CAA = 256, 257
C_IN, C_CH, C_HS = 1, 3, 4

TARGETS = ["a", "aaaa", "caa", "mx", "naptr", "ns", "ptr", "soa", "srv", "txt", "uri"]
TTYPE = dict(a=T_A, aaaa=T_AAAA, caa=T_CAA, mx=T_MX, naptr=T_NAPTR, ns=T_NS, ptr=T_PTR, soa=T_SOA,
             srv=T_SRV, txt=T_TXT, uri=T_URI)
TTLS = [0, 1, 5, 60, 300, 3600, 86400, 2 ** 31 - 1, 2 ** 31, 2 ** 32 - 1]


class Msg:
    """Incremental encoder remembering where names were written (for compression)."""

    def __init__(self, rng, compress):
        self.rng = rng
        self.compress = compress
        self.off = 0
        self.names = {}

    def name(self, n, allow_ptr=True):
        """wire form of the dotted name n (str or bytes labels) written at self.off"""
        out = b""
        labels = [l for l in n.split(".") if l != ""] if isinstance(n, str) else list(n)
        pos = self.off
        i = 0
        while i < len(labels):
            key = ".".join(x if isinstance(x, str) else x.decode("latin1") for x in labels[i:]).lower()
            if self.compress and allow_ptr and key in self.names and self.names[key] < 0x3FFF:
                out += struct.pack(">H", 0xC000 | self.names[key])
                self.off = pos + len(out)
                return out
            if pos + len(out) < 0x3FFF and key not in self.names:
                self.names[key] = pos + len(out)
            l = labels[i]
            lb = l.encode("latin1") if isinstance(l, str) else l
            out += bytes([len(lb)]) + lb
            i += 1
        out += b"\0"
        self.off = pos + len(out)
        return out

    def raw(self, b):
        self.off += len(b)
        return b

    def rr(self, owner, typ, cls, ttl, rdata_fn):
        """rdata_fn(self) -> bytes, called with self.off at the start of the rdata"""
        start = self.off
        b = self.name(owner)
        b += self.raw(struct.pack(">HHIH", typ, cls, ttl & 0xFFFFFFFF, 0))
        rd = rdata_fn(self)
        b = b[:-2] + struct.pack(">H", len(rd)) + rd
        assert self.off == start + len(b)
        return b


def rnd_label(rng):
    n = rng.choice([1, 2, 3, 5, 8, 12])
    return "".join(rng.choice("abcdefghijklmnopqrstuvwxyzABCXYZ0123456789-_") for _ in range(n))


def rnd_name(rng, base=None):
    if base is not None and rng.random() < 0.6:
        return rnd_label(rng) + "." + base
    k = rng.choice([1, 2, 2, 3, 4])
    return ".".join(rnd_label(rng) for _ in range(k))


def rnd_str(rng, maxlen=20):
    n = rng.choice([0, 1, 3, 7, maxlen])
    return bytes(rng.choice(b"abcdefghijklmnopqrstuvwxyzABC0123456789!+-=/:. ") for _ in range(n))


def rnd_bin(rng, maxlen=40):
    n = rng.choice([0, 1, 2, 5, 17, maxlen])
    if rng.random() < 0.6:
        return bytes(rng.choice(b"abcdefghijklmnopqrstuvwxyz0123456789 =;") for _ in range(n))
    return bytes(rng.randrange(256) for _ in range(n))


def cstr(b):
    return bytes([len(b)]) + b


def rdata_for(rng, typ, base, pool):
    """returns a function m -> rdata bytes for a record of the given type"""
    def nm():
        if pool and rng.random() < 0.5:
            return rng.choice(pool)
        return rnd_name(rng, base)
    if typ == T_A:
        a = rng.choice([bytes(rng.randrange(256) for _ in range(4)), b"\x7f\0\0\x01", b"\0\0\0\0", b"\xff\xff\xff\xff", b"\x0a\x01\x02\x03"])
        return lambda m: m.raw(a)
    if typ == T_AAAA:
        a = rng.choice([bytes(rng.randrange(256) for _ in range(16)), b"\0" * 15 + b"\x01", b"\0" * 16,
                        b"\x20\x01\x0d\xb8" + b"\0" * 11 + b"\x05", b"\xff" * 16])
        return lambda m: m.raw(a)
    if typ in (T_CNAME, T_NS, T_PTR):
        t = nm()
        return lambda m: m.name(t)
    if typ == T_MX:
        p = rng.choice([0, 1, 10, 256, 65535, rng.randrange(65536)])
        t = nm()
        return lambda m: m.raw(struct.pack(">H", p)) + m.name(t)
    if typ == T_SRV:
        v = [rng.choice([0, 1, 443, 65535, rng.randrange(65536)]) for _ in range(3)]
        t = nm()
        # RFC 2782: no compression of the target, but parsers accept it
        cp = rng.random() < 0.3
        return lambda m: m.raw(struct.pack(">HHH", *v)) + m.name(t, allow_ptr=cp)
    if typ == T_NAPTR:
        v = [rng.choice([0, 1, 100, 65535, rng.randrange(65536)]) for _ in range(2)]
        ss = [rnd_str(rng, 6), rnd_str(rng, 12), rnd_str(rng, 30)]
        t = nm() if rng.random() < 0.8 else ""
        return lambda m: m.raw(struct.pack(">HH", *v) + b"".join(cstr(s) for s in ss)) + m.name(t, allow_ptr=False)
    if typ == T_CAA:
        crit = rng.choice([0, 1, 128, 255])
        tag = bytes(rng.choice(b"abcdefghijklmnopqrstuvwxyz0123456789") for _ in range(rng.choice([1, 5, 5, 9, 15])))
        val = rnd_bin(rng, 60)
        return lambda m: m.raw(bytes([crit]) + cstr(tag) + val)
    if typ == T_URI:
        v = [rng.choice([0, 1, 10, 65535, rng.randrange(65536)]) for _ in range(2)]
        t = rng.choice([b"https://example.org/", b"ftp://" + rnd_str(rng, 30), b"u" + rnd_str(rng, 50), b"x", rnd_str(rng, 3)])
        return lambda m: m.raw(struct.pack(">HH", *v) + t)
    if typ == T_SOA:
        a, b = nm(), nm()
        v = [rng.choice([0, 1, 3600, 2 ** 31 - 1, 2 ** 31, 2 ** 32 - 1, rng.randrange(2 ** 32)]) for _ in range(5)]
        return lambda m: m.name(a) + m.name(b) + m.raw(struct.pack(">IIIII", *v))
    if typ == T_TXT:
        k = rng.choice([1, 1, 2, 3, 6])
        if rng.random() < 0.05:
            k = 0
        chunks = [rnd_bin(rng, rng.choice([10, 80, 255])) for _ in range(k)]
        if rng.random() < 0.1 and chunks:
            chunks[rng.randrange(len(chunks))] = bytes(rng.randrange(256) for _ in range(255))
        return lambda m: m.raw(b"".join(cstr(c) for c in chunks))
    if typ == T_HINFO:
        a, b = rnd_str(rng), rnd_str(rng)
        return lambda m: m.raw(cstr(a) + cstr(b))
    # unknown type: opaque rdata
    rd = rnd_bin(rng, 12)
    return lambda m: m.raw(rd)


def header(rng, rcode=0, qd=1, tc=False):
    flags = 0x8000 | (0x0100 if rng.random() < 0.8 else 0) | (0x0080 if rng.random() < 0.8 else 0) | (0x0400 if rng.random() < 0.2 else 0)
    if tc:
        flags |= 0x0200
    flags |= rcode & 0xF
    return struct.pack(">HHHHHH", rng.randrange(65536), flags, qd, 0, 0, 0)


def gen_valid(rng, tier, target=None):
    """mostly-valid stream: a response whose answer section mixes the target type with CNAME
    chains, other types, other classes, foreign owner names, duplicates, TTL extremes"""
    target = target or rng.choice(TARGETS)
    ttype = TTYPE[target]
    compress = rng.random() < 0.7
    m = Msg(rng, compress)
    qname = rnd_name(rng) if target != "ptr" else rng.choice(["4.3.2.1.in-addr.arpa", "1.0.0.127.in-addr.arpa", "b.a.9.8.7.6.5.0.4.0.0.0.3.0.0.0.2.0.0.0.1.0.0.0.0.0.0.0.1.2.3.4.ip6.arpa"])
    qtype = ttype if rng.random() < 0.85 else rng.choice([T_A, T_AAAA, T_MX, T_TXT, 255, 99])
    rcode = 0 if rng.random() < 0.9 else rng.choice([2, 3, 5, 1])
    hdr = m.raw(header(rng, rcode))
    q = m.name(qname) + m.raw(struct.pack(">HH", qtype, C_IN if rng.random() < 0.95 else C_CH))
    shape = rng.choice(["plain", "plain", "cname", "cname", "mixed", "mixed", "foreign", "empty", "many", "dups", "otherclass", "nontarget"])
    maxn = 40 if tier == "quick" else 120
    if shape == "empty" or (rcode == 3 and rng.random() < 0.7):
        n = 0
    elif shape == "many":
        n = rng.choice([maxn // 2, maxn, maxn + 1])
    else:
        n = rng.choice([1, 1, 2, 3, 4, 7, 12])
    owner = qname
    pool = [qname]
    units = []
    chain_left = rng.choice([1, 2, 3, 6]) if shape in ("cname", "mixed") else 0
    last = None
    for i in range(n):
        r = rng.random()
        ttl = rng.choice(TTLS) if rng.random() < 0.6 else rng.randrange(2 ** 32 if rng.random() < 0.2 else 100000)
        cls = C_IN
        typ = ttype
        own = owner
        if chain_left > 0 and (shape == "cname" or r < 0.5):
            # CNAME chain link: owner -> new name, later records are owned by the new name
            nxt = rnd_name(rng, "example.net") if rng.random() < 0.9 else rng.choice(pool)  # loops
            t = nxt
            units.append(m.rr(owner, T_CNAME, C_IN, ttl, lambda mm, t=t: mm.name(t)))
            pool.append(nxt)
            owner = nxt
            chain_left -= 1
            continue
        if shape == "nontarget":
            typ = rng.choice([x for x in (T_A, T_AAAA, T_MX, T_TXT, T_NS, T_HINFO, 99, T_SRV) if x != ttype])
        elif shape == "mixed" and r < 0.75:
            typ = rng.choice([T_A, T_AAAA, T_CNAME, T_NS, T_PTR, T_MX, T_SRV, T_NAPTR, T_CAA, T_URI, T_SOA, T_TXT, T_HINFO, 99])
        elif shape == "otherclass" and r < 0.6:
            cls = rng.choice([C_CH, C_HS, 254, C_CH, C_HS, 254, 2])
        elif shape == "foreign" and r < 0.6:
            own = rnd_name(rng)
        elif shape == "dups" and last is not None and r < 0.6:
            typ, cls, ttl, own, fn = last
            units.append(m.rr(own, typ, cls, ttl, fn))
            continue
        elif r < 0.08:
            cls = rng.choice([C_CH, C_HS])
        elif r < 0.16:
            typ = rng.choice([T_A, T_AAAA, T_CNAME, T_TXT, T_MX, T_HINFO])
        if target in ("a", "aaaa") and typ == ttype and rng.random() < 0.15:
            typ = T_AAAA if ttype == T_A else T_A   # mixed families
        fn = rdata_for(rng, typ, "example.org", pool)
        # replay-able closure: evaluate once per use (dups re-encode with the current offset)
        units.append(m.rr(own, typ, cls, ttl, fn))
        last = (typ, cls, ttl, own, fn)
    extra = []
    if rng.random() < 0.25:
        for _ in range(rng.choice([1, 2])):
            typ = rng.choice([T_NS, T_SOA, ttype])
            extra.append("n:" + m.rr(rnd_name(rng), typ, C_IN, 60, rdata_for(rng, typ, "example.org", pool)).hex())
    if rng.random() < 0.25:
        for _ in range(rng.choice([1, 2])):
            typ = rng.choice([T_A, T_AAAA, ttype])
            extra.append("r:" + m.rr(rnd_name(rng), typ, C_IN, 60, rdata_for(rng, typ, "example.org", pool)).hex())
        if rng.random() < 0.4:
            extra.append("r:" + (b"\0" + struct.pack(">HHIH", T_OPT, 1232, 0, 0)).hex())
    cap = rng.choice([0, 1, 2, 3, 5, 8, 16, 300])
    return "A,%d,%s|%s" % (cap, (hdr + q).hex(), ";".join([u.hex() for u in units] + extra))


def assemble(case):
    """bytes of the message a case denotes (same rule as the C driver)"""
    head, body = case.split("|", 1)
    mode, cap, hq = head.split(",")
    hq = bytearray(bytes.fromhex(hq))
    an = ns = ar = 0
    out = b""
    for u in body.split(";"):
        if u == "":
            continue
        if u.startswith("n:"):
            ns += 1
            u = u[2:]
        elif u.startswith("r:"):
            ar += 1
            u = u[2:]
        else:
            an += 1
        out += bytes.fromhex(u)
    if mode == "A" and len(hq) >= 12:
        hq[6:12] = struct.pack(">HHH", an, ns, ar)
    return bytes(hq) + out


def gen_malformed(rng, tier):
    """malformed stream: damage a valid message or emit garbage; raw mode"""
    base = assemble(gen_valid(rng, tier))
    kind = rng.choice(["trunc", "trunc", "flip", "flip", "garbage", "counts", "short", "ptrloop", "qd", "rdlen", "trail"])
    b = bytearray(base)
    if kind == "trunc" and len(b) > 1:
        b = b[:rng.randrange(len(b))]
    elif kind == "flip":
        for _ in range(rng.choice([1, 1, 2, 4])):
            if b:
                i = rng.randrange(len(b))
                b[i] = rng.randrange(256) if rng.random() < 0.5 else b[i] ^ (1 << rng.randrange(8))
    elif kind == "garbage":
        b = bytearray(rng.randrange(256) for _ in range(rng.choice([0, 1, 11, 12, 13, 30, 100])))
    elif kind == "counts" and len(b) >= 12:
        i = rng.choice([4, 6, 8, 10])
        v = struct.unpack(">H", b[i:i + 2])[0] + rng.choice([1, 1, 2, 100, -1])
        b[i:i + 2] = struct.pack(">H", max(0, min(65535, v)))
    elif kind == "short":
        b = b[:rng.choice([0, 1, 5, 11, 12])]
    elif kind == "ptrloop" and len(b) > 14:
        b[12:14] = rng.choice([b"\xc0\x0c", b"\xc0\xff", b"\xff\xff", b"\x40\x01"])
    elif kind == "qd" and len(b) >= 12:
        b[4:6] = struct.pack(">H", rng.choice([0, 2]))
    elif kind == "rdlen" and len(b) > 24:
        i = rng.randrange(12, len(b) - 1)
        b[i:i + 2] = struct.pack(">H", rng.choice([0, 1, 3, 5, 17, 65535]))
    elif kind == "trail":
        b += bytes(rng.randrange(256) for _ in range(rng.choice([1, 4, 20])))
    cap = rng.choice([0, 1, 5, 300])
    return "R,%d,%s|" % (cap, bytes(b).hex())


def gen(rng, tier, n):
    out = []
    # every target type gets its share; one case in six comes from the malformed stream
    for i in range(n):
        if rng.random() < 1.0 / 6:
            out.append(gen_malformed(rng, tier))
        else:
            out.append(gen_valid(rng, tier, TARGETS[i % len(TARGETS)]))
    return out


if __name__ == "__main__":
    import random
    import sys
    r = random.Random(int(sys.argv[1]) if len(sys.argv) > 1 else 1)
    for c in gen(r, "quick", int(sys.argv[2]) if len(sys.argv) > 2 else 10):
        print(c)


# ------------------------------------------------------------------------------------------
# addrinfo engine (C13, function level)
# ------------------------------------------------------------------------------------------
SORTLISTS4 = ["10.0.0.0/8", "192.168.0.0/255.255.0.0", "130.155.160.0/255.255.240.0", "10.1.0.0/16", "1.2.3.4", "172.16.0.0/12",
              "0.0.0.0/0", "127.0.0.0/8"]
SORTLISTS6 = ["2001:db8::/32", "fe80::/10", "fd00::/8", "::1/128", "2001:db8:1::/48", "::/0"]


def rnd_addr4(rng):
    r = rng.random()
    if r < 0.3:
        return bytes([10, rng.choice([0, 1, 2]), rng.randrange(256), rng.randrange(256)])
    if r < 0.45:
        return bytes([192, 168, rng.randrange(256), rng.randrange(256)])
    if r < 0.55:
        return bytes([130, 155, rng.choice([159, 160, 170, 175, 176]), 1])
    if r < 0.65:
        return bytes([rng.choice([0, 9, 10, 99, 100, 199, 200, 255]) for _ in range(4)])
    return bytes(rng.randrange(256) for _ in range(4))


def rnd_addr6(rng):
    r = rng.random()
    if r < 0.3:
        return b"\x20\x01\x0d\xb8" + bytes([0, rng.choice([0, 1, 2])]) + bytes(rng.randrange(256) for _ in range(10))
    if r < 0.45:
        return b"\xfe\x80" + bytes(6) + bytes(rng.randrange(256) for _ in range(8))
    if r < 0.55:
        return bytes(15) + bytes([rng.choice([0, 1, 2])])
    if r < 0.65:
        return bytes(rng.choice([0, 0x0f, 0xf0, 0xff, 0x1a, 0xa1]) for _ in range(16))
    return bytes(rng.randrange(256) for _ in range(16))


def gen_ai_case(rng, tier):
    r = rng.random()
    if r < 0.55:
        port = rng.choice([0, 53, 80, 443, 65535, rng.randrange(65536)])
        cno = rng.choice([0, 0, 1])
        pre = rng.choice([0, 0, 1, 2])
        if rng.random() < 0.08:
            base = gen_malformed(rng, tier)
        else:
            base = gen_valid(rng, tier, rng.choice(["a", "a", "a", "aaaa", "aaaa", "aaaa", "ptr", "mx"]))
        return "pia:%d:%d:%d:%s" % (port, cno, pre, base)
    if r < 0.7:
        if rng.random() < 0.5:
            return "ptr:2:%s|" % rnd_addr4(rng).hex()
        if rng.random() < 0.95:
            return "ptr:10:%s|" % rnd_addr6(rng).hex()
        return "ptr:%d:00|" % rng.choice([0, 1, 3, 23])
    if r < 0.9:
        v6 = rng.random() < 0.4
        pool = SORTLISTS6 if v6 else SORTLISTS4
        k = rng.choice([0, 1, 2, 2, 3, 3, 5])
        sl = rng.sample(pool[:4] if rng.random() < 0.7 else pool, min(k, 4 if len(pool) >= 4 else len(pool)))
        if rng.random() < 0.2:
            sl += [rng.choice(SORTLISTS4 + SORTLISTS6)]   # foreign-family entries are skipped
            rng.shuffle(sl)
        n = rng.choice([0, 1, 2, 3, 3, 5, 5, 9, 9, 20, 20, 60 if tier == "quick" else 200])
        addrs = [(rnd_addr6(rng) if v6 else rnd_addr4(rng)) for _ in range(n)]
        if addrs and rng.random() < 0.3:
            addrs += [rng.choice(addrs) for _ in range(rng.choice([1, 3]))]   # duplicates
        return "sort:%d:%s|%s" % (10 if v6 else 2, "_".join(sl), ";".join(a.hex() for a in addrs))
    return "lo:%d:%d:%d|" % (rng.choice([0, 2, 10, 0, 2, 10, 5, 1]), rng.choice([0, 80, 65535]), rng.randrange(8))


def gen_ai(rng, tier, n):
    return [gen_ai_case(rng, tier) for _ in range(n)]
