#!/usr/bin/env python3
"""Lock-discipline facts of every public entry point that takes a channel (C11).

For each `CARES_EXTERN` function of include/ares.h with an `ares_channel_t *` parameter, and for
the event-thread / config-change / reinit thread bodies, the clang AST of its definition is
walked and an abstract lock depth is tracked:
    ares_channel_lock(..) -> depth+1      ares_channel_unlock(..) -> depth-1
Facts recorded per function:
    takes_lock        the function calls ares_channel_lock at all
    balanced          depth is 0 at every return / end, never negative, equal on both arms of
                      every join, loop bodies preserve it, every goto reaches its label at the
                      label's depth
    unlocked_fields   channel fields (channel->f, through any expression of type
                      ares_channel_t*) read or written at depth 0
    unlocked_calls    calls made at depth 0 that pass the channel on (callee name)
    locked_calls      calls made at depth > 0 that pass the channel on
    mutex_regions     for the event thread: calls made while the event-thread mutex
                      (ares_thread_mutex_lock(e->mutex)) is held
It is a syntactic analysis (trusted base).  Output: coq/Gen/LockFacts.v.
"""
import glob
import hashlib
import json
import os
import re
import subprocess
import sys

HERE = os.path.dirname(os.path.abspath(__file__))
ROOT = os.path.dirname(HERE)
REPO = os.environ.get("VERIF_REPO", "/repo")
GEN = os.path.join(ROOT, "coq", "Gen")

EXTRA_FUNCTIONS = [  # thread bodies and internal functions that run outside a public bracket
    "ares_event_thread", "ares_reinit_thread", "ares_event_configchg_cb", "ares_event_thread_process_fd",
    "notifywrite_cb", "ares_event_thread_sockstate_cb", "set_servers_csv", "ares_init_by_sysconfig",
    "ares_event_process_updates", "ares_event_update", "ares_queue_notify_empty",
]


def config_dir():
    d = os.path.join(REPO, "_build")
    if os.path.exists(os.path.join(d, "ares_config.h")):
        return d
    return os.path.join(ROOT, "harness", "config")


def public_channel_functions():
    names = []
    for h in ("include/ares.h",):
        src = open(os.path.join(REPO, h)).read()
        src = re.sub(r"/\*.*?\*/", "", src, flags=re.S)
        for m in re.finditer(r"CARES_EXTERN\s+(?:CARES_DEPRECATED(?:_FOR\([^)]*\))?\s+)?([^;{}]*?)\b(ares_\w+)\s*\(([^;]*?)\)\s*(?:CARES_GCC_\w+(?:\([^)]*\))?\s*)*;", src, re.S):
            name, params = m.group(2), m.group(3)
            if "ares_channel_t" in params:
                names.append(name)
    return sorted(set(names))


def find_definition(name):
    cands = []
    pat = re.compile(r"\b%s\s*\([^;{}]*\)\s*\{" % re.escape(name), re.S)
    for f in sorted(glob.glob(os.path.join(REPO, "src/lib/*.c")) + glob.glob(os.path.join(REPO, "src/lib/*/*.c"))):
        try:
            txt = open(f).read()
        except OSError:
            continue
        txt = re.sub(r"/\*.*?\*/", "", txt, flags=re.S)
        if pat.search(txt):
            cands.append(f)
    return cands


def clang_fn(cfile, fn):
    cd = config_dir()
    cmd = ["clang", "-fsyntax-only", "-Xclang", "-ast-dump=json", "-Xclang", "-ast-dump-filter=" + fn,
           "-DHAVE_CONFIG_H=1", "-DCARES_BUILDING_LIBRARY", "-DCARES_STATICLIB", "-D_GNU_SOURCE", "-w",
           "-I" + cd, "-I" + os.path.join(REPO, "include"), "-I" + os.path.join(REPO, "src/lib"),
           "-I" + os.path.join(REPO, "src/lib/include"), cfile]
    p = subprocess.run(cmd, stdout=subprocess.PIPE, stderr=subprocess.PIPE)
    s = p.stdout.decode()
    dec = json.JSONDecoder()
    i = 0
    while i < len(s):
        while i < len(s) and s[i].isspace():
            i += 1
        if i >= len(s):
            break
        o, j = dec.raw_decode(s, i)
        i = j
        if o.get("kind") == "FunctionDecl" and o.get("name") == fn and any(c.get("kind") == "CompoundStmt" for c in o.get("inner", [])):
            return o
    return None


def is_channel_type(t):
    q = (t or {}).get("qualType", "") + " " + (t or {}).get("desugaredQualType", "")
    return "ares_channel_t" in q or "ares_channeldata" in q


class Walker:
    def __init__(self, fn):
        self.fn = fn
        self.takes_lock = False
        self.balanced = True
        self.why = []
        self.unlocked_fields = []
        self.unlocked_calls = []
        self.locked_calls = []
        self.mutex_calls = []
        self.labels = {}
        self.gotos = []

    def callee(self, n):
        c = n["inner"][0]
        while c.get("kind") in ("ImplicitCastExpr", "ParenExpr"):
            c = c["inner"][0]
        if c.get("kind") == "DeclRefExpr":
            return c["referencedDecl"]["name"]
        return "<indirect>"

    def passes_channel(self, n):
        for a in n["inner"][1:]:
            if self.mentions_channel(a):
                return True
        return False

    def mentions_channel(self, n):
        if is_channel_type(n.get("type")):
            return True
        for c in n.get("inner", []) or []:
            if self.mentions_channel(c):
                return True
        return False

    def expr(self, n, st):
        """st = [depth, mutexdepth]; returns nothing; mutates st for lock calls"""
        k = n.get("kind")
        if k == "CallExpr":
            name = self.callee(n)
            for a in n["inner"][1:]:
                if name in ("ares_thread_mutex_lock", "ares_thread_mutex_unlock"):
                    continue
                self.expr(a, st)
            if name == "ares_channel_lock":
                self.takes_lock = True
                st[0] += 1
                return
            if name == "ares_channel_unlock":
                st[0] -= 1
                if st[0] < 0:
                    self.balanced = False
                    self.why.append("unlock without lock")
                return
            if name in ("ares_thread_mutex_lock", "ares_thread_mutex_unlock"):
                # ares_thread_mutex_lock(channel->lock) IS the channel lock
                arg = n["inner"][1] if len(n["inner"]) > 1 else {}
                while arg.get("kind") in ("ImplicitCastExpr", "ParenExpr"):
                    arg = arg["inner"][0]
                is_chan = arg.get("kind") == "MemberExpr" and arg.get("name") == "lock" and is_channel_type(arg["inner"][0].get("type"))
                d = 1 if name.endswith("_lock") and not name.endswith("unlock") else -1
                if is_chan:
                    if d > 0:
                        self.takes_lock = True
                    st[0] += d
                    if st[0] < 0:
                        self.balanced = False
                        self.why.append("unlock without lock")
                else:
                    st[1] += d
                return
            if st[1] > 0:
                self.mutex_calls.append(name)
            if self.passes_channel(n):
                (self.locked_calls if st[0] > 0 else self.unlocked_calls).append(name)
            return
        if k == "MemberExpr" and n.get("isArrow"):
            base = n["inner"][0]
            if is_channel_type(base.get("type")) and st[0] == 0:
                self.unlocked_fields.append(n.get("name"))
        for c in n.get("inner", []) or []:
            if isinstance(c, dict) and "kind" in c:
                self.expr(c, st)

    def stmt(self, n, st):
        """returns True if control can fall through"""
        k = n.get("kind")
        if k == "CompoundStmt":
            for c in n.get("inner", []) or []:
                if not self.stmt(c, st):
                    # code after return/goto: continue only at labels
                    rest = n["inner"][n["inner"].index(c) + 1:]
                    live = False
                    for r in rest:
                        if live:
                            if not self.stmt(r, st):
                                live = False
                        elif r.get("kind") == "LabelStmt":
                            live = self.stmt(r, st)
                    return live
            return True
        if k == "ReturnStmt":
            for c in n.get("inner", []) or []:
                self.expr(c, st)
            if st[0] != 0:
                self.balanced = False
                self.why.append("return with lock depth %d" % st[0])
            return False
        if k == "IfStmt":
            inner = n["inner"]
            self.expr(inner[0], st)
            a = list(st)
            fa = self.stmt(inner[1], a)
            b = list(st)
            fb = self.stmt(inner[2], b) if len(inner) > 2 else True
            if fa and fb:
                if a != b:
                    self.balanced = False
                    self.why.append("join with different lock depths")
                st[:] = a
                return True
            if fa:
                st[:] = a
                return True
            if fb:
                st[:] = b
                return True
            return False
        if k in ("WhileStmt", "ForStmt", "DoStmt"):
            before = list(st)
            for c in n.get("inner", []) or []:
                if isinstance(c, dict) and "kind" in c:
                    if c["kind"].endswith("Stmt") and c["kind"] not in ("DeclStmt",):
                        s2 = list(st)
                        self.stmt(c, s2)
                        if s2 != before:
                            self.balanced = False
                            self.why.append("loop body changes lock depth")
                    else:
                        self.expr(c, st) if c["kind"] != "DeclStmt" else self.stmt(c, st)
            return True
        if k == "SwitchStmt":
            inner = n["inner"]
            self.expr(inner[0], st)
            s2 = list(st)
            self.stmt(inner[-1], s2)
            return True
        if k in ("CaseStmt", "DefaultStmt"):
            ft = True
            for c in n.get("inner", []) or []:
                if isinstance(c, dict) and "kind" in c:
                    if c["kind"].endswith("Stmt"):
                        ft = self.stmt(c, st)
                    else:
                        self.expr(c, st)
            return ft
        if k == "BreakStmt" or k == "ContinueStmt":
            return False if False else True
        if k == "GotoStmt":
            self.gotos.append((n.get("targetLabelDeclId"), list(st)))
            return False
        if k == "LabelStmt":
            self.labels[n.get("declId")] = list(st)
            ft = True
            for c in n.get("inner", []) or []:
                ft = self.stmt(c, st)
            return ft
        if k == "DeclStmt":
            for d in n.get("inner", []) or []:
                for c in d.get("inner", []) or []:
                    if isinstance(c, dict) and "kind" in c:
                        self.expr(c, st)
            return True
        if k == "NullStmt":
            return True
        self.expr(n, st)
        return True

    def run(self):
        body = [c for c in self.fn.get("inner", []) if c.get("kind") == "CompoundStmt"][0]
        st = [0, 0]
        # labels may be jumped to before they are seen: two passes
        ft = self.stmt(body, st)
        if ft and st[0] != 0:
            self.balanced = False
            self.why.append("end of function with lock depth %d" % st[0])
        for (lab, s) in self.gotos:
            if lab in self.labels and self.labels[lab][0] != s[0]:
                # the label was first reached sequentially at another depth
                self.balanced = False
                self.why.append("goto reaches label at a different lock depth")


def coq_str(s):
    return '"' + s.replace('"', '""') + '"'


def coq_list(l):
    return "[" + "; ".join(coq_str(x) for x in l) + "]"


def main():
    os.makedirs(GEN, exist_ok=True)
    names = public_channel_functions()
    facts = []
    missing = []
    cache_dir = os.path.join(ROOT, ".cache", "lockfacts")
    os.makedirs(cache_dir, exist_ok=True)
    for name in names + EXTRA_FUNCTIONS:
        cands = find_definition(name)
        got = None
        for f in cands:
            key = hashlib.sha256((name + open(f).read()).encode()).hexdigest()[:20]
            cp = os.path.join(cache_dir, key + ".json")
            if os.path.exists(cp):
                got = json.load(open(cp))
                break
            ast = clang_fn(f, name)
            if ast is None:
                continue
            w = Walker(ast)
            w.run()
            got = dict(name=name, file=os.path.relpath(f, REPO), takes_lock=w.takes_lock, balanced=w.balanced,
                       why=w.why, unlocked_fields=sorted(set(w.unlocked_fields)), unlocked_calls=sorted(set(w.unlocked_calls)),
                       locked_calls=sorted(set(w.locked_calls)), mutex_calls=sorted(set(w.mutex_calls)))
            json.dump(got, open(cp, "w"))
            break
        if got is None:
            if name in EXTRA_FUNCTIONS:
                continue
            missing.append(name)
            continue
        facts.append(got)
    lines = ["(* GENERATED by gen/lockfacts.py from the working tree - do not edit *)",
             "From Coq Require Import String List Bool.", "Import ListNotations.", "Local Open Scope string_scope.", "",
             "Record lockfact := mkLF { lf_name : string; lf_file : string; lf_takes_lock : bool; lf_balanced : bool;",
             "  lf_unlocked_fields : list string; lf_unlocked_calls : list string; lf_locked_calls : list string; lf_mutex_calls : list string }.", "",
             "Definition lock_facts : list lockfact := ["]
    rows = []
    for f in facts:
        rows.append("  mkLF %s %s %s %s %s %s %s %s" % (coq_str(f["name"]), coq_str(f["file"]), "true" if f["takes_lock"] else "false",
                                                        "true" if f["balanced"] else "false", coq_list(f["unlocked_fields"]),
                                                        coq_list(f["unlocked_calls"]), coq_list(f["locked_calls"]), coq_list(f["mutex_calls"])))
    lines.append(";\n".join(rows))
    lines.append("].")
    lines.append("")
    lines.append("Definition lock_facts_missing : list string := %s." % coq_list(missing))
    txt = "\n".join(lines) + "\n"
    p = os.path.join(GEN, "LockFacts.v")
    old = open(p).read() if os.path.exists(p) else None
    if old != txt:
        open(p, "w").write(txt)
    json.dump(facts, open(os.path.join(ROOT, ".cache", "lockfacts.json"), "w"), indent=1)
    return 0


if __name__ == "__main__":
    sys.exit(main())
