"""End-to-end histories for C08 on the channel simulator (harness/sim.c, engine chan08).

A case is a simulator case line (harness/sim.h).  Every network answer is announced to the model
driver by a preceding `note ins id=<n> rc=<rcode> tc=<0|1> rr=<sect><TYPE>:<ttl>[:<min>],...` op in
the syntax of the qcache engine, followed by the simulator's own `rspall <spec>` and `run`.  The
response carries its id in the address of its A/AAAA records (10.1.hi.lo / fd00:1::<id>) or in the
SOA serial, so that a later cache hit can be attributed.

Histories: requests through ares_query_dnsrec / legacy ares_query / ares_search_dnsrec /
ares_send_dnsrec (with and without RD) / ares_getaddrinfo, repeated with other case, trailing dot,
type, API; answers with TTL mixes, CNAME chains, NXDOMAIN / NODATA with and without SOA (SOA TTL
above/below MINIMUM), TC (TCP retry, or accepted under igntc), SERVFAIL / REFUSED; clock advances
landing on expiry-1 / expiry / expiry+1 of what was cached; server-list edits (add, remove,
reorder, identical) and reinit; dns0x20 on/off; qcachettl 0 / 1 / 60 / 3600 / default.
"""

TTLS = [0, 1, 2, 5, 30, 60, 61, 300, 3599, 3600, 3601, 86400, 2 ** 31 - 1, 2 ** 32 - 1]
NAMES = ["www.example.com", "a.example.org", "host1.test.example", "x.y.z.example.net"]
SRV = ["10.0.0.1", "10.0.0.2", "10.0.0.3", "10.0.0.9"]


def variant(rng, name):
    v = rng.randrange(5)
    if v == 0:
        return name.upper()
    if v == 1:
        return name + "."
    if v == 2:
        return name.title()
    return name


def gen_answer(rng, nid, qtype):
    """returns (sim spec, note rr text, rcode, tc, lifetime or None if not cacheable)"""
    hi, lo = nid // 256, nid % 256
    a4 = "10.1.%d.%d" % (hi, lo)
    a6 = "fd00:1::%x" % nid
    r = rng.random()
    tc = 0
    an, ns, ar = [], [], []      # (TYPE, sim rdata, ttl, soa minimum or None)
    if r < 0.62:
        rcode = 0
        ttl = rng.choice(TTLS)
        if rng.random() < 0.2:
            an.append(("CNAME", "alias.example.com", rng.choice(TTLS), None))
        n = rng.choice([1, 1, 2, 3])
        for i in range(n):
            t = ttl if rng.random() < 0.7 else rng.choice(TTLS)
            if qtype == 28:
                an.append(("AAAA", "[%s]" % a6, t, None))
            else:
                an.append(("A", a4, t, None))
        if rng.random() < 0.3:
            ns.append(("NS", "ns1.example.com", rng.choice(TTLS), None))
        if rng.random() < 0.15:
            ar.append(("A", a4, rng.choice(TTLS), None))
    elif r < 0.85:
        rcode = 3 if rng.random() < 0.6 else 0       # NXDOMAIN / NODATA
        if rng.random() < 0.8:
            ttl = rng.choice(TTLS)
            mn = rng.choice([0, 1, 30, ttl, max(ttl - 1, 0), min(ttl + 1, 2 ** 32 - 1), 2 ** 32 - 1])
            ns.append(("SOA", "m.example.com:r.example.com:%d:2:3:4:%d" % (nid, mn), ttl, mn))
        if rng.random() < 0.15:
            an.append(("CNAME", "alias.example.com", rng.choice(TTLS), None))
    elif r < 0.93:
        rcode = rng.choice([2, 5, 4])
    else:
        rcode = 0
        tc = 1
        an.append(("A", a4, rng.choice(TTLS), None))

    def sim_rrs(l):
        return "+".join("%s:%s:%d" % (ty, rd, ttl) for (ty, rd, ttl, mn) in l)
    spec = ["rcode=%d" % rcode]
    if tc:
        spec.append("tc=1")
    for key, l in (("an", an), ("ns", ns), ("ar", ar)):
        if l:
            spec.append("%s=%s" % (key, sim_rrs(l)))
    note = ",".join("%s%s:%d%s" % (s, ty, ttl, (":%d" % mn) if mn is not None else "")
                    for s, l in (("n", an), ("a", ns), ("d", ar)) for (ty, rd, ttl, mn) in l) or "-"
    life = None
    if rcode in (0, 3) and not tc:
        if rcode == 3:
            soa = [x for x in ns if x[0] == "SOA"]
            life = min(soa[0][2], soa[0][3]) if soa else 0
        else:
            vals = [x[2] for x in an + ns + ar]
            life = min(vals) if vals else 2 ** 32 - 1
    return ",".join(spec), note, rcode, tc, life


def gen_case(rng, tier):
    qttl = rng.choice([None, None, 0, 1, 60, 3600, 3600, 86400])
    flags = rng.choice(["edns,dns0x20", "edns", "noedns", "dns0x20", "edns,igntc", None])
    nsrv = rng.choice([1, 1, 1, 2, 3])
    cfg = ["seed=%d" % rng.randrange(1, 1 << 30), "servers=%d" % nsrv, "idseq=%d" % rng.choice([100, 7000, 65000]),
           "tries=%d" % rng.choice([1, 2]), "timeout=2000"]
    if qttl is not None:
        cfg.append("qcachettl=%d" % qttl)
    if flags:
        cfg.append("flags=%s" % flags)
    eff_max = 3600 if qttl is None else qttl
    ops = []
    cur = ["10.0.0.%d" % (i + 1) for i in range(nsrv)]
    known = []          # (name, qtype, expiry in ms)
    clock = 1000000
    tok = 0
    nid = 0
    rounds = rng.choice([2, 3, 4, 6]) if tier != "thorough" else rng.choice([3, 6, 10])
    for _ in range(rounds):
        # time
        a = rng.random()
        if known and a < 0.55:
            exp = rng.choice(known)[2]
            target = exp + rng.choice([-2000, -1000, -1, 0, 1, 999, 1000])
            if target > clock:
                ops.append("adv %d" % (target - clock))
                clock = target
        elif a < 0.8:
            d = rng.choice([1, 500, 999, 1000, 1001, 5000, 60000, 3600000])
            ops.append("adv %d" % d)
            clock += d
        # reconfiguration
        b = rng.random()
        if b < 0.12:
            kind = rng.choice(["same", "add", "remove", "reorder", "replace"])
            new = list(cur)
            unused = [s for s in SRV if s not in cur]
            if kind == "add" and unused:
                new = cur + [rng.choice(unused)]
            elif kind == "remove" and len(cur) > 1:
                new = cur[:-1] if rng.random() < 0.5 else cur[1:]
            elif kind == "reorder" and len(cur) > 1:
                new = cur[1:] + cur[:1]
            elif kind == "replace" and unused:
                new = [rng.choice(unused)] + cur[1:]
            ops.append("setservers %s" % ",".join(new))
            cur = new
        elif b < 0.17:
            ops.append("reinit")
        # a batch of requests
        batch = rng.choice([1, 1, 2, 3])
        for _ in range(batch):
            if known and rng.random() < 0.7:
                name, qtype, _e = rng.choice(known)
                if rng.random() < 0.15:
                    qtype = 28 if qtype == 1 else 1
            else:
                name, qtype = rng.choice(NAMES), rng.choice([1, 1, 1, 28])
            nm = variant(rng, name)
            tname = "AAAA" if qtype == 28 else "A"
            api = rng.choice(["query", "query", "oquery", "search", "gai", "send", "sendnord"])
            tok += 1
            if tok > 1000:
                break
            if api == "query":
                ops.append("query %d %s IN %s" % (tok, nm, tname))
            elif api == "oquery":
                ops.append("oquery %d %s IN %s" % (tok, nm, tname))
            elif api == "search":
                ops.append("search %d %s IN %s rd" % (tok, nm, tname))
            elif api == "gai":
                ops.append("gai %d %s %d 0x80" % (tok, nm.rstrip(".") or nm, 6 if qtype == 28 else 4))
            elif api == "send":
                ops.append("send %d %s IN %s rd" % (tok, nm, tname))
            else:
                ops.append("send %d %s IN %s" % (tok, nm, tname))
        # answers: up to three rounds (TC -> TCP retry, SERVFAIL -> next server)
        for k in range(3):
            nid += 1
            spec, note, rcode, tc, life = gen_answer(rng, nid, qtype)
            if k == 2:
                spec, note, rcode, tc, life = "rcode=0,an=A:10.1.%d.%d:77" % (nid // 256, nid % 256), "nA:77", 0, 0, 77
            ops.append("note ins id=%d rc=%d tc=%d rr=%s" % (nid, rcode, tc, note))
            ops.append("rspall %s" % spec)
            ops.append("run")
            if life is not None and life > 0 and eff_max > 0:
                known.append((name, qtype, clock + min(life, eff_max) * 1000))
                known = known[-6:]
    return " ".join(cfg) + "|" + ";".join(ops)


def gen(rng, tier, n):
    return [gen_case(rng, tier) for _ in range(n)]
