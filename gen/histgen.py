"""History generator for the channel simulator, aimed at C01 (request lifecycle).

gen(rng, tier, n) -> list of case lines "<config>|<op>;<op>;..." (see harness/sim.h).

Every request uses a fresh token.  A request may carry a *script* (ops run from inside its
completion callback, `oncb T op`), registered before the request is submitted because a
request may complete synchronously.  Scripts nest (a request started from a callback may have
its own script).

Streams (the class is re-derived by the model driver from the case text):
  plain      requests + server behaviour + time, no reentrancy
  reentrant  callbacks start requests / cancel / change servers
  destroy    explicit destroy with requests pending (callbacks may try to re-submit / cancel)
  sockfail   `fail <call> <nth> <errno>` at every position, follow-up sends failing on the
             connection under read
  tcp        usevc / truncation -> TCP, reset / eof, chunked reads, short writes
  longname   search names whose escaped text exceeds 255 while the wire form fits
  syncsub    a sub-query of a compound request (AF_UNSPEC getaddrinfo / gethostbyname, search)
             completes synchronously inside the submitting call: query-cache hit on a repeated
             name (qcachettl>0), or a send that fails on the spot with the tries exhausted
             (tries=1 servers=1 + `fail sendto|socket|connect`), for the A leg, the AAAA leg or
             both, with scripts on the compound request (cancel / re-submit the same name)
  reconf     configuration that requests keep using comes from the system configuration
             (sysconf=lookups,domains + a resolv.conf written by the case: lookup order, search
             domains, ndots, sortlist; sometimes a hosts file) and is replaced by ares_reinit
             while requests of every kind are pending (ares_sysconfig_apply frees and replaces
             the channel's copies even when nothing changed); afterwards negative answers and
             timeouts make each request go back to its configuration-derived state (next
             lookup, next search domain, sort list, hosts path)
  crashers   close variations of the four defects of the pinned tree
"""

import os

A63 = "a" * 63
# nested ares_set_servers*() from callbacks (safe since c731cbd, fixes/C01-setservers-from-callback.patch);
# C01_NEST_SS=0 switches them off (trees without that fix)
NEST_SS = os.environ.get("C01_NEST_SS", "1") != "0"

KINDS = ["send", "query", "search", "gai", "ghbn", "ghba", "gni", "oquery", "osearch", "sendraw"]

RCODES = ["NOERROR", "NXDOMAIN", "SERVFAIL", "REFUSED", "NOTIMP", "FORMERR", "YXDOMAIN", "BADCOOKIE"]


class G:
    def __init__(self, rng, maxops):
        self.rng = rng
        self.maxops = maxops
        self.tok = 0
        self.ops = []
        self.nhost = 0
        self.ss_used = False   # at most one set_servers from a callback per history (no nesting)
        self.cached = []       # names likely to sit in the query cache (syncsub stream)
        self.sync = False

    def fresh(self):
        t = self.tok
        self.tok += 1
        return t

    def host(self):
        self.nhost += 1
        r = self.rng.random()
        if self.sync and self.cached and r < 0.5:
            return self.rng.choice(self.cached)
        r = self.rng.random()
        if r < 0.55:
            return "h%d.example" % self.nhost
        if r < 0.75:
            return "h%d" % self.nhost          # single label: search list applies
        if r < 0.85:
            return "h%d.sub.example." % self.nhost
        if r < 0.90:
            return "cache.example"            # repeated name: query cache hits
        if r < 0.93:
            return "localhost"
        if r < 0.96:
            return "x%d.onion" % self.nhost
        return "10.1.2.%d" % (self.nhost % 250)

    def longname(self):
        """text form > 255 (escapes), wire form <= 255 once the domain is appended or not"""
        rng = self.rng
        last = rng.choice([40, 50, 54, 55, 56, 57, 58, 59, 60, 61])
        nesc = rng.choice([0, 1, 1, 2, 5])
        lab = "\\097" * nesc + "a" * max(1, last - nesc)
        n3 = rng.choice([3, 3, 3, 2])
        return ".".join([A63] * n3 + [lab])

    def request(self, tok, kind=None, name=None):
        rng = self.rng
        kind = kind or (rng.choice(["gai", "gai", "ghbn", "search", "query", "send"]) if self.sync and rng.random() < 0.6
                        else rng.choice(KINDS))
        name = name or self.host()
        qt = rng.choice(["A", "A", "AAAA", "MX", "TXT", "PTR"])
        if kind == "send":
            return "send %d %s IN %s %s" % (tok, name, qt, rng.choice(["rd", "rd", "", "rd edns", "rd edns=1232"]))
        if kind == "sendraw":
            return "sendraw %d %s" % (tok, rng.choice([
                "123401000001000000000000016103636f6d0000010001",
                "00", "1234010000010000000000000161", "abcd01000001000000000000037777770765786d706c6503636f6d0000010001"]))
        if kind in ("query", "oquery"):
            return "%s %d %s IN %s" % (kind, tok, name, qt)
        if kind == "search":
            return "search %d %s IN %s %s" % (tok, name, qt, rng.choice(["rd", "rd", "rd edns"]))
        if kind == "osearch":
            return "osearch %d %s IN %s" % (tok, name, qt)
        if kind == "gai":
            fam = rng.choice([0, 0, 0, 4, 6]) if not self.sync else rng.choice([0, 0, 0, 0, 4, 6])
            flags = rng.choice(["0x80", "0x80", "0", "0x82", "0x180"])
            svc = rng.choice(["", "", " 80", " http", " -"])
            return "gai %d %s %d %s%s" % (tok, name, fam, flags, svc)
        if kind == "ghbn":
            return "ghbn %d %s %d" % (tok, name, rng.choice([4, 6, 0]) if not self.sync else rng.choice([0, 0, 0, 4, 6]))
        hi = 3 if self.sync else 200          # syncsub: few addresses, so that PTR answers come from the cache
        if kind == "ghba":
            return "ghba %d %s" % (tok, rng.choice(["10.11.12.%d" % rng.randint(1, hi), "fd00::%x" % rng.randint(1, 5 * hi)]))
        if kind == "gni":
            return "gni %d %s %d %s" % (tok, rng.choice(["10.11.12.%d" % rng.randint(1, hi), "fd00::%x" % rng.randint(1, 5 * hi)]),
                                         rng.choice([0, 53, 80]), rng.choice(["0x0", "0x0", "0x8", "0x4", "0x4", "0x3", "0x1a", "0x300", "0x304", "0x104", "0x200", "0x308"]))
        raise ValueError(kind)

    def script_ops(self, depth, allow):
        """ops to run from a callback: list of op strings (top-level syntax)"""
        rng = self.rng
        out = []
        pre = []
        k = rng.choice([1, 1, 1, 2, 3])
        for _ in range(k):
            r = rng.random()
            if r < 0.45 and "req" in allow:
                t = self.fresh()
                if depth < 3 and rng.random() < 0.35:
                    pre += self.with_script(t, depth + 1, allow)
                out.append(self.request(t))
            elif r < 0.75 and "cancel" in allow:
                out.append("cancel")
            elif r < 0.82 and "setservers" in allow and (not self.ss_used or NEST_SS):
                self.ss_used = True
                # (a list with a comma cannot be written inside a script: the comma separates the script's words)
                out.append("setservers %s" % rng.choice(["10.0.0.9", "10.0.0.1", "10.0.0.2", "-"]))
            elif r < 0.9:
                out.append(rng.choice(["qlen", "fds", "tmo"]))
            elif "req" in allow:
                t = self.fresh()
                out.append(self.request(t, kind=rng.choice(["search", "gai", "send"])))
        return pre, out

    def with_script(self, tok, depth, allow):
        """returns the list of `oncb` ops (and nested ones) registering a script for tok"""
        pre, ops = self.script_ops(depth, allow)
        return pre + ["oncb %d %s" % (tok, o.replace(" ", ",")) for o in ops]

    def rsp_spec(self):
        rng = self.rng
        r = rng.random()
        if r < 0.30:
            return "an=A:1.2.3.%d:%d" % (rng.randint(1, 250), rng.choice([0, 1, 60, 300]))
        if r < 0.40:
            return "an=AAAA:[2001:db8::%x]:60" % rng.randint(1, 999)
        if r < 0.45:
            return "an=PTR:host%d.example:120" % rng.randint(1, 99)
        if r < 0.50:
            return "an=CNAME:real.example:30+A:9.9.9.9:60@real.example"
        if r < 0.75:
            return "rcode=%s" % rng.choice(RCODES)
        if r < 0.80:
            return "rcode=NOERROR"                       # NODATA
        if r < 0.86:
            return "tc=1"
        if r < 0.89:
            return "rcode=FORMERR,noopt=1"
        if r < 0.92:
            return "id=+1,an=A:6.6.6.6"
        if r < 0.94:
            return "qname=other.example,an=A:6.6.6.8"
        if r < 0.96:
            return "trunc=%d" % rng.choice([1, 5, 11, 12, 20])
        if r < 0.98:
            return "dup=2,an=A:1.1.1.1"
        return "cookie=bad,rcode=BADCOOKIE"

    def net_op(self):
        rng = self.rng
        r = rng.random()
        if r < 0.45:
            return "rspall " + self.rsp_spec()
        if r < 0.70:
            return "rsp %s %s" % (rng.choice(["xl", "xl", "xl-1", "xl-2", "x0", "x1", "x2"]), self.rsp_spec())
        if r < 0.78:
            return "raw s%d %s" % (rng.randint(0, 3), rng.choice(["00", "0001", "ffff", "00020000", "000c123481800001000000000000"]))
        if r < 0.82:
            return "zerolen s%d" % rng.randint(0, 2)
        if r < 0.90:
            return "reset s%d" % rng.randint(0, 3)
        return "eof s%d" % rng.randint(0, 3)

    def proc_op(self):
        rng = self.rng
        r = rng.random()
        if r < 0.45:
            return "proc"
        if r < 0.70:
            return "run"
        if r < 0.80:
            return "proct"
        if r < 0.88:
            return "procsel"
        if r < 0.94:
            return "procfd r%d w%d" % (rng.randint(0, 3), rng.randint(0, 3))
        return "writable s%d" % rng.randint(0, 2)

    def fail_op(self):
        rng = self.rng
        call = rng.choice(["sendto", "sendto", "sendto", "socket", "connect", "recvfrom", "recvfrom", "getsockname", "setsockopt", "close", "bind"])
        err = rng.choice(["ECONNREFUSED", "ECONNRESET", "EAGAIN", "ENETUNREACH", "EMFILE", "EINTR", "EPIPE", "EACCES", "EAFNOSUPPORT", "EINPROGRESS"])
        return "fail %s %d %s" % (call, rng.choice([1, 1, 1, 2, 3, 5]), err)


def config(rng, stream):
    c = ["lctrace=1", "serverstatecb=1"]
    c.append("seed=%d" % rng.randint(1, 10 ** 6))
    ns = rng.choice([1, 1, 1, 2, 3]) if stream != "syncsub" else rng.choice([1, 1, 1, 2])
    c.append("servers=%d" % ns)
    if rng.random() < 0.15:
        c.append("servers6=1")
    flags = set()
    if stream == "tcp" and rng.random() < 0.6:
        flags.add("usevc")
    for f, p in (("stayopen", 0.25), ("noedns", 0.45), ("edns", 0.2), ("igntc", 0.08), ("nocheckresp", 0.1),
                 ("dns0x20", 0.1), ("nosearch", 0.08), ("primary", 0.05), ("norecurse", 0.05)):
        if rng.random() < p:
            flags.add(f)
    if "noedns" in flags and "edns" in flags:
        flags.discard("edns")
    if flags or rng.random() < 0.5:
        c.append("flags=" + ",".join(sorted(flags) or ["none"]))
    c.append("tries=%d" % (rng.choice([1, 1, 2, 2, 3]) if stream != "syncsub" else rng.choice([1, 1, 1, 2])))
    c.append("timeout=%d" % rng.choice([100, 500, 1000, 2000]))
    if rng.random() < 0.2:
        c.append("maxtimeout=%d" % rng.choice([1000, 3000]))
    if rng.random() < 0.3:
        c.append("udpmaxq=%d" % rng.choice([1, 1, 2, 3]))
    if rng.random() < 0.6 or stream == "longname":
        c.append("domains=" + rng.choice(["d.test", "a.test,b.test", "corp.test", "a.test,b.test,c.test", "."]))
        c.append("ndots=%d" % rng.choice([1, 1, 2, 5]))
    if stream == "syncsub":
        c.append("qcachettl=%d" % rng.choice([3600, 3600, 60, 0]))
    elif rng.random() < 0.35:
        c.append("qcachettl=%d" % rng.choice([0, 0, 60, 3600]))
    if rng.random() < 0.25:
        c.append("rotate=1")
    if rng.random() < 0.2:
        c.append("lookups=%s" % rng.choice(["bf", "fb", "f", "b"]))
    if rng.random() < 0.15:
        c.append("failover=%d,%d" % (rng.choice([1, 2, 10]), rng.choice([0, 100, 5000])))
    if stream == "tcp":
        if rng.random() < 0.3:
            c.append("connectlater=1")
        if rng.random() < 0.3:
            c.append("chunk=%s" % rng.choice(["1", "3,1,100", "2"]))
        if rng.random() < 0.3:
            c.append("wpat=%s" % rng.choice(["5,0,1000", "1", "0,1000"]))
        if rng.random() < 0.2:
            c.append("tfo=1")
        if rng.random() < 0.2:
            c.append("pendingwritecb=1")
    if rng.random() < 0.15:
        c.append("sockstatecb=1")
    return " ".join(c)


def hexof(text):
    return "".join("%02x" % b for b in text.encode())


def rc_text(rng):
    """a resolv.conf: lookup order (overridden by /etc/nsswitch.conf where that exists), search list, ndots, sortlist"""
    lines = ["lookup " + rng.choice(["bind", "bind file", "file bind", "bind files", "dns local", "file"]),
             "search " + rng.choice(["a.test b.test", "d.test", "corp.test x.test y.test", "s.test ."])]
    if rng.random() < 0.5:
        lines.append("options ndots:%d" % rng.choice([1, 2, 3]))
    if rng.random() < 0.6:
        lines.append("sortlist " + rng.choice(["10.0.0.0/255.0.0.0", "1.2.3.0/24 9.9.9.0/24", "130.155.160.0/255.255.240.0 130.155.0.0"]))
    rng.shuffle(lines)
    return "\n".join(lines) + "\n"


def reconf_config(rng):
    c = ["lctrace=1", "serverstatecb=1", "seed=%d" % rng.randint(1, 10 ** 6), "servers=%d" % rng.choice([1, 1, 2])]
    flags = [f for f, p in (("stayopen", 0.2), ("noedns", 0.5), ("nocheckresp", 0.1)) if rng.random() < p]
    c.append("flags=" + ",".join(sorted(flags) or ["none"]))
    c.append("tries=%d" % rng.choice([1, 1, 2]))
    c.append("timeout=%d" % rng.choice([100, 500]))
    c.append("sysconf=%s" % rng.choice(["lookups", "lookups", "lookups,domains", "lookups,domains", "domains"]))
    if rng.random() < 0.3:
        c.append("ndots=%d" % rng.choice([1, 2]))
    if rng.random() < 0.5:
        c.append("qcachettl=0")
    c.append("resolvconf=@/rc")
    c.append("writefile=@/rc:" + hexof(rc_text(rng)))
    if rng.random() < 0.12:
        # a hosts file (the model assumes an empty one: these cases are judged by monitor and sanitizers only)
        c.append("hosts=@/h")
        c.append("writefile=@/h:" + hexof("10.11.12.1 filehost.example fh\n127.0.0.1 localhost\n"))
    return " ".join(c)


def reconf_history(rng, maxops):
    g = G(rng, maxops)
    ops = g.ops
    NEG = ["rcode=NXDOMAIN", "rcode=NXDOMAIN", "rcode=SERVFAIL", "rcode=NOERROR", "rcode=REFUSED", "rcode=NOTIMP"]

    def submit(k, p_script):
        for _ in range(k):
            t = g.fresh()
            if rng.random() < p_script:
                if rng.random() < 0.7:
                    # configuration-independent script (the model driver replays these)
                    t2 = g.fresh()
                    ops.append("oncb %d %s" % (t, rng.choice(["cancel", g.request(t2, rng.choice(["send", "query", "oquery"])).replace(" ", ",")])))
                else:
                    ops.extend(g.with_script(t, 1, {"req", "cancel"}))
            kind = rng.choice(["ghba", "ghba", "gni", "gni", "gai", "gai", "ghbn", "search", "osearch", "query", "send"])
            name = rng.choice(["h%d" % t, "h%d" % t, "h%d.example" % t, "h%d.sub" % t, "localhost"]) if kind in ("gai", "ghbn", "search", "osearch") else None
            ops.append(g.request(t, kind, name))

    def negatives(k):
        for _ in range(k):
            r = rng.random()
            if r < 0.7:
                ops.append("rspall " + rng.choice(NEG))
                ops.append(rng.choice(["run", "run", "proc"]))
            elif r < 0.9:
                ops.append("adv %d" % rng.choice([500, 1000, 2500]))
                ops.append(rng.choice(["proct", "run"]))
            else:
                ops.append("rspall " + rng.choice(["an=A:1.2.3.4:60+A:9.9.9.9:60+A:10.1.1.1:60", "an=PTR:host1.example:60", "an=AAAA:[2001:db8::1]:60"]))
                ops.append("run")

    ops.append("effcfg")
    submit(rng.choice([1, 2, 3, 5]), 0.3)
    if rng.random() < 0.4:
        negatives(1)
    for _ in range(rng.choice([1, 1, 2, 3])):
        if rng.random() < 0.6:
            ops.append("writefile @/rc " + hexof(rc_text(rng)))
        ops.append("reinit")
        if rng.random() < 0.3:
            ops.append("reinit")
        ops.append("effcfg")
        if rng.random() < 0.5:
            submit(rng.choice([1, 2]), 0.2)
        negatives(rng.choice([1, 2, 3, 4]))
        if len(ops) > maxops:
            break
    r = rng.random()
    if r < 0.2:
        ops.append("cancel")
    elif r < 0.3:
        ops.append("destroy")
    else:
        negatives(rng.choice([2, 4, 6]))
    return ops


def history(rng, stream, maxops):
    g = G(rng, maxops)
    ops = g.ops
    n = rng.choice([3, 6, 10, 20, maxops])
    allow = {
        "plain": set(),
        "reentrant": {"req", "cancel"},
        "reentrant-ss": {"req", "cancel", "setservers"} if NEST_SS else {"req", "cancel"},
        "destroy": {"req", "cancel"},
        "sockfail": {"req", "cancel"},
        "tcp": {"req", "cancel"},
        "longname": {"req", "cancel"},
        "syncsub": {"req", "cancel"},
    }[stream]
    p_script = {"plain": 0.0, "reentrant": 0.6, "reentrant-ss": 0.6, "destroy": 0.5, "sockfail": 0.35, "tcp": 0.3, "longname": 0.3, "syncsub": 0.5}[stream]
    destroyed = False
    if stream == "syncsub":
        g.sync = True
        n += 6
        ops += syncsub_prefix(g)
    while len(ops) < n:
        r = rng.random()
        if r < 0.38:
            t = g.fresh()
            if rng.random() < p_script:
                ops += g.with_script(t, 1, allow)
            kind = None
            name = None
            if stream == "longname" and rng.random() < 0.7:
                kind = rng.choice(["search", "search", "osearch", "gai", "ghbn"])
                name = g.longname()
            ops.append(g.request(t, kind, name))
        elif r < 0.44 and stream == "syncsub":
            ops += syncsub_step(g, p_script, allow)
        elif r < 0.58:
            ops.append(g.net_op())
        elif r < 0.78:
            ops.append(g.proc_op())
        elif r < 0.86:
            ops.append("adv %d" % rng.choice([1, 99, 100, 500, 999, 1000, 1001, 2000, 5000, 40000, 61000]))
            if rng.random() < 0.7:
                ops.append(rng.choice(["proct", "proc", "run"]))
        elif r < 0.90:
            ops.append("cancel")
        elif r < 0.93 and stream in ("sockfail", "tcp", "reentrant", "destroy", "syncsub"):
            ops.append(g.fail_op())
        elif r < 0.94 and stream == "sockfail":
            ops.append(g.fail_op())
        elif r < 0.955:
            ops.append(rng.choice(["qlen", "fds", "getsock", "tmo", "servers"]))
        elif r < 0.965 and (stream not in ("plain", "reentrant-ss") or (NEST_SS and stream != "plain")):
            ops.append("setservers %s" % rng.choice(["10.0.0.9", "10.0.0.1,10.0.0.7", "-"]))
        elif r < 0.975 and stream == "tcp":
            ops.append(rng.choice(["connected s0", "connfail s0", "connected s1", "connectlater 1", "flushwrites", "chunk s0 1", "wpat s0 3,0,1000"]))
        elif r < 0.985 and stream in ("destroy", "syncsub") and not destroyed and len(ops) > 2:
            ops.append("destroy")
            destroyed = True
        else:
            ops.append(g.proc_op())
    if stream == "sockfail" and rng.random() < 0.5:
        # follow-up send failing on the connection under read: answer pending, next sendto fails
        t = g.fresh()
        ops += ["oncb %d %s" % (t, g.request(g.fresh(), kind=rng.choice(["send", "query", "gai"])).replace(" ", ","))] if rng.random() < 0.5 else []
        ops.append(g.request(t, kind=rng.choice(["search", "gai", "ghbn", "send"]), name="h%d" % (900 + t)))
        ops.append("rspall " + rng.choice(["rcode=NXDOMAIN", "rcode=NOERROR", "rcode=SERVFAIL", "an=A:1.1.1.1"]))
        ops.append("fail sendto %d %s" % (rng.choice([1, 1, 2]), rng.choice(["ECONNREFUSED", "EPIPE", "ENETUNREACH", "EAGAIN"])))
        ops.append(rng.choice(["proc", "run"]))
    if stream == "destroy" and not destroyed and rng.random() < 0.7:
        ops.append("destroy")
    if rng.random() < 0.3:
        ops.append("rspall an=A:7.7.7.7")
        ops.append("run")
    return ops


def syncsub_prefix(g):
    """fill the query cache for one or two names: A only, AAAA only, or both legs"""
    rng = g.rng
    ops = []
    for _ in range(rng.choice([1, 1, 2])):
        name = rng.choice(["c%d.example" % rng.randint(0, 3), "c%d" % rng.randint(0, 3), "c%d.sub.example." % rng.randint(0, 1)])
        how = rng.choice(["both", "both", "a", "aaaa", "neg"])
        t = g.fresh()
        if how == "both":
            ops.append(g.request(t, rng.choice(["gai", "ghbn"]), name))
        elif how == "a":
            ops.append("query %d %s IN A" % (t, name))
        elif how == "aaaa":
            ops.append("query %d %s IN AAAA" % (t, name))
        else:
            ops.append(g.request(t, rng.choice(["gai", "search"]), name))
        if how == "neg":
            ops.append("rspall rcode=%s" % rng.choice(["NXDOMAIN", "NOERROR"]))
        else:
            ops.append("rspall an=A:1.2.3.%d:%d" % (rng.randint(1, 250), rng.choice([60, 300, 300, 1])))
        ops.append(rng.choice(["run", "run", "proc"]))
        if rng.random() < 0.3:
            ops += ["rspall an=AAAA:[2001:db8::%x]:300" % rng.randint(1, 99), "run"]
        g.cached.append(name)
    return ops


def syncsub_step(g, p_script, allow):
    """a compound request one of whose legs ends inside the submitting call"""
    rng = g.rng
    ops = []
    t = g.fresh()
    if rng.random() < p_script:
        r = rng.random()
        if r < 0.3:
            ops.append("oncb %d cancel" % t)
        elif r < 0.6 and g.cached:
            # re-submit a cached name from the callback: nested synchronous completions
            t2 = g.fresh()
            if rng.random() < 0.4:
                ops.append("oncb %d cancel" % t2)
            ops.append("oncb %d %s" % (t, g.request(t2, rng.choice(["gai", "ghbn"]), rng.choice(g.cached)).replace(" ", ",")))
        else:
            ops += g.with_script(t, 1, allow)
    r = rng.random()
    if r < 0.55:
        # send failing on the spot: first leg, second leg, or (udpmaxq / fresh socket) the open
        call = rng.choice(["sendto", "sendto", "sendto", "socket", "connect", "bind", "getsockname"])
        err = rng.choice(["ECONNREFUSED", "ECONNREFUSED", "EPIPE", "ENETUNREACH", "EMFILE", "EACCES", "EAGAIN"])
        ops.append("fail %s %d %s" % (call, rng.choice([1, 1, 2, 2, 3]), err))
        if rng.random() < 0.3:
            ops.append("fail %s %d %s" % (rng.choice(["sendto", "socket"]), rng.choice([1, 2]), rng.choice(["ECONNREFUSED", "EMFILE"])))
    kind = rng.choice(["gai", "gai", "gai", "ghbn", "ghbn", "search", "ghba", "gni"])
    name = rng.choice(g.cached) if g.cached and rng.random() < 0.7 else None
    ops.append(g.request(t, kind, name))
    if rng.random() < 0.5:
        ops.append("rspall " + rng.choice(["an=A:1.2.3.4:300", "an=AAAA:[2001:db8::1]:300", "rcode=NXDOMAIN", "rcode=SERVFAIL", "rcode=NOERROR",
                                           "an=PTR:host1.example:300"]))
        ops.append(rng.choice(["run", "proc"]))
    return ops


def crasher(rng):
    """variations around the four defects of the pinned tree"""
    k = rng.randint(0, 7)
    cfg = "lctrace=1 serverstatecb=1 servers=%d tries=%d" % (rng.choice([1, 1, 2]), rng.choice([1, 2]))
    if k == 0:
        kind = rng.choice(["send", "query", "search", "gai", "ghbn", "oquery"])
        g = G(rng, 10)
        req = g.request(1, kind, "a%d.example" % rng.randint(0, 9))
        rsp = rng.choice(["an=A:1.1.1.1", "rcode=NXDOMAIN", "rcode=SERVFAIL", "rcode=NOERROR"])
        return cfg + "|oncb 1 cancel;%s;send 2 b.example IN A rd;rspall %s;%s" % (req, rsp, rng.choice(["proc", "run"]))
    if k == 1:
        return cfg + "|send 1 a.example IN A rd;adv 100000;oncb 1 cancel;send 2 b.example IN A rd;proct;proct;proct;proct"
    if k == 2:
        return cfg + "|search 0 h0 IN A rd;gai 2 h2.example 0 0x80;oncb %d cancel;oncb 2 send,5,x.example,IN,A,rd" % rng.choice([0, 2])
    if k == 3:
        what = rng.choice(["gai,5,n2.example,0,0", "send,5,n2.example,IN,A,rd", "search,5,n2,IN,A,rd", "ghba,5,10.1.1.1"])
        return cfg + "|send 3 h3.example IN A rd;oncb 3 %s;%s" % (what, rng.choice(["destroy", "note end"]))
    if k == 4:
        return cfg + " domains=d.test ndots=%d|search 1 %s.%s.%s.\\097%s IN A rd;rspall rcode=3;run;rspall rcode=3;run" % (
            rng.choice([1, 5]), A63, A63, A63, "a" * rng.choice([53, 54, 55, 56]))
    if k == 5:
        return "lctrace=1 serverstatecb=1 servers=1 tries=1|oncb 1 cancel;send 1 p.example IN A rd;send 3 r.example IN A rd;fail sendto 1 %s;send 2 q.example IN A rd" % rng.choice(["ECONNREFUSED", "EPIPE"])
    if k == 6:
        dom = rng.choice(["a.test", "a.test,b.test"])
        kind = rng.choice(["search 1 host IN A rd", "gai 1 host 0 0x80", "ghbn 1 host 4"])
        return "lctrace=1 serverstatecb=1 servers=%d domains=%s|%s;rspall rcode=NXDOMAIN;fail sendto %d ECONNREFUSED;%s;rspall an=A:1.1.1.1;run" % (
            rng.choice([1, 2]), dom, kind, rng.choice([1, 2]), rng.choice(["proc", "run"]))
    return cfg + "|send 0 h0.example IN A rd;oncb 0 cancel;send 1 h1.example IN A rd;rspall %s;run" % rng.choice(["rcode=3", "an=A:1.1.1.1", "rcode=2"])


def gen(rng, tier, n):
    maxops = 40 if tier in ("quick", "search") else 150
    streams = ["plain"] * 3 + ["reentrant"] * 4 + ["destroy"] * 2 + ["sockfail"] * 3 + ["tcp"] * 2 + ["longname"] + ["reentrant-ss"] + ["syncsub"] * 3 + ["reconf"] * 2
    out = []
    for i in range(n):
        if i % 25 == 24:
            out.append(crasher(rng))
            continue
        stream = streams[i % len(streams)]
        if stream == "reconf":
            out.append(reconf_config(rng) + "|" + ";".join(reconf_history(rng, maxops)))
            continue
        cfg = config(rng, stream)
        ops = history(rng, stream, maxops)
        out.append(cfg + "|" + ";".join(ops))
    return out


if __name__ == "__main__":
    import random
    import sys
    seed = int(sys.argv[1]) if len(sys.argv) > 1 else 1
    n = int(sys.argv[2]) if len(sys.argv) > 2 else 20
    tier = sys.argv[3] if len(sys.argv) > 3 else "quick"
    for c in gen(random.Random(seed), tier, n):
        print(c)
