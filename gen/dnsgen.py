"""Case generator of the wire engine (C02 / C04 / C03): DNS messages as hex.

Structure-aware stream (every supported RR type, OPT / SVCB option TLVs including at the very
end of the buffer, nested / chained compression pointers, pointer to pointer, pointer loops,
forward pointers, label lengths 63/64, names of 253..256 octets, RDLENGTH off by one, section
counts that disagree with the content, truncation at every offset of a seed) + a mutation
stream (bit flips, length-field +-1, pointer retargeting) + the repository's
test/fuzzinput/* (messages) and test/fuzznames/* (presentation names) as seeds, read at run
time from $VERIF_REPO.  Every random choice comes from the `rng` passed in.

Case text:  p:<parseflags>|<hex>      n:<enc>:<alen>:<want>|<hex>     s:<enc>:<alen>:<want>|<hex>
"""
import glob
import os

REPO = os.environ.get("VERIF_REPO", "/repo")

T_A, T_NS, T_CNAME, T_SOA, T_PTR, T_HINFO, T_MX, T_TXT, T_SIG, T_AAAA, T_SRV, T_NAPTR, T_OPT, T_TLSA, T_SVCB, T_HTTPS, \
    T_ANY, T_URI, T_CAA = 1, 2, 5, 6, 12, 13, 15, 16, 24, 28, 33, 35, 41, 52, 64, 65, 255, 256, 257
KNOWN = [T_A, T_NS, T_CNAME, T_SOA, T_PTR, T_HINFO, T_MX, T_TXT, T_SIG, T_AAAA, T_SRV, T_NAPTR, T_OPT, T_TLSA, T_SVCB,
         T_HTTPS, T_URI, T_CAA]
UNKNOWN_TYPES = [0, 3, 4, 10, 11, 17, 25, 29, 39, 43, 46, 47, 48, 99, 250, 251, 252, 254, 258, 32768, 65280, 65535]
CLASSES = [1, 1, 1, 1, 3, 4, 254, 255, 0, 2, 5, 256, 65535]


def be16(v):
    return bytes([(v >> 8) & 255, v & 255])


def be32(v):
    return bytes([(v >> 24) & 255, (v >> 16) & 255, (v >> 8) & 255, v & 255])


_seed_cache = {}


def seed_messages():
    if "msgs" not in _seed_cache:
        out = []
        for p in sorted(glob.glob(os.path.join(REPO, "test", "fuzzinput", "*"))):
            try:
                b = open(p, "rb").read()
            except OSError:
                continue
            if 0 < len(b) <= 4096:
                out.append(b)
        _seed_cache["msgs"] = out
    return _seed_cache["msgs"]


def seed_names():
    if "names" not in _seed_cache:
        out = []
        for p in sorted(glob.glob(os.path.join(REPO, "test", "fuzznames", "*"))):
            try:
                b = open(p, "rb").read()
            except OSError:
                continue
            if len(b) <= 600:
                out.append(b)
        _seed_cache["names"] = out
    return _seed_cache["names"]


# ------------------------------------------------------------------------------------------
# labels and names
# ------------------------------------------------------------------------------------------
HOSTCH = b"abcdefghijklmnopqrstuvwxyzABCDEFGHIJKLMNOPQRSTUVWXYZ0123456789-_"
WORDS = [b"www", b"example", b"com", b"org", b"net", b"mail", b"ns1", b"a", b"b", b"xn--bcher-kva", b"_sip", b"_tcp",
         b"in-addr", b"arpa", b"ip6", b"Example", b"COM", b"*", b"a/24"]


def rand_label(rng, kind=None):
    kind = kind or rng.choice(["word", "word", "word", "host", "host", "weird", "bin", "max", "one"])
    if kind == "word":
        return rng.choice(WORDS)
    if kind == "host":
        return bytes(rng.choice(HOSTCH) for _ in range(rng.choice([1, 2, 3, 5, 8, 12, 20])))
    if kind == "weird":  # printable but reserved / needs escaping
        return bytes(rng.choice(b'".;\\()@$ a~!') for _ in range(rng.randint(1, 6)))
    if kind == "bin":
        return bytes(rng.randrange(256) for _ in range(rng.randint(1, 6)))
    if kind == "max":
        return bytes(rng.choice(HOSTCH) for _ in range(63))
    return bytes([rng.choice(HOSTCH)])


def rand_labels(rng, hostish=False):
    n = rng.choice([0, 1, 2, 2, 3, 3, 4, 6])
    if hostish:
        return [rand_label(rng, rng.choice(["word", "host", "one"])) for _ in range(n)]
    return [rand_label(rng) for _ in range(n)]


def labels_of_len(rng, total):
    """labels whose wire encoding (with the root octet) has exactly `total` octets (total >= 1)"""
    out = []
    rem = total - 1
    while rem > 0:
        if rem == 1:
            # cannot have an empty label: enlarge the previous one if possible
            if out and len(out[-1]) < 63:
                out[-1] = out[-1] + b"z"
                rem -= 1
                continue
            break
        ln = min(63, rem - 1, rng.choice([63, 63, 30, 7, 1]))
        out.append(bytes(rng.choice(HOSTCH) for _ in range(ln)))
        rem -= ln + 1
    return out


def enc_labels(labels):
    b = b""
    for l in labels:
        b += bytes([len(l) & 255]) + l
    return b


class Msg:
    """A message under construction, with a table of name suffix offsets for compression."""

    def __init__(self, rng, compress=0.5):
        self.rng = rng
        self.b = bytearray()
        self.names = {}   # tuple(labels) -> offset
        self.compress = compress
        self.name_offsets = []   # offsets at which some name (or suffix) starts
        self.ptr_offsets = []    # offsets of compression pointers
        self.len_offsets = []    # offsets of 16-bit length fields (rdlength, option length)
        self.len8_offsets = []   # offsets of 8-bit length fields

    def pos(self):
        return len(self.b)

    def add(self, bs):
        self.b += bs

    def name(self, labels, compress=None):
        rng = self.rng
        compress = self.compress if compress is None else compress
        labels = list(labels)
        i = 0
        while i < len(labels):
            suf = tuple(labels[i:])
            if suf in self.names and self.names[suf] < 0x4000 and rng.random() < compress:
                self.ptr_offsets.append(self.pos())
                self.add(be16(0xC000 | self.names[suf]))
                return
            if self.pos() < 0x4000:
                self.names.setdefault(suf, self.pos())
            self.name_offsets.append(self.pos())
            self.len8_offsets.append(self.pos())
            self.add(bytes([len(labels[i]) & 255]) + labels[i])
            i += 1
        self.add(b"\0")

    def raw_pointer(self, off):
        self.ptr_offsets.append(self.pos())
        self.add(be16(0xC000 | (off & 0x3FFF)))


def charstr(rng, m=None, printable=True, maxlen=40):
    ln = rng.choice([0, 1, 3, 10, maxlen]) if m is None else m
    if printable:
        return bytes(rng.randrange(0x20, 0x7F) for _ in range(ln))
    return bytes(rng.randrange(256) for _ in range(ln))


def opt_tlvs(rng, msg, svcb=False):
    """option / SvcParam TLVs appended to msg"""
    n = rng.choice([0, 0, 1, 1, 2, 3, 5])
    codes = []
    for _ in range(n):
        if svcb:
            code = rng.choice([0, 1, 2, 3, 4, 5, 6, 7, 65280, 65535, rng.randrange(65536)])
        else:
            code = rng.choice([3, 8, 9, 10, 10, 11, 12, 15, 15, 65001, rng.randrange(65536)])
        if codes and rng.random() < 0.15:
            code = rng.choice(codes)   # duplicate option code
        codes.append(code)
        ln = rng.choice([0, 0, 1, 2, 4, 8, 16, 24, 40])
        msg.add(be16(code))
        msg.len_offsets.append(msg.pos())
        msg.add(be16(ln))
        msg.add(bytes(rng.randrange(256) for _ in range(ln)))


def rdata(rng, msg, t, pool, valid=False):
    """append RDATA of type t to msg; returns nothing (caller patches RDLENGTH)"""
    def nz(choices):
        """a length: zero (often invalid) only rarely in the valid stream"""
        v = rng.choice(choices)
        if valid and v == 0 and rng.random() < 0.95:
            v = max(c for c in choices)
        return v

    def pr(p):
        return True if (valid and rng.random() < 0.97) else rng.random() < p

    def nm(comp=None):
        labels = rng.choice(pool) if (pool and rng.random() < 0.6) else rand_labels(rng)
        if rng.random() < 0.3 and pool:
            labels = [rand_label(rng)] + list(rng.choice(pool))
        msg.name(labels, comp)
    if t == T_A:
        msg.add(bytes(rng.randrange(256) for _ in range(4)))
    elif t == T_AAAA:
        msg.add(bytes(rng.randrange(256) for _ in range(16)))
    elif t in (T_NS, T_CNAME, T_PTR):
        nm()
    elif t == T_SOA:
        nm()
        nm()
        for _ in range(5):
            msg.add(be32(rng.choice([0, 1, 3600, 0x7FFFFFFF, 0x80000000, 0xFFFFFFFF, rng.randrange(1 << 32)])))
    elif t == T_HINFO:
        for _ in range(2):
            s = charstr(rng, printable=pr(0.93))
            msg.len8_offsets.append(msg.pos())
            msg.add(bytes([len(s)]) + s)
    elif t == T_MX:
        msg.add(be16(rng.randrange(65536)))
        nm()
    elif t == T_TXT:
        for _ in range(rng.choice([1, 1, 2, 3, 6])):
            s = charstr(rng, m=rng.choice([0, 1, 5, 20, 255]), printable=rng.random() < 0.7)
            msg.len8_offsets.append(msg.pos())
            msg.add(bytes([len(s)]) + s)
    elif t == T_SIG:
        msg.add(be16(rng.randrange(65536)) + bytes([rng.randrange(256), rng.randrange(256)]))
        msg.add(be32(rng.randrange(1 << 32)) + be32(rng.randrange(1 << 32)) + be32(rng.randrange(1 << 32)))
        msg.add(be16(rng.randrange(65536)))
        nm(0.2)
        msg.add(bytes(rng.randrange(256) for _ in range(nz([0, 1, 8, 32]))))
    elif t == T_SRV:
        msg.add(be16(rng.randrange(65536)) + be16(rng.randrange(65536)) + be16(rng.randrange(65536)))
        nm(0.2)
    elif t == T_NAPTR:
        msg.add(be16(rng.randrange(65536)) + be16(rng.randrange(65536)))
        for _ in range(3):
            s = charstr(rng, printable=pr(0.95))
            msg.len8_offsets.append(msg.pos())
            msg.add(bytes([len(s)]) + s)
        nm(0.2)
    elif t == T_OPT:
        opt_tlvs(rng, msg, svcb=False)
    elif t == T_TLSA:
        msg.add(bytes([rng.randrange(256), rng.randrange(256), rng.randrange(256)]))
        msg.add(bytes(rng.randrange(256) for _ in range(nz([0, 1, 32, 64]))))
    elif t in (T_SVCB, T_HTTPS):
        msg.add(be16(rng.choice([0, 1, 2, rng.randrange(65536)])))
        nm(0.2)
        opt_tlvs(rng, msg, svcb=True)
    elif t == T_URI:
        msg.add(be16(rng.randrange(65536)) + be16(rng.randrange(65536)))
        msg.add(charstr(rng, m=nz([0, 1, 10, 40]), printable=pr(0.9)))
    elif t == T_CAA:
        msg.add(bytes([rng.choice([0, 128, rng.randrange(256)])]))
        tag = charstr(rng, m=nz([0, 1, 5, 9]), printable=pr(0.95))
        msg.len8_offsets.append(msg.pos())
        msg.add(bytes([len(tag)]) + tag)
        msg.add(bytes(rng.randrange(256) for _ in range(nz([0, 1, 10, 40]))))
    else:
        msg.add(bytes(rng.randrange(256) for _ in range(rng.choice([0, 0, 1, 4, 17, 60]))))


def rr(rng, msg, pool, t=None, rdlen_skew=0, extra_tail=0, valid=False):
    t = rng.choice(KNOWN + KNOWN + UNKNOWN_TYPES) if t is None else t
    if t == T_OPT and rng.random() < 0.8:
        msg.add(b"\0")
    else:
        labels = rng.choice(pool) if (pool and rng.random() < 0.7) else rand_labels(rng)
        msg.name(labels)
    msg.add(be16(t))
    if t == T_OPT:
        msg.add(be16(rng.choice([512, 1232, 4096, 0, 65535])))
        msg.add(bytes([rng.choice([0, 0, 0, 1, 0x10, 0xFF]), rng.choice([0, 0, 1, 255])]) + be16(rng.choice([0, 0x8000, 0xFFFF, 1])))
    else:
        cls = rng.choice(CLASSES)
        if valid and rng.random() < 0.95:
            cls = rng.choice([1, 1, 1, 1, 3, 4, 254])
        msg.add(be16(cls))
        msg.add(be32(rng.choice([0, 1, 60, 300, 86400, 0x7FFFFFFF, 0x80000000, 0xFFFFFFFF])))
    lenpos = msg.pos()
    msg.len_offsets.append(lenpos)
    msg.add(b"\0\0")
    start = msg.pos()
    rdata(rng, msg, t, pool, valid)
    if extra_tail:
        msg.add(bytes(rng.randrange(256) for _ in range(extra_tail)))
    ln = (msg.pos() - start + rdlen_skew) & 0xFFFF
    msg.b[lenpos:lenpos + 2] = be16(ln)


def message(rng, style="valid"):
    """returns (bytes, Msg)"""
    msg = Msg(rng, compress=rng.choice([0.0, 0.5, 0.9, 1.0]))
    pool = [rand_labels(rng, hostish=rng.random() < 0.7) for _ in range(rng.choice([1, 2, 3]))]
    pool = [p for p in pool if p] or [[b"example", b"com"]]
    nan = rng.choice([0, 1, 1, 2, 3, 6])
    nns = rng.choice([0, 0, 0, 1, 2])
    nar = rng.choice([0, 0, 1, 1, 2])
    qd = 1
    flags = rng.choice([0x0100, 0x8180, 0x8580, 0x8183, 0x8000 | (rng.randrange(16) << 11) | rng.randrange(2048), rng.randrange(65536)])
    if style == "valid" and rng.random() < 0.9:
        flags &= ~0x7800   # opcode QUERY
    cnts = [qd, nan, nns, nar]
    if style == "counts":
        i = rng.randrange(4)
        cnts[i] = max(0, cnts[i] + rng.choice([-1, 1, 1, 2, 100, 65535 - cnts[i]]))
    msg.add(be16(rng.randrange(65536)) + be16(flags) + b"".join(be16(c) for c in cnts))
    # question
    msg.name(pool[0], 0.0)
    msg.add(be16(rng.choice(KNOWN + [T_ANY, 0, 65535, 251])) + be16(rng.choice(CLASSES[:8] if style == "valid" else CLASSES)))
    skew_at = rng.randrange(nan + nns + nar) if (style == "rdlen" and nan + nns + nar) else -1
    k = 0
    have_opt = False
    for sect, n in ((1, nan), (2, nns), (3, nar)):
        for _ in range(n):
            t = None
            if sect == 3 and rng.random() < 0.5 and not (style == "valid" and have_opt and rng.random() < 0.9):
                t = T_OPT
                have_opt = True
            if style == "valid" and t is None:
                t = rng.choice([x for x in KNOWN if x != T_OPT] + [rng.choice(UNKNOWN_TYPES)])
            skew = rng.choice([-1, 1, -2, 2, 5]) if k == skew_at else 0
            tail = rng.choice([0, 0, 0, 1, 3]) if style != "valid" else (1 if rng.random() < 0.05 else 0)
            rr(rng, msg, pool, t, rdlen_skew=skew, extra_tail=tail, valid=(style == "valid"))
            k += 1
    if rng.random() < 0.1:
        msg.add(bytes(rng.randrange(256) for _ in range(rng.randint(1, 5))))  # trailing garbage
    return bytes(msg.b), msg


# ------------------------------------------------------------------------------------------
# directed name layouts (compression pointer shapes)
# ------------------------------------------------------------------------------------------
def hdr(qd=1, an=0, ns=0, ar=0, flags=0x8180):
    return be16(0x1234) + be16(flags) + be16(qd) + be16(an) + be16(ns) + be16(ar)


def name_layout(rng):
    """a message whose question/answer names exercise one pointer shape"""
    kind = rng.choice(["self", "loop2", "forward", "chain", "ptr2ptr", "into-header", "at-end", "label63", "label64",
                       "len253", "len254", "len255", "len256", "quadratic", "reserved-bits", "ptr-to-own-label",
                       "ptr-after", "deep-chain", "trunc-ptr"])
    b = bytearray(hdr(1, 1))
    q = len(b)
    if kind == "self":
        b += be16(0xC000 | q)
    elif kind == "loop2":
        b += be16(0xC000 | (q + 2)) + be16(0xC000 | q)
    elif kind == "forward":
        b += be16(0xC000 | (q + 6)) + be16(1) + be16(1) + b"\x03abc\0"
    elif kind == "chain":
        b += b"\x03com\0"
        b += be16(1) + be16(1)
        p1 = len(b)
        b += b"\x07example" + be16(0xC000 | q)
        b += be16(1) + be16(1) + be32(5) + be16(4) + b"\1\2\3\4"
        b[6:8] = be16(2)
        p2 = len(b)
        b += b"\x03www" + be16(0xC000 | p1) + be16(5) + be16(1) + be32(5)
        b += be16(5) + b"\x02ns" + be16(0xC000 | p2)
        return bytes(b)
    elif kind == "ptr2ptr":
        b += b"\x01a\0" + be16(1) + be16(1)
        p1 = len(b)
        b += be16(0xC000 | q) + be16(5) + be16(1) + be32(1) + be16(2) + be16(0xC000 | p1)
        return bytes(b)
    elif kind == "into-header":
        b += be16(0xC000 | rng.randrange(12))
    elif kind == "at-end":
        b += b"\x01a\0" + be16(1) + be16(1) + b"\xc0"
        return bytes(b)
    elif kind in ("label63", "label64"):
        n = 63 if kind == "label63" else 64
        b += bytes([n]) + b"a" * n + b"\0"
    elif kind in ("len253", "len254", "len255", "len256"):
        b += enc_labels(labels_of_len(rng, int(kind[3:]))) + b"\0"
    elif kind == "quadratic":
        # many one-octet labels, then pointers that restart ever earlier: the decoded name grows
        # quadratically while every pointer goes backward
        n = rng.choice([4, 10, 30])
        b += b"\x01a" * n + b"\0"
        b += be16(1) + be16(1)
        # answer name: label + pointer to the middle of the question name
        b += b"\x01b" + be16(0xC000 | (q + 2 * (n // 2)))
        b += be16(1) + be16(1) + be32(1) + be16(4) + b"\1\2\3\4"
        return bytes(b)
    elif kind == "reserved-bits":
        b += bytes([rng.choice([0x40, 0x80, 0x7F, 0xBF])]) + b"abc\0"
    elif kind == "ptr-to-own-label":
        b += b"\x03abc" + be16(0xC000 | q)
    elif kind == "ptr-after":
        b += b"\x03abc" + be16(0xC000 | (q + 1))
    elif kind == "deep-chain":
        # a chain of n links "\x01y" + pointer-to-previous-link stored inside the RDATA of a
        # raw RR; the last RR's owner name points at the last link
        n = rng.choice([5, 40, 200])
        b3 = bytearray(hdr(1, 2)) + b"\x01z\0" + be16(1) + be16(1)
        b3 += b"\0" + be16(10) + be16(1) + be32(1)
        chain = bytearray()
        prev = 12
        base = len(b3) + 2
        for i in range(n):
            cur = base + len(chain)
            chain += b"\x01y" + be16(0xC000 | prev)
            prev = cur
        b3 += be16(len(chain)) + chain
        b3 += be16(0xC000 | prev) + be16(1) + be16(1) + be32(1) + be16(4) + b"\1\2\3\4"
        return bytes(b3)
    elif kind == "trunc-ptr":
        b += b"\x03abc\xc0"
        return bytes(b)
    b += be16(1) + be16(1)
    # one A answer pointing at the question name
    b += be16(0xC000 | q) + be16(1) + be16(1) + be32(60) + be16(4) + b"\x7f\0\0\1"
    return bytes(b)


# ------------------------------------------------------------------------------------------
# chained compression pointers: every arrangement of 2 / 3 pointers in a small window BEFORE the
# name, each targeting another pointer of the window (also itself, also forward), the label in
# front of the window, the name itself, or a label behind the name; the name starts with a pointer
# into the window (optionally after one label of its own)
# ------------------------------------------------------------------------------------------
def _ptr(off):
    return be16(0xC000 | (off & 0x3FFF))


def ptr_arrangements(k):
    """yields (start_slot, targets) with targets[j] in 0..k-1 (slot), 'B' (label before), 'N' (the name), 'A' (label after)"""
    import itertools
    choices = list(range(k)) + ["B", "N", "A"]
    for start in range(k):
        for tg in itertools.product(choices, repeat=k):
            yield start, tg


def ptr_block(k, start, targets, lead_label=False, base=0):
    """raw block: [base pad] label-before, k pointer slots, name, label-after.  Returns (bytes, name_offset)"""
    b = bytearray(bytes(base))
    lb = len(b)
    b += b"\x01x\0"
    slots = [len(b) + 2 * j for j in range(k)]
    name = slots[-1] + 2
    la = name + (2 if lead_label else 0) + 2
    def tgt(t):
        return lb if t == "B" else name if t == "N" else la if t == "A" else slots[t]
    for j in range(k):
        b += _ptr(tgt(targets[j]))
    if lead_label:
        b += b"\x01n"
    b += _ptr(slots[start])
    b += b"\x01y\0"
    return bytes(b), name


def ptr_message(k, start, targets, lead_label=False):
    """the same arrangement inside a message: the window is the RDATA of a raw RR (type 10), the
    label before is the question name, the name is the owner of the next RR (NS) whose RDATA name
    is the label after"""
    b = bytearray(hdr(1, 2))
    lb = len(b)
    b += b"\x01x\0" + be16(1) + be16(1)
    b += b"\0" + be16(10) + be16(1) + be32(1) + be16(2 * k)
    slots = [len(b) + 2 * j for j in range(k)]
    name = slots[-1] + 2
    la = name + (2 if lead_label else 0) + 2 + 10
    def tgt(t):
        return lb if t == "B" else name if t == "N" else la if t == "A" else slots[t]
    for j in range(k):
        b += _ptr(tgt(targets[j]))
    if lead_label:
        b += b"\x01n"
    b += _ptr(slots[start])
    b += be16(2) + be16(1) + be32(1) + be16(3) + b"\x01y\0"
    return bytes(b), name


def pointer_chain_cases(rng, tier):
    out = []
    for k in (2, 3):
        arr = list(ptr_arrangements(k))
        if k == 3 and tier != "thorough":
            arr = rng.sample(arr, 220)
        for start, tg in arr:
            lead = rng.random() < 0.2
            blk, name = ptr_block(k, start, tg, lead, base=rng.choice([0, 0, 5]))
            out.append("n:%d:%d:%d|%s" % (name, len(blk), 1 if rng.random() < 0.9 else 0, blk.hex()))
            if k == 2 or rng.random() < 0.6 or tier == "thorough":
                m, _ = ptr_message(k, start, tg, lead)
                out.append("p:0|%s" % m.hex())
    return out


def find_ptrs(data):
    """offsets that look like compression pointers (for seeds without structure information)"""
    return [i for i in range(12, len(data) - 1) if data[i] & 0xC0 == 0xC0]


# ------------------------------------------------------------------------------------------
# mutations
# ------------------------------------------------------------------------------------------
def mutate(rng, data, msg=None):
    b = bytearray(data)
    if not b:
        return bytes(b)
    for _ in range(rng.choice([1, 1, 1, 2, 3])):
        m = rng.choice(["bit", "bit", "byte", "len16", "len8", "ptr", "ptr2ptr", "ptr2ptr", "trunc", "insert", "delete", "count"])
        if m == "bit":
            i = rng.randrange(len(b))
            b[i] ^= 1 << rng.randrange(8)
        elif m == "byte":
            b[rng.randrange(len(b))] = rng.choice([0, 1, 0x3F, 0x40, 0x7F, 0x80, 0xC0, 0xFF, rng.randrange(256)])
        elif m == "len16" and msg is not None and msg.len_offsets:
            o = rng.choice(msg.len_offsets)
            if o + 1 < len(b):
                v = ((b[o] << 8) | b[o + 1]) + rng.choice([-1, 1, -2, 2, 255, 256])
                b[o:o + 2] = be16(v & 0xFFFF)
        elif m == "len8" and msg is not None and msg.len8_offsets:
            o = rng.choice(msg.len8_offsets)
            if o < len(b):
                b[o] = (b[o] + rng.choice([-1, 1, 2, 63 - b[o], 64 - b[o]])) & 255
        elif m == "ptr" and msg is not None and (msg.ptr_offsets or msg.name_offsets):
            if msg.ptr_offsets and rng.random() < 0.7:
                o = rng.choice(msg.ptr_offsets)
                tgt = rng.choice(msg.name_offsets + msg.ptr_offsets + [o, o + 2, 0, 11, 12, len(b) - 1, len(b)])
            else:
                o = rng.choice(msg.name_offsets)
                tgt = rng.choice(msg.name_offsets + [o, 12])
            if o + 1 < len(b):
                b[o:o + 2] = be16(0xC000 | (tgt & 0x3FFF))
        elif m == "ptr2ptr":
            # retarget a pointer to another POINTER (earlier or later), or make a label start a pointer
            ptrs = list(msg.ptr_offsets) if (msg is not None and msg.ptr_offsets) else find_ptrs(b)
            ptrs = [o for o in ptrs if o + 1 < len(b)]
            if len(ptrs) >= 2:
                o = rng.choice(ptrs)
                tgt = rng.choice([x for x in ptrs if x != o])
                b[o:o + 2] = be16(0xC000 | (tgt & 0x3FFF))
                if rng.random() < 0.5:
                    # close a cycle / hop forward: the target points on to a third pointer or back
                    t2 = rng.choice(ptrs)
                    b[tgt:tgt + 2] = be16(0xC000 | (t2 & 0x3FFF))
            elif msg is not None and len(msg.name_offsets) >= 2:
                o, tgt = rng.sample(msg.name_offsets, 2)
                if o + 1 < len(b):
                    b[o:o + 2] = be16(0xC000 | (tgt & 0x3FFF))
        elif m == "trunc":
            b = b[:rng.randrange(len(b) + 1)]
            if not b:
                b = bytearray(b"\0")
        elif m == "insert":
            i = rng.randrange(len(b) + 1)
            b[i:i] = bytes(rng.randrange(256) for _ in range(rng.choice([1, 1, 2, 4])))
        elif m == "delete" and len(b) > 1:
            i = rng.randrange(len(b))
            del b[i:i + rng.choice([1, 1, 2])]
        elif m == "count" and len(b) >= 12:
            o = rng.choice([4, 6, 8, 10])
            v = ((b[o] << 8) | b[o + 1]) + rng.choice([-1, 1, 1, 2])
            b[o:o + 2] = be16(v & 0xFFFF)
    return bytes(b)


PARSE_FLAGS = [0, 0, 0, 0, 0, 1, 2, 4, 8, 16, 32, 7, 56, 63, 9, 64, 0xFFFFFFFF]


# ------------------------------------------------------------------------------------------
# the LAST RR of the message carries length-prefixed strings and the final length announces a few
# octets more than are present; the message ends exactly where the data ends
# ------------------------------------------------------------------------------------------
def _string_rdata(rng, t):
    """RDATA of a string-bearing type as (bytes, [offsets of inner length fields with their width])"""
    pr = lambda m: bytes(rng.randrange(0x21, 0x7F) for _ in range(m))
    b = bytearray()
    lens = []

    def cs(m):
        lens.append((len(b), 1))
        b.extend(bytes([m]) + pr(m))

    def tlv(code, m):
        b.extend(be16(code))
        lens.append((len(b), 2))
        b.extend(be16(m) + bytes(rng.randrange(256) for _ in range(m)))
    if t == T_NAPTR:
        b.extend(be16(rng.randrange(65536)) + be16(rng.randrange(65536)))
        for m in (rng.choice([1, 3, 8]), rng.choice([2, 6]), rng.choice([4, 9, 30])):
            cs(m)
        b.extend(b"\0")
    elif t == T_TXT:
        for m in (rng.choice([1, 5]), rng.choice([2, 20]), rng.choice([6, 40, 255])):
            cs(m)
    elif t == T_HINFO:
        cs(rng.choice([3, 10]))
        cs(rng.choice([5, 12]))
    elif t == T_CAA:
        b.extend(bytes([rng.choice([0, 128])]))
        cs(rng.choice([5, 9]))
        b.extend(pr(rng.choice([0, 6])))
    elif t in (T_SVCB, T_HTTPS):
        b.extend(be16(1) + b"\0")
        for m in (rng.choice([2, 4]), rng.choice([6, 16])):
            tlv(rng.choice([1, 3, 4, 6]), m)
    elif t == T_OPT:
        for m in (rng.choice([2, 8]), rng.choice([5, 24])):
            tlv(rng.choice([3, 8, 10, 15]), m)
    elif t == T_URI:
        b.extend(be16(rng.randrange(65536)) + be16(rng.randrange(65536)) + pr(rng.choice([8, 30])))
    return bytes(b), lens


def overread_cases(rng, tier):
    out = []
    types = [T_NAPTR, T_TXT, T_HINFO, T_CAA, T_SVCB, T_HTTPS, T_OPT, T_URI]
    reps = 1 if tier == "quick" else 4
    for _ in range(reps):
        for t in types:
            data, lens = _string_rdata(rng, t)
            fields = lens if lens else [None]
            for fld in fields:
                for delta in (1, 2, 3, 4, 5):
                    for rdl_mode in ("actual", "announced"):
                        msg = Msg(rng, compress=0.0)
                        nan = rng.choice([0, 1])
                        msg.add(be16(rng.randrange(65536)) + be16(0x8180) + be16(1) + be16(nan) + be16(0) + be16(1))
                        qn = [rand_label(rng, "host"), b"test"]
                        msg.name(qn, 0.0)
                        msg.add(be16(t if t != T_OPT else T_A) + be16(1))
                        for _i in range(nan):
                            rr(rng, msg, [qn], T_A, valid=True)
                        # the last RR
                        if t == T_OPT:
                            msg.add(b"\0" + be16(T_OPT) + be16(1232) + be32(0))
                        else:
                            msg.name(qn, 1.0)
                            msg.add(be16(t) + be16(1) + be32(300))
                        d = bytearray(data)
                        if fld is None:
                            # no inner length: only RDLENGTH can announce too much
                            cut = d
                            rdl = len(cut) + delta
                        else:
                            off, w = fld
                            # keep everything up to the end of this string, drop [delta] octets of it
                            if w == 1:
                                ann = d[off]
                                end = off + 1 + ann
                            else:
                                ann = (d[off] << 8) | d[off + 1]
                                end = off + 2 + ann
                            if ann < delta:
                                continue
                            cut = d[:end - delta]
                            rdl = len(cut) if rdl_mode == "actual" else len(cut) + delta
                        msg.add(be16(rdl & 0xFFFF) + bytes(cut))
                        out.append(pcase(rng, bytes(msg.b), 0))
    return out


# ------------------------------------------------------------------------------------------
# size-directed records: the serialised size lands exactly on and around the limits of the format
# ------------------------------------------------------------------------------------------
def _raw_unit(sect, owner, L, fill):
    """an opaque RR (RAW_RR, type 65280) with L octets of RDATA; owner is presentation text"""
    return "r,%d,%s,65536,1,0,6553601=65280,6553602=b%s" % (sect, owner.hex(), bytes((fill + i) & 255 for i in range(L)).hex())


def _txt_unit(sect, owner, lens, fill):
    strs = "|".join(bytes((fill + i + j) & 255 for i in range(m)).hex() for j, m in enumerate(lens))
    return "r,%d,%s,16,1,0,1601=a%s" % (sect, owner.hex(), strs)


def sized_record(target, variant, qlabel=b"a", pre=-1, ident=7):
    """a record whose wire form has exactly [target] octets (computed: header 12, question name
    + 4, every RR = 2 (pointer to the question name) + 10 + RDLENGTH), or None when impossible"""
    qn = qlabel
    base = 12 + (1 + len(qlabel) + 1) + 4
    units = ["q,%s,1,1" % qn.hex()]
    room = target - base
    if variant == "one-raw":
        L = room - 12
        if not (1 <= L <= 70000):
            return None
        units.append(_raw_unit(1, qn, L, 1))
    elif variant == "two-raw":
        L1 = (room - 24) // 2
        L2 = room - 24 - L1
        if L1 < 1 or L2 < 1:
            return None
        units.append(_raw_unit(1, qn, L1, 3))
        units.append(_raw_unit(2, qn, L2, 5))
    elif variant == "txt-bulk":
        # TXT RRs of one 255-octet string each (268 octets per RR), the rest in an opaque RR
        n = max(0, (room - 12 - 1) // 268 - 1)
        rest = room - n * 268 - 12
        if rest < 1:
            return None
        for i in range(n):
            units.append(_txt_unit(1, qn, [255], i))
        units.append(_raw_unit(3, qn, rest, 9))
    elif variant == "raw-opt":
        # an OPT RR (root owner: 1 + 10 octets, no options) behind one opaque RR
        L = room - 12 - 11
        if L < 1:
            return None
        units.append(_raw_unit(1, qn, L, 11))
        units.append("r,3,,41,1,0,4101=1232,4103=0,4104=0")
    head = "b:%d:0:0:0" % ident + ("" if pre < 0 else ":%d" % pre)
    return head + "|" + ";".join(units)


def size_cases(rng, tier):
    out = []
    variants = ["one-raw", "two-raw", "txt-bulk", "raw-opt"]
    pres = [-1, 0, 3, 1000]
    k = 0
    # the 64k limit of a message (and of a TCP frame)
    for target in (65533, 65534, 65535, 65536, 65537, 65538):
        for v in (variants if tier != "quick" else variants[:3]):
            c = sized_record(target, v, pre=pres[k % 4] if tier == "quick" else -1, ident=target & 0xFFFF)
            k += 1
            if c:
                out.append(c)
            if tier != "quick":
                for pre in (0, 2, 70000):
                    c = sized_record(target, v, pre=pre, ident=target & 0xFFFF)
                    if c:
                        out.append(c)
    # RDLENGTH 65534..65537 (the message is then over the limit anyway)
    for L in (65534, 65535, 65536, 65537):
        out.append("b:9:0:0:0:%d|q,61,1,1;%s" % (rng.choice([0, 5]), _raw_unit(1, b"a", L, 2)))
    # small sizes for contrast, framed behind a few octets
    for target in (31, 32, 100, 511, 512, 513, 4096):
        c = sized_record(target, rng.choice(["one-raw", "two-raw"]), pre=rng.choice([0, 1, 2, 7]))
        if c:
            out.append(c)
    # the 14 bit limit of a compression pointer: a name first written at offset 16380..16387 and used again
    for at in range(16380, 16388):
        L = at - 19 - 12
        nm = b"n%d.a" % (at % 10)
        units = ["q,61,1,1", _raw_unit(1, b"a", L, 4),
                 "r,1,%s,2,1,60,201=s%s" % (nm.hex(), nm.hex()),
                 "r,2,%s,5,1,60,501=s%s" % ((b"w." + nm).hex(), nm.hex())]
        out.append("b:%d:0:0:0:%d|" % (at, rng.choice([0, 2])) + ";".join(units))
    # <character-string>s of 254 / 255 / 256 octets and names of 253..257 octets on the wire
    for m in (254, 255, 256):
        out.append("b:5:0:0:0:0|q,61,1,1;" + _txt_unit(1, b"a", [m, 1], 7))
        out.append("b:5:0:0:0|q,61,1,1;r,1,61,13,1,0,1301=s%s,1302=s%s" % ((b"x" * m).hex(), b"y".hex()))
    for wire in (253, 254, 255, 256, 257):
        # labels of 63 octets and a last one making up the total: wire = sum(1 + len) + 1
        rest = wire - 1 - 3 * 64
        labels = [b"l" * 63, b"m" * 63, b"n" * 63] + ([b"o" * (rest - 1)] if rest > 1 else [])
        nm = b".".join(labels)
        out.append("b:6:0:0:0:0|q,%s,1,1;r,1,%s,2,1,60,201=s%s" % (nm.hex(), nm.hex(), nm.hex()))
    return out


# ------------------------------------------------------------------------------------------
# names reached through long chains of compression pointers
# ------------------------------------------------------------------------------------------
def nested_family_cases(rng, tier):
    """b: records whose names each extend an earlier one by one label (l1.l0.zone, l2.l1.l0.zone, ...):
    the writer emits "one label + pointer to the previous name", so the name of depth d is reached
    through d chained pointers; owner names and the name fields of NS CNAME PTR MX SOA"""
    out = []
    depths = list(range(1, 41)) if tier != "quick" else [1, 2, 3, 5, 8, 9, 10, 11, 12, 13, 16, 20, 25, 32, 40]
    for depth in depths:
        for how in (("owner", "rdata", "both", "soa") if tier != "quick" else (rng.choice(["owner", "both"]), rng.choice(["rdata", "soa"]))):
            zone = rng.choice([b"zone", b"example.com", b"z"])
            labs = [bytes([97 + (i * 7 + depth) % 26]) + (b"%d" % i if rng.random() < 0.5 else b"") for i in range(depth + 1)]
            names = []
            cur = zone
            for l in labs:
                cur = l + b"." + cur
                names.append(cur)
            units = ["q,%s,%d,1" % (zone.hex(), rng.choice([1, 2, 15, 255]))]
            for i in range(depth):
                n, nxt = names[i], names[i + 1]
                if how == "owner":
                    units.append("r,1,%s,1,1,60,101=%s" % (n.hex(), bytes([10, 0, i & 255, 1]).hex()))
                elif how == "rdata":
                    t, key = rng.choice([(2, 201), (5, 501), (12, 1201)])
                    units.append("r,%d,%s,%d,1,60,%d=s%s" % (rng.choice([1, 2]), zone.hex(), t, key, n.hex()))
                elif how == "both":
                    if i % 2 == 0:
                        units.append("r,1,%s,15,1,60,1501=%d,1502=s%s" % (n.hex(), i, nxt.hex()))
                elif how == "soa":
                    if i % 2 == 0:
                        units.append("r,2,%s,6,1,60,601=s%s,602=s%s,603=1,604=2,605=3,606=4,607=5" % (zone.hex(), n.hex(), nxt.hex()))
            head = "b:%d:0:0:0" % (depth & 0xFFFF) + rng.choice(["", ":0", ":5"])
            out.append(head + "|" + ";".join(units))
    return out


def pointer_depth_cases(rng, tier):
    """p: hand-built valid messages in which the owner name of RR i is one label followed by a pointer to
    the owner name of RR i-1 (every pointer strictly backwards): RR L is reached through L pointers"""
    out = []
    lens = list(range(1, 127)) if tier != "quick" else list(range(1, 25)) + [31, 32, 33, 48, 63, 64, 65, 100, 125, 126]
    for L in lens:
        b = bytearray()
        b += be16(rng.randrange(65536)) + be16(0x8180) + be16(1) + be16(L) + be16(0) + be16(0)
        zpos = len(b)
        b += b"\1z\0" + be16(1) + be16(1)
        prev = zpos
        for i in range(L):
            here = len(b)
            b += bytes([1, 97 + i % 26]) + be16(0xC000 | prev)
            b += be16(1) + be16(1) + be32(60) + be16(4) + bytes([192, 0, 2, i & 255])
            prev = here
        out.append(pcase(rng, bytes(b), 0))
        if L in (9, 10, 11, 12, 126):
            # the same chain inside RDATA: NS records whose target extends the previous target
            b = bytearray()
            b += be16(rng.randrange(65536)) + be16(0x8180) + be16(1) + be16(L) + be16(0) + be16(0)
            b += b"\1z\0" + be16(2) + be16(1)
            prev = 12
            for i in range(L):
                b += be16(0xC00C) + be16(2) + be16(1) + be32(60) + be16(4)
                here = len(b)
                b += bytes([1, 97 + i % 26]) + be16(0xC000 | prev)
                prev = here
            out.append(pcase(rng, bytes(b), 0))
    return out


def rcode_cases(rng, tier):
    """p: valid responses carrying every RCODE the library knows and the boundaries of the 12 bit
    space: header nibble and (with an OPT RR) the extended-RCODE octet; also without OPT"""
    out = []
    rcodes = list(range(0, 26)) + [31, 32, 255, 256, 257, 4079, 4080, 4094, 4095]
    if tier != "quick":
        rcodes = sorted(set(rcodes + list(range(0, 4096, 16)) + list(range(4080, 4096))))

    def msg(nibble, ext, with_opt, opt_first):
        b = bytearray()
        nan = 1
        b += be16(rng.randrange(65536)) + be16(0x8180 | nibble) + be16(1) + be16(nan) + be16(0) + be16(1 if with_opt else 0)
        b += b"\1r\2rc\0" + be16(1) + be16(1)
        a = be16(0xC00C) + be16(1) + be16(1) + be32(60) + be16(4) + bytes([192, 0, 2, 1])
        o = b"\0" + be16(41) + be16(1232) + bytes([ext, 0]) + be16(rng.choice([0, 0x8000])) + be16(0)
        if with_opt and opt_first:
            # OPT ahead of the answer is not possible within sections; keep the order of sections
            pass
        b += a + (o if with_opt else b"")
        return bytes(b)
    for rc in rcodes:
        out.append(pcase(rng, msg(rc & 15, rc >> 4, True, False), 0))
    for nibble in range(16):
        out.append(pcase(rng, msg(nibble, 0, False, False), 0))
    return out


def pcase(rng, data, flags=None):
    f = rng.choice(PARSE_FLAGS) if flags is None else flags
    return "p:%d|%s" % (f, data.hex())


def expand_case(rng, data, is_name, msg=None):
    """legacy ares_expand_name / ares_expand_string on a block"""
    if not data:
        data = b"\0"
    n = len(data)
    enc = rng.choice([0, 0, 12, 12, rng.randrange(n), n - 1, n, n + 1, -1])
    cand = (msg.name_offsets + msg.ptr_offsets) if msg is not None else find_ptrs(data)
    cand = [o for o in cand if o < n]
    if is_name and cand and rng.random() < 0.7:
        enc = rng.choice(cand)
    alen = rng.choice([n, n, n, n, max(1, n - 1), rng.randint(1, n), 0, -1, -2147483648])
    want = 0 if rng.random() < 0.15 else 1
    return "%s:%d:%d:%d|%s" % ("n" if is_name else "s", enc, alen, want, data.hex())


def gen(rng, tier, n):
    """the C02/C04 stream"""
    out = []
    seeds = seed_messages()
    if tier == "thorough":
        # exhaustive parts: all strings of length <= 2 (as messages), truncation of seeds at every
        # offset, all single-byte substitutions at every offset of a seed set, all parse-flag
        # combinations on a subset
        for a in range(256):
            out.append("p:0|%02x" % a)
            out.append("n:0:1:1|%02x" % a)
            out.append("s:0:1:1|%02x" % a)
        for a in range(0, 256, 3):
            for b2 in range(0, 256, 5):
                out.append("n:0:2:1|%02x%02x" % (a, b2))
        sub = [message(rng)[0] for _ in range(16)] + [name_layout(rng) for _ in range(16)]
        for d in sub:
            d = d[:160]
            for i in range(len(d)):
                for v in (0, 1, 0x3F, 0x40, 0xC0, 0xFF, d[i] ^ 0x80, (d[i] + 1) & 255):
                    out.append(pcase(rng, d[:i] + bytes([v]) + d[i + 1:], 0))
        # ALL 256 substitutions at every offset of four short seeds
        for d in [name_layout(rng)[:64] for _ in range(2)] + [message(rng)[0][:64] for _ in range(2)]:
            for i in range(len(d)):
                for v in range(256):
                    out.append(pcase(rng, d[:i] + bytes([v]) + d[i + 1:], 0))
        for d in [message(rng)[0] for _ in range(24)]:
            for f in range(64):
                out.append(pcase(rng, d, f))
    out += pointer_chain_cases(rng, tier)
    # messages shorter than / just as long as the header, every length 0..13, several flag sets
    for ln in range(0, 14):
        for fl in (0, 1, 21, 63):
            out.append(pcase(rng, bytes(rng.randrange(256) for _ in range(ln)), fl))
            out.append("t:%d:0|%s" % (rng.choice([0, 1]), bytes(rng.randrange(256) for _ in range(ln)).hex()))
    out += overread_cases(rng, tier)
    out += pointer_depth_cases(rng, tier)
    out += rcode_cases(rng, tier)
    budget = max(0, n - len(out)) if tier != "thorough" else n
    target = len(out) + budget
    # truncation of one generated seed and one repository seed at every offset
    for d in [message(rng)[0]] + ([rng.choice(seeds)] if seeds else []):
        d = d[:300]
        for i in range(len(d) + 1):
            out.append(pcase(rng, d[:i], 0))
    while len(out) < target:
        r = rng.random()
        if r < 0.34:
            d, _ = message(rng, "valid")
            out.append(pcase(rng, d))
        elif r < 0.44:
            d, _ = message(rng, rng.choice(["counts", "rdlen", "messy"]))
            out.append(pcase(rng, d))
        elif r < 0.56:
            out.append(pcase(rng, name_layout(rng)))
        elif r < 0.72:
            d, m = message(rng, rng.choice(["valid", "valid", "messy"]))
            out.append(pcase(rng, mutate(rng, d, m)))
        elif r < 0.78 and seeds:
            d = rng.choice(seeds)
            out.append(pcase(rng, d if rng.random() < 0.3 else mutate(rng, d)))
        elif r < 0.80:
            out.append(pcase(rng, bytes(rng.randrange(256) for _ in range(rng.choice([0, 1, 2, 11, 12, 13, 17, 40])))))
        elif r < 0.803:
            big = rng.choice([65535, 65536, 65537, 70000])
            d, _ = message(rng, "valid")
            out.append(pcase(rng, (d + bytes(big))[:big], 0))
        elif r < 0.92:
            m = None
            if rng.random() < 0.5:
                d = name_layout(rng)
            else:
                d, m = message(rng)
            if rng.random() < 0.4:
                d = mutate(rng, d, m)
            out.append(expand_case(rng, d, True, m))
        else:
            if rng.random() < 0.5:
                s = charstr(rng, m=rng.choice([0, 1, 5, 255]), printable=rng.random() < 0.5)
                d = bytes(rng.randrange(256) for _ in range(rng.choice([0, 3]))) + bytes([len(s)]) + s
                if rng.random() < 0.3:
                    d = d[:rng.randrange(len(d) + 1)] or b"\5"
            else:
                d = message(rng)[0]
            out.append(expand_case(rng, d, False))
    return out


# ------------------------------------------------------------------------------------------
# C03: records built through the public setters, TCP framing, legacy query builders
# ------------------------------------------------------------------------------------------
RESERVED = b'".;\\()@$'


def esc_label(l, style="canon"):
    out = bytearray()
    for c in l:
        if c < 0x20 or c > 0x7E:
            out += b"\\%03d" % c
        elif bytes([c]) in (b'"', b".", b";", b"\\", b"(", b")", b"@", b"$"):
            out += b"\\" + bytes([c])
        elif style == "ddd" and c != 0x30:
            out += b"\\%03d" % c
        else:
            out.append(c)
    return bytes(out)


def text_name(labels, style="canon"):
    t = b".".join(esc_label(l, style) for l in labels)
    if style == "dot" and labels:
        t += b"."
    return t


DT = {101: 1, 201: 6, 501: 6, 601: 6, 602: 6, 603: 5, 604: 5, 605: 5, 606: 5, 607: 5, 1201: 6, 1301: 7, 1302: 7, 1501: 4,
      1502: 6, 1601: 11, 2401: 4, 2402: 3, 2403: 3, 2404: 5, 2405: 5, 2406: 5, 2407: 4, 2408: 6, 2409: 8, 2801: 2,
      3302: 4, 3303: 4, 3304: 4, 3305: 6, 3501: 4, 3502: 4, 3503: 7, 3504: 7, 3505: 7, 3506: 6, 4101: 4, 4103: 3,
      4104: 4, 4105: 10, 5201: 3, 5202: 3, 5203: 3, 5204: 8, 6401: 4, 6402: 6, 6403: 10, 6501: 4, 6502: 6, 6503: 10,
      25601: 4, 25602: 4, 25603: 6, 25701: 3, 25702: 7, 25703: 9, 6553601: 4, 6553602: 8}
KEYS = {1: [101], 2: [201], 5: [501], 6: [601, 602, 603, 604, 605, 606, 607], 12: [1201], 13: [1301, 1302], 15: [1501, 1502],
        16: [1601], 24: [2401, 2402, 2403, 2404, 2405, 2406, 2407, 2408, 2409], 28: [2801], 33: [3302, 3303, 3304, 3305],
        35: [3501, 3502, 3503, 3504, 3505, 3506], 41: [4101, 4103, 4104, 4105], 52: [5201, 5202, 5203, 5204],
        64: [6401, 6402, 6403], 65: [6501, 6502, 6503], 256: [25601, 25602, 25603], 257: [25701, 25702, 25703],
        65536: [6553601, 6553602]}


def build_value(rng, key, names, big=False):
    dt = DT[key]
    if dt == 1:
        return bytes(rng.randrange(256) for _ in range(4)).hex()
    if dt == 2:
        return bytes(rng.randrange(256) for _ in range(16)).hex()
    if dt == 3:
        return str(rng.choice([0, 1, 255, rng.randrange(256)]))
    if dt == 4:
        return str(rng.choice([0, 1, 65535, rng.randrange(65536)]))
    if dt == 5:
        return str(rng.choice([0, 1, 0x7FFFFFFF, 0xFFFFFFFF, rng.randrange(1 << 32)]))
    if dt == 6:
        if key == 25603:
            return "s" + charstr(rng, m=rng.choice([1, 10, 40, 0]), printable=True).replace(b",", b"_").replace(b";", b"_").hex()
        return "s" + names(rng).hex()
    if dt == 7:
        ln = rng.choice([0, 1, 5, 40, 255, 256]) if rng.random() < 0.2 else rng.choice([1, 5, 20])
        return "s" + bytes(rng.randrange(0x21, 0x7F) for _ in range(ln)).hex()
    if dt in (8, 9):
        ln = rng.choice([0, 1, 16, 64]) if rng.random() < 0.2 else rng.choice([1, 16, 64])
        return "b" + bytes(rng.randrange(256) for _ in range(ln)).hex()
    if dt == 11:
        n = rng.choice([1, 1, 2, 4])
        lens = [rng.choice([0, 1, 20, 254, 255, 256, 300, 600] if rng.random() < 0.3 else [1, 20, 255 if big else 60]) for _ in range(n)]
        return "a" + "|".join(bytes(rng.randrange(256) for _ in range(l)).hex() for l in lens)
    if dt == 10:
        n = rng.choice([0, 1, 2, 4])
        codes = []
        ents = []
        for _ in range(n):
            code = rng.choice([1, 3, 8, 10, 12, 15, 65001])
            if codes and rng.random() < 0.3:
                code = rng.choice(codes)
            codes.append(code)
            ents.append("%d:%s" % (code, bytes(rng.randrange(256) for _ in range(rng.choice([0, 1, 8, 30]))).hex()))
        return "o" + "|".join(ents)
    return "0"


def build_case(rng, shape=None):
    shape = shape or rng.choice(["small", "small", "small", "shared", "shared", "escapes", "big16k", "big64k", "odd"])
    base = [rand_label(rng, rng.choice(["word", "host"])) for _ in range(rng.choice([1, 2, 3]))]
    pool = [base, [rand_label(rng, "word")] + base, [rand_label(rng, "host")] + base]
    if shape == "escapes":
        pool += [[rand_label(rng, rng.choice(["weird", "bin"])) for _ in range(rng.choice([1, 2]))] + base,
                 [rand_label(rng, "max"), rand_label(rng, "bin")]]

    def names(rng, hostonly=False):
        labels = rng.choice(pool)
        if rng.random() < 0.25:
            labels = [rand_label(rng, "host")] + list(labels)
        if hostonly:
            labels = [l for l in labels if all(ch in HOSTCH + b"*/." for ch in l)] or [b"x"]
        style = "canon"
        if shape in ("escapes", "odd") and rng.random() < 0.3:
            style = rng.choice(["ddd", "dot"])
        if shape == "odd" and rng.random() < 0.1:
            return rng.choice([b".", b"", b"a..b", b"a\\", b"\\300", b"." + text_name(labels), b"x" * 64 + b".com"])
        return text_name(labels, style)

    units = []
    qn = names(rng, hostonly=True)
    qt = rng.choice(QTYPES_ODD) if rng.random() < 0.06 else rng.choice(KNOWN + [255])
    nq = rng.choice([0, 2]) if rng.random() < 0.02 else 1      # the parser insists on exactly one question
    for _ in range(nq):
        units.append("q,%s,%d,%d" % (qn.hex(), qt, rng.choice([1, 1, 1, 3, 255])))
    if shape == "big16k":
        nrr = rng.choice([70, 90])
    elif shape == "big64k":
        nrr = rng.choice([258, 270])
    else:
        nrr = rng.choice([0, 1, 2, 3, 5, 8])
    have_opt = False
    for i in range(nrr):
        sect = rng.choice([1, 1, 2, 3])
        if shape in ("big16k", "big64k"):
            # bulk: TXT records with 255-octet strings, then names first seen beyond 16 KiB that are
            # referenced again later
            if i < nrr - 8:
                t = 16
                owner = text_name([b"bulk%d" % (i % 7)] + base)
            else:
                t = rng.choice([2, 5, 15, 1])
                owner = text_name([b"late%d" % (i % 3)] + base)
        else:
            t = rng.choice([x for x in KNOWN] + [65536])
            owner = names(rng, hostonly=rng.random() < 0.8)
        cls = rng.choice([1, 1, 1, 3, 4, 254])
        if t == 41:
            if have_opt and rng.random() < 0.8:
                t = 1
            else:
                if rng.random() < 0.9:
                    have_opt = True
                    sect = 3      # where an OPT RR belongs; a few stay in the section drawn above
                owner = b""
                cls = 1
        ttl = rng.choice([0, 1, 300, 0x7FFFFFFF, 0xFFFFFFFF]) if t != 41 else 0
        fields = []
        for key in KEYS.get(t, []):
            if rng.random() < 0.03 and shape == "odd":
                continue   # leave a key unset
            if key == 6553601:
                v = str(rng.choice(UNKNOWN_TYPES[1:]))
            elif shape in ("big16k", "big64k") and key == 1601:
                v = "a" + bytes(rng.randrange(256) for _ in range(255)).hex()
            else:
                v = build_value(rng, key, names, big=shape.startswith("big"))
            fields.append("%d=%s" % (key, v))
        units.append(",".join(["r", str(sect), owner.hex(), str(t), str(cls), str(ttl)] + fields))
    # an RCODE above 15 needs an OPT RR in the additional section (the writer falls back to SERVFAIL);
    # a few records ask for it without one
    rcode = rng.choice([0, 0, 0, 3, 16, 23]) if (have_opt or rng.random() < 0.04) else rng.choice([0, 0, 3, 5])
    head = "b:%d:%d:%d:%d" % (rng.randrange(65536), rng.choice([0, 1, 8, 9, 25, 127]), rng.choice([0, 0, 0, 1, 2, 4, 5]), rcode)
    return head + "|" + ";".join(units)


def escdot_case(rng):
    """records whose names carry escapes (\\. \\\\ \\DDD) right in front of text that equals a name written
    earlier in the message: the writer's suffix search must only compress at real label boundaries"""
    base = [rand_label(rng, rng.choice(["word", "host"])) for _ in range(rng.choice([2, 2, 3]))]
    stext = text_name(base)                       # e.g. smith.example.com
    tails = [text_name(base[i:]) for i in range(len(base))]
    x = rng.choice([b"john", b"a", b"", b"x-1", b"mail"])
    nback = rng.choice([1, 1, 1, 2, 3, 4, 5])
    variants = [
        x + b"\\" * nback + b"." + stext,                 # odd run: escaped dot; even run: escaped backslash(es) + real dot
        x + b"\\046" + stext,                             # \DDD dot glued to the suffix text
        x + b"\\092." + stext,                            # \DDD backslash, then a real dot
        x + b"\\." + rng.choice(tails),                   # escaped dot in front of a shorter earlier name
        b"a\\.b." + stext,                               # escaped dot further left, real boundary at the suffix
        x + b"." + base[0][:1] + b"\\." + text_name([base[0][1:] or b"z"] + base[1:]),   # escape inside the shared part
        x + b"\\" * nback + b"." + stext + b".",          # with a trailing dot
    ]
    earlier_inner = text_name([base[0][1:] or b"z"] + base[1:])
    units = ["q,%s,%d,1" % (stext.hex(), rng.choice([6, 2, 5, 12, 15]))]
    # earlier names: the suffix itself, its tails, the text following an escape inside the shared part
    for t in rng.sample(tails, len(tails)):
        units.append("r,1,%s,2,1,60,201=s%s" % (t.hex(), rng.choice(tails).hex()))
    if rng.random() < 0.5:
        units.append("r,1,%s,5,1,60,501=s%s" % (stext.hex(), earlier_inner.hex()))
    for _ in range(rng.choice([1, 2, 3])):
        v = rng.choice(variants)
        kind = rng.choice(["soa", "soa", "ns", "cname", "ptr", "mx", "owner"])
        if kind == "soa":
            other = rng.choice(variants + [stext])
            units.append("r,%d,%s,6,1,300,601=s%s,602=s%s,603=1,604=2,605=3,606=4,607=5" % (rng.choice([1, 2]), stext.hex(), other.hex(), v.hex()))
        elif kind == "ns":
            units.append("r,2,%s,2,1,300,201=s%s" % (stext.hex(), v.hex()))
        elif kind == "cname":
            units.append("r,1,%s,5,1,300,501=s%s" % (stext.hex(), v.hex()))
        elif kind == "ptr":
            units.append("r,1,%s,12,1,300,1201=s%s" % (stext.hex(), v.hex()))
        elif kind == "mx":
            units.append("r,1,%s,15,1,300,1501=10,1502=s%s" % (stext.hex(), v.hex()))
        else:
            units.append("r,1,%s,1,1,300,101=01020304" % v.hex())
    return "b:%d:0:0:0|%s" % (rng.randrange(65536), ";".join(units))


# question types at and beyond the edges of the 16 bit TYPE field (also: unknown types inside it)
QTYPES_ODD = [0, 99, 251, 65535, 65537, 65538, 65536 + 28, 70000, 131073, 16777217, 2147483647, -1, -2, -65535]


def query_case(rng):
    seeds = seed_names()
    r = rng.random()
    if r < 0.25 and seeds:
        name = rng.choice(seeds).split(b"\0")[0].replace(b"\n", b"")[:300]
    elif r < 0.85:
        name = text_name(rand_labels(rng, hostish=True), rng.choice(["canon", "canon", "dot", "ddd"]))
    else:
        name = rng.choice([b"", b".", b"a..b", b"a" * 64, b"\\", b"\\1", b"\\300.com", b"x." * 130, text_name(labels_of_len(rng, rng.choice([253, 254, 255, 256])))])
    qt = rng.choice(QTYPES_ODD) if rng.random() < 0.15 else rng.choice(KNOWN + [255, 0, 65535])
    return "c:%d:%d:%d:%d:%d|%s" % (rng.choice([1, 1, 1, 3, 255, 0, 2]), qt, rng.randrange(65536),
                                    rng.choice([0, 1, 1]), rng.choice([-1, 0, 0, 512, 1232, 4096, 65535, 65536, -5]), name.hex())


def gen_c03(rng, tier, n):
    """the C03 stream"""
    out = []
    out += size_cases(rng, tier)
    out += nested_family_cases(rng, tier)
    big_budget = 3 if tier == "quick" else 40
    while len(out) < n:
        r = rng.random()
        if r < 0.35:
            d, _ = message(rng, "valid")
            out.append(pcase(rng, d, 0))
        elif r < 0.40:
            d, m = message(rng, "valid")
            out.append(pcase(rng, mutate(rng, d, m), 0))
        elif r < 0.60:
            d, _ = message(rng, "valid")
            out.append("t:%d:%d|%s" % (rng.choice([0, 0, 1, 2, 3]), rng.choice([0, 0, 0, 1, 2, 7, 30, 10000]), d.hex()))
        elif r < 0.66:
            out.append(escdot_case(rng))
        elif r < 0.90:
            shape = rng.choice(["small", "small", "small", "shared", "shared", "escapes", "odd"])
            if big_budget > 0 and rng.random() < 0.02:
                shape = rng.choice(["big16k", "big16k", "big64k"])
                big_budget -= 1
            out.append(build_case(rng, shape))
        else:
            out.append(query_case(rng))
    return out


def gen_c04(rng, tier, n):
    """the C04 stream: parse flags 0 only, mostly-valid messages dominant, no legacy cases"""
    out = []
    out += pointer_depth_cases(rng, tier)
    out += rcode_cases(rng, tier)
    seeds = seed_messages()
    while len(out) < n:
        r = rng.random()
        if r < 0.62:
            d, _ = message(rng, "valid")
        elif r < 0.70:
            d, _ = message(rng, rng.choice(["counts", "rdlen", "messy"]))
        elif r < 0.80:
            d = name_layout(rng)
        elif r < 0.95:
            d, m = message(rng, "valid")
            d = mutate(rng, d, m)
        elif seeds:
            d = rng.choice(seeds)
            if rng.random() < 0.7:
                d = mutate(rng, d)
        else:
            d = name_layout(rng)
        out.append(pcase(rng, d, 0))
    return out


if __name__ == "__main__":
    import random
    import sys
    for c in gen(random.Random(int(sys.argv[1]) if len(sys.argv) > 1 else 1), "quick", int(sys.argv[2]) if len(sys.argv) > 2 else 20):
        print(c[:200])
