#!/usr/bin/env python3
"""C -> Gallina translator for loop-free leaf functions (DESIGN.md 2.3).

Input: a C file of the repository and a function name.  The function is read from clang's
JSON AST (so macros, typedefs, implicit conversions and integer promotions are exactly what
the compiler sees) and symbolically executed path by path into a decision tree

   Definition <fn> (scalar params) (values read through pointer params, by access path) :
        outcome (return value * final values of every access path the function writes)

C integers are Z with the wrap of their C type written explicitly; signed overflow, division
by zero and shifts by >= the width are explicit `UB` leaves (guard nodes).  Calls to other
functions and floating-point sub-expressions are abstracted to fresh inputs (`call_*`,
`fp_*`, `havoc_*`): theorems then hold for every value they may take.

Supported: integer/boolean expressions, struct fields through pointer parameters (also
through local pointer variables and nested pointers), locals, if/else, early return, ?:,
&&/||, casts, memset(p,0,sizeof *p), compound assignment, ++/--.  NOT supported (translation
fails loudly): loops, goto, switch, pointer arithmetic, array subscripts, memcpy/memmove.
Pointer *parameters* are assumed non-NULL (`p == NULL` is false).
"""
import json
import os
import re
import subprocess
import sys


class Unsupported(Exception):
    pass


TYPES = {
    "unsigned int": (False, 32), "int": (True, 32), "unsigned long": (False, 64), "long": (True, 64),
    "long long": (True, 64), "unsigned long long": (False, 64), "unsigned short": (False, 16),
    "short": (True, 16), "unsigned char": (False, 8), "char": (True, 8), "signed char": (True, 8),
    "_Bool": (False, 8), "size_t": (False, 64), "ares_int64_t": (True, 64), "ares_uint64_t": (False, 64),
    "time_t": (True, 64), "ares_ssize_t": (True, 64), "ssize_t": (True, 64), "unsigned": (False, 32),
    "__suseconds_t": (True, 64), "__time_t": (True, 64), "suseconds_t": (True, 64),
}


def ctype(node_type):
    """-> ('int', signed, bits) | ('ptr', pointee string) | ('float',) | ('void',) | ('other', s)"""
    q = node_type.get("desugaredQualType") or node_type.get("qualType")
    q0 = q
    q = re.sub(r"\b(const|volatile|restrict)\b", "", q).strip()
    q = re.sub(r"\s+", " ", q)
    if q.endswith("*"):
        return ("ptr", q[:-1].strip())
    if q in TYPES:
        return ("int",) + TYPES[q]
    if q.startswith("enum ") or q in ("ares_bool_t", "ares_status_t", "ares_conn_err_t", "ares_dns_rec_type_t",
                                      "ares_server_bucket_t"):
        return ("int", False, 32)
    if q in ("float", "double", "long double"):
        return ("float",)
    if q == "void":
        return ("void",)
    # typedef'd name without desugaring
    q2 = node_type.get("qualType", "")
    q2 = re.sub(r"\b(const|volatile)\b", "", q2).strip()
    if q2 in TYPES:
        return ("int",) + TYPES[q2]
    if q2.endswith("_t") and ("enum" in q0):
        return ("int", False, 32)
    return ("other", q0)


def ident(path):
    s = path.replace("->", "_").replace(".", "_").replace("*", "deref")
    s = re.sub(r"[^A-Za-z0-9_]", "_", s)
    return s


class Ptr:
    def __init__(self, path, off=None, direct=False):
        self.path = path       # the object pointed to lives at this access path
        self.off = off         # element offset (Z term) for pointers into a byte region
        self.direct = direct   # &x : dereferencing yields the path itself


# byte regions: a pointer field and the field holding its length, e.g. buf->data / buf->data_len
REGION_LEN = {"data": "data_len", "alloc_buf": "alloc_buf_len"}


def region_len_path(path):
    if "->" not in path:
        return None
    base, fld = path.rsplit("->", 1)
    if fld in REGION_LEN:
        return base + "->" + REGION_LEN[fld]
    return None


class Translator:
    def __init__(self, fn, assume_nonnull=True, inline=None):
        self.inline_asts = inline or {}
        self.inline_counter = 0
        self.names = {}            # decl id -> path of the variable (scoped for inlined callees)
        self.const_tabs = {}       # decl id -> (values, signed, bits) of a local `static const <int> t[N] = {literals}`
        self.fun_inputs = set()    # inputs of type Z -> Z (memory regions)
        self.copies = []
        self.ret_stack = []
        self.fn = fn
        self.name = fn["name"]
        self.params = [c for c in fn.get("inner", []) if c["kind"] == "ParmVarDecl"]
        body = [c for c in fn.get("inner", []) if c["kind"] == "CompoundStmt"]
        if not body:
            raise Unsupported("no body")
        self.body = body[0]
        self.inputs = []          # (identifier, description)
        self.input_set = set()
        self.counter = 0
        self.node_names = {}
        self.node_counter = 0
        self.written = []         # access paths written through pointers (outputs)
        self.rettype = None
        self.collect_written(self.body)
        self.param_names = set(p["name"] for p in self.params)
        self.assumptions = set()

    # ---------- pass 1: which pointer paths are written ----------
    def collect_written(self, n):
        k = n.get("kind")
        if k in ("ForStmt", "WhileStmt", "DoStmt", "GotoStmt", "LabelStmt"):
            raise Unsupported(k)
        for c in n.get("inner", []) or []:
            self.collect_written(c)

    def fresh(self, base):
        self.counter += 1
        return "%s%d" % (base, self.counter)

    def node_name(self, n, base):
        """stable name for an abstract input created at AST node n (the same node reached on
        different paths denotes the same input)"""
        key = (n.get("id"), base)
        if key not in self.node_names:
            self.node_counter += 1
            self.node_names[key] = "%s%d" % (base, self.node_counter)
        return self.node_names[key]

    def add_input(self, name, desc):
        if name not in self.input_set:
            self.input_set.add(name)
            self.inputs.append((name, desc))
        return name

    # ---------- expressions ----------
    # value forms: ('z', term, signed, bits) ; ('b', boolterm) ; ('p', Ptr|None|('zptr', term)) ; ('f',)
    def pow2(self, w):
        return "(2^%d)" % w

    def wrap(self, term, signed, bits):
        if signed:
            return "(swrap %d %s)" % (bits, term)
        return "(%s mod 2^%d)" % (term, bits)

    def as_z(self, v):
        if v[0] == "z":
            return v[1]
        if v[0] == "b":
            return "(b2z %s)" % v[1]
        if v[0] == "p":
            return self.ptr_z(v[1])
        raise Unsupported("float value used as integer")

    def ptr_z(self, p):
        if p is None:
            return "0"
        if isinstance(p, tuple):
            return p[1]
        # pointer to an object at a path: its numeric value is an abstract input
        if p.direct:
            return "1"
        if p.path in self.param_objs:
            self.assumptions.add("pointer parameter %s is non-NULL" % p.path)
            return "1"
        return self.add_input("ptr_" + ident(p.path), "pointer value " + p.path)

    def as_b(self, v):
        if v[0] == "b":
            return v[1]
        if v[0] == "z":
            return "(negb (%s =? 0))" % v[1]
        if v[0] == "p":
            z = self.ptr_z(v[1])
            if z == "1":
                return "true"
            if z == "0":
                return "false"
            return "(negb (%s =? 0))" % z
        raise Unsupported("float in condition")

    def const_table(self, d, t, init):
        """local `static const <integer type> name[N] = { integer literals }`: the list of values"""
        if t[0] != "other" or d.get("storageClass") != "static" or not init:
            return None
        m = re.fullmatch(r"const ((?:un)?signed )?(char|short|int|long|long long)\[(\d+)\]", t[1].strip())
        if not m or init[0].get("kind") != "InitListExpr":
            return None
        bits = {"char": 8, "short": 16, "int": 32, "long": 64, "long long": 64}[m.group(2)]
        signed = (m.group(1) or "").strip() != "unsigned"
        vals = []
        for e in init[0].get("inner", []):
            neg = False
            while e.get("kind") in ("ImplicitCastExpr", "ParenExpr") or (e.get("kind") == "UnaryOperator" and e.get("opcode") == "-"):
                if e.get("kind") == "UnaryOperator":
                    neg = not neg
                e = e["inner"][0]
            if e.get("kind") != "IntegerLiteral":
                return None
            v = int(e["value"])
            v = -v if neg else v
            lo, hi = (-(1 << (bits - 1)), 1 << (bits - 1)) if signed else (0, 1 << bits)
            if not lo <= v < hi:
                return None
            vals.append(v)
        if len(vals) != int(m.group(3)):
            return None          # partially initialised table: not handled
        return (vals, signed, bits)

    def guard(self, cond, kind):
        ctx = self.ctx
        if ctx:
            cond = "(implb %s %s)" % (" && ".join(ctx) if len(ctx) == 1 else "(" + " && ".join(ctx) + ")", cond)
        self.guards.append((cond, kind))

    def lvalue_path(self, n, env):
        k = n["kind"]
        if k == "ParenExpr":
            return self.lvalue_path(n["inner"][0], env)
        if k == "DeclRefExpr":
            rd = n["referencedDecl"]
            return self.names.get(rd.get("id"), rd["name"])
        if k == "MemberExpr":
            base = n["inner"][0]
            if n.get("isArrow"):
                pv = self.expr(base, env)
                if pv[0] != "p" or not isinstance(pv[1], Ptr) or pv[1].off is not None:
                    raise Unsupported("member access through non-object pointer")
                if pv[1].direct:
                    return pv[1].path + "." + n["name"]
                return pv[1].path + "->" + n["name"]
            return self.lvalue_path(base, env) + "." + n["name"]
        if k == "UnaryOperator" and n.get("opcode") == "*":
            pv = self.expr(n["inner"][0], env)
            if pv[0] != "p" or not isinstance(pv[1], Ptr) or pv[1].off is not None:
                raise Unsupported("deref of non-object pointer")
            if pv[1].direct:
                return pv[1].path
            return pv[1].path + "->*"
        raise Unsupported("lvalue kind " + k)

    def const_ok(self, v, signed, bits):
        try:
            x = int(v)
        except Exception:
            return False
        if signed:
            return -(1 << (bits - 1)) <= x < (1 << (bits - 1))
        return 0 <= x < (1 << bits)

    def cast_int(self, v, signed, bits):
        """integral conversion of value v to (signed,bits)"""
        if v[0] == "b":
            return ("z", "(b2z %s)" % v[1], signed, bits)
        if v[0] == "p":
            return ("z", self.ptr_z(v[1]), signed, bits)
        if v[0] == "f":
            raise Unsupported("float to int handled elsewhere")
        _, term, s0, b0 = v
        if re.fullmatch(r"\(?-?\d+\)?", term) and self.const_ok(term.strip("()"), signed, bits):
            return ("z", term, signed, bits)
        fits = (s0 == signed and b0 <= bits) or (not s0 and signed and b0 < bits)
        if fits:
            return ("z", term, signed, bits)
        return ("z", self.wrap(term, signed, bits), signed, bits)

    def lit(self, t):
        t = t.strip()
        while t.startswith("(") and t.endswith(")"):
            t = t[1:-1].strip()
        if re.fullmatch(r"-?\d+", t):
            return int(t)
        return None

    def arith(self, op, a, b, signed, bits):
        ta, tb = a, b
        la, lb = self.lit(ta), self.lit(tb)
        if la is not None and lb is not None and op in ("+", "-", "*"):
            r = {"+": la + lb, "-": la - lb, "*": la * lb}[op]
            if signed and -(1 << (bits - 1)) <= r < (1 << (bits - 1)):
                return str(r) if r >= 0 else "(%d)" % r
            if not signed:
                return str(r % (1 << bits))
        if lb is not None and lb not in (0, -1) and op in ("/", "%"):
            if signed:
                return "(Z.quot %s %s)" % (ta, tb) if op == "/" else "(Z.rem %s %s)" % (ta, tb)
            return "(%s / %s)" % (ta, tb) if op == "/" else "(%s mod %s)" % (ta, tb)
        if lb is not None and 0 <= lb < bits and op == ">>":
            return "(Z.shiftr %s %s)" % (ta, tb)
        if lb is not None and 0 <= lb < bits and op == "<<" and not signed:
            return self.wrap("(Z.shiftl %s %s)" % (ta, tb), False, bits)
        lo = "(-(2^%d))" % (bits - 1)
        hi = "(2^%d)" % (bits - 1)
        if op in ("+", "-", "*"):
            raw = "(%s %s %s)" % (ta, op, tb)
            if signed:
                nm = self.let(raw)
                self.guard("((%s <=? %s) && (%s <? %s))" % (lo, nm, nm, hi), "SignedOverflow")
                return nm
            return self.wrap(raw, False, bits)
        if op == "/":
            self.guard("(negb (%s =? 0))" % tb, "DivZero")
            if signed:
                self.guard("(negb ((%s =? %s) && (%s =? -1)))" % (ta, lo, tb), "SignedOverflow")
                return "(Z.quot %s %s)" % (ta, tb)
            return "(%s / %s)" % (ta, tb)
        if op == "%":
            self.guard("(negb (%s =? 0))" % tb, "DivZero")
            if signed:
                self.guard("(negb ((%s =? %s) && (%s =? -1)))" % (ta, lo, tb), "SignedOverflow")
                return "(Z.rem %s %s)" % (ta, tb)
            return "(%s mod %s)" % (ta, tb)
        if op == "<<":
            self.guard("((0 <=? %s) && (%s <? %d))" % (tb, tb, bits), "ShiftTooWide")
            if signed:
                nm = self.let("(Z.shiftl %s %s)" % (ta, tb))
                self.guard("((0 <=? %s) && (%s <? %s))" % (ta, nm, hi), "SignedOverflow")
                return nm
            return self.wrap("(Z.shiftl %s %s)" % (ta, tb), False, bits)
        if op == ">>":
            self.guard("((0 <=? %s) && (%s <? %d))" % (tb, tb, bits), "ShiftTooWide")
            return "(Z.shiftr %s %s)" % (ta, tb)
        if op == "&":
            return "(Z.land %s %s)" % (ta, tb)
        if op == "|":
            return "(Z.lor %s %s)" % (ta, tb)
        if op == "^":
            return "(Z.lxor %s %s)" % (ta, tb)
        raise Unsupported("operator " + op)

    def let(self, term):
        """bind term to a fresh name in the tree being built"""
        if self.lit(term) is not None or re.fullmatch(r"[A-Za-z_][A-Za-z0-9_']*", term.strip()):
            return term.strip()
        nm = self.fresh("t")
        self.flush_guards()
        self.pre.append(("let", nm, term))
        return nm

    def flush_guards(self):
        for g in self.guards:
            self.pre.append(("guard", g[0], g[1]))
        self.guards = []

    def expr(self, n, env):
        k = n["kind"]
        if k in ("ParenExpr", "ConstantExpr"):
            return self.expr(n["inner"][0], env)
        if k == "IntegerLiteral":
            t = ctype(n["type"])
            v = n["value"]
            return ("z", v if not v.startswith("-") else "(%s)" % v, t[1], t[2])
        if k == "CharacterLiteral":
            return ("z", str(n["value"]), True, 32)
        if k == "FloatingLiteral":
            return ("f",)
        if k == "DeclRefExpr":
            rd = n["referencedDecl"]
            if rd["kind"] == "EnumConstantDecl":
                self.used_consts.add(rd["name"])
                return ("z", rd["name"], False, 32)
            path = self.names.get(rd.get("id"), rd["name"])
            return self.read_path(path, n["type"], env)
        if k == "ArraySubscriptExpr" or (k == "UnaryOperator" and n.get("opcode") == "*"):
            base = n["inner"][0]
            if k == "ArraySubscriptExpr":
                b0 = base
                while b0.get("kind") in ("ImplicitCastExpr", "ParenExpr") and b0.get("inner"):
                    b0 = b0["inner"][0]
                tab = self.const_tabs.get((b0.get("referencedDecl") or {}).get("id")) if b0.get("kind") == "DeclRefExpr" else None
                if tab is not None:
                    # read of a constant lookup table: index checked, value = the literal at that index
                    vals, sg, bits = tab
                    idx = self.let(self.as_z(self.expr(n["inner"][1], env)))
                    self.guard("((0 <=? %s) && (%s <? %d))" % (idx, idx, len(vals)), "OutOfBounds")
                    return ("z", "(nth (Z.to_nat %s) [%s] 0)" % (idx, "; ".join(str(v) for v in vals)), sg, bits)
            pv = self.expr(base, env)
            if pv[0] == "p" and isinstance(pv[1], Ptr) and not pv[1].direct and region_len_path(pv[1].path):
                idx = "0"
                if k == "ArraySubscriptExpr":
                    idx = self.as_z(self.expr(n["inner"][1], env))
                return self.region_read(pv[1], idx, n, env)
            if pv[0] == "p" and pv[1] is None:
                # dereference of a pointer that is NULL on this path
                self.guard("false", "NullDeref")
                return ("z", "0", False, 8)
            if k == "ArraySubscriptExpr":
                raise Unsupported("array subscript on a pointer that is not a known byte region")
        if k == "MemberExpr" or (k == "UnaryOperator" and n.get("opcode") == "*"):
            path = self.lvalue_path(n, env)
            return self.read_path(path, n["type"], env)
        if k == "ImplicitCastExpr" or k == "CStyleCastExpr":
            ck = n.get("castKind")
            sub = n["inner"][0]
            if ck in ("LValueToRValue", "NoOp", "FunctionToPointerDecay"):
                return self.expr(sub, env)
            if ck == "ToVoid":
                self.expr(sub, env)
                return ("z", "0", True, 32)
            if ck == "NullToPointer":
                return ("p", None)
            if ck == "BitCast":
                return self.expr(sub, env)
            if ck in ("IntegralCast", "IntegralToBoolean", "BooleanToSignedIntegral", "PointerToIntegral"):
                v = self.expr(sub, env)
                t = ctype(n["type"])
                if t[0] != "int":
                    raise Unsupported("cast to " + str(t))
                if ck == "IntegralToBoolean":
                    return ("b", self.as_b(v))
                return self.cast_int(v, t[1], t[2])
            if ck == "PointerToBoolean":
                return ("b", self.as_b(self.expr(sub, env)))
            if ck == "IntegralToPointer":
                v = self.expr(sub, env)
                return ("p", ("zptr", self.as_z(v)))
            if ck in ("IntegralToFloating", "FloatingCast"):
                self.expr(sub, env)
                return ("f",)
            if ck == "FloatingToIntegral":
                t = ctype(n["type"])
                self.float_scan(sub, env)
                nm = self.add_input(self.node_name(n, "fp_"), "floating-point sub-expression converted to %s" % n["type"].get("qualType"))
                if t[1]:
                    self.guard("((-(2^%d) <=? %s) && (%s <? 2^%d))" % (t[2] - 1, nm, nm, t[2] - 1), "SignedOverflow")
                else:
                    self.guard("((0 <=? %s) && (%s <? 2^%d))" % (nm, nm, t[2]), "SignedOverflow")
                return ("z", nm, t[1], t[2])
            raise Unsupported("cast kind %s" % ck)
        if k == "UnaryOperator":
            op = n["opcode"]
            sub = n["inner"][0]
            if op == "&":
                return ("p", Ptr(self.lvalue_path(sub, env), direct=True))
            if op == "!":
                return ("b", "(negb %s)" % self.as_b(self.expr(sub, env)))
            t = ctype(n["type"])
            if op in ("-", "~", "+"):
                v = self.expr(sub, env)
                z = self.as_z(v)
                if t[0] != "int":
                    raise Unsupported("unary on non-int")
                if op == "+":
                    return ("z", z, t[1], t[2])
                if op == "-":
                    if t[1]:
                        self.guard("(negb (%s =? -(2^%d)))" % (z, t[2] - 1), "SignedOverflow")
                        return ("z", "(- %s)" % z, True, t[2])
                    return ("z", self.wrap("(- %s)" % z, False, t[2]), False, t[2])
                if op == "~":
                    if t[1]:
                        return ("z", "(- %s - 1)" % z, True, t[2])
                    return ("z", "(2^%d - 1 - %s)" % (t[2], z), False, t[2])
            if op in ("++", "--"):
                path = self.lvalue_path(sub, env)
                old = self.read_path(path, sub["type"], env)
                if old[0] != "z":
                    raise Unsupported("++ on non-integer")
                new = self.arith("+" if op == "++" else "-", old[1], "1", old[2], old[3])
                nm = self.let(new)
                self.write_path(path, ("z", nm, old[2], old[3]), env)
                return ("z", nm, old[2], old[3]) if not n.get("isPostfix") else old
            raise Unsupported("unary " + op)
        if k == "BinaryOperator":
            op = n["opcode"]
            l, r = n["inner"]
            if op == "=":
                v = self.expr(r, env)
                ll = l
                while ll.get("kind") == "ParenExpr":
                    ll = ll["inner"][0]
                if ll.get("kind") == "ArraySubscriptExpr":
                    bv = self.expr(ll["inner"][0], env)
                    self.expr(ll["inner"][1], env)
                    if bv[0] == "p" and isinstance(bv[1], Ptr) and not bv[1].direct and region_len_path(bv[1].path):
                        raise Unsupported("store into a modelled byte region")
                    self.assumptions.add("stores through caller-provided or freshly allocated buffers are in bounds (not modelled)")
                    return v
                path = self.lvalue_path(l, env)
                if v[0] in ("z", "b"):
                    t = ctype(l["type"])
                    if t[0] == "int":
                        v = self.cast_int(v, t[1], t[2]) if v[0] == "b" else v
                        nm = self.let(self.as_z(v))
                        v = ("z", nm, t[1], t[2])
                self.write_path(path, v, env)
                return v
            if op == ",":
                self.expr(l, env)
                return self.expr(r, env)
            if op in ("&&", "||"):
                a = self.as_b(self.expr(l, env))
                self.ctx.append(a if op == "&&" else "(negb %s)" % a)
                b = self.as_b(self.expr(r, env))
                self.ctx.pop()
                if op == "||" and a == "false":
                    return ("b", b)
                if op == "&&" and a == "true":
                    return ("b", b)
                if (op == "||" and a == "true") or (op == "&&" and a == "false"):
                    return ("b", a)
                if (op == "||" and b == "false") or (op == "&&" and b == "true"):
                    return ("b", a)
                return ("b", "(%s %s %s)" % (a, op, b))
            a = self.expr(l, env)
            b = self.expr(r, env)
            if op in ("==", "!=", "<", ">", "<=", ">="):
                if a[0] == "p" or b[0] == "p":
                    za, zb = self.as_z(a), self.as_z(b)
                else:
                    za, zb = self.as_z(a), self.as_z(b)
                m = {"==": "(%s =? %s)", "!=": "(negb (%s =? %s))", "<": "(%s <? %s)", ">": "(%s >? %s)",
                     "<=": "(%s <=? %s)", ">=": "(%s >=? %s)"}[op]
                la, lb = self.lit(za), self.lit(zb)
                if la is not None and lb is not None:
                    r = {"==": la == lb, "!=": la != lb, "<": la < lb, ">": la > lb, "<=": la <= lb, ">=": la >= lb}[op]
                    return ("b", "true" if r else "false")
                return ("b", m % (za, zb))
            t = ctype(n["type"])
            if t[0] == "float":
                return ("f",)
            if t[0] == "ptr" and op in ("+", "-") and a[0] == "p" and isinstance(a[1], Ptr) and not a[1].direct \
                    and region_len_path(a[1].path) and b[0] in ("z", "b"):
                old = a[1].off if a[1].off is not None else "0"
                zb = self.as_z(b)
                new = "(%s %s %s)" % (old, op, zb) if old != "0" or op == "-" else zb
                return ("p", Ptr(a[1].path, off=new))
            if t[0] != "int":
                raise Unsupported("binary op on %s" % str(t))
            return ("z", self.arith(op, self.as_z(a), self.as_z(b), t[1], t[2]), t[1], t[2])
        if k == "CompoundAssignOperator":
            op = n["opcode"][:-1]
            l, r = n["inner"]
            path = self.lvalue_path(l, env)
            old = self.read_path(path, l["type"], env)
            rv = self.expr(r, env)
            ct = ctype(n.get("computeResultType", n["type"]))
            lt = ctype(l["type"])
            if ct[0] == "float":
                # float computation assigned back to an integer lvalue
                nm = self.add_input(self.node_name(n, "fp_"), "floating-point compound assignment result")
                v = ("z", nm, lt[1], lt[2])
                self.write_path(path, v, env)
                return v
            if ct[0] != "int" or lt[0] != "int":
                raise Unsupported("compound assign on non-int")
            lhs = self.cast_int(old, ct[1], ct[2])
            res = self.arith(op, self.as_z(lhs), self.as_z(rv), ct[1], ct[2])
            resv = self.cast_int(("z", res, ct[1], ct[2]), lt[1], lt[2])
            nm = self.let(resv[1])
            v = ("z", nm, lt[1], lt[2])
            self.write_path(path, v, env)
            return v
        if k == "ConditionalOperator":
            c, a, b = n["inner"]
            cb = self.as_b(self.expr(c, env))
            self.ctx.append(cb)
            va = self.expr(a, env)
            self.ctx.pop()
            self.ctx.append("(negb %s)" % cb)
            vb = self.expr(b, env)
            self.ctx.pop()
            t = ctype(n["type"])
            if t[0] == "int":
                va = self.cast_int(va, t[1], t[2]) if va[0] != "z" else va
                vb = self.cast_int(vb, t[1], t[2]) if vb[0] != "z" else vb
                return ("z", "(if %s then %s else %s)" % (cb, va[1], vb[1]), t[1], t[2])
            raise Unsupported("?: on non-int")
        if k == "CallExpr":
            return self.call(n, env)
        if k == "UnaryExprOrTypeTraitExpr":
            # sizeof of a known integer type (or of an expression of such a type) is a constant
            if n.get("name") == "sizeof":
                at = n.get("argType")
                if at is None and n.get("inner"):
                    sub = n["inner"][0]
                    while sub.get("kind") == "ParenExpr":
                        sub = sub["inner"][0]
                    at = sub.get("type")
                if at is not None:
                    t = ctype(at)
                    if t[0] == "int":
                        return ("z", str(t[2] // 8), False, 64)
            nm = self.add_input(self.node_name(n, "sizeof_"), "sizeof expression")
            return ("z", nm, False, 64)
        raise Unsupported("expression kind " + k)

    def region_terms(self, p, env):
        """(memory function input, length term, offset term) of a pointer into a byte region"""
        lp = region_len_path(p.path)
        ln = self.read_path(lp, {"qualType": "size_t"}, env)
        mem = "mem_" + ident(p.path)
        if mem not in self.input_set:
            self.fun_inputs.add(mem)
            self.add_input(mem, "contents of the byte region %s (index -> byte)" % p.path)
        return mem, self.as_z(ln), (p.off if p.off is not None else "0")

    def region_read(self, p, idx, n, env):
        mem, ln, off = self.region_terms(p, env)
        at = "(%s + %s)" % (off, idx) if off != "0" else idx
        if idx == "0" and off != "0":
            at = off
        nm = self.let(at)
        self.guard("((0 <=? %s) && (%s <? %s))" % (nm, nm, ln), "OutOfBounds")
        return ("z", "((%s %s) mod 256)" % (mem, nm), False, 8)

    def float_scan(self, n, env):
        """evaluate integer sub-expressions of a float expression for their guards only"""
        for c in n.get("inner", []) or []:
            t = ctype(c["type"]) if "type" in c else ("other",)
            if t[0] == "int" and c["kind"] not in ("IntegerLiteral",):
                try:
                    self.expr(c, env)
                except Unsupported:
                    pass
            else:
                self.float_scan(c, env)

    def callee_name(self, n):
        c = n["inner"][0]
        while c["kind"] in ("ImplicitCastExpr", "ParenExpr"):
            c = c["inner"][0]
        if c["kind"] == "DeclRefExpr":
            return c["referencedDecl"]["name"]
        raise Unsupported("indirect call")

    def strip(self, a):
        while a["kind"] in ("ImplicitCastExpr", "ParenExpr", "CStyleCastExpr"):
            a = a["inner"][0]
        return a

    def call(self, n, env):
        name = self.callee_name(n)
        args = n["inner"][1:]
        if name in ("memset", "__builtin_memset"):
            dst = self.expr(args[0], env)
            val = self.expr(args[1], env)
            if dst[0] == "p" and isinstance(dst[1], Ptr) and val[0] == "z" and val[1] == "0":
                self.zeroed.append(dst[1].path)
                pre = dst[1].path + "->"
                for p in list(env):
                    if p.startswith(pre):
                        del env[p]
                env["__zero__" + pre] = True
                return ("z", "0", True, 32)
            raise Unsupported("memset form")
        if name in ("memcpy", "memmove", "__builtin_memcpy", "__builtin_memmove"):
            dst = self.expr(args[0], env)
            src = self.expr(args[1], env)
            cnt = self.as_z(self.expr(args[2], env))
            for (v, role) in ((src, "source"), (dst, "destination")):
                if v[0] == "p" and isinstance(v[1], Ptr) and not v[1].direct and region_len_path(v[1].path):
                    mem, ln, off = self.region_terms(v[1], env)
                    self.guard("((%s =? 0) || ((0 <=? %s) && (%s + %s <=? %s)))" % (cnt, off, off, cnt, ln), "OutOfBounds")
                    if role == "destination":
                        raise Unsupported("memcpy into a modelled byte region")
                elif role == "source" and v[0] == "p" and v[1] is None:
                    self.guard("(%s =? 0)" % cnt, "NullDeref")
                elif role == "source":
                    raise Unsupported("memcpy from a pointer that is not a known byte region")
                else:
                    self.assumptions.add("the destination buffer of %s has room for the bytes copied (caller-provided or freshly allocated; not modelled)" % name)
            self.copies.append((self.node_name(n, "copy"), src[1], cnt))
            return ("z", "0", True, 32)
        if name in ("strcpy", "strlen"):
            raise Unsupported("call to " + name)
        # abstract call: result is a fresh input; non-const pointer arguments are havocked
        for a in args:
            at = ctype(a["type"]) if "type" in a else ("other",)
            v = None
            try:
                if self.strip(a)["kind"] != "UnaryExprOrTypeTraitExpr":
                    v = self.expr(a, env)
            except Unsupported:
                v = None
            if at[0] == "ptr":
                qual = a["type"].get("qualType", "")
                inner = self.strip(a)
                const = qual.strip().startswith("const ") or "const" in qual.split("*")[0]
                if inner["kind"] == "UnaryOperator" and inner.get("opcode") == "&":
                    const = False
                if v is not None and v[0] == "p" and isinstance(v[1], Ptr) and v[1].off is not None:
                    self.assumptions.add("callee %s only reads the bytes it is handed within the length it is given (not modelled)" % name)
                    continue
                if not const and v is not None and v[0] == "p" and isinstance(v[1], Ptr):
                    base = v[1].path
                    hv = self.node_name(n, "havoc")
                    for p in list(env):
                        if p == base or p.startswith(base + "->") or p.startswith(base + "."):
                            del env[p]
                    env["__havoc__" + base] = hv + "_" + name
        t = ctype(n["type"])
        if t[0] == "void":
            return ("z", "0", True, 32)
        nm = self.add_input(self.node_name(n, "call_%s_" % name), "result of call to %s" % name)
        if t[0] == "int":
            return ("z", nm, t[1], t[2])
        if t[0] == "ptr":
            return ("p", ("zptr", nm))
        raise Unsupported("call returning " + str(t))

    def write_path(self, path, v, env):
        env[path] = v
        if ("->" in path) and path not in self.written:
            self.written.append(path)

    # read_path with zero/havoc awareness
    def read_path(self, path, ty, env):
        if path in env:
            return env[path]
        for key in list(env):
            if key.startswith("__zero__") and path.startswith(key[8:]):
                t = ctype(ty)
                if t[0] == "int":
                    return ("z", "0", t[1], t[2])
                if t[0] == "ptr":
                    return ("p", None)
            if key.startswith("__havoc__"):
                base = key[9:]
                if path == base or path.startswith(base + "->") or path.startswith(base + "."):
                    t = ctype(ty)
                    if t[0] == "int":
                        nm = self.add_input(ident(path) + "_" + env[key], "value of %s after call" % path)
                        v = ("z", nm, t[1], t[2])
                        env[path] = v
                        return v
        t = ctype(ty)
        if t[0] == "int":
            nm = self.add_input(ident(path), "value of %s (%s)" % (path, ty.get("qualType")))
            return ("z", nm, t[1], t[2])
        if t[0] == "ptr":
            return ("p", Ptr(path))
        if t[0] == "float":
            return ("f",)
        raise Unsupported("read of %s with type %s" % (path, t))

    # ---------- statements ----------
    def run(self):
        self.used_consts = set()
        self.scope_prefix = ""
        self.zeroed = []
        self.param_objs = set()
        env = {}
        self.scalar_params = []
        for p in self.params:
            t = ctype(p["type"])
            self.names[p.get("id")] = p["name"]
            if t[0] == "int":
                self.scalar_params.append(p["name"])
                env[p["name"]] = ("z", p["name"], t[1], t[2])
            elif t[0] == "ptr":
                env[p["name"]] = ("p", Ptr(p["name"]))
                self.param_objs.add(p["name"])
            else:
                raise Unsupported("parameter %s of type %s" % (p["name"], t))
        rt = self.fn["type"]["qualType"].split("(")[0].strip()
        self.ret_t = ctype({"qualType": rt})
        # first pass to discover written paths (outputs must be uniform over all returns)
        self.rets = []
        tree = self.stmts(list(self.body.get("inner", []) or []), env)
        return tree

    def begin(self):
        self.pre = []
        self.guards = []
        self.ctx = []

    def take(self):
        self.flush_guards()
        items = self.pre
        self.pre = []
        return items

    def wrap_items(self, items, tree):
        for item in reversed(items):
            if item[0] == "let":
                tree = ("let", item[1], item[2], tree)
            else:
                tree = ("guard", item[1], item[2], tree)
        return tree

    def stmts(self, lst, env):
        if not lst:
            return ("ret", None, dict(env))
        s, rest = lst[0], lst[1:]
        k = s["kind"]
        if k == "CompoundStmt":
            return self.stmts(list(s.get("inner", []) or []) + rest, env)
        if k == "NullStmt":
            return self.stmts(rest, env)
        if k == "DeclStmt":
            ds = [d for d in s.get("inner", []) if d.get("kind") == "VarDecl"]
            if len(ds) == 1:
                init1 = [c for c in ds[0].get("inner", []) if "kind" in c and c["kind"] not in ("FullComment",)]
                call = self.inline_call_node(init1[0]) if init1 else None
                if call is not None:
                    d = ds[0]
                    t = ctype(d["type"])
                    vname = self.scope_prefix + d["name"]
                    self.names[d.get("id")] = vname

                    def k_decl(v, env2, t=t, vname=vname):
                        if t[0] == "int" and v is not None:
                            if v[0] != "z":
                                v = self.cast_int(v, t[1], t[2])
                        env2 = dict(env2)
                        if v is not None:
                            env2[vname] = v
                        return self.stmts(rest, env2)
                    return self.inline(call, env, k_decl)
            self.begin()
            for d in s.get("inner", []):
                if d["kind"] != "VarDecl":
                    raise Unsupported("decl " + d["kind"])
                init = [c for c in d.get("inner", []) if "kind" in c and c["kind"] not in ("FullComment",)]
                t = ctype(d["type"])
                if t[0] == "other" and not init and re.match(r"(struct |union )?[A-Za-z_][A-Za-z0-9_]*$", t[1].strip()):
                    # uninitialised local struct: its fields are read by access path
                    # ("v.f"); a field read before any write or call yields an arbitrary input
                    self.names[d.get("id")] = self.scope_prefix + d["name"]
                    continue
                tab = self.const_table(d, t, init)
                if tab is not None:
                    self.const_tabs[d.get("id")] = tab
                    continue
                if t[0] not in ("int", "ptr", "float"):
                    raise Unsupported("local %s of type %s" % (d["name"], t))
                if init:
                    v = self.expr(init[0], env)
                    if t[0] == "int":
                        v = self.cast_int(v, t[1], t[2]) if v[0] != "z" else v
                        nm = self.let(self.as_z(v))
                        v = ("z", nm, t[1], t[2])
                    env[self.scope_prefix + d["name"]] = v
                    self.names[d.get("id")] = self.scope_prefix + d["name"]
                elif t[0] == "float":
                    env[self.scope_prefix + d["name"]] = ("f",)
                    self.names[d.get("id")] = self.scope_prefix + d["name"]
                else:
                    self.names[d.get("id")] = self.scope_prefix + d["name"]
                # uninitialised integer/pointer local: a later read yields an arbitrary input
            items = self.take()
            return self.wrap_items(items, self.stmts(rest, env))
        if k == "ReturnStmt":
            if s.get("inner"):
                call = self.inline_call_node(s["inner"][0])
                if call is not None:
                    rt = self.ret_t

                    def k_ret(v, env2, rt=rt):
                        if rt[0] == "int" and v is not None and v[0] != "z":
                            v = self.cast_int(v, rt[1], rt[2])
                        return ("ret", v, dict(env2))
                    return self.inline(call, env, k_ret)
            self.begin()
            v = None
            if s.get("inner"):
                v = self.expr(s["inner"][0], env)
                if self.ret_t[0] == "int":
                    if v[0] != "z":
                        v = self.cast_int(v, self.ret_t[1], self.ret_t[2])
            items = self.take()
            return self.wrap_items(items, ("ret", v, dict(env)))
        if k == "IfStmt":
            self.begin()
            inner = s["inner"]
            c = self.as_b(self.expr(inner[0], env))
            items = self.take()
            if c == "false":
                return self.wrap_items(items, self.stmts(([inner[2]] if len(inner) > 2 else []) + rest, env))
            if c == "true":
                return self.wrap_items(items, self.stmts([inner[1]] + rest, env))
            then_t = self.stmts([inner[1]] + rest, dict(env))
            else_t = self.stmts(([inner[2]] if len(inner) > 2 else []) + rest, dict(env))
            return self.wrap_items(items, ("if", c, then_t, else_t))
        if k == "SwitchStmt":
            return self.switch(s, rest, env)
        if k in ("BreakStmt", "ContinueStmt", "CaseStmt", "DefaultStmt"):
            raise Unsupported(k + " outside the supported switch form")
        # expression statement: "x = f(..)" / "f(..)" with f inlinable
        if k == "BinaryOperator" and s.get("opcode") == "=":
            call = self.inline_call_node(s["inner"][1])
            if call is not None:
                lhs = s["inner"][0]

                def k_asg(v, env2, lhs=lhs):
                    env2 = dict(env2)
                    self.begin()
                    path = self.lvalue_path(lhs, env2)
                    lt = ctype(lhs["type"])
                    if lt[0] == "int" and v is not None and v[0] != "z":
                        v = self.cast_int(v, lt[1], lt[2])
                    if v is not None:
                        self.write_path(path, v, env2)
                    items2 = self.take()
                    return self.wrap_items(items2, self.stmts(rest, env2))
                return self.inline(call, env, k_asg)
        call = self.inline_call_node(s)
        if call is not None:
            return self.inline(call, env, lambda v, env2: self.stmts(rest, dict(env2)))
        self.begin()
        self.expr(s, env)
        items = self.take()
        return self.wrap_items(items, self.stmts(rest, env))

    # ---------- inlining of callees from the same source ----------
    def inline_call_node(self, n):
        while n.get("kind") in ("ImplicitCastExpr", "ParenExpr", "CStyleCastExpr") and n.get("castKind") not in ("LValueToRValue",):
            n = n["inner"][0]
        if n.get("kind") == "CallExpr":
            try:
                nm = self.callee_name(n)
            except Unsupported:
                return None
            if nm in self.inline_asts:
                return n
        return None

    def graft(self, tree, k):
        if tree[0] == "ret":
            return k(tree[1], tree[2])
        if tree[0] == "let":
            return ("let", tree[1], tree[2], self.graft(tree[3], k))
        if tree[0] == "guard":
            return ("guard", tree[1], tree[2], self.graft(tree[3], k))
        if tree[0] == "if":
            return ("if", tree[1], self.graft(tree[2], k), self.graft(tree[3], k))
        raise Exception(tree)

    def inline(self, call, env, k):
        name = self.callee_name(call)
        callee = self.inline_asts[name]
        self.inline_counter += 1
        if self.inline_counter > 60:
            raise Unsupported("too many inlined calls")
        prefix = "i%d_%s_" % (self.inline_counter, name)
        params = [c for c in callee.get("inner", []) if c["kind"] == "ParmVarDecl"]
        body = [c for c in callee.get("inner", []) if c["kind"] == "CompoundStmt"][0]
        for c in ("ForStmt", "WhileStmt", "DoStmt", "GotoStmt"):
            if ('"kind": "%s"' % c) in json.dumps(body):
                raise Unsupported("inlined callee %s contains %s" % (name, c))
        args = call["inner"][1:]
        self.begin()
        vals = [self.expr(a, env) for a in args]
        items = self.take()
        env = dict(env)
        for pdecl, v in zip(params, vals):
            t = ctype(pdecl["type"])
            if t[0] == "int":
                v = self.cast_int(v, t[1], t[2]) if v[0] != "z" else v
                self.begin()
                nmv = self.let(self.as_z(v))
                items += self.take()
                v = ("z", nmv, t[1], t[2])
            self.names[pdecl.get("id")] = prefix + pdecl["name"]
            env[prefix + pdecl["name"]] = v
        rt = callee["type"]["qualType"].split("(")[0].strip()
        self.ret_stack.append((self.ret_t, self.scope_prefix))
        self.ret_t = ctype({"qualType": rt})
        self.scope_prefix = prefix
        tree = self.stmts(list(body.get("inner", []) or []), env)
        self.ret_t, self.scope_prefix = self.ret_stack.pop()
        return self.wrap_items(items, self.graft(tree, k))

    def switch(self, s, rest, env):
        """switch over integer constants whose body is a flat list of case/default labels,
        statements and top-level `break`s (fall-through is honoured); translated to an
        if-chain on the (let-bound) controlling value.  A `break` nested inside another
        statement is refused."""
        inner = [c for c in s.get("inner", []) if "kind" in c]
        if len(inner) != 2 or inner[1]["kind"] != "CompoundStmt":
            raise Unsupported("switch form")
        self.begin()
        cv = self.expr(inner[0], env)
        nm = self.let(self.as_z(cv))
        items = self.take()
        seq = []          # ("label", const term | None) | ("stmt", node) | ("break",)

        def has_break(n):
            if n.get("kind") == "BreakStmt":
                return True
            if n.get("kind") in ("SwitchStmt",):
                return False
            return any(has_break(c) for c in n.get("inner", []) or [] if isinstance(c, dict))

        def add(n):
            k = n["kind"]
            if k == "CaseStmt":
                parts = [c for c in n["inner"] if "kind" in c]
                if len(parts) != 2:
                    raise Unsupported("case range")
                self.begin()
                c = self.expr(parts[0], env)
                if self.take():
                    raise Unsupported("non-constant case label")
                seq.append(("label", self.as_z(c)))
                add(parts[1])
            elif k == "DefaultStmt":
                seq.append(("label", None))
                add([c for c in n["inner"] if "kind" in c][-1])
            elif k == "BreakStmt":
                seq.append(("break",))
            else:
                if has_break(n):
                    raise Unsupported("break nested inside a statement of a switch")
                seq.append(("stmt", n))
        for c in inner[1].get("inner", []) or []:
            add(c)

        def code_from(i):
            out = []
            for it in seq[i:]:
                if it[0] == "break":
                    return out
                if it[0] == "stmt":
                    out.append(it[1])
            return out
        labels = [(i, it[1]) for i, it in enumerate(seq) if it[0] == "label"]
        default = [i for (i, c) in labels if c is None]
        tree = self.stmts((code_from(default[0]) if default else []) + rest, dict(env))
        for (i, c) in reversed([x for x in labels if x[1] is not None]):
            tree = ("if", "(%s =? %s)" % (nm, c), self.stmts(code_from(i) + rest, dict(env)), tree)
        return self.wrap_items(items, tree)

    # ---------- printing ----------
    def out_tuple(self, v, env):
        outs = []
        if self.ret_t[0] != "void":
            if v is None:
                raise Unsupported("missing return value")
            outs.append(self.as_z(v) if v[0] != "p" else self.ptr_z(v[1]))
        for p in sorted(self.written):
            if p in env:
                outs.append(self.as_z(env[p]))
            else:
                # not written on this path: unchanged input (or zeroed)
                zero = any(key.startswith("__zero__") and p.startswith(key[8:]) for key in env)
                if zero:
                    outs.append("0")
                else:
                    outs.append(self.add_input(ident(p), "value of %s" % p))
        if not outs:
            return "tt"
        return "(" + ", ".join(outs) + ")"

    def pp(self, t, ind):
        sp = "  " * ind
        if t[0] == "ret":
            return sp + "Ok " + self.out_tuple(t[1], t[2])
        if t[0] == "let":
            return sp + "let %s := %s in\n" % (t[1], t[2]) + self.pp(t[3], ind)
        if t[0] == "guard":
            return sp + "guard %s %s (\n" % (t[1], t[2]) + self.pp(t[3], ind) + ")"
        if t[0] == "if":
            return sp + "if %s then\n%s\n%selse\n%s" % (t[1], self.pp(t[2], ind + 1), sp, self.pp(t[3], ind + 1))
        raise Exception(t)

    def gallina(self, prefix="c_"):
        tree = self.run()
        # out_tuple may add inputs (unchanged outputs), so print body first
        body = self.pp(tree, 1)
        nouts = (0 if self.ret_t[0] == "void" else 1) + len(self.written)
        args = self.scalar_params + [i for (i, _) in self.inputs]
        sig = " ".join(("(%s : Z -> Z)" % a) if a in self.fun_inputs else ("(%s : Z)" % a) for a in args)
        rty = "unit" if nouts == 0 else " * ".join(["Z"] * nouts)
        doc = ["(* %s — generated from the working tree.\n   inputs:" % self.name]
        for a in self.scalar_params:
            doc.append("     %s : parameter" % a)
        for (i, d) in self.inputs:
            doc.append("     %s : %s" % (i, d))
        outs = ([] if self.ret_t[0] == "void" else ["return value"]) + ["final " + p for p in sorted(self.written)]
        doc.append("   outputs: " + ", ".join(outs) if outs else "   outputs: none")
        for a in sorted(self.assumptions):
            doc.append("   assumes: " + a)
        if self.inline_counter:
            doc.append("   inlined callees: " + ", ".join(sorted(self.inline_asts)))
        doc.append("*)")
        txt = "\n".join(doc) + "\nDefinition %s%s %s : outcome (%s) :=\n%s.\n" % (prefix, self.name, sig, rty, body)
        return txt, args, outs


def clang_ast(repo, cfile, fn, config_dir):
    cmd = ["clang", "-fsyntax-only", "-Xclang", "-ast-dump=json", "-Xclang", "-ast-dump-filter=" + fn,
           "-DHAVE_CONFIG_H=1", "-DCARES_BUILDING_LIBRARY", "-DCARES_STATICLIB", "-D_GNU_SOURCE", "-w",
           "-I" + config_dir, "-I" + os.path.join(repo, "include"), "-I" + os.path.join(repo, "src/lib"),
           "-I" + os.path.join(repo, "src/lib/include"), os.path.join(repo, cfile)]
    p = subprocess.run(cmd, stdout=subprocess.PIPE, stderr=subprocess.PIPE)
    s = p.stdout.decode()
    dec = json.JSONDecoder()
    i = 0
    docs = []
    while i < len(s):
        while i < len(s) and s[i].isspace():
            i += 1
        if i >= len(s):
            break
        o, j = dec.raw_decode(s, i)
        docs.append(o)
        i = j
    for d in docs:
        if d.get("kind") == "FunctionDecl" and d.get("name") == fn and any(c.get("kind") == "CompoundStmt" for c in d.get("inner", [])):
            return d
    raise Unsupported("function %s not found (with a body) in %s: %s" % (fn, cfile, p.stderr.decode()[-500:]))


_AST_CACHE = {}


def translate(repo, cfile, fn, config_dir, inline=()):
    ast = clang_ast(repo, cfile, fn, config_dir)
    inl = {}
    for nm in inline:
        key = (repo, cfile, nm)
        if key not in _AST_CACHE:
            _AST_CACHE[key] = clang_ast(repo, cfile, nm, config_dir)
        inl[nm] = _AST_CACHE[key]
    tr = Translator(ast, inline=inl)
    txt, args, outs = tr.gallina()
    return txt, args, outs, tr.used_consts


if __name__ == "__main__":
    repo = os.environ.get("VERIF_REPO", "/repo")
    cd = os.path.join(repo, "_build")
    txt, args, outs, consts = translate(repo, sys.argv[1], sys.argv[2], cd, inline=sys.argv[3:])
    print(txt)
