"""Adversary generator for C05 (engine chan05): histories for harness/sim.c.

Every case is `config|note <label>;op;op;...`.  Each genuine query is surrounded by 0..6 forged or
stale packets.  EVERY generated reply carries a unique provenance tag: the address of an A record
11.a.b.c with a*65536+b*256+c = packet number, so a delivered record (CB line) or a cache hit can
be mapped back to the packet it came from.

Scenario families (label = first op `note <label>`), aimed at the case splits of the proofs:
  basic     forged packets (one or two mutated fields) around the genuine answer
  resend    time-out on server A, re-send to B, late reply of A on A's socket (the connection
            conjunct), then B's answer
  tcpup     TC on UDP -> query moves to TCP; late UDP answers while the UDP socket is still open
  done      replies after completion (duplicates, other queries still pending on the socket)
  idreuse   idlist/idseq force a new query onto the id of a finished one; old answers replayed
  cache     answer cached, identical request served without transmission, expiry, forged packets
            must never be what the cache serves
  cookie    server proves cookie support; missing / wrong / foreign cookies afterwards; BADCOOKIE
  errors    SERVFAIL/REFUSED/NOTIMP/FORMERR handling from genuine and forged sources, malformed
            datagrams (connection error path), zero length datagrams
  random    unconstrained mixture
"""

NAMES = ["www.example.com", "a.example", "mail.Example.ORG", "x-1.test", "ns1.corp.test", "b.example"]
TYPES = ["A", "AAAA", "MX", "TXT"]


class Ctx:
    def __init__(self, rng):
        self.rng = rng
        self.ops = []
        self.pkt = 0          # provenance counter
        self.tok = 0
        self.est_tx = 0       # estimate of transmissions so far (upper bound not guaranteed)
        self.nsock = 0        # estimate of sockets
        self.sent = []        # (tok, name, type, txref)
        self.cfg = {}
        self.min_sock = 0     # lower bound of the number of sockets
        self.min_tx = 0       # lower bound of the number of transmissions (absolute refs below it are valid)
        self.exact = True     # est_tx is exact so far
        self.seen = set()     # (name, type) requested so far (a repeat may be served from the cache)

    def tag(self):
        self.pkt += 1
        n = self.pkt
        return "11.%d.%d.%d" % ((n >> 16) & 255, (n >> 8) & 255, n & 255)

    def op(self, s):
        self.ops.append(s)


def answer(cx, ttl=None):
    if ttl is None:
        ttl = cx.rng.choice([300, 300, 60, 5, 1, 0, 7200])
    return "an=A:%s:%d" % (cx.tag(), ttl)


MUTATIONS = ["id+", "id-", "idr", "qname", "case1", "case2", "qtype", "qclass", "from", "fromsrv", "fromport",
             "on", "qr", "noq", "trunc", "cookiebad", "cookienone", "cookieecho", "cookieforeign", "opcode",
             "tc", "servfail", "refused", "notimp", "formerr", "badcookie", "nxdomain", "noopt", "dup"]


def mutate(cx, kind):
    r = cx.rng
    if kind == "id+":
        return ["id=+%d" % r.choice([1, 1, 2, 256])]
    if kind == "id-":
        return ["id=-%d" % r.choice([1, 1, 2, 256])]
    if kind == "idr":
        return ["id=%d" % r.randint(0, 65535)]
    if kind == "qname":
        return ["qname=%s" % r.choice(["other.example", "www.example.org", "a.exampl", "aa.example"])]
    if kind == "case1":
        return ["flipcase=1"]
    if kind == "case2":
        return ["flipcase=2"]
    if kind == "qtype":
        return ["qtype=%s" % r.choice(["AAAA", "MX", "255", "2"])]
    if kind == "qclass":
        return ["qclass=%s" % r.choice(["3", "255", "4"])]
    if kind == "from":
        return ["from=%s" % r.choice(["10.6.6.6:53", "10.0.0.9:53", "192.0.2.1:53", "10.0.1.1:53", "[fd00::9]:53",
                                       "[fd00::1:1]:53", "[::ffff:10.0.0.1]:53"])]
    if kind == "fromsrv":      # the address of another configured server
        return ["from=%s:53" % srv_addr(cx, r.randint(0, max(0, nservers(cx) - 1)))]
    if kind == "fromport":     # right address, other port (only the address is compared)
        return ["from=%s:%d" % (srv_addr(cx, r.randint(0, max(0, nservers(cx) - 1))), r.choice([5353, 1, 65535]))]
    if kind == "on":
        return ["on=s%d" % (r.randint(0, max(0, cx.min_sock - 1)) if r.random() < 0.6 else r.randint(0, max(0, cx.nsock - 1)))]
    if kind == "qr":
        return ["qr=0"]
    if kind == "noq":
        return ["noq=1"]
    if kind == "trunc":
        return ["trunc=%d" % r.choice([1, 2, 5, 11, 12, 13, 16])]
    if kind == "cookiebad":
        # bad: first byte inverted; bad<k>: a single bit of byte k of the client cookie (boundary of the
        # 8 byte comparison)
        return ["cookie=%s" % r.choice(["bad", "bad0", "bad3", "bad4", "bad7", "bad%d" % r.randint(0, 7)])]
    if kind == "cookienone":
        return ["cookie=none"]
    if kind == "cookieecho":
        return ["cookie=echo"]
    if kind == "cookieforeign":
        return ["cookie=%s" % r.choice(["0102030405060708aabbccddeeff0011", "0102030405060708", "01020304",
                                        "00" * 41, "00" * 40, "00" * 7, "echo:" + "ab" * 32, "echo:01",
                                        "echo:" + "cd" * 31])]
    if kind == "opcode":
        return ["opcode=%d" % r.choice([1, 2, 4, 5])]
    if kind == "tc":
        return ["tc=1"]
    if kind == "servfail":
        return ["rcode=SERVFAIL"]
    if kind == "refused":
        return ["rcode=REFUSED"]
    if kind == "notimp":
        return ["rcode=NOTIMP"]
    if kind == "formerr":
        return ["rcode=FORMERR"] + (["noopt=1"] if r.random() < 0.5 else [])
    if kind == "badcookie":
        return ["rcode=23"] + (["cookie=echo"] if r.random() < 0.7 else [])
    if kind == "nxdomain":
        return ["rcode=NXDOMAIN"]
    if kind == "noopt":
        return ["noopt=1"]
    if kind == "dup":
        return ["dup=%d" % r.randint(2, 3)]
    return []


def txref(cx, prefer=None):
    r = cx.rng
    if prefer is not None and r.random() < 0.8:
        return prefer
    c = r.random()
    if c < 0.45 or cx.min_tx == 0:
        return "xl"
    if c < 0.65 and cx.min_tx >= 3:
        return "xl-%d" % r.randint(1, 2)
    if c < 0.97:
        return "x%d" % r.randint(0, cx.min_tx - 1)
    return "x%d" % r.randint(0, cx.est_tx + 1)      # occasionally a reference that may not exist


def rsp(cx, ref, muts=(), cookie=None, ttl=None, extra=()):
    parts = [answer(cx, ttl)]
    for m in muts:
        parts += mutate(cx, m)
    if cookie is not None and not any(p.startswith("cookie=") for p in parts):
        parts.append("cookie=" + cookie)
    parts += list(extra)
    cx.op("rsp %s %s" % (ref, ",".join(parts)))


def forged(cx, ref, cookie=None, pool=None, nmax=2):
    r = cx.rng
    n = 1 if r.random() < 0.7 else nmax
    muts = [r.choice(pool or MUTATIONS) for _ in range(n)]
    rsp(cx, ref, muts, cookie=cookie)


def send(cx, name=None, typ=None, edns=None):
    r = cx.rng
    cx.tok += 1
    name = name or r.choice(NAMES)
    typ = typ or r.choice(TYPES[:2] if r.random() < 0.8 else TYPES)
    flags = ["rd"] if r.random() < 0.8 else []
    if r.random() < 0.05:
        flags.append("cd")
    if edns is None:
        edns = cx.cfg.get("edns", False) and r.random() < 0.9
    if edns:
        flags.append("edns")
    cx.op("send %d %s IN %s %s" % (cx.tok, name, typ, " ".join(flags)))
    key = (name.lower().rstrip("."), typ)
    cacheable = cx.cfg.get("qcachettl", 0) > 0 and key in cx.seen
    cx.seen.add(key)
    if "usevc" in cx.cfg["flags"]:
        cx.op("proc")          # the TCP connection writes at the first write event
    if cacheable:
        cx.exact = False       # may be answered from the cache: no transmission
    ref = ("x%d" % cx.est_tx) if cx.exact else "xl"
    cx.est_tx += 1
    if not cacheable:
        cx.min_tx += 1
    if cx.nsock == 0:
        cx.nsock = 1
    cx.min_sock = max(cx.min_sock, 1)
    cx.sent.append((cx.tok, name, typ, ref))
    return ref


def nservers(cx):
    return cx.cfg["servers"] + cx.cfg.get("servers6", 0)


def srv_addr(cx, i):
    n4 = cx.cfg["servers"]
    return "10.0.0.%d" % (i + 1) if i < n4 else "[fd00::%x]" % (i - n4 + 1)


def timeout_step(cx, factor=1.0):
    t = int(cx.cfg["timeout"] * factor)
    cx.op("adv %d" % t)
    cx.op("proct")
    cx.est_tx += max(1, len(cx.sent))
    cx.exact = False
    if nservers(cx) >= 2:
        cx.min_sock += 1
    cx.nsock += 1


def config(rng, label):
    cfg = {}
    servers = rng.choice([1, 2, 2, 3])
    flags = []
    edns = rng.random() < 0.55
    flags.append("edns" if edns else "noedns")
    if rng.random() < 0.4:
        flags.append("dns0x20")
    if rng.random() < 0.2:
        flags.append("nocheckresp")
    if rng.random() < 0.12:
        flags.append("usevc")
    if rng.random() < 0.12:
        flags.append("igntc")
    if rng.random() < 0.35:
        flags.append("stayopen")
    cfg["edns"] = edns
    cfg["servers"] = servers
    cfg["flags"] = flags
    cfg["timeout"] = rng.choice([1000, 2000, 500])
    cfg["tries"] = rng.choice([1, 2, 2, 3])
    cfg["qcachettl"] = rng.choice([0, 3600, 3600, 10])
    c = rng.random()
    if c < 0.5:
        cfg["ids"] = "seed=%d" % rng.randint(1, 1 << 30)
    elif c < 0.8:
        cfg["ids"] = "seed=%d idseq=%d" % (rng.randint(1, 1 << 30), rng.choice([0, 1, 65534, rng.randint(0, 65535)]))
    else:
        base = rng.randint(0, 65535)
        lst = [base] * rng.randint(1, 3) + [rng.choice([base, base + 1, base + 1]) & 65535 for _ in range(rng.randint(1, 4))]
        cfg["ids"] = "seed=%d idseq=%d idlist=%s" % (rng.randint(1, 1 << 30), (base + 2) & 65535, ",".join(map(str, lst)))
    if rng.random() < 0.12:
        # IPv6 servers (appended after the IPv4 ones)
        cfg["servers6"] = rng.choice([1, 2])
        cfg["servers"] = rng.choice([0, 1]) if cfg["servers6"] == 2 else 1
    if rng.random() < 0.25:
        # server probes: chance 1 = always probe a failed server once its retry delay has passed
        cfg["failover"] = "%d,%d" % (rng.choice([1, 1, 2]), rng.choice([0, 500, 2000]))
    if rng.random() < 0.15:
        cfg["rotate"] = 1
    if rng.random() < 0.1:
        cfg["udpmaxq"] = rng.choice([1, 2])
    return cfg


def cfg_text(cfg):
    parts = ["qdump=1", "serverstatecb=1", cfg["ids"], "servers=%d" % cfg["servers"],
             "flags=" + ",".join(cfg["flags"]), "timeout=%d" % cfg["timeout"], "tries=%d" % cfg["tries"],
             "qcachettl=%d" % cfg["qcachettl"]]
    if "servers6" in cfg:
        parts.append("servers6=%d" % cfg["servers6"])
    if "failover" in cfg:
        parts.append("failover=%s" % cfg["failover"])
    if "domains" in cfg:
        parts.append("domains=%s ndots=%d" % (cfg["domains"], cfg.get("ndots", 1)))
    if "rotate" in cfg:
        parts.append("rotate=%d" % cfg["rotate"])
    if "udpmaxq" in cfg:
        parts.append("udpmaxq=%d" % cfg["udpmaxq"])
    return " ".join(parts)


# ------------------------------------------------------------------------------------------
# scenario families
# ------------------------------------------------------------------------------------------
def sc_basic(cx):
    r = cx.rng
    for _ in range(r.randint(1, 3)):
        ref = send(cx)
        for _ in range(r.randint(0, 6)):
            forged(cx, txref(cx, ref), cookie="echo" if cx.cfg["edns"] and r.random() < 0.5 else None)
            if r.random() < 0.3:
                cx.op("proc")
        if r.random() < 0.9:
            rsp(cx, ref, cookie="echo" if cx.cfg["edns"] and r.random() < 0.5 else None)
        cx.op("proc")
        if r.random() < 0.3:
            forged(cx, txref(cx, ref))
            cx.op("proc")
    cx.op("proc")


def sc_resend(cx):
    r = cx.rng
    if nservers(cx) < 2 and r.random() < 0.8:
        cx.cfg["servers"] += 1
    refs = [send(cx) for _ in range(r.randint(1, 2))]
    if r.random() < 0.3:
        forged(cx, refs[0])
        cx.op("proc")
    timeout_step(cx)
    # late reply of the first server on the old socket, genuine looking or mutated
    for ref in refs:
        if r.random() < 0.8:
            rsp(cx, ref, [] if r.random() < 0.7 else [r.choice(MUTATIONS)])
    if r.random() < 0.5:
        rsp(cx, "xl", ["on"])
    cx.op("proc")
    for k in range(len(refs)):
        rsp(cx, "xl-%d" % k if k else "xl")
    cx.op("proc")
    if r.random() < 0.4:
        timeout_step(cx)
        rsp(cx, txref(cx))
        cx.op("proc")


def sc_tcpup(cx):
    r = cx.rng
    a = send(cx)
    b = send(cx) if r.random() < 0.7 else None   # keeps the UDP socket open
    rsp(cx, a, ["tc"])
    if r.random() < 0.3:
        rsp(cx, a, [])                            # same batch: answer right behind the TC reply
    cx.op("proc")
    cx.est_tx += 1
    cx.nsock += 1
    for _ in range(r.randint(1, 3)):              # late UDP answers
        rsp(cx, a, [] if r.random() < 0.6 else [r.choice(["case1", "dup", "qr", "id+", "from"])])
    cx.op("proc")                                  # also lets the TCP connection write
    if r.random() < 0.8:
        rsp(cx, "xl", [] if r.random() < 0.7 else [r.choice(["case1", "id+", "qname", "tc", "trunc"])])
        cx.op("proc")
    if b is not None:
        rsp(cx, b)
        cx.op("proc")
    cx.op("proc")


def sc_done(cx):
    r = cx.rng
    a = send(cx)
    b = send(cx) if r.random() < 0.6 else None
    rsp(cx, a, ["dup"] if r.random() < 0.5 else [])
    if r.random() < 0.5:
        rsp(cx, a)
    cx.op("proc")
    for _ in range(r.randint(1, 3)):
        rsp(cx, a, [] if r.random() < 0.6 else [r.choice(MUTATIONS)])
    cx.op("proc")
    if b is not None:
        if r.random() < 0.5:
            rsp(cx, a, ["id+"])   # a's answer rewritten to b's id when ids are sequential
        rsp(cx, b)
        cx.op("proc")
    cx.op("proc")


def sc_idreuse(cx):
    r = cx.rng
    base = r.randint(0, 65535)
    cx.cfg["ids"] = "seed=%d idseq=%d idlist=%s" % (r.randint(1, 1 << 30), (base + 1) & 65535,
                                                     ",".join([str(base)] * r.randint(2, 4)))
    if "stayopen" not in cx.cfg["flags"] and r.random() < 0.7:
        cx.cfg["flags"].append("stayopen")
    cx.cfg["qcachettl"] = r.choice([0, 0, 3600])
    name = r.choice(NAMES)
    a = send(cx, name, "A")
    if r.random() < 0.3:
        c = send(cx)       # live query: the id collides and must be skipped
    rsp(cx, a)
    cx.op("proc")
    b = send(cx, name if r.random() < 0.6 else None, "A" if r.random() < 0.7 else None)
    for _ in range(r.randint(1, 3)):
        rsp(cx, a, [] if r.random() < 0.7 else [r.choice(["case1", "qtype", "from", "qr"])])   # old answers again
    cx.op("proc")
    rsp(cx, b)
    cx.op("proc")
    cx.op("proc")


def sc_cache(cx):
    r = cx.rng
    if cx.cfg["qcachettl"] == 0:
        cx.cfg["qcachettl"] = r.choice([3600, 10, 2])
    name = r.choice(NAMES)
    typ = r.choice(["A", "AAAA"])
    a = send(cx, name, typ)
    for _ in range(r.randint(0, 3)):
        forged(cx, a)
    ttl = r.choice([300, 5, 1, 0, 7200])
    rsp(cx, a, [] if r.random() < 0.85 else [r.choice(["nxdomain", "tc", "servfail"])], ttl=ttl)
    cx.op("proc")
    variant = r.choice([name, name.upper(), name.lower(), name + "."])
    cx.tok += 1
    cx.op("send %d %s IN %s %s" % (cx.tok, variant, typ if r.random() < 0.85 else "MX", r.choice(["rd", "rd", "", "rd cd"])))
    if "usevc" in cx.cfg["flags"]:
        cx.op("proc")
    cx.exact = False
    cx.est_tx += 1
    if r.random() < 0.5:
        rsp(cx, "xl")
        cx.op("proc")
    cx.op("adv %d" % r.choice([1000, ttl * 1000, ttl * 1000 + 1000, cx.cfg["qcachettl"] * 1000, 3000]))
    cx.op("proct")
    cx.tok += 1
    cx.op("send %d %s IN %s rd" % (cx.tok, name, typ))
    if "usevc" in cx.cfg["flags"]:
        cx.op("proc")
    cx.est_tx += 2
    rsp(cx, "xl")
    cx.op("proc")
    cx.op("proc")


def sc_cookie(cx):
    r = cx.rng
    if not cx.cfg["edns"]:
        cx.cfg["edns"] = True
        cx.cfg["flags"] = ["edns" if f == "noedns" else f for f in cx.cfg["flags"]]
    cx.cfg["flags"] = [f for f in cx.cfg["flags"] if f != "usevc"]
    a = send(cx, edns=True)
    rsp(cx, a, cookie=r.choice(["echo", "echo", "none", "echo:0011223344556677"]))
    cx.op("proc")
    for _ in range(r.randint(1, 3)):
        b = send(cx, edns=True)
        for _ in range(r.randint(0, 3)):
            forged(cx, "xl", pool=["cookiebad", "cookienone", "cookieforeign", "cookieecho", "badcookie", "noopt",
                                    "from", "id+", "servfail"])
        if r.random() < 0.3:
            cx.op("proc")
        rsp(cx, "xl", cookie=r.choice(["echo", "echo", "echo", "none", "bad", "bad7", "bad4"]))
        cx.op("proc")
        if r.random() < 0.3:
            rsp(cx, "xl", ["badcookie"])
            cx.op("proc")
            cx.est_tx += 1
            rsp(cx, "xl", cookie="echo")
            cx.op("proc")
    if r.random() < 0.3:
        cx.op("adv %d" % r.choice([60000, 121000, 301000]))
        send(cx, edns=True)
        rsp(cx, "xl", cookie=r.choice(["echo", "none"]))
        cx.op("proc")
    cx.op("proc")


def sc_errors(cx):
    r = cx.rng
    a = send(cx)
    b = send(cx) if r.random() < 0.4 else None
    for _ in range(r.randint(1, 4)):
        c = r.random()
        if c < 0.35:
            rsp(cx, txref(cx, a), [r.choice(["servfail", "refused", "notimp", "formerr"])] +
                ([r.choice(["from", "id+", "qname", "on"])] if r.random() < 0.4 else []))
        elif c < 0.55:
            rsp(cx, txref(cx, a), ["trunc"] + (["from"] if r.random() < 0.3 else []))
        elif c < 0.65:
            cx.op("zerolen s%d" % r.randint(0, max(0, cx.min_sock - 1)))
        elif c < 0.8:
            hexs = "".join("%02x" % r.randint(0, 255) for _ in range(r.randint(1, 11)))
            if r.random() < 0.5:
                cx.op("raw s%d %s" % (r.randint(0, max(0, cx.min_sock - 1)), hexs))
            else:
                cx.op("rawfrom s%d 10.6.6.6:53 %s" % (r.randint(0, max(0, cx.min_sock - 1)), hexs))
        else:
            forged(cx, txref(cx, a))
        cx.op("proc")
        cx.est_tx += 1
        cx.nsock += 1
    rsp(cx, "xl")
    if b is not None:
        rsp(cx, "xl-1")
    cx.op("proc")
    cx.op("proc")


def sc_random(cx):
    r = cx.rng
    for _ in range(r.randint(4, 14)):
        c = r.random()
        if c < 0.25 or not cx.sent:
            send(cx)
        elif c < 0.6:
            ref = txref(cx)
            if r.random() < 0.5:
                rsp(cx, ref, cookie="echo" if cx.cfg["edns"] and r.random() < 0.5 else None)
            else:
                forged(cx, ref)
        elif c < 0.85:
            cx.op("proc")
        else:
            timeout_step(cx, r.choice([0.5, 1, 1, 2]))
    cx.op("proc")
    cx.op("proc")


def sc_reentrant(cx):
    """requests submitted (or everything cancelled) from inside a completion callback, while the rest of
    the read batch is still to be processed"""
    r = cx.rng
    base = r.randint(0, 65000)
    cx.cfg["ids"] = "seed=%d idseq=%d" % (r.randint(1, 1 << 30), base)
    if r.random() < 0.6 and "stayopen" not in cx.cfg["flags"]:
        cx.cfg["flags"].append("stayopen")
    name = r.choice(NAMES)
    t2 = 50 + r.randint(0, 9)
    kind = r.choice(["send", "send", "send", "cancel"])
    if kind == "send":
        n2 = name if r.random() < 0.6 else r.choice(NAMES)
        cx.op("oncb 1 send,%d,%s,IN,A,rd%s" % (t2, n2, ",edns" if cx.cfg["edns"] else ""))
    else:
        cx.op("oncb 1 cancel")
    a = send(cx, name, "A")
    b = send(cx) if r.random() < 0.5 else None
    nq = 2 if b else 1
    # the batch: forged packets, the genuine answer, then packets aimed at the query that the
    # callback is about to create (its id is base+nq with sequential ids, same socket)
    for _ in range(r.randint(0, 2)):
        forged(cx, a)
    rsp(cx, a, cookie="echo" if cx.cfg["edns"] and r.random() < 0.5 else None)
    for _ in range(r.randint(1, 3)):
        c = r.random()
        if c < 0.5:
            rsp(cx, a, ["id+"], extra=[]) if nq == 1 else rsp(cx, a, [], extra=["id=%d" % ((base + nq) & 65535)])
        elif c < 0.7:
            rsp(cx, a, [], extra=["id=%d" % ((base + nq) & 65535), "qr=0"])
        elif c < 0.85:
            rsp(cx, a)                       # duplicate of the genuine answer
        else:
            forged(cx, a)
    cx.op("proc")
    cx.exact = False
    cx.est_tx += 1
    rsp(cx, "xl")
    if b is not None:
        rsp(cx, b)
    cx.op("proc")
    cx.op("proc")


def sc_wrapped(cx):
    """ares_query / ares_search / ares_getaddrinfo: the library's own callbacks sit between the accept
    path and the user; search sends its next candidate from inside such a callback"""
    r = cx.rng
    cx.cfg["flags"] = [f for f in cx.cfg["flags"] if f != "usevc"]
    kind = r.choice(["query", "search", "search", "gai"])
    cx.tok += 1
    t = cx.tok
    if kind == "query":
        name = r.choice(NAMES)
        cx.op("query %d %s IN %s" % (t, name, r.choice(["A", "AAAA"])))
        ncand = 1
    elif kind == "search":
        cx.cfg["domains"] = r.choice(["a.test,b.test", "corp.test", "x.test,y.test,z.test"])
        cx.cfg["ndots"] = r.choice([1, 2])
        name = r.choice(["host", "www", "db1.int"])
        cx.op("search %d %s IN A rd" % (t, name))
        ncand = len(cx.cfg["domains"].split(",")) + 1
    else:
        name = r.choice(NAMES)
        cx.op("gai %d %s 4 0x80" % (t, name))
        ncand = 1
    cx.exact = False
    cx.est_tx += 1
    cx.min_tx += 1
    cx.min_sock = max(cx.min_sock, 1)
    cx.nsock = max(cx.nsock, 1)
    for i in range(ncand):
        last = (i == ncand - 1) or r.random() < 0.4
        for _ in range(r.randint(0, 2)):
            forged(cx, "xl")
        if r.random() < 0.3:
            cx.op("proc")
        if last:
            rsp(cx, "xl", cookie="echo" if cx.cfg["edns"] and r.random() < 0.3 else None)
            # packets queued behind the answer in the same batch
            if r.random() < 0.4:
                rsp(cx, "xl", [r.choice(["id+", "dup", "qr", "case1"])])
            cx.op("proc")
            break
        else:
            rsp(cx, "xl", ["nxdomain"])
            if r.random() < 0.5:
                rsp(cx, "xl", ["id+"])          # aimed at the next candidate's id (sequential ids)
            cx.op("proc")
            cx.est_tx += 1
    if r.random() < 0.5:
        # the same request again: cache
        cx.tok += 1
        if kind == "gai":
            cx.op("gai %d %s 4 0x80" % (cx.tok, name))
        else:
            cx.op("%s %d %s IN A%s" % (kind, cx.tok, name, " rd" if kind == "search" else ""))
        rsp(cx, "xl")
        cx.op("proc")
    cx.op("proc")


def dns_name(labels):
    out = b""
    for lab in labels:
        out += bytes([len(lab)]) + lab
    return out + b"\x00"


def raw_message(mid, flags, qname_labels, qtype, an_rrs, ar_rrs, qd=1, tail=b"", qclass=1, qname_raw=None, rrclass=1):
    """hand-built message; RRs are (owner bytes, type, ttl, rdata); qname_raw overrides the wire form
    of the question name"""
    m = bytes([mid >> 8, mid & 255, flags >> 8, flags & 255, 0, qd, 0, len(an_rrs), 0, 0, 0, len(ar_rrs)])
    m += (qname_raw if qname_raw is not None else dns_name(qname_labels))
    m += bytes([qtype >> 8, qtype & 255, qclass >> 8, qclass & 255])
    for owner, typ, ttl, rdata in an_rrs + ar_rrs:
        m += owner + bytes([typ >> 8, typ & 255]) + (bytes([rrclass >> 8, rrclass & 255]) if typ != 41 else b"\x04\xd0")
        m += bytes([(ttl >> 24) & 255, (ttl >> 16) & 255, (ttl >> 8) & 255, ttl & 255])
        m += bytes([len(rdata) >> 8, len(rdata) & 255]) + rdata
    return m + tail


def sc_rawmsg(cx):
    """hand-crafted wire messages: compression pointers (valid, forward, into the own name), several
    OPT options incl. duplicate cookie options, a question that differs only in an escaped
    character, trailing bytes, counts that lie"""
    r = cx.rng
    base = r.randint(0, 65000)
    cx.cfg["ids"] = "seed=%d idseq=%d" % (r.randint(1, 1 << 30), base)
    cx.cfg["flags"] = [f for f in cx.cfg["flags"] if f not in ("dns0x20", "usevc")]
    if "stayopen" not in cx.cfg["flags"]:
        cx.cfg["flags"].append("stayopen")
    name = r.choice(["a.b.example", "www.example.com", "x-1.test"])
    labels = [l.encode() for l in name.split(".")]
    a = send(cx, name, "A")
    mid = base

    def tagrd():
        cx.pkt += 1
        n = cx.pkt
        return bytes([11, (n >> 16) & 255, (n >> 8) & 255, n & 255])

    def arec(owner=b"\xc0\x0c", ttl=60):
        return (owner, 1, ttl, tagrd())

    def opt(options):
        rd = b""
        for code, data in options:
            rd += bytes([code >> 8, code & 255, len(data) >> 8, len(data) & 255]) + data
        return (b"\x00", 41, 0, rd)

    for _ in range(r.randint(2, 5)):
        c = r.choice(["ptr-own", "ptr-forward", "ptr-self", "ptr-chain", "opts", "dupcookie-badlast", "dupcookie-goodlast",
                      "emptycookie", "emptycookie-first",
                      # every question field compared as RAW octets: values that differ from what was asked
                      # only in high bits, or only by being another legal value
                      "class-hi", "class-hi", "class-hi", "class-legal", "type-hi", "type-hi", "name-hibit", "name-hibit",
                      "len-hibit", "rrclass-hi", "genuine-raw",
                      "escaped-dot", "escaped-label", "nonprint", "trailing", "liecount", "uncompressed", "label64"])
        # header variants that change what an ACCEPTED reply does next: plain, TC, SERVFAIL, FORMERR, REFUSED
        flags = r.choice([0x8180, 0x8180, 0x8180, 0x8380, 0x8182, 0x8181, 0x8185])
        msg = None
        if c == "class-hi":           # asked IN (1): same low bits, other high bits / no class at all
            msg = raw_message(mid, flags, labels, 1, [arec()], [], qclass=r.choice([0x8001, 0x8001, 0x0101, 0xFF01, 0x4001, 0]))
        elif c == "class-legal":      # another class the parser accepts
            msg = raw_message(mid, flags, labels, 1, [arec()], [], qclass=r.choice([3, 4, 254, 255]))
        elif c == "type-hi":          # asked A (1)
            msg = raw_message(mid, flags, labels, r.choice([0x8001, 0x0101, 0xFF01, 0x4001, 0]), [arec()], [])
        elif c == "name-hibit":       # one letter with the high bit set / cleared into another character
            lab0 = bytearray(labels[0])
            i = r.randrange(len(lab0))
            lab0[i] ^= r.choice([0x80, 0x80, 0x40, 0x01])
            msg = raw_message(mid, flags, [bytes(lab0)] + labels[1:], 1, [arec()], [])
        elif c == "len-hibit":        # a length octet with a high bit set (reserved label type / pointer)
            raw = bytearray(dns_name(labels))
            raw[0] |= r.choice([0x80, 0x40, 0xC0])
            msg = raw_message(mid, flags, labels, 1, [arec(dns_name(labels))], [], qname_raw=bytes(raw))
        elif c == "rrclass-hi":       # the ANSWER record's class with the cache-flush style high bit
            msg = raw_message(mid, flags, labels, 1, [arec()], [], rrclass=r.choice([0x8001, 0x0101, 255, 0]))
        elif c == "genuine-raw":      # control: the same hand-built message with nothing wrong
            msg = raw_message(mid, 0x8180, labels, 1, [arec()], [])
        elif c == "ptr-own":          # ordinary: owner = pointer to the question name
            msg = raw_message(mid, flags, labels, 1, [arec()], [])
        elif c == "uncompressed":
            msg = raw_message(mid, flags, labels, 1, [arec(dns_name(labels))], [])
        elif c == "ptr-forward":      # owner points forward (to its own rdata)
            msg = raw_message(mid, flags, labels, 1, [arec(b"\xc0\x40")], [])
        elif c == "ptr-self":         # owner = label + pointer into itself
            off = 12 + len(dns_name(labels)) + 4
            msg = raw_message(mid, flags, labels, 1, [arec(b"\x01a" + bytes([0xC0, off]))], [])
        elif c == "ptr-chain":        # second RR's owner points to the first RR's owner pointer
            off = 12 + len(dns_name(labels)) + 4
            msg = raw_message(mid, flags, labels, 1, [arec(), arec(bytes([0xC0, off]))], [])
        elif c == "opts":             # several options, unknown codes, no cookie
            msg = raw_message(mid, flags, labels, 1, [arec()], [opt([(3, b"nsid"), (65001, b""), (12, b"\x00" * 4)])])
        elif c == "dupcookie-badlast":
            msg = raw_message(mid, flags, labels, 1, [arec()], [opt([(10, bytes(range(16))), (10, b"\x01\x02\x03")])])
        elif c == "dupcookie-goodlast":
            msg = raw_message(mid, flags, labels, 1, [arec()], [opt([(10, b"\x01\x02\x03"), (10, bytes(range(16)))])])
        elif c == "emptycookie":
            msg = raw_message(mid, flags, labels, 1, [arec()], [opt([(10, b"")])])
        elif c == "emptycookie-first":
            msg = raw_message(mid, flags, labels, 1, [arec()], [opt([(10, b""), (10, bytes(range(16)))])])
        elif c == "escaped-dot":      # first two labels fused into one label that contains a dot
            if len(labels) >= 3:
                fused = [labels[0] + b"." + labels[1]] + labels[2:]
            else:
                fused = [labels[0] + b"." + labels[1]]
            msg = raw_message(mid, flags, fused, 1, [arec()], [])
        elif c == "escaped-label":    # a backslash in the label
            msg = raw_message(mid, flags, [labels[0] + b"\\"] + labels[1:], 1, [arec()], [])
        elif c == "nonprint":         # same letters, one control character appended
            msg = raw_message(mid, flags, [labels[0] + b"\x07"] + labels[1:], 1, [arec()], [])
        elif c == "trailing":
            msg = raw_message(mid, flags, labels, 1, [arec()], [], tail=b"\xde\xad\xbe\xef")
        elif c == "liecount":         # ANCOUNT 2, one RR present
            m1 = raw_message(mid, flags, labels, 1, [arec()], [])
            msg = m1[:7] + b"\x02" + m1[8:]
        elif c == "label64":          # label length 64 = reserved bit pattern 01
            msg = raw_message(mid, flags, [b"a" * 64] + labels[1:], 1, [arec()], [])
        if r.random() < 0.15:
            cx.op("rawfrom s0 10.6.6.6:53 %s" % msg.hex())
        else:
            cx.op("raw s0 %s" % msg.hex())
        if r.random() < 0.5:
            cx.op("proc")
    cx.op("proc")
    rsp(cx, "xl")
    cx.op("proc")
    cx.op("proc")


def sc_probe(cx):
    """server probes: after a server failed and its retry delay has passed, the next fresh query
    makes the library re-ask the same question on the failed server under an id of its own; the
    probe's answer marks the server good and enters the cache although no user callback sees it"""
    r = cx.rng
    if nservers(cx) < 2:
        cx.cfg["servers"] += 1
    cx.cfg["failover"] = "1,%d" % r.choice([0, 0, 500])
    cx.cfg["flags"] = [f for f in cx.cfg["flags"] if f != "usevc"] if r.random() < 0.8 else cx.cfg["flags"]
    if cx.cfg["qcachettl"] == 0 and r.random() < 0.7:
        cx.cfg["qcachettl"] = 3600
    cx.cfg["tries"] = max(2, cx.cfg["tries"])
    a = send(cx)
    if r.random() < 0.5:
        timeout_step(cx)                       # server 0 fails by time-out
    else:
        rsp(cx, a, ["servfail"])               # ... or by SERVFAIL
        cx.op("proc")
        cx.exact = False
        cx.est_tx += 1
    rsp(cx, "xl")                              # the other server answers
    cx.op("proc")
    cx.op("adv %d" % r.choice([600, 1000, 6000]))
    name = r.choice(NAMES)
    b = send(cx, name, "A")                    # fresh query: triggers the probe (2 transmissions)
    cx.est_tx += 1
    order = r.choice(["probe-first", "query-first", "probe-only", "forged"])
    if order == "forged":
        rsp(cx, "xl", [r.choice(["id+", "from", "qr", "case1", "qname", "cookiebad"])])
        rsp(cx, "xl-1", [r.choice(["id+", "from", "on", "qtype"])])
        cx.op("proc")
    if order in ("probe-first", "probe-only", "forged"):
        rsp(cx, "xl")                          # the probe is the later transmission
        cx.op("proc")
    if order != "probe-only":
        rsp(cx, "xl-1")
        cx.op("proc")
    if order == "query-first":
        rsp(cx, "xl")
        cx.op("proc")
    # the same question again: served from the cache, possibly with the probe's answer
    cx.tok += 1
    cx.op("send %d %s IN A rd" % (cx.tok, name))
    cx.exact = False
    rsp(cx, "xl")
    cx.op("proc")
    cx.op("proc")


CROSS_VIOLATIONS = ["case1", "case2", "qname", "qtype", "qclass", "id+", "id-", "from", "fromsrv", "conn", "cookiebad",
                    "cookienone", "qr"]
CROSS_VARIANTS = ["plain", "tc", "servfail", "notimp", "refused", "formerr", "formerr-noopt", "nxdomain", "badcookie",
                  "noopt", "tc-servfail", "tc-formerr", "opcode"]


def sc_cross(cx):
    """every acceptance criterion's violation crossed with every header variant that changes what an
    ACCEPTED response would do next (TC x igntc, the rcodes that requeue, EDNS present/absent):
    a packet that fails a criterion must be rejected - no delivery, no success or failure mark, no
    requeue, no TCP switch - whatever its other header bits say"""
    r = cx.rng
    viol = r.choice(CROSS_VIOLATIONS)
    var = r.choice(CROSS_VARIANTS)
    flags = [f for f in cx.cfg["flags"] if f not in ("usevc", "igntc", "nocheckresp", "dns0x20")]
    if viol in ("case1", "case2") or r.random() < 0.3:
        flags.append("dns0x20")
    if r.random() < 0.5:
        flags.append("igntc")
    if r.random() < 0.3:
        flags.append("nocheckresp")
    if viol in ("cookiebad", "cookienone"):
        flags = ["edns" if f == "noedns" else f for f in flags]
        cx.cfg["edns"] = True
    cx.cfg["flags"] = flags
    if viol in ("conn", "fromsrv") and nservers(cx) < 2:
        cx.cfg["servers"] += 1
    cx.cfg["tries"] = max(2, cx.cfg["tries"])
    if r.random() < 0.5:
        cx.cfg["qcachettl"] = 3600
    edns = cx.cfg["edns"]
    if viol in ("cookiebad", "cookienone"):
        # the server proves cookie support first
        a0 = send(cx, edns=True)
        rsp(cx, a0, cookie="echo")
        cx.op("proc")
    a = send(cx, edns=edns if viol not in ("cookiebad", "cookienone") else True)
    b = send(cx) if r.random() < 0.3 else None       # a bystander on the same socket
    if viol == "conn":
        timeout_step(cx)                               # the query moves to another server / socket
    extra = {"plain": [], "tc": ["tc=1"], "servfail": ["rcode=SERVFAIL"], "notimp": ["rcode=NOTIMP"],
             "refused": ["rcode=REFUSED"], "formerr": ["rcode=FORMERR"], "formerr-noopt": ["rcode=FORMERR", "noopt=1"],
             "nxdomain": ["rcode=NXDOMAIN"], "badcookie": ["rcode=23"], "noopt": ["noopt=1"],
             "tc-servfail": ["tc=1", "rcode=SERVFAIL"], "tc-formerr": ["tc=1", "rcode=FORMERR", "noopt=1"],
             "opcode": ["opcode=%d" % r.choice([1, 2, 4, 5])]}[var]
    muts = {"conn": [], "cookiebad": ["cookiebad"], "cookienone": ["cookienone"]}.get(viol, [viol])
    cookie = None
    if edns and viol not in ("cookiebad", "cookienone") and var not in ("formerr-noopt", "noopt", "tc-formerr") and r.random() < 0.6:
        cookie = "echo"                                # otherwise the cookie criterion could fail as well
    for _ in range(r.randint(1, 2)):
        rsp(cx, a, muts, cookie=cookie, extra=extra)
        if r.random() < 0.5:
            cx.op("proc")                              # alone in its batch: the inertness monitor can judge it
    cx.op("proc")
    # the genuine answer still has to arrive where the query is now
    rsp(cx, "xl" if viol == "conn" else a, cookie="echo" if edns else None)
    if b is not None:
        rsp(cx, "xl-1" if viol == "conn" else b, cookie="echo" if edns else None)
    cx.op("proc")
    # the same question again: nothing forged may come out of the cache
    cx.tok += 1
    cx.op("send %d %s IN %s rd%s" % (cx.tok, cx.sent[-1 if b is None else -2][1], cx.sent[-1 if b is None else -2][2],
                                      " edns" if edns else ""))
    cx.exact = False
    rsp(cx, "xl", cookie="echo" if edns else None)
    cx.op("proc")
    cx.op("proc")


SCENARIOS = [("basic", sc_basic, 20), ("resend", sc_resend, 16), ("tcpup", sc_tcpup, 10), ("done", sc_done, 8),
             ("idreuse", sc_idreuse, 8), ("cache", sc_cache, 10), ("cookie", sc_cookie, 12), ("errors", sc_errors, 8),
             ("random", sc_random, 8), ("reentrant", sc_reentrant, 8), ("wrapped", sc_wrapped, 10), ("rawmsg", sc_rawmsg, 16), ("probe", sc_probe, 8), ("cross", sc_cross, 24)]


def gen_case(rng):
    total = sum(w for _, _, w in SCENARIOS)
    x = rng.random() * total
    for label, fn, w in SCENARIOS:
        if x < w:
            break
        x -= w
    cx = Ctx(rng)
    cx.cfg = config(rng, label)
    cx.op("note %s" % label)
    fn(cx)
    return cfg_text(cx.cfg) + "|" + ";".join(cx.ops)


def gen(rng, tier, n):
    return [gen_case(rng) for _ in range(n)]


if __name__ == "__main__":
    import random
    import sys
    rng = random.Random(int(sys.argv[1]) if len(sys.argv) > 1 else 1)
    for c in gen(rng, "quick", int(sys.argv[2]) if len(sys.argv) > 2 else 10):
        print(c)
