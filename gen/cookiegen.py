"""Case generator for the DNS cookie engine (C17).

A case is a history on one server with 4 query slots:
    ck|new ...;apply ...;validate ...;...
(see harness/cookie_drv.c for the step syntax).  Histories are driven by a server behaviour
profile (none / valid / changing / wrong client part / BADCOOKIE / disappearing support / mixed),
source-address changes and time advances aimed at the timers of ares_cookie.c and at the case
splits of the proofs: 120 s (regression; also used for the unsupported state), 300 s, 1 day, each
hit exactly, 1 us / 1 ms before and after; clocks aligned to whole seconds (usec = 0) and not.
Every random choice comes from the rng passed in.
"""

REG = 120
UNS = 300
DAY = 86400


def hexbytes(rng, n):
    return "".join("%02x" % rng.randrange(256) for _ in range(n))


class Clock:
    def __init__(self, rng, aligned):
        self.aligned = aligned
        base = rng.choice([1, 5, 1000, 86400, 10 ** 6, 2 ** 31 - 5, 2 ** 32 + 7, 2 ** 40 - 10 ** 6])
        self.us = (base + rng.randrange(1000)) * 1000000 + (0 if aligned else rng.randrange(1000000))

    def advance(self, rng, marks):
        """marks: absolute times (us) of the running timers; jumps land on/around mark + timer"""
        r = rng.random()
        if r < 0.35:
            d = rng.choice([0, 1, 999, 1000, 1001, 500000, 999999, 1000000])
        elif r < 0.55:
            d = rng.randrange(1, 30) * 1000000 + (0 if self.aligned else rng.randrange(1000000))
        elif r < 0.92 and marks:
            m = rng.choice(marks)
            timer = rng.choice([REG, REG, REG, UNS, DAY])
            target = m + timer * 1000000 + rng.choice([0, 0, -1, 1, -1000, 1000, -999, 999, -1000000, 1000000])
            d = max(0, target - self.us)
        else:
            d = rng.choice([REG, UNS, DAY, 3 * DAY]) * 1000000 + rng.choice([0, -1, 1])
        if self.aligned:
            d = (d // 1000000) * 1000000 if rng.random() < 0.8 else d
        self.us += d
        return self.txt()

    def txt(self):
        return "%d.%06d" % (self.us // 1000000, self.us % 1000000)


def gen_case(rng, tier):
    profile = rng.choice(["none", "valid", "valid", "changing", "wrongclient", "badcookie", "disappear", "mixed", "mixed"])
    aligned = rng.random() < 0.3
    clk = Clock(rng, aligned)
    unspec = rng.random() < 0.04          # source address unknown (no getsockname)
    ips = ["4:" + hexbytes(rng, 4), "4:" + hexbytes(rng, 4), "6:" + hexbytes(rng, 16)]
    ip = "0" if unspec else ips[0]
    nsteps = rng.choice([2, 4, 8, 12, 20, 30]) if tier != "thorough" else rng.choice([4, 12, 30, 60])
    server_cookie = hexbytes(rng, rng.choice([8, 8, 8, 16, 32]))
    steps = []
    marks = []
    pending = None
    sent = set()
    phase = 0
    for i in range(nsteps):
        r = rng.random()
        if pending is not None and rng.random() < 0.9:
            kind, q = "apply", pending
        elif r < 0.06:
            kind, q = "new", rng.randrange(4)
        elif r < 0.50 or not sent:
            kind, q = "apply", rng.randrange(4)
        else:
            kind, q = "validate", (rng.choice(sorted(sent)) if rng.random() < 0.9 else rng.randrange(4))
        t = clk.advance(rng, marks)
        if kind == "new":
            opt = 0 if rng.random() < 0.3 else 1
            uc = "-"
            if opt and rng.random() < 0.5:
                uc = hexbytes(rng, rng.choice([1, 7, 8, 16, 24, 40]))
            steps.append("new q=%d opt=%d uc=%s" % (q, opt, uc))
            sent.discard(q)
            if pending == q:
                pending = None
        elif kind == "apply":
            tcp = 1 if rng.random() < 0.08 else 0
            if not unspec and rng.random() < 0.1:
                ip = rng.choice(ips)
            if rng.random() < 0.01:
                ip = "0"
            rnd = "%s,%s" % (hexbytes(rng, 8), hexbytes(rng, 8))
            if rng.random() < 0.03:
                rnd = "0000000000000000,0000000000000000"
            steps.append("apply q=%d tcp=%d ip=%s t=%s rnd=%s" % (q, tcp, ip, t, rnd))
            sent.add(q)
            marks.append(clk.us)
            if pending == q:
                pending = None
        else:
            prof = profile
            if profile == "mixed":
                prof = rng.choice(["none", "valid", "changing", "wrongclient", "badcookie", "odd"])
            if profile == "disappear":
                if phase == 0 and i > nsteps // 3:
                    phase = 1
                prof = "valid" if phase == 0 else "none"
            rcode = rng.choice([0, 0, 0, 0, 3, 2])
            if prof == "none":
                c = rng.choice(["-", "-", "+"])
                if rng.random() < 0.05:
                    rcode = 23
            elif prof == "valid":
                c = "@" + server_cookie
            elif prof == "changing":
                server_cookie = hexbytes(rng, rng.choice([8, 8, 9, 16, 31, 32]))
                c = "@" + server_cookie
            elif prof == "wrongclient":
                c = hexbytes(rng, 8) + server_cookie if rng.random() < 0.7 else "@" + server_cookie
            elif prof == "badcookie":
                rcode = 23 if rng.random() < 0.8 else 0
                x = rng.random()
                if x < 0.7:
                    if rng.random() < 0.4:
                        server_cookie = hexbytes(rng, rng.choice([8, 16, 32]))
                    c = "@" + server_cookie
                elif x < 0.8:
                    c = "@"
                elif x < 0.9:
                    c = rng.choice(["-", "+"])
                else:
                    c = hexbytes(rng, 16)
            else:  # odd lengths and forms
                c = rng.choice(["@", "@" + hexbytes(rng, 1), "@" + hexbytes(rng, 7), "@" + hexbytes(rng, 32),
                                "@" + hexbytes(rng, 33), hexbytes(rng, 1), hexbytes(rng, 7), hexbytes(rng, 8),
                                hexbytes(rng, 41), "e", "+", "-"])
            steps.append("validate q=%d t=%s rcode=%d c=%s" % (q, t, rcode, c))
            marks.append(clk.us)
            if rcode == 23 and c[0] == "@":
                pending = q
        marks = marks[-6:]
    return "ck|" + ";".join(steps)


def gen(rng, tier, n):
    return [gen_case(rng, tier) for _ in range(n)]
