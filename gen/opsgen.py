"""Case generators for the container engine (C19)."""


def gen_arr(rng, maxops):
    n = rng.choice([3, 8, 20, 60, maxops])
    ops = []
    size = 0
    mode = rng.choice(["mixed", "front-drain", "grow", "middle", "drain-alloc"])
    nextv = 1
    if mode == "drain-alloc":
        # fill exactly to an allocation size (4/8/16/32), empty from the front so that the
        # offset reaches alloc_cnt, then carry on (every later insert used to fail)
        k = rng.choice([4, 4, 8, 16, 32]) + rng.choice([0, 0, 0, -1, 1])
        for _ in range(k):
            ops.append("il:%d" % nextv); nextv += 1
        ops += ["rf"] * k
        ops.append(rng.choice(["il:%d", "if:%d", "ia:0:%d"]) % nextv); nextv += 1
        size = 1
    for _ in range(n):
        r = rng.random()
        if mode == "front-drain" and size > 0 and r < 0.55:
            ops.append("rf"); size -= 1; continue
        if mode == "grow" and r < 0.7:
            ops.append("il:%d" % nextv); nextv += 1; size += 1; continue
        c = rng.random()
        if c < 0.18:
            ops.append("il:%d" % nextv); nextv += 1; size += 1
        elif c < 0.32:
            ops.append("if:%d" % nextv); nextv += 1; size += 1
        elif c < 0.5:
            # boundaries idx = cnt (append) and idx = cnt + 1 (first invalid index)
            b = rng.random()
            idx = size if b < 0.12 else size + 1 if b < 0.2 else rng.randint(0, size)
            ops.append("ia:%d:%d" % (idx, nextv)); nextv += 1
            if idx <= size:
                size += 1
        elif c < 0.62:
            ops.append("rf"); size = max(0, size - 1)
        elif c < 0.72:
            ops.append("rl"); size = max(0, size - 1)
        elif c < 0.86:
            idx = rng.randint(0, max(0, size - 1 + (1 if rng.random() < 0.1 else 0)))
            ops.append("ra:%d" % idx)
            if idx < size:
                size -= 1
        elif c < 0.93:
            ops.append("at:%d" % rng.randint(0, size + 1))
        elif c < 0.96:
            ops.append(rng.choice(["first", "last"]))
        else:
            ops.append(rng.choice(["len", "sort", "sort", "ss:%d" % rng.choice([0, 1, 3, 4, 5, 8, 9, 16, 17, size, size + 1, max(0, size - 1)])]))
    if rng.random() < 0.4:
        ops.append("fin")
    if rng.random() < 0.3:
        # allocator refuses during some inserts: ENOMEM exactly when the block must grow
        ops = [("!" + o) if (o[0] == "i" or o[:2] == "ss") and rng.random() < 0.25 else o for o in ops]
    return "arr|" + ";".join(ops)


# case kinds of the container engine: kind -> generator(rng, maxops) -> case line.
# Each container lives in gen/opsgen_<kind>.py (function gen_case); the quick/thorough mix is
# balanced over the kinds.
import importlib

KINDS = {"arr": gen_arr}
for _k in ("llist", "slist", "ht", "buf"):
    KINDS[_k] = importlib.import_module("opsgen_" + _k).gen_case


def gen(rng, tier, n):
    # thorough: longer sequences, but the per-op full dumps make the output quadratic in the
    # length; 300 keeps a thorough run (30 k cases) around 10 min
    maxops = 120 if tier == "quick" else 300
    kinds = sorted(KINDS)
    out = []
    for i in range(n):
        k = kinds[i % len(kinds)]
        out.append(KINDS[k](rng, maxops))
    return out
