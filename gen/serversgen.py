"""Case generator of the C09 engine "servers" (see harness/servers_drv.c for the case format).

Histories of user queries whose attempts are answered, refused or timed out, so that servers
accumulate and lose consecutive failures and the sorted list reorders; clock advances on both
sides of the retry delay; server-list edits (only add / only remove / reverse, rotate, swap of the kept
servers / mix / disjoint replacement / duplicates / empty list) between queries AND while
attempts are in flight, with and without prior failures on the kept servers; queries during which the
connection of the probe copy cannot be opened (event p), followed by advances past the retry delay and fresh queries.  1..8 servers, rotation on/off, failover chance 0 / 1 (always) / small / default,
retry delay 0 / small / large.
"""


def edit(rng, ids):
    """new server list derived from the current one: (a) only add, (b) only remove,
    (c) reorder the kept servers (reverse / rotate / swap two), (d) mix, plus duplicates,
    disjoint replacement and the empty list"""
    universe = [x for x in range(1, 13)]
    fresh = [x for x in universe if x not in ids]
    kind = rng.choice(["add", "add", "remove", "remove", "reverse", "rotate", "swap", "mix", "mix", "same",
                       "replace", "dup", "empty"])
    new = list(ids)
    if kind == "add" and fresh:
        for x in rng.sample(fresh, rng.randint(1, min(3, len(fresh)))):
            new.insert(rng.randrange(len(new) + 1), x)
        if rng.random() < 0.5:                       # append only: indexes of the kept ones unchanged
            new = list(ids) + [x for x in new if x not in ids]
    elif kind == "remove" and len(ids) > 1:
        for x in rng.sample(ids, rng.randint(1, len(ids) - 1)):
            new.remove(x)
    elif kind == "reverse":
        new.reverse()
    elif kind == "rotate" and len(ids) > 1:
        k = rng.randrange(1, len(ids))
        new = new[k:] + new[:k]
    elif kind == "swap" and len(ids) > 1:
        i, j = rng.sample(range(len(ids)), 2)
        new[i], new[j] = new[j], new[i]
    elif kind == "mix":
        keep = rng.sample(ids, rng.randint(0, len(ids))) if ids else []
        add = rng.sample(fresh, rng.randint(0, min(3, len(fresh)))) if fresh else []
        new = keep + add
        rng.shuffle(new)
    elif kind == "replace" and fresh:
        new = rng.sample(fresh, rng.randint(1, min(3, len(fresh))))
    elif kind == "dup" and ids:
        new.insert(rng.randrange(len(new) + 1), rng.choice(ids))
    elif kind == "empty":
        new = [] if rng.random() < 0.5 else new
    new = new[:8] if len(set(new)) > 8 else new
    return "e" + ",".join(map(str, new)), list(dict.fromkeys(new))


def gen_case(rng, tier):
    n = rng.choice([1, 2, 2, 3, 3, 3, 4, 5, 6, 8])
    ids = rng.sample(range(1, 13), n)
    if rng.random() < 0.1:
        ids.insert(rng.randrange(len(ids) + 1), rng.choice(ids))          # duplicate in the configuration
    units = ["sv=" + ",".join(map(str, ids))]
    ids = list(dict.fromkeys(ids))
    rot = rng.choice([0, 0, 1, 1, None])
    if rot is not None:
        units.append("rot=%d" % rot)
    tries = rng.choice([None, 1, 1, 2, 3])
    if tries is not None:
        units.append("tries=%d" % tries)
    fo = rng.random()
    delay = 5000
    if fo < 0.25:
        pass                                                              # defaults: chance 10, delay 5000
    else:
        chance = rng.choice([0, 0, 1, 1, 1, 2, 3, 10, 10, 65535])
        delay = rng.choice([0, 0, 1, 100, 5000, 5000, 30000, 120000, 2147483647])
        if rng.random() < 0.3:
            chance, delay = 1, rng.choice([0, 100, 5000])     # probes at every opportunity
        units.append("ch=%d" % chance)
        units.append("dl=%d" % delay)
    nochance = "ch=0" in units and len(ids) >= 2 and rng.random() < 0.5
    delay = min(delay, 10 ** 7)          # for the clock advances below
    units.append("seed=%d" % rng.randrange(1, 1000000))
    nev = rng.choice([4, 8, 12, 20, 30]) if tier != "thorough" else rng.choice([8, 20, 40, 80])
    mood = rng.random()      # how hostile the network is in this case
    p_fail = 0.15 if mood < 0.3 else (0.45 if mood < 0.8 else 0.8)
    p_edit_inflight = rng.choice([0.0, 0.1, 0.25])
    evs = []
    pending_guess = 0
    # probe liveness: the connection of a probe copy cannot be opened (event p); after the retry
    # delay the server must be probed again
    pfail = len(ids) >= 2 and rng.random() < 0.3
    if pfail and rng.random() < 0.6:
        evs += ["q", rng.choice(["s", "r", "i"]), "a", "w%d" % rng.choice([delay, delay + 1, 60000]), "p", "a", "a",
                "w%d" % rng.choice([delay, delay, delay + 1, max(0, delay - 1), 60000]), rng.choice(["q", "p"]), "a", "a"]
    if nochance:
        # retry chance 0 disables probing: a server fails while another stays healthy, more than the
        # configured and the default (5 s) delay passes, then dozens of fresh queries - no probe copy
        evs += ["q", rng.choice(["s", "r", "i"]), "a", "w%d" % (max(delay, 5000) + rng.choice([0, 1, 1000]))] + ["q", "a"] * rng.choice([30, 40, 50])
    for _ in range(nev):
        r = rng.random()
        if pending_guess == 0:
            if r < 0.6:
                evs.append("p" if pfail and rng.random() < 0.5 else "q")
                pending_guess = 1 + (1 if rng.random() < 0.3 else 0)
                if rng.random() < 0.15:
                    evs.append("p" if pfail and rng.random() < 0.5 else "q")   # several user queries in flight
                    pending_guess += 1
            elif r < 0.78:
                # advance around the retry delay
                evs.append("w%d" % rng.choice([0, 1, 99, 100, 101, 4999, 5000, 5001, max(0, delay - 1), delay, delay + 1, 60000, 200000]))
            else:
                e, ids = edit(rng, ids)
                evs.append(e)
        else:
            if rng.random() < 0.03:
                evs.append("c")                       # ares_cancel
                pending_guess = 0
            elif r < p_edit_inflight:
                e, ids = edit(rng, ids)               # edit while attempts are in flight
                evs.append(e)
            elif r < p_edit_inflight + p_fail * (1 - p_edit_inflight):
                evs.append(rng.choice(["s", "r", "i", "x", "x", "s", "k"]))
                if evs[-1] == "x":
                    pending_guess = rng.choice([0, 1])
            else:
                evs.append("a")
                pending_guess -= 1
    return "V|" + ";".join(units + evs)


def gen(rng, tier, n):
    return [gen_case(rng, tier) for _ in range(n)]


if __name__ == "__main__":
    import random
    import sys
    for c in gen(random.Random(int(sys.argv[1]) if len(sys.argv) > 1 else 1), "quick", 10):
        print(c)
