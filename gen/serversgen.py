"""Case generator of the C09 engine "servers" (see harness/servers_drv.c for the case format).

Histories of user queries whose attempts are answered, refused or timed out, so that servers
accumulate and lose consecutive failures and the sorted list reorders; clock advances on both
sides of the retry delay; server-list edits between queries (reorder, drop, add, duplicates,
empty list).  1..8 servers, rotation on/off, failover chance 0 / 1 (always) / small / default,
retry delay 0 / small / large.
"""


def gen_case(rng, tier):
    n = rng.choice([1, 2, 2, 3, 3, 3, 4, 5, 6, 8])
    ids = rng.sample(range(1, 13), n)
    if rng.random() < 0.1:
        ids.insert(rng.randrange(len(ids) + 1), rng.choice(ids))          # duplicate in the configuration
    units = ["sv=" + ",".join(map(str, ids))]
    rot = rng.choice([0, 0, 1, 1, None])
    if rot is not None:
        units.append("rot=%d" % rot)
    tries = rng.choice([None, 1, 1, 2, 3])
    if tries is not None:
        units.append("tries=%d" % tries)
    fo = rng.random()
    delay = 5000
    if fo < 0.25:
        pass                                                              # defaults: chance 10, delay 5000
    else:
        chance = rng.choice([0, 1, 1, 1, 2, 3, 10])
        delay = rng.choice([0, 0, 100, 5000, 5000, 30000, 120000])
        units.append("ch=%d" % chance)
        units.append("dl=%d" % delay)
    units.append("seed=%d" % rng.randrange(1, 1000000))
    nev = rng.choice([4, 8, 12, 20, 30]) if tier != "thorough" else rng.choice([8, 20, 40, 80])
    mood = rng.random()      # how hostile the network is in this case
    p_fail = 0.15 if mood < 0.3 else (0.45 if mood < 0.8 else 0.8)
    evs = []
    pending_guess = 0
    for _ in range(nev):
        r = rng.random()
        if pending_guess == 0:
            if r < 0.62:
                evs.append("q")
                pending_guess = 1 + (1 if rng.random() < 0.3 else 0)
            elif r < 0.82:
                # advance around the retry delay
                evs.append("w%d" % rng.choice([0, 1, 99, 100, 101, 4999, 5000, 5001, max(0, delay - 1), delay, delay + 1, 60000, 200000]))
            else:
                universe = list(range(1, 13))
                k = rng.choice([0, 1, 2, 3, 4, 8])
                new = rng.sample(universe, min(k, len(universe)))
                if rng.random() < 0.6 and ids:
                    keep = rng.sample(ids, rng.randint(1, len(ids)))
                    new = list(dict.fromkeys(keep + new))[: max(1, k)]
                    rng.shuffle(new)
                if new and rng.random() < 0.15:
                    new.append(rng.choice(new))
                evs.append("e" + ",".join(map(str, new)))
                ids = list(dict.fromkeys(new))
        else:
            if r < p_fail:
                evs.append(rng.choice(["s", "r", "i", "x", "x", "s"]))
                if evs[-1] == "x":
                    pending_guess = rng.choice([0, 1])
            else:
                evs.append("a")
                pending_guess -= 1
    return "V|" + ";".join(units + evs)


def gen(rng, tier, n):
    return [gen_case(rng, tier) for _ in range(n)]


if __name__ == "__main__":
    import random
    import sys
    for c in gen(random.Random(int(sys.argv[1]) if len(sys.argv) > 1 else 1), "quick", 10):
        print(c)
