"""End-to-end histories for C17 on the channel simulator (engine chan17).

Whole-channel histories: requests (ares_query_dnsrec) to 1..3 servers, answered per transmission
(`rsp xl-<n> <spec>`) or for everything outstanding (`rspall`), with server behaviours none (no
cookie / no OPT) / valid (echo + constant server cookie) / changed (new server cookie every time) /
wrong client part (bad, bad<k>) / BADCOOKIE (rcode 23 with a fresh server cookie, up to four in a
row, then a normal answer) / disappearing support (valid, then none) / odd cookie lengths; the clock
jumps across 120 s, 300 s and 1 day relative to earlier events; dropped answers run into the query
timeout (proct) and fail over to the next server, which has cookie state of its own; usevc channels
(everything over TCP).  The query cache is off so that every request is transmitted.  The source
address of the simulator's sockets is fixed (10.9.9.9), so source-address changes are NOT exercised
end to end (they are in the component engine `cookie`).
"""

JUMPS = [1, 1, 500, 500, 1999, 30000, 119000, 119999, 120000, 120001, 121000, 299999, 300000, 300001, 86399999, 86400000, 86400001]


def hexb(rng, n):
    return "".join("%02x" % rng.randrange(256) for _ in range(n))


def answer(rng, beh, state):
    """one response spec for behaviour beh"""
    base = "an=A:1.2.3.4:60" if rng.random() < 0.8 else "rcode=3"
    if beh == "none":
        return base + rng.choice([",cookie=none", ",noopt=1", ",cookie=none"])
    if beh == "valid":
        return base + ",cookie=echo:" + state["srvck"]
    if beh == "changed":
        state["srvck"] = hexb(rng, rng.choice([8, 8, 16, 32]))
        return base + ",cookie=echo:" + state["srvck"]
    if beh == "wrong":
        return base + ",cookie=" + rng.choice(["bad", "bad", "bad3", "bad7", hexb(rng, 16), hexb(rng, 24)])
    if beh == "badcookie":
        state["srvck"] = hexb(rng, rng.choice([8, 16]))
        x = rng.random()
        if x < 0.8:
            return "rcode=23,cookie=echo:" + state["srvck"]
        if x < 0.9:
            return "rcode=23,cookie=none"
        return "rcode=23,cookie=bad"
    if beh == "inject":
        # every rcode x {no OPT, OPT without cookie, wrong / short / client-only-looking / valid cookie}
        rc = rng.choice([1, 1, 1, 4, 2, 5, 16, 23, 9, 0, 3])
        form = rng.choice(["noopt=1", "noopt=1", "cookie=none", "cookie=none", "cookie=bad", "cookie=" + hexb(rng, rng.choice([1, 7])),
                           "cookie=" + hexb(rng, 8), "cookie=echo:" + state["srvck"]])
        return "rcode=%d,%s" % (rc, form)
    if beh == "odd":
        return base + ",cookie=" + rng.choice([hexb(rng, 1), hexb(rng, 7), "echo:" + hexb(rng, 1), "echo:" + hexb(rng, 7),
                                                "echo:" + hexb(rng, 33), hexb(rng, 41)])
    return base


def gen_case(rng, tier):
    nsrv = rng.choice([1, 1, 2, 3])
    tries = rng.choice([1, 2, 3])
    flags = rng.choice([None, None, None, "edns", "noedns", "edns,usevc"])
    cfg = ["seed=%d" % rng.randrange(1, 1 << 30), "servers=%d" % nsrv, "idseq=100", "tries=%d" % tries,
           "timeout=2000", "qcachettl=0", "clock=%d" % rng.choice([1000000, 1000000, 5000, 86400000 * 3])]
    if flags:
        cfg.append("flags=%s" % flags)
    profile = rng.choice(["none", "valid", "valid", "changed", "wrong", "badcookie", "disappear", "mixed", "mixed", "downgrade", "downgrade"])
    state = {"srvck": hexb(rng, 8)}
    ops = []
    tok = 0
    rounds = rng.choice([2, 4, 6, 9]) if tier != "thorough" else rng.choice([4, 9, 16])
    phase = 0
    for r in range(rounds):
        if rng.random() < 0.6:
            ops.append("adv %d" % rng.choice(JUMPS))
            ops.append("proct")      # let timeouts fire on their own, not in the middle of a read
        beh = profile
        if profile == "mixed":
            beh = rng.choice(["none", "valid", "changed", "wrong", "badcookie", "odd", "inject"])
        if profile == "downgrade":
            # first let the server prove cookie support, then inject replies of every rcode / OPT form
            # (mostly inside the regression window), each followed later by the genuine answer
            beh = "valid" if r < rng.choice([1, 1, 2]) else "inject"
        if profile == "disappear":
            if r >= rounds // 2:
                phase = 1
            beh = "valid" if phase == 0 else "none"
        n = rng.choice([1, 1, 1, 2, 3])
        for _ in range(n):
            tok += 1
            ops.append("query %d h%d.example IN A" % (tok, tok))
        # one answer per fresh transmission (if the request was transmitted at all)
        for i in range(n):
            b = beh if rng.random() < 0.85 else rng.choice(["none", "valid", "wrong"])
            ops.append("rsp xl-%d %s" % (n - 1 - i, answer(rng, b, state)) if n - 1 - i else "rsp xl %s" % answer(rng, b, state))
        ops.append("run")
        if beh == "inject":
            # the genuine answer to whatever is outstanding now (the same transmission if the injected
            # reply was ignored, the retransmission otherwise)
            for _ in range(rng.choice([1, 1, 2])):
                ops.append("rsp xl %s" % answer(rng, "valid", state))
                ops.append("run")
        # chase resends (BADCOOKIE) and TCP fallbacks
        chase = rng.choice([0, 1, 2, 4]) if beh != "badcookie" else rng.choice([2, 3, 4, 5])
        for c in range(chase):
            b = beh if (beh == "badcookie" and c < chase - 1) else rng.choice(["valid", "valid", "none"])
            ops.append("rspall %s" % answer(rng, b, state))
            ops.append("run")
        # let dropped answers time out now and then (fail over / retry / give up)
        if rng.random() < 0.35:
            ops.append("adv %d" % rng.choice([2000, 2500, 5000]))
            ops.append("proct")
            ops.append("rspall %s" % answer(rng, rng.choice([beh, "valid", "none"]), state))
            ops.append("run")
    return " ".join(cfg) + "|" + ";".join(ops)


def gen(rng, tier, n):
    return [gen_case(rng, tier) for _ in range(n)]
