"""Case generator for the skip-list kind of the container engine (C19).

ops:  i:K:P  !Si:K:P  f:K  fi la  nx:I pv:I v:I  fv lv len  c:I d:I  r:I:K  pf
The generator keeps its own sorted list (new elements before equal ones) only to aim at the
boundaries: equal keys, below the minimum / above the maximum, find of absent / present /
duplicated keys, drain to empty and refill, removal of the first / last / middle / only node,
reinsert to the same key / below all / above all / equal to another key, and more than 16 and
more than 64 live elements (so that the list's level count grows).
"""


def gen_case(rng, maxops):
    mode = rng.choice(["equal", "mixed", "mixed", "grow", "grow", "drain", "extremes", "reinsert", "remove"])
    # the dump after every mutating op makes a case cost ~n^3: long cases (thorough tier) are rare
    mid = min(maxops, 150)
    n = rng.choice([4, 10, 30, 80, mid, mid])
    if mode == "grow":
        n = maxops if rng.random() < 0.15 else mid
    krange = {"equal": 3, "mixed": 20, "grow": rng.choice([5, 40, 1000]), "drain": 8,
              "extremes": 50, "reinsert": 6, "remove": 10}[mode]
    ops = []
    lst = []          # sorted [key, payload, idx]
    nodes = 0         # created so far
    nextp = 1

    def live_idx():
        return [e[2] for e in lst]

    def ins(key, fail=-1):
        nonlocal nodes, nextp
        p = nextp
        nextp += 1
        if fail >= 0:
            ops.append("!%di:%d:%d" % (fail, key, p))
            if fail <= 2:
                return
        else:
            ops.append("i:%d:%d" % (key, p))
        pos = 0
        while pos < len(lst) and key > lst[pos][0]:
            pos += 1
        lst.insert(pos, [key, p, nodes])
        nodes += 1

    def remove_idx(i):
        for j, e in enumerate(lst):
            if e[2] == i:
                del lst[j]
                return

    def pick_node(how=None):
        """index of a node: mostly live, sometimes dead or never created"""
        r = rng.random()
        if not lst or r < 0.06:
            return rng.randint(0, nodes + 1)
        how = how or rng.choice(["first", "last", "middle", "any"])
        if how == "first":
            return lst[0][2]
        if how == "last":
            return lst[-1][2]
        if how == "middle":
            return lst[len(lst) // 2][2]
        return rng.choice(lst)[2]

    def some_key(kind=None):
        kind = kind or rng.choice(["present", "absent", "dup", "any", "below", "above"])
        keys = [e[0] for e in lst]
        if kind == "present" and keys:
            return rng.choice(keys)
        if kind == "dup" and keys:
            d = [k for k in set(keys) if keys.count(k) > 1]
            if d:
                return rng.choice(d)
            return rng.choice(keys)
        if kind == "below":
            return (min(keys) if keys else 0) - rng.randint(1, 3)
        if kind == "above":
            return (max(keys) if keys else 0) + rng.randint(1, 3)
        if kind == "absent":
            for _ in range(5):
                k = rng.randint(-2, krange + 2)
                if k not in keys:
                    return k
        return rng.randint(0, krange)

    def do_reinsert():
        i = pick_node()
        kind = rng.choice(["same", "below", "above", "equal-other", "any"])
        cur = [e for e in lst if e[2] == i]
        if kind == "same" and cur:
            k = cur[0][0]
        elif kind == "equal-other" and len(lst) > 1:
            k = rng.choice([e for e in lst if e[2] != i] or lst)[0]
        elif kind == "below":
            k = some_key("below")
        elif kind == "above":
            k = some_key("above")
        else:
            k = rng.randint(0, krange)
        ops.append("r:%d:%d" % (i, k))
        if cur:
            p = cur[0][1]
            remove_idx(i)
            pos = 0
            while pos < len(lst) and k > lst[pos][0]:
                pos += 1
            lst.insert(pos, [k, p, i])

    def do_remove():
        i = pick_node()
        ops.append("%s:%d" % (rng.choice(["c", "d"]), i))
        remove_idx(i)

    def do_query():
        c = rng.random()
        if c < 0.45:
            ops.append("f:%d" % some_key())
        elif c < 0.55:
            ops.append(rng.choice(["fi", "la", "fv", "lv", "len"]))
        elif c < 0.75:
            ops.append("%s:%d" % (rng.choice(["nx", "pv"]), pick_node()))
        else:
            ops.append("v:%d" % pick_node())

    if mode == "drain":
        for _ in range(rng.randint(1, max(1, min(n // 3, 25)))):
            ins(rng.randint(0, krange))
        while lst and len(ops) < n:
            ops.append("pf")
            lst.pop(0)
        ops.append("pf")
        ops.append(rng.choice(["fi", "la", "len", "f:%d" % rng.randint(0, krange)]))

    while len(ops) < n:
        r = rng.random()
        if mode == "grow":
            if r < 0.72:
                ins(rng.randint(0, krange))
            elif r < 0.80:
                do_query()
            elif r < 0.88:
                do_reinsert()
            elif r < 0.96:
                do_remove()
            else:
                ops.append("pf")
                if lst:
                    lst.pop(0)
            continue
        if mode == "extremes" and r < 0.5:
            ins(some_key(rng.choice(["below", "above"])))
            continue
        if mode == "reinsert" and r < 0.45 and lst:
            do_reinsert()
            continue
        if mode == "remove" and r < 0.4 and lst:
            do_remove()
            continue
        if mode == "equal" and r < 0.25:
            ops.append("f:%d" % some_key(rng.choice(["dup", "present", "absent"])))
            continue
        c = rng.random()
        if c < 0.34:
            ins(some_key(rng.choice(["any", "any", "present", "below", "above"])) if lst else rng.randint(0, krange))
        elif c < 0.37:
            ins(rng.randint(0, krange), fail=rng.choice([0, 1, 2]))
        elif c < 0.60:
            do_query()
        elif c < 0.72:
            do_reinsert()
        elif c < 0.86:
            do_remove()
        else:
            ops.append("pf")
            if lst:
                lst.pop(0)
    return "slist|" + ";".join(ops)
