"""Case generator for the hash-table kind of the container engine (C19)."""


def gen_case(rng, maxops):
    mode = rng.choice(["g", "gc", "gm", "sz", "str", "dict"])
    n = rng.choice([3, 10, 30, maxops])
    ops = [mode]
    for _ in range(n):
        k = rng.randint(0, 40)
        ks = ("k%d" % k) if mode in ("str", "dict") else str(k)
        c = rng.random()
        if c < 0.55:
            ops.append("i:%s:%d" % (ks, rng.randint(1, 99)))
        elif c < 0.7:
            ops.append("g:%s" % ks)
        elif c < 0.85:
            ops.append("r:%s" % ks)
        elif c < 0.93:
            ops.append("n")
        else:
            ops.append("a")
    return "ht|" + ";".join(ops)
