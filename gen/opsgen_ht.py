"""Case generator for the hash-table kind of the container engine (C19).

case: ht|<mode>;op;op;...   (see harness/dsa_ht.c for modes, ops and tokens)

Scenarios aim at the case splits of coq/Dsa/Htable_proofs.v:
  * growth points: 12/13, 24/25, 48/49, 96/97 keys (the insert of key number 13, 25, 49, 97 grows
    the table BEFORE inserting), overwriting an existing key exactly at the threshold (must not
    grow), then a new key (must grow)
  * keys colliding in one bucket (multiples of the table size with the identity hash) before
    and after the growth that separates them; everything in one bucket (mode gc)
  * remove + reinsert of the same key, get/remove of absent keys, remove everything and refill
    (leaves allocated, empty bucket lists behind)
  * refused allocations: every request of the expand, the lazily allocated bucket list, the
    node; for the typed wrappers the wrapper's own allocations
  * string keys differing only in case
"""

MODES = [("g", 26), ("gc", 7), ("gm", 10), ("sz", 14), ("str", 14), ("dict", 10),
         ("as", 7), ("vv", 6), ("vs", 6)]
NPRE = {"g": 0, "gc": 0, "gm": 0, "sz": 1, "as": 1, "vv": 1, "vs": 2, "str": 2, "dict": 3}


def _pick_mode(rng):
    tot = sum(w for _, w in MODES)
    x = rng.randrange(tot)
    for m, w in MODES:
        if x < w:
            return m
        x -= w
    return "g"


def _casing(rng, s):
    return "".join(c.upper() if rng.random() < 0.5 else c.lower() for c in s)


class _Keys:
    """renders abstract key numbers in the syntax of the mode"""

    def __init__(self, rng, mode):
        self.rng = rng
        self.mode = mode
        self.words = ["k", "key", "Host", "x", "name"]
        self.prefix = rng.choice(self.words)

    def k(self, n):
        if self.mode in ("str", "dict"):
            s = "%s%d" % (self.prefix, n)
            r = self.rng.random()
            if r < 0.5:
                return s
            return _casing(self.rng, s)
        if self.mode in ("vv", "vs"):
            return str(n + 1)          # NULL is not a key of the pointer-keyed tables
        return str(n)


def _ins(keys, rng, n):
    return "i:%s:%d" % (keys.k(n), rng.randint(1, 999))


def _sprinkle(rng, ops, keys, live, p=0.15):
    """now and then an observation between the mutating operations"""
    if rng.random() < p:
        c = rng.random()
        if c < 0.3:
            ops.append("n")
        elif c < 0.5:
            ops.append("a")
        elif c < 0.8 and live:
            ops.append("g:%s" % keys.k(rng.choice(sorted(live))))
        else:
            ops.append("g:%s" % keys.k(rng.randint(0, 400)))


def _gen_fnv(rng):
    """ares_htable_hash_FNV1a / _casecmp against the model's ht_fnv1a / ht_fnv1a_casecmp"""
    ops = ["fnv"]
    alphabet = "abcxyzABCXYZ019-._@[`{"
    for _ in range(rng.randint(1, 12)):
        n = rng.choice([0, 1, 2, 5, 8, 20])
        s = "".join(rng.choice(alphabet) for _ in range(n))
        seed = rng.choice([0, 1, 0xFFFFFFFF, rng.getrandbits(32)])
        ops.append("h:%d:%s" % (seed, s))
    return "ht|" + ";".join(ops)


def gen_case(rng, maxops):
    if rng.random() < 0.02:
        return _gen_fnv(rng)
    mode = _pick_mode(rng)
    keys = _Keys(rng, mode)
    npre = NPRE[mode]
    ops = []
    live = set()
    budget = maxops - 1
    scen = rng.choice(["random", "random", "grow", "grow", "threshold", "collide", "drain",
                       "allocfail", "allocfail", "case" if mode in ("str", "dict") else "reinsert"])

    def room():
        return len(ops) < budget

    if scen == "random":
        u = rng.choice([6, 20, 60, 150])
        n = rng.choice([3, 10, 30, 60, maxops])
        for _ in range(min(n, budget)):
            k = rng.randrange(u)
            c = rng.random()
            if c < 0.5:
                ops.append(_ins(keys, rng, k)); live.add(k)
            elif c < 0.64:
                ops.append("g:%s" % keys.k(k))
            elif c < 0.82:
                ops.append("r:%s" % keys.k(k)); live.discard(k)
            elif c < 0.88:
                ops.append("n")
            elif c < 0.94:
                ops.append("a")
            elif c < 0.97 and mode == "str":
                ops.append("c:%s" % keys.k(k)); live.discard(k)
            elif c < 0.985:
                ops.append("fi:%d:%s:%d" % (rng.randint(0, npre), keys.k(k), rng.randint(1, 999)))
            elif mode[0] == "g":
                ops.append("fa")
            elif mode == "as":
                ops.append("fa:%d" % rng.randint(0, 1))
            elif mode == "dict":
                ops.append("fa:%d" % rng.randint(0, 2))
            else:
                ops.append("n")
    elif scen == "grow":
        target = rng.choice([12, 13, 24, 25, 48, 49, 96, 97, 110, 200])
        target = min(target, budget - 4)
        stride = rng.choice([1, 1, 1, 3, 16, 17])
        base = rng.randrange(0, 50)
        i = 0
        while len(live) < target and room():
            k = base + i * stride
            i += 1
            ops.append(_ins(keys, rng, k)); live.add(k)
            _sprinkle(rng, ops, keys, live, 0.08 if target > 60 else 0.2)
        for _ in range(3):
            if room() and live:
                k = rng.choice(sorted(live))
                ops.append(rng.choice(["g:%s", "r:%s", "g:%s"]) % keys.k(k))
        if room():
            ops.append("a")
    elif scen == "threshold":
        # fill to exactly the threshold, overwrite an existing key (must NOT grow), look,
        # insert a new key (must grow), look; optionally go on to the next threshold
        th = rng.choice([12, 12, 24, 48, 96])
        th = min(th, budget - 12)
        stride = rng.choice([1, 1, 2, 16, 32])
        base = rng.randrange(0, 30)
        ks = [base + i * stride for i in range(th)]
        rng.shuffle(ks)
        for k in ks:
            ops.append(_ins(keys, rng, k)); live.add(k)
        ops += ["n", "a"]
        for _ in range(rng.randint(1, 3)):
            ops.append(_ins(keys, rng, rng.choice(ks)))
        ops += ["n", "a"]
        if rng.random() < 0.3:
            # drop below the threshold and come back: no growth either
            k = rng.choice(ks)
            ops += ["r:%s" % keys.k(k), _ins(keys, rng, k), "a"]
        newk = base + th * stride + rng.randrange(0, 5)
        ops.append(_ins(keys, rng, newk)); live.add(newk)
        ops += ["n", "a"]
        for k in rng.sample(ks, min(4, len(ks))):
            if room():
                ops.append("g:%s" % keys.k(k))
    elif scen == "collide":
        stride = rng.choice([16, 32, 64, 128, 1 << 20])
        base = rng.randrange(0, 16)
        ncol = rng.choice([2, 3, 5, 8, 12])
        col = [base + j * stride for j in range(ncol)]
        for k in col:
            ops.append(_ins(keys, rng, k)); live.add(k)
        ops.append("a")
        # remove from the middle / the head of the chain, reinsert
        for _ in range(rng.randint(0, 3)):
            k = rng.choice(col)
            ops.append("r:%s" % keys.k(k)); live.discard(k)
            if rng.random() < 0.6:
                ops.append(_ins(keys, rng, k)); live.add(k)
        # other keys until the table has grown once, twice, ...
        target = rng.choice([13, 25, 49, 60])
        i = 0
        while len(live) < min(target, budget - 8) and room():
            k = 1000 + i
            i += 1
            ops.append(_ins(keys, rng, k)); live.add(k)
            _sprinkle(rng, ops, keys, live, 0.1)
        ops.append("a")
        for k in col:
            if room():
                ops.append("g:%s" % keys.k(k))
        if room():
            ops.append("n")
    elif scen == "drain":
        n = rng.choice([1, 5, 12, 13, 20, 30])
        n = min(n, (budget - 6) // 3)
        stride = rng.choice([1, 16])
        ks = [i * stride for i in range(n)]
        for k in ks:
            ops.append(_ins(keys, rng, k))
        ops.append("a")
        order = ks[:]
        rng.shuffle(order)
        for k in order:
            ops.append("r:%s" % keys.k(k))
        ops += ["n", "a"]
        if ks:
            ops.append("r:%s" % keys.k(rng.choice(ks)))     # absent now
            ops.append("g:%s" % keys.k(rng.choice(ks)))
        rng.shuffle(order)
        for k in order:
            if room():
                ops.append(_ins(keys, rng, k))
        ops += ["n", "a"]
    elif scen == "allocfail":
        # bring the table to a growth threshold with some collisions, then refuse each request
        # of the insert that grows, one at a time; the table must stay as it is
        th = rng.choice([12, 12, 24, 48])
        th = min(th, budget - 30)
        ncol = rng.choice([0, 1, 2, 4])
        size = {12: 16, 24: 32, 48: 64}.get(th, 16)
        ks = []
        for j in range(min(ncol + 1, th)):
            ks.append(3 + j * size)                      # collide (identity hash)
        i = 0
        while len(ks) < th:
            k = 100 + i
            i += 1
            if k not in ks:
                ks.append(k)
        for k in ks:
            ops.append(_ins(keys, rng, k)); live.add(k)
        ops += ["n", "a"]
        newk = 5000 + rng.randrange(100)
        if mode[0] == "g":
            nreq = rng.choice([ncol + 5, ncol + 5, 3])
            for n in range(nreq):
                if not room():
                    break
                ops.append("fi:%d:%s:%d" % (n, keys.k(newk), rng.randint(1, 999)))
                if rng.random() < 0.7:
                    ops.append("a")
            if rng.random() < 0.5:
                ops.append("fa")
        else:
            for n in range(npre + 1):
                ops.append("fi:%d:%s:%d" % (n, keys.k(newk), rng.randint(1, 999)))
            # a replacement allocates nothing inside ares_htable_insert
            ops.append("fi:%d:%s:%d" % (npre, keys.k(rng.choice(ks)), rng.randint(1, 999)))
            if mode == "as":
                ops += ["fa:0", "fa:1"]
            elif mode == "dict":
                ops += ["fa:0", "fa:1", "fa:2"]
        ops += ["n", "g:%s" % keys.k(newk)]
        ops.append(_ins(keys, rng, newk))
        ops += ["n", "a", "g:%s" % keys.k(newk)]
    elif scen == "case":
        words = ["foo", "Example", "www", "a", "zZ", "host1", "HOST2"]
        for _ in range(min(rng.choice([6, 15, 40]), budget)):
            w = rng.choice(words)
            k = _casing(rng, w)
            c = rng.random()
            if c < 0.5:
                ops.append("i:%s:%d" % (k, rng.randint(1, 999)))
            elif c < 0.7:
                ops.append("g:%s" % k)
            elif c < 0.85:
                ops.append("r:%s" % k)
            elif c < 0.9 and mode == "str":
                ops.append("c:%s" % k)
            elif c < 0.95:
                ops.append("n")
            else:
                ops.append("a")
        if rng.random() < 0.3:
            ops.append("i::%d" % rng.randint(1, 99))      # empty key: strvp takes it, dict refuses
            ops.append("g:")
    else:  # reinsert
        n = rng.choice([1, 3, 12, 13])
        for k in range(n):
            ops.append(_ins(keys, rng, k))
        for _ in range(rng.randint(2, 8)):
            k = rng.randrange(n)
            ops += ["r:%s" % keys.k(k), "g:%s" % keys.k(k), _ins(keys, rng, k), "g:%s" % keys.k(k)]
        ops += ["r:%s" % keys.k(n + 7), "n", "a"]
    ops = ops[:budget]
    return "ht|" + ";".join([mode] + ops)
