"""Case generator for the threaded (event thread) engine: C07 event-thread half."""


def gen(rng, tier, n):
    out = []
    for i in range(n):
        evsys = ["epoll", "poll", "select"][i % 3]
        timeout = rng.choice([50, 100, 250, 300])
        tries = rng.choice([1, 2, 2, 3])
        flags = rng.choice(["edns", "stayopen", "stayopen", "stayopen,noedns", "noedns"])
        udpmaxq = rng.choice([0, 0, 1, 2])
        steps = []
        tok = 0
        shape = rng.choice(["idle-reuse", "busy-reuse", "late-round-reuse", "late-round-reuse", "fresh", "mixed", "mixed", "slow-callback", "slow-callback", "wait-recheck", "long-wait"])
        nq = rng.randint(1, 4)
        if i < 3:
            shape = "long-wait"          # one per backend in every run
        elif i < 6:
            shape = "wait-recheck"
        elif i < 9:
            shape = "slow-callback"
        if shape == "idle-reuse":
            steps += ["q:%d:ans%d.example" % (tok, tok), "settle", "sleep:%d" % rng.choice([20, 60])]
            tok += 1
            steps += ["q:%d:sil%d.example" % (tok, tok)]
            tok += 1
        elif shape == "busy-reuse":
            steps += ["q:%d:sil%d.example" % (tok, tok), "sleep:%d" % rng.choice([5, 30, 120])]
            tok += 1
            steps += ["q:%d:sil%d.example" % (tok, tok)]
            tok += 1
        elif shape == "late-round-reuse":
            # an older query is in a later retry round (doubled/quadrupled wait) when a fresh query
            # with a shorter first-attempt deadline is sent on the same (busy) connection
            timeout = rng.choice([100, 250])
            tries = rng.choice([3, 4])
            steps += ["q:%d:sil%d.example" % (tok, tok), "sleep:%d" % rng.choice([650, 800, 950])]
            tok += 1
            steps += ["q:%d:sil%d.example" % (tok, tok)]
            tok += 1
        elif shape == "slow-callback":
            # the completion callback of the first query runs (on the event thread) past the
            # deadline of the second: when the thread computes its next sleep that deadline has
            # already expired, the remaining time is 0
            tries = rng.choice([1, 1, 2])
            timeout = rng.choice([250, 300])
            gap = rng.choice([20, 50])
            steps += ["qs:%d:sil%d.example:%d" % (tok, tok, gap + rng.choice([40, 80, 120])), "sleep:%d" % gap]
            tok += 1
            steps += ["q:%d:sil%d.example" % (tok, tok)]
            tok += 1
        elif shape == "wait-recheck":
            # the queue drains and becomes non-empty again within one hold of the channel lock (a
            # completion callback cancels and issues a follow-up): a waiter woken by the notification
            # must look again.  No app-thread request after bgwait (see the driver).
            tries = 1
            timeout = rng.choice([250, 300])
            steps += ["qc:%d:sil%d.example:%d:sil%d.example" % (tok, tok, tok + 1, tok + 1), "bgwait:%d" % rng.choice([3000, 5000])]
            tok += 2
        elif shape == "long-wait":
            # a deadline more than a second away: the backend's conversion of the millisecond
            # timeout to its own unit (timeval / timespec / int) has a whole-seconds part
            tries = 1
            timeout = rng.choice([1100, 1500, 2000])
            steps += ["q:%d:sil%d.example" % (tok, tok)]
            tok += 1
        elif shape == "fresh":
            steps += ["q:%d:sil%d.example" % (tok, tok)]
            tok += 1
        else:
            for _ in range(nq):
                kind = rng.choice(["ans", "sil", "srvfail", "ans"])
                steps.append("q:%d:%s%d.example" % (tok, kind, tok))
                tok += 1
                r = rng.random()
                if r < 0.4:
                    steps.append("sleep:%d" % rng.choice([1, 10, 40, 100]))
                elif r < 0.6:
                    steps.append("settle")
        if rng.random() < 0.3:
            steps.append("waitempty:%d" % rng.choice([10, 3000]))
        out.append("evsys=%s timeout=%d tries=%d flags=%s udpmaxq=%d|%s" % (evsys, timeout, tries, flags, udpmaxq, ";".join(steps)))
    return out
