"""Histories for the channel simulator (harness/chan_drv.c) aimed at the retry machine (C06):
several queries sharing UDP connections; timeouts, error rcodes, EDNS downgrade, answers,
duplicate and stale replies, read errors on a shared connection, server added / removed.
maxtimeout <= 250 <= timeout makes every wait exactly maxtimeout ms (no jitter), so the
model-side driver knows every deadline.  UDP only (see ocaml/chanretry_drv.ml)."""

RCODES = ["SERVFAIL", "NOTIMP", "REFUSED", "FORMERR", "NOERROR", "NXDOMAIN"]


def spec(rng, tcp_ok=False):
    r = rng.choice(RCODES)
    items = ["rcode=" + r]
    if r == "FORMERR" and rng.random() < 0.6:
        items.append("noopt=1")
    if r == "NOERROR":
        items = ["an=A:1.2.3.4"] if rng.random() < 0.7 else ["rcode=NOERROR"]
    if tcp_ok and rng.random() < 0.2:
        items = [i for i in items if not i.startswith("an=")] + ["tc=1"]
    if rng.random() < 0.15:
        items.append("dup=%d" % rng.choice([2, 3, 8]))
    return ",".join(items)


RETRYING = [lambda rng, t: "rcode=" + rng.choice(["SERVFAIL", "NOTIMP", "REFUSED"]),
            lambda rng, t: "rcode=FORMERR,noopt=1",
            lambda rng, t: "rcode=FORMERR",
            lambda rng, t: ("tc=1" if t else "rcode=SERVFAIL")]


def csv(n):
    return ",".join("10.0.0.%d:53" % (i + 1) for i in range(n)) if n else "-"


def gen_case(rng, tier):
    S = rng.choice([1, 1, 2, 2, 3, 3, 4])
    T = rng.choice([1, 2, 2, 3, 4])
    M = rng.choice([50, 100, 250])
    flags = []
    if rng.random() < 0.3:
        flags.append("stayopen")
    if rng.random() < 0.1:
        flags.append("nocheckresp")
    # TCP (TC replies, usevc) only with one fixed server: the model-side driver must know which
    # connection a not-yet-written TCP frame sits on
    tcp_ok = (S == 1) and rng.random() < 0.6
    if tcp_ok and rng.random() < 0.25:
        flags.append("usevc")
    if tcp_ok and rng.random() < 0.15:
        flags.append("igntc")
    cfg = "servers=%d tries=%d timeout=%d maxtimeout=%d idseq=%d qcachettl=0 seed=%d" % (
        S, T, rng.choice([250, 500, 2000]), M, rng.choice([1, 100, 65530]), rng.randint(1, 10 ** 6))
    if S > 1 and rng.random() < 0.2:
        # make ares_probe_failed_server() likely: a probe copy of a fresh query (under its own id)
        # goes to a server marked failed as soon as its retry delay has passed
        cfg += " failover=%d,%d" % (rng.choice([1, 1, 2]), rng.choice([1, 100, 1000]))
    if flags:
        cfg += " flags=" + ",".join(flags)
    ops = []
    nq = 0
    cur = S
    smax = S

    def send():
        nonlocal nq
        ops.append("send %d q%d.example IN A rd%s" % (nq, nq, " edns" if rng.random() < 0.7 else ""))
        nq += 1
    for _ in range(rng.choice([1, 2, 2, 3, 5])):
        send()
    for _ in range(rng.choice([2, 4, 8, 16, 30]) if tier == "quick" else rng.choice([4, 16, 40, 80])):
        r = rng.random()
        if r < 0.25:
            ops.append("adv %d" % rng.choice([M, M, M - 1, M // 2, 2 * M, 1]))
            ops.append("proc")
        elif r < 0.55:
            # ONE read batch: several messages queued before a single proc - retry-triggering
            # replies, duplicates, answers and messages that do not parse, in every order
            c = rng.random()
            if c < 0.3:
                # a re-send is pending in the requeue array when the walk hits garbage
                which = rng.choice(["xl", "xl", "xl-1", "x0"])
                ops.append("rsp %s %s" % (which, rng.choice(RETRYING)(rng, tcp_ok)))
                for _ in range(rng.choice([0, 0, 1, 2])):
                    ops.append("rsp %s %s" % (rng.choice([which, "xl", "xl-1"]), spec(rng, tcp_ok)))
                ops.append("rsp %s rcode=NOERROR,trunc=%d" % (which, rng.choice([5, 11, 14])))
                if rng.random() < 0.3:
                    ops.append("rsp %s %s" % (which, spec(rng, tcp_ok)))
            else:
                for _ in range(rng.choice([1, 1, 2, 3, 4, 5])):
                    which = rng.choice(["xl", "xl", "xl-1", "xl-2", "xl-3", "x0", "x1", "xl-5"])
                    sp = spec(rng, tcp_ok)
                    if rng.random() < 0.12:
                        sp += ",trunc=%d" % rng.choice([5, 11, 14])
                    ops.append("rsp %s %s" % (which, sp))
            ops.append("proc")
        elif r < 0.7:
            ops.append("rspall %s" % spec(rng, tcp_ok))
            ops.append("proc")
        elif r < 0.78:
            # read error, possibly after some datagrams were already read in the same call
            k = rng.choice([1, 1, 2, 3])
            for _ in range(k):
                ops.append("rsp %s %s" % (rng.choice(["xl", "xl-1"]), spec(rng, tcp_ok) if k > 1 else "rcode=SERVFAIL"))
            ops.append("fail recvfrom %d ECONNREFUSED" % rng.choice([1, 1, k, k + 1]))
            ops.append("proc")
        elif r < 0.88 and not tcp_ok:
            if cur > 0 and rng.random() < 0.5:
                cur -= 1
            else:
                cur = min(6, cur + rng.choice([1, 2]))
            smax = max(smax, cur)
            ops.append("setservers %s" % csv(cur))
        elif nq < 12:
            send()
    # enough rounds for every query to use up its budget
    for _ in range(smax * T + 4):
        ops.append("adv %d" % M)
        ops.append("proc")
    ops.append("qlen")
    return cfg + "|" + ";".join(ops)


def window(pool, start, k):
    return ",".join("10.0.0.%d:53" % pool[(start + i) % len(pool)] for i in range(k))


def gen_flap(rng, tier):
    """the server list keeps changing under queries in flight, faster than the timeout: every
    change drops exactly one server (and adds one), more than servers*tries times.  Each
    removal of the server a query waits on must count against its budget."""
    k = rng.choice([1, 1, 1, 2, 2, 3])
    T = rng.choice([1, 1, 2, 2, 3, 4])
    M = rng.choice([50, 100, 250])
    pool = list(range(1, k + rng.choice([1, 1, 2, 3]) + 1))       # k+1 .. k+3 addresses
    cfg = "servers=%d tries=%d timeout=%d maxtimeout=%d idseq=%d qcachettl=0 seed=%d" % (
        k, T, rng.choice([250, 500, 2000]), M, rng.choice([1, 100, 65530]), rng.randint(1, 10 ** 6))
    if rng.random() < 0.3:
        cfg += " flags=stayopen"
    if rng.random() < 0.3:
        cfg += " rotate=1"
    ops = []
    nq = rng.choice([1, 1, 2, 3])
    for i in range(nq):
        ops.append("send %d q%d.example IN A rd%s" % (i, i, " edns" if rng.random() < 0.7 else ""))
    pos = 0
    nflaps = k * T + 6 + rng.choice([0, 1, 3, 8, 20])
    for _ in range(nflaps):
        pos += 1
        ops.append("setservers %s" % window(pool, pos, k))
        r = rng.random()
        if r < 0.25:
            ops.append("adv %d" % rng.choice([1, M // 2, M - 1]))
            ops.append("proc")
        elif r < 0.35:
            ops.append("rsp xl %s" % spec(rng))
            ops.append("proc")
        elif r < 0.4 and nq < 6:
            ops.append("send %d q%d.example IN A rd" % (nq, nq))
            nq += 1
    for _ in range(k * T + 4):
        ops.append("adv %d" % M)
        ops.append("proc")
    ops.append("qlen")
    return cfg + "|" + ";".join(ops)


def gen_cookie(rng, tier):
    """DNS cookies over UDP: a server that answers BADCOOKIE k = 1..12 times in a row, echoing the
    client cookie, with the same / a changing / alternating server cookie, then answers or stays
    silent.  At most COOKIE_RESEND_MAX re-sends may come from that and the last one must go over TCP
    (one server: the model-side driver has to know which TCP connection a deferred frame sits on)."""
    T = rng.choice([1, 1, 2, 3])
    M = rng.choice([50, 100, 250])
    cfg = "servers=1 tries=%d timeout=%d maxtimeout=%d idseq=%d qcachettl=0 seed=%d" % (
        T, rng.choice([250, 500, 2000]), M, rng.choice([1, 100, 65530]), rng.randint(1, 10 ** 6))
    if rng.random() < 0.3:
        cfg += " flags=stayopen"
    ops = []
    nq = rng.choice([1, 1, 2, 3])
    for i in range(nq):
        ops.append("send %d q%d.example IN A rd edns" % (i, i))
    k = rng.choice([1, 2, 3, 4, 4, 5, 6, 8, 12])
    pat = rng.choice(["same", "changing", "alternating", "mixed"])
    fixed = "%016x" % rng.getrandbits(64)
    other = "%016x" % rng.getrandbits(64)

    def server_cookie(i):
        if pat == "same":
            return fixed
        if pat == "changing":
            return "%016x" % (rng.getrandbits(63) | 1)
        if pat == "alternating":
            return (fixed, other)[i % 2]
        return rng.choice([fixed, other, "%016x" % (rng.getrandbits(63) | 1)])
    for i in range(k):
        sp = "rcode=23,cookie=echo:%s" % server_cookie(i)
        r = rng.random()
        if r < 0.1:
            sp += ",dup=%d" % rng.choice([2, 3])
        if r < 0.6:
            ops.append("rspall %s" % sp)
        else:
            ops.append("rsp %s %s" % (rng.choice(["xl", "xl-1"]), sp))
            if rng.random() < 0.3:       # something else in the same read
                ops.append("rsp xl %s" % rng.choice(["rcode=SERVFAIL,cookie=echo:" + fixed, "rcode=23,cookie=bad", "rcode=23",
                                                     "rcode=NOERROR,trunc=5", "rcode=REFUSED"]))
        ops.append("proc")
        ops.append("proc")                   # completes a TCP connect started by the fallback
        if rng.random() < 0.12:
            ops.append("adv %d" % rng.choice([1, M // 2, M]))
            ops.append("proc")
    end = rng.random()
    if end < 0.4:
        ops.append("rspall an=A:1.2.3.4,cookie=echo:%s" % fixed)
        ops.append("proc")
    elif end < 0.55:
        ops.append("rspall an=A:1.2.3.4")          # no cookie from a server that has shown one: dropped on UDP
        ops.append("proc")
    for _ in range(T + 4):
        ops.append("adv %d" % M)
        ops.append("proc")
    ops.append("qlen")
    return cfg + "|" + ";".join(ops)


def gen_stagger(rng, tier):
    """2..5 queries sent at DIFFERENT instants that share the one TCP connection of a silent server
    (usevc, or moved there by a TC reply): when the oldest times out only IT may be re-sent; the
    attempts of the younger ones must run their own base timeout."""
    T = rng.choice([1, 2, 2, 3])
    M = rng.choice([100, 250])
    usevc = rng.random() < 0.6
    cfg = "servers=1 tries=%d timeout=%d maxtimeout=%d idseq=%d qcachettl=0 seed=%d" % (
        T, rng.choice([250, 500, 2000]), M, rng.choice([1, 100, 65530]), rng.randint(1, 10 ** 6))
    fl = (["usevc"] if usevc else []) + (["stayopen"] if rng.random() < 0.3 else [])
    if fl:
        cfg += " flags=" + ",".join(fl)
    ops = []
    nq = rng.choice([2, 2, 3, 4, 5])
    for i in range(nq):
        ops.append("send %d q%d.example IN A rd%s" % (i, i, " edns" if rng.random() < 0.5 else ""))
        if not usevc:
            ops.append("rsp xl tc=1")        # truncated: the query moves to the TCP connection
            ops.append("proc")
        ops.append("proc")                   # connect completes / frame written
        if i < nq - 1:
            ops.append("adv %d" % rng.choice([1, M // 10, M // 4, M // 3, M // 2, M - 1]))
    step = rng.choice([M // 10, M // 5, M // 4, M // 3])
    for _ in range((T + 1) * (M // step + 2) + 4):
        ops.append("adv %d" % step)
        ops.append("proc")
        if rng.random() < 0.05:
            ops.append("proc")
    for _ in range(T + 4):
        ops.append("adv %d" % M)
        ops.append("proc")
    ops.append("qlen")
    return cfg + "|" + ";".join(ops)


def gen_extreme(rng, tier):
    """numeric extremes: 45..120 tries, every attempt answered PROMPTLY with an error rcode, so
    that rounds 30..70+ are reached while the clock (almost) stands still; no maxtimeout or a huge
    one, timeouts up to INT_MAX: the waits are the saturating doubling itself.  Nothing may time
    out (the clock never advances as far as the base timeout), every re-send has its reply."""
    S = rng.choice([1, 1, 1, 2])
    T = rng.choice([45, 50, 64, 65, 70, 100, 120 // S])
    timeout = rng.choice([250, 2000, 5000, 2147483, 2147483647])
    cfg = "servers=%d tries=%d timeout=%d idseq=%d qcachettl=0 seed=%d" % (
        S, T, timeout, rng.choice([1, 100, 65530]), rng.randint(1, 10 ** 6))
    if rng.random() < 0.25:
        cfg += " maxtimeout=2147483647"
    ops = []
    nq = rng.choice([1, 1, 2])
    for i in range(nq):
        ops.append("send %d q%d.example IN A rd%s" % (i, i, " edns" if rng.random() < 0.5 else ""))
    advanced = 0
    rounds = rng.choice([S * 30, S * 44, S * 52, S * 64, S * T - 1, S * T, rng.randint(S * 30, S * T)])
    for _ in range(min(rounds, S * T)):
        ops.append("rspall rcode=%s%s" % (rng.choice(["SERVFAIL", "REFUSED", "NOTIMP"]), ",dup=2" if rng.random() < 0.05 else ""))
        if rng.random() < 0.05:
            ops.append("rsp xl rcode=NOERROR,trunc=5")
        ops.append("proc")
        if rng.random() < 0.05 and advanced < 200:
            d = rng.choice([1, 5, 20])
            advanced += d
            ops.append("adv %d" % d)
            ops.append("proc")
    if rng.random() < 0.5:
        ops.append("rspall an=A:1.2.3.4")
        ops.append("proc")
    ops.append("qlen")
    return cfg + "|" + ";".join(ops)


def gen(rng, tier, n):
    out = []
    for _ in range(n):
        r = rng.random()
        out.append(gen_flap(rng, tier) if r < 0.12 else gen_cookie(rng, tier) if r < 0.22 else gen_stagger(rng, tier) if r < 0.30 else gen_extreme(rng, tier) if r < 0.36 else gen_case(rng, tier))
    return out
