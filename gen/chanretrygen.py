"""Histories for the channel simulator (harness/chan_drv.c) aimed at the retry machine (C06):
several queries sharing UDP connections; timeouts, error rcodes, EDNS downgrade, answers,
duplicate and stale replies, read errors on a shared connection, server added / removed.
maxtimeout <= 250 <= timeout makes every wait exactly maxtimeout ms (no jitter), so the
model-side driver knows every deadline.  UDP only (see ocaml/chanretry_drv.ml)."""

RCODES = ["SERVFAIL", "NOTIMP", "REFUSED", "FORMERR", "NOERROR", "NXDOMAIN"]


def spec(rng, tcp_ok=False):
    r = rng.choice(RCODES)
    items = ["rcode=" + r]
    if r == "FORMERR" and rng.random() < 0.6:
        items.append("noopt=1")
    if r == "NOERROR":
        items = ["an=A:1.2.3.4"] if rng.random() < 0.7 else ["rcode=NOERROR"]
    if tcp_ok and rng.random() < 0.2:
        items = [i for i in items if not i.startswith("an=")] + ["tc=1"]
    if rng.random() < 0.15:
        items.append("dup=%d" % rng.choice([2, 3, 8]))
    return ",".join(items)


RETRYING = [lambda rng, t: "rcode=" + rng.choice(["SERVFAIL", "NOTIMP", "REFUSED"]),
            lambda rng, t: "rcode=FORMERR,noopt=1",
            lambda rng, t: "rcode=FORMERR",
            lambda rng, t: ("tc=1" if t else "rcode=SERVFAIL")]


def csv(n):
    return ",".join("10.0.0.%d:53" % (i + 1) for i in range(n)) if n else "-"


def gen_case(rng, tier):
    S = rng.choice([1, 1, 2, 2, 3, 3, 4])
    T = rng.choice([1, 2, 2, 3, 4])
    M = rng.choice([50, 100, 250])
    flags = []
    if rng.random() < 0.3:
        flags.append("stayopen")
    if rng.random() < 0.1:
        flags.append("nocheckresp")
    # TCP (TC replies, usevc) only with one fixed server: the model-side driver must know which
    # connection a not-yet-written TCP frame sits on
    tcp_ok = (S == 1) and rng.random() < 0.6
    if tcp_ok and rng.random() < 0.25:
        flags.append("usevc")
    if tcp_ok and rng.random() < 0.15:
        flags.append("igntc")
    cfg = "servers=%d tries=%d timeout=%d maxtimeout=%d idseq=%d qcachettl=0 seed=%d" % (
        S, T, rng.choice([250, 500, 2000]), M, rng.choice([1, 100, 65530]), rng.randint(1, 10 ** 6))
    if S > 1 and rng.random() < 0.2:
        # make ares_probe_failed_server() likely: a probe copy of a fresh query (under its own id)
        # goes to a server marked failed as soon as its retry delay has passed
        cfg += " failover=%d,%d" % (rng.choice([1, 1, 2]), rng.choice([1, 100, 1000]))
    if flags:
        cfg += " flags=" + ",".join(flags)
    ops = []
    nq = 0
    cur = S
    smax = S

    def send():
        nonlocal nq
        ops.append("send %d q%d.example IN A rd%s" % (nq, nq, " edns" if rng.random() < 0.7 else ""))
        nq += 1
    for _ in range(rng.choice([1, 2, 2, 3, 5])):
        send()
    for _ in range(rng.choice([2, 4, 8, 16, 30]) if tier == "quick" else rng.choice([4, 16, 40, 80])):
        r = rng.random()
        if r < 0.25:
            ops.append("adv %d" % rng.choice([M, M, M - 1, M // 2, 2 * M, 1]))
            ops.append("proc")
        elif r < 0.55:
            # ONE read batch: several messages queued before a single proc - retry-triggering
            # replies, duplicates, answers and messages that do not parse, in every order
            c = rng.random()
            if c < 0.3:
                # a re-send is pending in the requeue array when the walk hits garbage
                which = rng.choice(["xl", "xl", "xl-1", "x0"])
                ops.append("rsp %s %s" % (which, rng.choice(RETRYING)(rng, tcp_ok)))
                for _ in range(rng.choice([0, 0, 1, 2])):
                    ops.append("rsp %s %s" % (rng.choice([which, "xl", "xl-1"]), spec(rng, tcp_ok)))
                ops.append("rsp %s rcode=NOERROR,trunc=%d" % (which, rng.choice([5, 11, 14])))
                if rng.random() < 0.3:
                    ops.append("rsp %s %s" % (which, spec(rng, tcp_ok)))
            else:
                for _ in range(rng.choice([1, 1, 2, 3, 4, 5])):
                    which = rng.choice(["xl", "xl", "xl-1", "xl-2", "xl-3", "x0", "x1", "xl-5"])
                    sp = spec(rng, tcp_ok)
                    if rng.random() < 0.12:
                        sp += ",trunc=%d" % rng.choice([5, 11, 14])
                    ops.append("rsp %s %s" % (which, sp))
            ops.append("proc")
        elif r < 0.7:
            ops.append("rspall %s" % spec(rng, tcp_ok))
            ops.append("proc")
        elif r < 0.78:
            ops.append("rsp %s rcode=SERVFAIL" % rng.choice(["xl", "xl-1"]))
            ops.append("fail recvfrom 1 ECONNREFUSED")
            ops.append("proc")
        elif r < 0.88 and not tcp_ok:
            if cur > 0 and rng.random() < 0.5:
                cur -= 1
            else:
                cur = min(6, cur + rng.choice([1, 2]))
            smax = max(smax, cur)
            ops.append("setservers %s" % csv(cur))
        elif nq < 12:
            send()
    # enough rounds for every query to use up its budget
    for _ in range(smax * T + 4):
        ops.append("adv %d" % M)
        ops.append("proc")
    ops.append("qlen")
    return cfg + "|" + ";".join(ops)


def gen(rng, tier, n):
    return [gen_case(rng, tier) for _ in range(n)]
