(* Outcome monad: every model function returns a normal value, a library status (error),
   or an explicit C undefined behaviour.  UB is never a "normal looking" value. *)
From Coq Require Export List ZArith Lia Bool Arith.
Export ListNotations.

Inductive ub_kind := OutOfBounds | UseAfterFree | DoubleFree | ShiftTooWide | SignedOverflow
                   | DivZero | SizeUnderflow | NullDeref.

Inductive outcome (A : Type) :=
| Ok (a : A)
| Err (s : Z)            (* ares_status_t value, see Gen/Consts.v; OutOfFuel = -1 *)
| UB (k : ub_kind).
Arguments Ok {A} a.
Arguments Err {A} s.
Arguments UB {A} k.

Definition bind {A B} (m : outcome A) (f : A -> outcome B) : outcome B :=
  match m with Ok a => f a | Err s => Err s | UB k => UB k end.

Notation "'do' x <- m ; f" := (bind m (fun x => f))
  (at level 200, x pattern, m at level 100, f at level 200, right associativity).

Definition OutOfFuel : Z := (-1)%Z.

Definition is_ub {A} (m : outcome A) : bool := match m with UB _ => true | _ => false end.
Definition is_ok {A} (m : outcome A) : bool := match m with Ok _ => true | _ => false end.

Lemma bind_ok {A B} (m : outcome A) (f : A -> outcome B) b :
  bind m f = Ok b -> exists a, m = Ok a /\ f a = Ok b.
Proof. destruct m; simpl; intros H; try discriminate; eauto. Qed.

Lemma bind_not_ub {A B} (m : outcome A) (f : A -> outcome B) :
  is_ub m = false -> (forall a, m = Ok a -> is_ub (f a) = false) -> is_ub (bind m f) = false.
Proof. destruct m; simpl; intros; auto; discriminate. Qed.
