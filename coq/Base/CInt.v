(* C integer helpers used by the generated Gallina (gen/c2gallina.py). *)
From CAres.Base Require Export Outcome.
Local Open Scope Z_scope.

Definition guard {A} (b : bool) (k : ub_kind) (m : outcome A) : outcome A :=
  if b then m else UB k.

(* two's complement reinterpretation of z in a signed type of the given width *)
Definition swrap (bits : Z) (z : Z) : Z :=
  let m := z mod 2 ^ bits in
  if m <? 2 ^ (bits - 1) then m else m - 2 ^ bits.

Definition b2z (b : bool) : Z := if b then 1 else 0.

Lemma guard_ok {A} b k (m : outcome A) a : guard b k m = Ok a -> b = true /\ m = Ok a.
Proof. unfold guard; destruct b; intros H; [auto | discriminate]. Qed.

Lemma guard_true {A} k (m : outcome A) : guard true k m = m.
Proof. reflexivity. Qed.

Lemma swrap_small bits z : 0 < bits -> 0 <= z < 2 ^ (bits - 1) -> swrap bits z = z.
Proof.
  intros Hb Hz. unfold swrap.
  assert (2 ^ bits = 2 * 2 ^ (bits - 1)) as E.
  { replace bits with (1 + (bits - 1)) at 1 by lia. rewrite Z.pow_add_r by lia. reflexivity. }
  rewrite Z.mod_small by lia.
  destruct (Z.ltb_spec z (2 ^ (bits - 1))); lia.
Qed.
