From Coq Require Import Extraction ExtrOcamlBasic.
From CAres.Core Require Import Search.
Extraction Language OCaml.
Extraction "../ocaml/gen/SearchModel.ml" lookup_hostaliases search_name_list search_run search_int ai_run
  spec_candidates spec_queried spec_status ai_status is_onion_domain strip_none ai2_run ai2_combine ai2_combine_pinned cand_single.
