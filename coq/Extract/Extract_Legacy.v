From Coq Require Import Extraction ExtrOcamlBasic.
From CAres.Legacy Require Import Rec Legacy Legacy_spec LegacyMem.
Extraction Language OCaml.
Extraction "../ocaml/gen/LegacyModel.ml"
  parse_addr_reply observe_addr spec_addr_reply
  parse_ns_reply parse_ptr_reply observe_hostres spec_ns spec_ptr
  parse_mx_reply parse_srv_reply parse_naptr_reply parse_caa_reply parse_uri_reply
  parse_txt_reply parse_txt_reply_ext parse_soa_reply
  spec_mx spec_srv spec_naptr spec_caa spec_uri spec_txt spec_soa
  is_malformed_status compat rr_type
  parse_into_addrinfo addrinfo2hostent addrinfo2addrttl view_host
  list_parser_mem mx_items srv_items naptr_items caa_items uri_items txt_items soa_mem ns_mem ptr_mem addr_reply_mem
  free_data free_hostent.
