From Coq Require Import Extraction ExtrOcamlBasic.
From CAres.Core Require Import EventLoop.
Extraction Language OCaml.
Extraction "../ocaml/gen/EventLoopModel.ml" trace_accepts trace_conversion_ok ms_of_hint wait_ms_ok acc_run estep erun einit.
