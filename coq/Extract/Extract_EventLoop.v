From Coq Require Import Extraction ExtrOcamlBasic.
From CAres.Core Require Import EventLoop.
Extraction Language OCaml.
Extraction "../ocaml/gen/EventLoopModel.ml" trace_accepts acc_run estep erun einit.
