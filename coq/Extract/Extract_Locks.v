From Coq Require Import Extraction ExtrOcamlBasic.
From CAres.Core Require Import Locks.
Extraction Language OCaml.
Extraction "../ocaml/gen/LocksModel.ml" wait_empty disciplined.
