From Coq Require Import Extraction ExtrOcamlBasic.
From CAres.Dsa Require Import Buf.
Extraction Language OCaml.
Extraction "../ocaml/gen/BufModel.ml" buf_empty buf_create buf_create_const buf_step buf_observe
  buf_abs bufs_create bufs_create_const bufs_alts bufs_contract bufs_monitor_step bufs_view
  buf_run_checked bufs_accepts buf_view_broken.
