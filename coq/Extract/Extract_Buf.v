From Coq Require Import Extraction ExtrOcamlBasic.
From CAres.Dsa Require Import Buf.
Extraction Language OCaml.
Extraction "../ocaml/gen/BufModel.ml" buf_empty buf_create buf_create_const buf_step buf_observe
  buf_abs spec_create spec_create_const spec_alts spec_contract spec_monitor_step spec_view
  buf_run_checked spec_accepts buf_view_broken.
