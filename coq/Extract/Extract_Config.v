From Coq Require Import Extraction ExtrOcamlBasic.
From CAres.Config Require Import Spec Vif Hosts HostsSpec.
Extraction Language OCaml.
Extraction "../ocaml/gen/ConfigModel.ml"
  inet_fns vif sys_init init_options reinit save_options dup chan_set_csv chan_set_ports
  chan_set_sortlist chan_set_local get_servers_csv set_options parse_sortlist
  sconfig_append_fromstr servers_update lookup_hostaliases
  parse_hosts hosts_search_host junk_hosts_line
  junk_class_raw sortlist_has_bad_mask junk_alias_line junk_db_line junk_localdomain junk_res_options jclass_id ndots_documented_max pton_unspec ntop.
