From Coq Require Import Extraction ExtrOcamlBasic.
From CAres.Legacy Require Import Rec Legacy Legacy_spec AddrInfo.
Extraction Language OCaml.
Extraction "../ocaml/gen/AddrInfoModel.ml"
  parse_into_addrinfo addrinfo2hostent addrinfo2addrttl parse_ptr_reply_dnsrec
  observe_host observe_hostres view_host spec_ptr rr_type
  spec_nodes spec_cnames a2h_view spec_addrttl fam_nodes strcaseeq
  sortaddrinfo relink_loop walk chain_heap
  sort_addresses addrinfo_localhost spec_loopback
  addr_to_ptr rfc_ptr4 rfc_ptr6 unptr4 unptr6.
