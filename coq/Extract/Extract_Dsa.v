From Coq Require Import Extraction ExtrOcamlBasic.
From CAres.Dsa Require Import Array.
Extraction Language OCaml.
Extraction "../ocaml/gen/DsaModel.ml" arr_create arr_len arr_at arr_insertdata_at arr_insertdata_first
  arr_insertdata_last arr_remove_at arr_remove_first arr_remove_last arr_abs spec_insert spec_remove.
