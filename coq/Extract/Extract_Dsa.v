From Coq Require Import Extraction ExtrOcamlBasic.
From CAres.Dsa Require Import Array.
From CAres.Gen Require Import Consts.
Extraction Language OCaml.
Extraction "../ocaml/gen/DsaModel.ml" arr_create arr_len arr_abs a_cells a_off arr_step aspec_step arr_run aspec_run arr_finish ARES_ENOMEM.
