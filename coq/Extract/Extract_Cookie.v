From Coq Require Import Extraction ExtrOcamlBasic.
From CAres.Core Require Import Cookie CookieSpec.
Extraction Language OCaml.
Extraction "../ocaml/gen/CookieModel.ml" sys_init sys_step ghost_init mon_step cookie_of norm_cookie s_ck s_q.
