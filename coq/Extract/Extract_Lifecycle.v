From Coq Require Import Extraction ExtrOcamlBasic.
From CAres.Core Require Import LifecycleMonitor.
Extraction Language OCaml.
Extraction "../ocaml/gen/LifecycleModel.ml" callback_monitor violations.
