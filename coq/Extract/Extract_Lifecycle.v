From Coq Require Import Extraction ExtrOcamlBasic.
From CAres.Core Require Import LifecycleMonitor Lifecycle Lifecycle_fuel_top.
Extraction Language OCaml.
Extraction "../ocaml/gen/LifecycleModel.ml" callback_monitor violations status_violations run step init_state all_fixed pinned host_inv_check fuel_bound_tr.
