From Coq Require Import Extraction ExtrOcamlBasic.
From CAres.Dsa Require Import Htable.
Extraction Language OCaml.
Extraction "../ocaml/gen/HtableModel.ml" ht_run_model ht_run_spec ht_obs_ok ht_create ht_insert ht_get
  ht_remove ht_all_buckets ht_destroy ht_expand ht_szvp_keq ht_szvp_npre ht_strcaseeq ht_strvp_npre
  ht_dict_npre ht_dict_key_ok ht_fnv1a ht_fnv1a_casecmp ht_tolower.
