From Coq Require Import Extraction ExtrOcamlBasic.
From CAres.Core Require Import EvUpdates.
Extraction Language OCaml.
Extraction "../ocaml/gen/EvUpdatesModel.ml" init step run coherent_at mon_update mon_calls mon_table.
