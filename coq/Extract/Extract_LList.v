From Coq Require Import Extraction ExtrOcamlBasic.
From CAres.Dsa Require Import LList.
Extraction Language OCaml.
Extraction "../ocaml/gen/LListModel.ml" ll_heap_empty ll_spec_empty ll_model_step ll_spec_step
  ll_observe ll_spec_observe ll_run_model ll_run_spec ll_locate ll_sp_list.
