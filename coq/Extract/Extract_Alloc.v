From Coq Require Import Extraction ExtrOcamlBasic.
From CAres.Alloc Require Import Oracle ListAlloc.
Extraction Language OCaml.
Extraction "../ocaml/gen/AllocModel.ml" judge judge_tok
  fail_at never_fail heap0
  llist_create llist_insert_at llist_node_claim llist_destroy ll_abs
  slist_insert slist_node_destroy sl_abs.
