From Coq Require Import Extraction ExtrOcamlBasic.
From CAres.Alloc Require Import Oracle ListAlloc BufAlloc HtableAlloc SendAlloc.
From CAres.Dsa Require Import Array.
Extraction Language OCaml.
Extraction "../ocaml/gen/AllocModel.ml" judge judge_tok
  fail_at never_fail heap0
  llist_create llist_insert_at llist_node_claim llist_destroy ll_abs
  slist_create slist_insert slist_node_destroy slist_destroy sl_abs
  buf_empty buf_create buf_append buf_consume buf_tag_set buf_tag_clear buf_destroy buf_unread buf_tagged
  ht_create ht_insert ht_remove ht_get ht_destroy ht_abs ht_blocks
  arr_create arr_insertdata_at arr_remove_at arr_remove_first arr_remove_last arr_abs arr_len
  send_nolock open_connection.
