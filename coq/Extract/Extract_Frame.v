From Coq Require Import Extraction ExtrOcamlBasic.
From CAres.Core Require Import Frame.
Extraction Language OCaml.
Extraction "../ocaml/gen/FrameModel.ml" buf_create frames cut process_read run_reads read_answers
  enqueue conn_flush conn_query_write process_write run_wops server_bytes server_dgrams enqueued
  process_answer_decide using_tcp_after callback_invoked requeued next_conn_is_tcp after_answer frame remaining.
