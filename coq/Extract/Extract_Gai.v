From Coq Require Import Extraction ExtrOcamlBasic.
From CAres.Legacy Require Import Rec Legacy Legacy_spec AddrInfo Gai.
Extraction Language OCaml.
Extraction "../ocaml/gen/GaiModel.ml"
  hosts_build hosts_search_host hosts_search_ip getaddrinfo getaddrinfo_c spec_gai_nodes_c inet_pton4 ghbn_callback gethostbyaddr
  spec_gai_nodes spec_ptr rfc_ptr4 rfc_ptr6 round_nodes is_localhost has_flag
  rr_type spec_nodes view_host.
