From Coq Require Import Extraction ExtrOcamlBasic.
From CAres.Core Require Import Servers.
Extraction Language OCaml.
Extraction "../ocaml/gen/ServersModel.ml" init_chan step admissible choose_server fresh_okb probe_due
  probe_in_flight mon_init mon_step mon_run find_addr srv_lt set_servers_pinned servers_update update_changed bmon_init bmon_step.
