From Coq Require Import Extraction ExtrOcamlBasic.
From CAres.Wire Require Import Cursor Name Record Parse.
Extraction Language OCaml.
Extraction "../ocaml/gen/WireModel.ml" dns_parse expand_name expand_string.
