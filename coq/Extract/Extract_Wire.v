From Coq Require Import Extraction ExtrOcamlBasic.
From CAres.Wire Require Import Cursor Name Record Parse Escape RefDecode Write Roundtrip.
From CAres.Gen Require Import Tables.
Extraction Language OCaml.
Extraction "../ocaml/gen/WireModel.ml" dns_parse dns_parse_pinned expand_name expand_string
  ref_decode ref_strict norm_ref unescape escape_name
  dns_write dns_write_pinned write_buf_tcp wfixed wpinned wb_empty create_query record_create_query
  record_create query_add rr_add rr_set rr_set_opt rr_add_abin section_append key_datatype record_eqb rr_eqb qds_eqb name_eqb w_live wb_of_live.
