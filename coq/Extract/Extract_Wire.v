From Coq Require Import Extraction ExtrOcamlBasic.
From CAres.Wire Require Import Cursor Name Record Parse Escape RefDecode.
Extraction Language OCaml.
Extraction "../ocaml/gen/WireModel.ml" dns_parse expand_name expand_string
  ref_decode ref_strict norm_ref unescape escape_name.
