From Coq Require Import Extraction ExtrOcamlBasic.
From CAres.Dsa Require Import SList.
Extraction Language OCaml.
Extraction "../ocaml/gen/SListModel.ml" sl_z_create sl_z_step_model sl_z_step_spec sl_z_spec_create
  sl_z_destroy sl_z_levels sp_l.
