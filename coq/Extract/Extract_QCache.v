From Coq Require Import Extraction ExtrOcamlBasic.
From CAres.Core Require Import QCache QCacheSpec.
Extraction Language OCaml.
Extraction "../ocaml/gen/QCacheModel.ml" qc_create qc_step hit_ok_gen visible_ttls model_hit calc_key.
