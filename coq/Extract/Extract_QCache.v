From Coq Require Import Extraction ExtrOcamlBasic.
From CAres.Core Require Import QCache QCacheSpec SrvUpdate.
Extraction Language OCaml.
Extraction "../ocaml/gen/QCacheModel.ml" qc_create qc_step hit_ok_gen visible_ttls model_hit calc_key
  servers_update sort_idx resolve spec_seq_after seq_eqb.
