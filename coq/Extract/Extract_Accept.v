From Coq Require Import Extraction ExtrOcamlBasic.
From CAres.Core Require Import Accept.
Extraction Language OCaml.
Extraction "../ocaml/gen/AcceptModel.ml" step run_trace authentic_for reject_reason fixed_cfg pinned_cfg
  init_chan find_query find_conn find_server cookie_ok.
