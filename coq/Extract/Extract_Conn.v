From Coq Require Import Extraction ExtrOcamlBasic.
From CAres.Core Require Import Conn.
Extraction Language OCaml.
Extraction "../ocaml/gen/ConnModel.ml" mon_init mon_step mon_run mon_fds open_connection probe finish_close
  step run st_init ares_fds_model abs cleanup_wanted can_take_query.
