From Coq Require Import Extraction ExtrOcamlBasic.
From CAres.Gen Require Import Consts.
From CAres.Core Require Import Time Metrics Calc Retry.
Extraction Language OCaml.
Extraction "../ocaml/gen/TimeModel.ml"
  tv_us tv_okb timedout timeval_remaining timeval_diff timeadd query_timeout_cmp cmp_leb
  timeout_int hint_value process_timeouts insert_sorted spec_timedout spec_remaining_us hint_okb sort_deadlines
  metrics_init metrics_record metrics_server_timeout
  calc_query_timeout calc_spec timeplus_capped jitter_okb wait_okb rounds_of MAX_TIMEPLUS
  q_init step read_batch retry_accepts transmissions completions bound run count_tx
  MIN_TIMEOUT_MS MAX_TIMEOUT_MS ARES_ECONNREFUSED ARES_ETIMEOUT ARES_SUCCESS
  ARES_ESERVFAIL ARES_ENOTIMP ARES_EREFUSED ARES_EBADRESP COOKIE_RESEND_MAX.
