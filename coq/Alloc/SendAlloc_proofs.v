(* C14 - the request-submission model: for EVERY allocation oracle (every position of a
   failure, any number of failures) and every answer of the environment, a submission either
   registers the request without calling back, or calls back exactly once and leaves no trace
   of the request; nothing is freed twice and the ledger balances. *)
From CAres.Alloc Require Import SendAlloc Oracle.
From CAres.Gen Require Import Consts.
Local Open Scope nat_scope.

(* every block a query owns, in the order ares_free_query releases them *)
Definition qblocks (q : query) : list blk :=
  cat_somes [q_tmo q; option_map snd (q_cqn q); q_qide q; q_all q; q_name q; q_rec q; Some (q_blk q)].

Definition q_inv (q : query) (h : heap) : Prop := NoDup (qblocks q) /\ incl (qblocks q) (h_live h).

(* what ares_free_query does to the indexes *)
Definition unlink_conn (ch : chan) (q : query) : list conn :=
  match q_cqn q with
  | Some (i, _) => upd_conn (ch_conns ch) i
      (fun c => mkConn (cn_blk c) (cn_cq c) (cn_out c) (cn_in c) (cn_node c) (cn_sock c) (cn_tcp c)
                       (filter (fun p => negb (Z.eqb (fst p) (q_qid q))) (cn_queries c)) (cn_total c))
  | None => ch_conns ch
  end.

Definition free_query_chan (ch : chan) (q : query) : chan :=
  mkChan (match q_all q with Some _ => remove_z (q_qid q) (ch_all ch) | None => ch_all ch end)
         (match q_qide q with Some _ => remove_z (q_qid q) (ch_byqid ch) | None => ch_byqid ch end)
         (match q_tmo q with Some _ => remove_z (q_qid q) (ch_bytmo ch) | None => ch_bytmo ch end)
         (unlink_conn ch q) (ch_closed ch).

Lemma cat_somes_app a b : cat_somes (a ++ b) = cat_somes a ++ cat_somes b.
Proof. induction a as [|[x|] a IH]; simpl; [reflexivity | rewrite IH; reflexivity | exact IH]. Qed.

Lemma free_opts_ok l h :
  heap_ok h -> NoDup (cat_somes l) -> incl (cat_somes l) (h_live h) ->
  exists h1, free_opts l h = Ok (tt, h1) /\ heap_ok h1 /\ h_next h1 = h_next h /\
    length (h_live h1) + length (cat_somes l) = length (h_live h) /\
    (forall x, In x (h_live h1) <-> In x (h_live h) /\ ~ In x (cat_somes l)).
Proof. intros. unfold free_opts. apply free_all_ok; assumption. Qed.

Lemma free_query_spec ch q h :
  heap_ok h -> q_inv q h ->
  exists h1, free_query ch q h = Ok (free_query_chan ch q, h1) /\ heap_ok h1 /\ h_next h1 = h_next h /\
    length (h_live h1) + length (qblocks q) = length (h_live h).
Proof.
  intros Hok [Hnd Hincl]. unfold free_query, remove_from_conn.
  change (qblocks q) with (cat_somes ([q_tmo q; option_map snd (q_cqn q)] ++
                                      [q_qide q; q_all q; q_name q; q_rec q; Some (q_blk q)])) in *.
  rewrite cat_somes_app in *.
  destruct (NoDup_app_inv _ _ Hnd) as (Hnd1 & Hnd2 & Hdis).
  destruct (free_opts_ok [q_tmo q; option_map snd (q_cqn q)] h Hok Hnd1) as (h1 & Hr1 & Hok1 & Hn1 & Hl1 & Hi1).
  { intros x Hx. apply Hincl. apply in_or_app. left. exact Hx. }
  destruct (free_opts_ok [q_qide q; q_all q; q_name q; q_rec q; Some (q_blk q)] h1 Hok1 Hnd2) as (h2 & Hr2 & Hok2 & Hn2 & Hl2 & Hi2).
  { intros x Hx. apply Hi1. split.
    - apply Hincl. apply in_or_app. right. exact Hx.
    - intros Hx1. eapply Hdis; eauto. }
  exists h2. unfold bindM at 1. unfold bindM at 1. rewrite Hr1. unfold ret at 1.
  cbv beta iota. simpl q_qide. simpl q_all. simpl q_name. simpl q_rec. simpl q_blk.
  unfold bindM at 1. rewrite Hr2. unfold ret.
  split.
  - unfold free_query_chan, unlink_conn. simpl. destruct (q_cqn q) as [[i nb]|]; reflexivity.
  - split; [exact Hok2|]. split; [congruence|]. rewrite app_length. lia.
Qed.

Local Arguments Nat.eqb : simpl never.
Local Arguments Nat.ltb : simpl never.
Local Arguments Z.eqb : simpl never.

Lemma end_query_spec ch q st cbs h :
  heap_ok h -> q_inv q h ->
  exists h1, end_query ch q st cbs h = Ok (mkRes st (cbs ++ [st]) None (free_query_chan ch q), h1) /\
    heap_ok h1 /\ h_next h1 = h_next h /\ length (h_live h1) + length (qblocks q) = length (h_live h).
Proof.
  intros Hok Hq. destruct (free_query_spec ch q h Hok Hq) as (h1 & Hr & Hok1 & Hn & Hl).
  exists h1. unfold end_query, bindM. rewrite Hr. unfold ret. auto.
Qed.

Section Conn.
  Variable f : oracle.
  Variable E : env.

  Lemma open_connection_spec ch tcp att h :
    heap_ok h ->
    exists st oci ch1 h1, open_connection f E ch tcp att h = Ok ((st, oci, ch1), h1) /\ heap_ok h1 /\
      h_next h <= h_next h1 /\
      ch_all ch1 = ch_all ch /\ ch_byqid ch1 = ch_byqid ch /\ ch_bytmo ch1 = ch_bytmo ch /\
      ((oci = None /\ st <> ARES_SUCCESS /\ ch_conns ch1 = ch_conns ch /\ h_live h1 = h_live h) \/
       (exists c, oci = Some (if tcp then length (ch_conns ch) else 0) /\ st = ARES_SUCCESS /\
                  cn_queries c = [] /\
                  ch_conns ch1 = (if tcp then ch_conns ch ++ [c] else c :: ch_conns ch) /\
                  exists new, length new = 6 /\ h_live h1 = new ++ h_live h)).
  Proof.
    intros Hok.
    remember (open_connection f E ch tcp att h) as R eqn:HR.
    unfold open_connection, group, open_conn_undo in HR.
    set (n0 := h_next h) in *.
    assert (Hfail : forall n st, n0 <= n -> st <> ARES_SUCCESS ->
              R = Ok (st, None, mkChan (ch_all ch) (ch_byqid ch) (ch_bytmo ch) (ch_conns ch) (ch_closed ch), mkHeap n (h_live h)) \/
              R = Ok (st, None, mkChan (ch_all ch) (ch_byqid ch) (ch_bytmo ch) (ch_conns ch) (S (ch_closed ch)), mkHeap n (h_live h)) ->
              exists st oci ch1 h1, R = Ok ((st, oci, ch1), h1) /\ heap_ok h1 /\ n0 <= h_next h1 /\
                ch_all ch1 = ch_all ch /\ ch_byqid ch1 = ch_byqid ch /\ ch_bytmo ch1 = ch_bytmo ch /\
                ((oci = None /\ st <> ARES_SUCCESS /\ ch_conns ch1 = ch_conns ch /\ h_live h1 = h_live h) \/
                 (exists c, oci = Some (if tcp then length (ch_conns ch) else 0) /\ st = ARES_SUCCESS /\
                            cn_queries c = [] /\
                            ch_conns ch1 = (if tcp then ch_conns ch ++ [c] else c :: ch_conns ch) /\
                            exists new, length new = 6 /\ h_live h1 = new ++ h_live h))).
    { intros n st Hn Hst [HR'|HR']; rewrite HR'; eexists; eexists; eexists; eexists;
        (split; [reflexivity|]); (split; [apply heap_ok_next; [assumption | exact Hn]|]);
        simpl; (split; [exact Hn|]); repeat split; auto; left; repeat split; auto. }
    assert (Hnm : ARES_ENOMEM <> ARES_SUCCESS) by discriminate.
    step_malloc_in HR.
    2:{ unfold ret in HR. eapply (Hfail (S n0) ARES_ENOMEM); [lia | exact Hnm|]. left.
        rewrite HR. destruct ch; reflexivity. }
    step_malloc_in HR; step_malloc_in HR; step_malloc_in HR.
    2-8: (unfold bindM at 1 in HR; step_undo_in HR (h_live h); unfold ret in HR; cbv beta iota in HR;
          eapply (Hfail (S (S (S (S n0)))) ARES_ENOMEM); [lia | exact Hnm|]; left; exact HR).
    destruct (Z.eqb (e_sock E att) ARES_SUCCESS) eqn:Es; cbn [negb] in HR; cbv iota in HR.
    2:{ unfold bindM at 1 in HR; step_undo_in HR (h_live h); unfold ret in HR; cbv beta iota in HR.
        assert (Hne : e_sock E att <> ARES_SUCCESS) by (intros Heq; rewrite Heq in Es; discriminate).
        eapply (Hfail (S (S (S (S n0)))) (e_sock E att)); [lia | exact Hne|].
        destruct (negb (Z.eqb (e_sock E att) ARES_EBADFAMILY)); [right | left]; exact HR. }
    step_malloc_in HR.
    2:{ unfold bindM at 1 in HR; step_undo_in HR (h_live h); unfold ret in HR; cbv beta iota in HR.
        eapply (Hfail (S (S (S (S (S n0))))) ARES_ENOMEM); [lia | exact Hnm|]. right. exact HR. }
    step_malloc_in HR.
    2:{ unfold bindM at 1 in HR; step_undo_in HR (h_live h); unfold ret in HR; cbv beta iota in HR.
        eapply (Hfail (S (S (S (S (S (S n0)))))) ARES_ENOMEM); [lia | exact Hnm|]. right. exact HR. }
    unfold ret in HR. rewrite HR.
    eexists; eexists; eexists; eexists. split; [reflexivity|].
    split.
    { do 6 (apply heap_ok_push in Hok; cbn [h_next h_live] in Hok). exact Hok. }
    cbn [h_next h_live ch_all ch_byqid ch_bytmo ch_conns]. split; [lia|]. repeat split; auto. right.
    exists (mkConn n0 (S n0) (S (S n0)) (S (S (S n0))) (S (S (S (S n0)))) (S (S (S (S (S n0))))) tcp [] 0).
    split; [reflexivity|]. split; [reflexivity|]. split; [reflexivity|]. split; [reflexivity|].
    exists [S (S (S (S (S n0)))); S (S (S (S n0))); S (S (S n0)); S (S n0); S n0; n0]. split; reflexivity.
  Qed.
End Conn.
