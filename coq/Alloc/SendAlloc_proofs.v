(* C14 - the request-submission model: for EVERY allocation oracle (every position of a
   failure, any number of failures) and every answer of the environment, a submission either
   registers the request without calling back, or calls back exactly once and leaves no trace
   of the request; nothing is freed twice and the ledger balances. *)
From CAres.Alloc Require Import SendAlloc Oracle.
From CAres.Gen Require Import Consts.
Local Open Scope nat_scope.

(* every block a query owns, in the order ares_free_query releases them *)
Definition qblocks (q : query) : list blk :=
  cat_somes [q_tmo q; option_map snd (q_cqn q); q_qide q; q_all q; q_name q; q_rec q; Some (q_blk q)].

Definition q_inv (q : query) (h : heap) : Prop := NoDup (qblocks q) /\ incl (qblocks q) (h_live h).

(* what ares_free_query does to the indexes *)
Definition unlink_conn (ch : chan) (q : query) : list conn :=
  match q_cqn q with
  | Some (i, _) => upd_conn (ch_conns ch) i
      (fun c => mkConn (cn_blk c) (cn_cq c) (cn_out c) (cn_in c) (cn_node c) (cn_sock c) (cn_tcp c)
                       (filter (fun p => negb (Z.eqb (fst p) (q_qid q))) (cn_queries c)) (cn_total c))
  | None => ch_conns ch
  end.

Definition free_query_chan (ch : chan) (q : query) : chan :=
  mkChan (match q_all q with Some _ => remove_z (q_qid q) (ch_all ch) | None => ch_all ch end)
         (match q_qide q with Some _ => remove_z (q_qid q) (ch_byqid ch) | None => ch_byqid ch end)
         (match q_tmo q with Some _ => remove_z (q_qid q) (ch_bytmo ch) | None => ch_bytmo ch end)
         (unlink_conn ch q) (ch_closed ch).

Lemma cat_somes_app a b : cat_somes (a ++ b) = cat_somes a ++ cat_somes b.
Proof. induction a as [|[x|] a IH]; simpl; [reflexivity | rewrite IH; reflexivity | exact IH]. Qed.

Lemma free_opts_ok l h :
  heap_ok h -> NoDup (cat_somes l) -> incl (cat_somes l) (h_live h) ->
  exists h1, free_opts l h = Ok (tt, h1) /\ heap_ok h1 /\ h_next h1 = h_next h /\
    length (h_live h1) + length (cat_somes l) = length (h_live h) /\
    (forall x, In x (h_live h1) <-> In x (h_live h) /\ ~ In x (cat_somes l)).
Proof. intros. unfold free_opts. apply free_all_ok; assumption. Qed.

Lemma free_query_spec ch q h :
  heap_ok h -> q_inv q h ->
  exists h1, free_query ch q h = Ok (free_query_chan ch q, h1) /\ heap_ok h1 /\ h_next h1 = h_next h /\
    length (h_live h1) + length (qblocks q) = length (h_live h).
Proof.
  intros Hok [Hnd Hincl]. unfold free_query, remove_from_conn.
  change (qblocks q) with (cat_somes ([q_tmo q; option_map snd (q_cqn q)] ++
                                      [q_qide q; q_all q; q_name q; q_rec q; Some (q_blk q)])) in *.
  rewrite cat_somes_app in *.
  destruct (NoDup_app_inv _ _ Hnd) as (Hnd1 & Hnd2 & Hdis).
  destruct (free_opts_ok [q_tmo q; option_map snd (q_cqn q)] h Hok Hnd1) as (h1 & Hr1 & Hok1 & Hn1 & Hl1 & Hi1).
  { intros x Hx. apply Hincl. apply in_or_app. left. exact Hx. }
  destruct (free_opts_ok [q_qide q; q_all q; q_name q; q_rec q; Some (q_blk q)] h1 Hok1 Hnd2) as (h2 & Hr2 & Hok2 & Hn2 & Hl2 & Hi2).
  { intros x Hx. apply Hi1. split.
    - apply Hincl. apply in_or_app. right. exact Hx.
    - intros Hx1. eapply Hdis; eauto. }
  exists h2. unfold bindM at 1. unfold bindM at 1. rewrite Hr1. unfold ret at 1.
  cbv beta iota. simpl q_qide. simpl q_all. simpl q_name. simpl q_rec. simpl q_blk.
  unfold bindM at 1. rewrite Hr2. unfold ret.
  split.
  - unfold free_query_chan, unlink_conn. simpl. destruct (q_cqn q) as [[i nb]|]; reflexivity.
  - split; [exact Hok2|]. split; [congruence|]. rewrite app_length. lia.
Qed.

Ltac alloc_failed_tac :=
  match goal with H : ?f ?n = false |- exists _, ?f _ = false => exists n; exact H end.
Ltac prov_enomem := left; split; [reflexivity | alloc_failed_tac].

Local Arguments Nat.eqb : simpl never.
Local Arguments Nat.ltb : simpl never.
Local Arguments Z.eqb : simpl never.

Lemma end_query_spec ch q st cbs h :
  heap_ok h -> q_inv q h ->
  exists h1, end_query ch q st cbs h = Ok (mkRes st (cbs ++ [st]) None (free_query_chan ch q), h1) /\
    heap_ok h1 /\ h_next h1 = h_next h /\ length (h_live h1) + length (qblocks q) = length (h_live h).
Proof.
  intros Hok Hq. destruct (free_query_spec ch q h Hok Hq) as (h1 & Hr & Hok1 & Hn & Hl).
  exists h1. unfold end_query, bindM. rewrite Hr. unfold ret. auto.
Qed.

Section Conn.
  Variable f : oracle.
  Variable E : env.

  Lemma open_connection_spec ch tcp att h :
    heap_ok h ->
    exists st oci ch1 h1, open_connection f E ch tcp att h = Ok ((st, oci, ch1), h1) /\ heap_ok h1 /\
      h_next h <= h_next h1 /\
      ch_all ch1 = ch_all ch /\ ch_byqid ch1 = ch_byqid ch /\ ch_bytmo ch1 = ch_bytmo ch /\
      ((oci = None /\ st <> ARES_SUCCESS /\ ((st = ARES_ENOMEM /\ exists n, f n = false) \/ st = e_sock E att) /\
        ch_conns ch1 = ch_conns ch /\ h_live h1 = h_live h) \/
       (exists c, oci = Some (if tcp then length (ch_conns ch) else 0) /\ st = ARES_SUCCESS /\
                  cn_queries c = [] /\
                  ch_conns ch1 = (if tcp then ch_conns ch ++ [c] else c :: ch_conns ch) /\
                  exists new, length new = 6 /\ h_live h1 = new ++ h_live h)).
  Proof.
    intros Hok.
    remember (open_connection f E ch tcp att h) as R eqn:HR.
    unfold open_connection, group, open_conn_undo in HR.
    set (n0 := h_next h) in *.
    assert (Hfail : forall n st, n0 <= n -> st <> ARES_SUCCESS -> ((st = ARES_ENOMEM /\ exists n, f n = false) \/ st = e_sock E att) ->
              R = Ok (st, None, mkChan (ch_all ch) (ch_byqid ch) (ch_bytmo ch) (ch_conns ch) (ch_closed ch), mkHeap n (h_live h)) \/
              R = Ok (st, None, mkChan (ch_all ch) (ch_byqid ch) (ch_bytmo ch) (ch_conns ch) (S (ch_closed ch)), mkHeap n (h_live h)) ->
              exists st oci ch1 h1, R = Ok ((st, oci, ch1), h1) /\ heap_ok h1 /\ n0 <= h_next h1 /\
                ch_all ch1 = ch_all ch /\ ch_byqid ch1 = ch_byqid ch /\ ch_bytmo ch1 = ch_bytmo ch /\
                ((oci = None /\ st <> ARES_SUCCESS /\ ((st = ARES_ENOMEM /\ exists n, f n = false) \/ st = e_sock E att) /\
                  ch_conns ch1 = ch_conns ch /\ h_live h1 = h_live h) \/
                 (exists c, oci = Some (if tcp then length (ch_conns ch) else 0) /\ st = ARES_SUCCESS /\
                            cn_queries c = [] /\
                            ch_conns ch1 = (if tcp then ch_conns ch ++ [c] else c :: ch_conns ch) /\
                            exists new, length new = 6 /\ h_live h1 = new ++ h_live h))).
    { intros n st Hn Hst Hpv [HR'|HR']; rewrite HR'; eexists; eexists; eexists; eexists;
        (split; [reflexivity|]); (split; [apply heap_ok_next; [assumption | exact Hn]|]);
        simpl; (split; [exact Hn|]); repeat split; auto; left; repeat split; auto. }
    assert (Hnm : ARES_ENOMEM <> ARES_SUCCESS) by discriminate.
    step_malloc_in HR.
    2:{ unfold ret in HR. eapply (Hfail (S n0) ARES_ENOMEM); [lia | exact Hnm | prov_enomem|]. left.
        rewrite HR. destruct ch; reflexivity. }
    step_malloc_in HR; step_malloc_in HR; step_malloc_in HR.
    2-8: (unfold bindM at 1 in HR; step_undo_in HR (h_live h); unfold ret in HR; cbv beta iota in HR;
          eapply (Hfail (S (S (S (S n0)))) ARES_ENOMEM); [lia | exact Hnm | prov_enomem|]; left; exact HR).
    destruct (Z.eqb (e_sock E att) ARES_SUCCESS) eqn:Es; cbn [negb] in HR; cbv iota in HR.
    2:{ unfold bindM at 1 in HR; step_undo_in HR (h_live h); unfold ret in HR; cbv beta iota in HR.
        assert (Hne : e_sock E att <> ARES_SUCCESS) by (intros Heq; rewrite Heq in Es; discriminate).
        eapply (Hfail (S (S (S (S n0)))) (e_sock E att)); [lia | exact Hne | right; reflexivity|].
        destruct (negb (Z.eqb (e_sock E att) ARES_EBADFAMILY)); [right | left]; exact HR. }
    step_malloc_in HR.
    2:{ unfold bindM at 1 in HR; step_undo_in HR (h_live h); unfold ret in HR; cbv beta iota in HR.
        eapply (Hfail (S (S (S (S (S n0))))) ARES_ENOMEM); [lia | exact Hnm | prov_enomem|]. right. exact HR. }
    step_malloc_in HR.
    2:{ unfold bindM at 1 in HR; step_undo_in HR (h_live h); unfold ret in HR; cbv beta iota in HR.
        eapply (Hfail (S (S (S (S (S (S n0)))))) ARES_ENOMEM); [lia | exact Hnm | prov_enomem|]. right. exact HR. }
    unfold ret in HR. rewrite HR.
    eexists; eexists; eexists; eexists. split; [reflexivity|].
    split.
    { do 6 (apply heap_ok_push in Hok; cbn [h_next h_live] in Hok). exact Hok. }
    cbn [h_next h_live ch_all ch_byqid ch_bytmo ch_conns]. split; [lia|]. repeat split; auto. right.
    exists (mkConn n0 (S n0) (S (S n0)) (S (S (S n0))) (S (S (S (S n0)))) (S (S (S (S (S n0))))) tcp [] 0).
    split; [reflexivity|]. split; [reflexivity|]. split; [reflexivity|]. split; [reflexivity|].
    exists [S (S (S (S (S n0)))); S (S (S (S n0))); S (S (S n0)); S (S n0); S n0; n0]. split; reflexivity.
  Qed.
End Conn.

(* ------------------------------------------------------------------------------------ *)
(* ares_send_query                                                                       *)
(* ------------------------------------------------------------------------------------ *)
Lemma remove_z_notin x l : ~ In x l -> remove_z x l = l.
Proof.
  unfold remove_z. induction l as [|y l IH]; simpl; intros H; [reflexivity|].
  destruct (Z.eqb_spec x y) as [->|Hne]; simpl; [exfalso; apply H; left; reflexivity|].
  f_equal. apply IH. tauto.
Qed.

Lemma remove_z_cons_same x l : remove_z x (x :: l) = remove_z x l.
Proof. unfold remove_z. simpl. rewrite Z.eqb_refl. reflexivity. Qed.

Lemma remove_z_app_same x l : remove_z x (l ++ [x]) = remove_z x l.
Proof. unfold remove_z. rewrite filter_app. simpl. rewrite Z.eqb_refl. simpl. apply app_nil_r. Qed.

Lemma upd_conn_length l i g : length (upd_conn l i g) = length l.
Proof.
  unfold upd_conn. destruct (nth_error l i) as [c|] eqn:En; [|reflexivity].
  assert (i < length l) by (apply nth_error_Some; congruence).
  rewrite app_length. cbn [length]. rewrite firstn_length, skipn_length. lia.
Qed.

Ltac side := try solve [ assumption | reflexivity | discriminate | simpl; lia
                        | apply heap_ok_skip; assumption | auto ].

Section SendQuery.
  Variable f : oracle.
  Variable E : env.
  Variable nconn0 : nat.     (* connections that exist when the request is submitted *)
  Hypothesis Hreuse : forall att i, e_reuse E att = Some i -> i < nconn0.
  Hypothesis Hwrite : forall att, e_write E att <> ARES_ECONNREFUSED /\ e_write E att <> ARES_EBADFAMILY.

  (* where a failure status can come from *)
  Definition ext_status (st : Z) : Prop := (exists att, st = e_sock E att) \/ (exists att, st = e_write E att).
  Definition prov (st : Z) : Prop :=
    (st = ARES_ENOMEM /\ exists n, f n = false) \/
    (st = ARES_ENOSERVER /\ exists att, e_server E att = false) \/ ext_status st.

  Definition sq_pre (ch : chan) (q : query) (h : heap) : Prop :=
    heap_ok h /\ q_inv q h /\ q_tmo q = None /\ q_cqn q = None /\
    nconn0 <= length (ch_conns ch) /\ ~ In (q_qid q) (ch_bytmo ch).

  (* same query object, possibly other try counter / error status *)
  Definition same_query (q q' : query) : Prop :=
    q_qid q' = q_qid q /\ q_blk q' = q_blk q /\ q_rec q' = q_rec q /\ q_name q' = q_name q /\
    q_all q' = q_all q /\ q_qide q' = q_qide q.

  Definition sq_post (ch : chan) (q : query) (cbs : list Z) (h : heap) (r : result) (h' : heap) : Prop :=
    heap_ok h' /\ h_next h <= h_next h' /\
    length (ch_conns ch) <= length (ch_conns (r_chan r)) /\
    (forall c, In c (ch_conns (r_chan r)) -> In c (ch_conns ch) \/ cn_queries c = [] \/ r_query r <> None) /\
    match r_query r with
    | None =>
      (* ended: exactly one more callback, with a failure status; no trace of the query *)
      (exists st, r_cbs r = cbs ++ [st] /\ st <> ARES_SUCCESS /\ prov st /\
                  (r_status r = st \/ (r_status r = ARES_ETIMEOUT /\ ext_status st))) /\
      r_status r <> ARES_SUCCESS /\
      ch_all (r_chan r) = (match q_all q with Some _ => remove_z (q_qid q) (ch_all ch) | None => ch_all ch end) /\
      ch_byqid (r_chan r) = (match q_qide q with Some _ => remove_z (q_qid q) (ch_byqid ch) | None => ch_byqid ch end) /\
      ch_bytmo (r_chan r) = ch_bytmo ch /\
      length (h_live h') + length (qblocks q) + 6 * length (ch_conns ch)
        = length (h_live h) + 6 * length (ch_conns (r_chan r))
    | Some q' =>
      (* registered: no callback, the query sits in the timeout list and on one connection *)
      r_cbs r = cbs /\ r_status r = ARES_SUCCESS /\ same_query q q' /\ q_inv q' h' /\
      ch_all (r_chan r) = ch_all ch /\ ch_byqid (r_chan r) = ch_byqid ch /\
      ch_bytmo (r_chan r) = q_qid q :: ch_bytmo ch /\
      (exists tn ci nb c, q_tmo q' = Some tn /\ q_cqn q' = Some (ci, nb) /\
                          nth_error (ch_conns (r_chan r)) ci = Some c /\ In (q_qid q, nb) (cn_queries c)) /\
      length (h_live h') + length (qblocks q) + 6 * length (ch_conns ch)
        = length (h_live h) + length (qblocks q') + 6 * length (ch_conns (r_chan r))
    end.

  Lemma remove_from_conn_detached ch q h :
    q_tmo q = None -> q_cqn q = None -> remove_from_conn ch q h = Ok ((ch, q), h).
  Proof.
    intros Ht Hc. unfold remove_from_conn. rewrite Ht, Hc.
    unfold free_opts, bindM, ret. simpl.
    destruct ch; destruct q; simpl in *; subst; reflexivity.
  Qed.

  Lemma q_inv_mono q h h1 : q_inv q h -> (forall x, In x (h_live h) -> In x (h_live h1)) -> q_inv q h1.
  Proof. intros [Hn Hi] Hsub. split; [exact Hn|]. intros x Hx. apply Hsub. apply Hi. exact Hx. Qed.

  (* the common tail of every failing branch: end_query on a query whose blocks are live *)
  Lemma ended_post ch q cbs h ch1 qx st h1 :
    heap_ok h1 -> h_next h <= h_next h1 -> q_inv qx h1 -> st <> ARES_SUCCESS -> prov st ->
    q_qid qx = q_qid q -> q_all qx = q_all q -> q_qide qx = q_qide q -> q_cqn qx = None ->
    ch_all ch1 = ch_all ch -> ch_byqid ch1 = ch_byqid ch ->
    ~ In (q_qid q) (ch_bytmo ch) ->
    ((q_tmo qx = None /\ ch_bytmo ch1 = ch_bytmo ch) \/
     (exists tn, q_tmo qx = Some tn /\ ch_bytmo ch1 = q_qid q :: remove_z (q_qid q) (ch_bytmo ch))) ->
    length (ch_conns ch) <= length (ch_conns ch1) ->
    (forall c, In c (ch_conns ch1) -> In c (ch_conns ch) \/ cn_queries c = []) ->
    length (h_live h1) + length (qblocks q) + 6 * length (ch_conns ch)
      = length (h_live h) + length (qblocks qx) + 6 * length (ch_conns ch1) ->
    exists r h', end_query ch1 qx st cbs h1 = Ok (r, h') /\ (r_status r = st /\ r_cbs r = cbs ++ [st]) /\
                 r_query r = None /\ sq_post ch q cbs h r h'.
  Proof.
    intros Hok1 Hnx Hq Hst Hpv Hid Hall Hqide Hcqn Hca Hcb Habs Htmo Hlen Hconns Hled.
    destruct (end_query_spec ch1 qx st cbs h1 Hok1 Hq) as (h2 & Hr & Hok2 & Hn2 & Hl2).
    eexists; eexists. split; [exact Hr|]. split; [split; reflexivity|]. split; [reflexivity|].
    unfold sq_post. cbn [r_query r_cbs r_status r_chan].
    unfold free_query_chan, unlink_conn. rewrite Hcqn. cbn [ch_all ch_byqid ch_bytmo ch_conns].
    split; [exact Hok2|]. split; [lia|]. split; [exact Hlen|].
    split; [intros c Hc; apply Hconns in Hc; tauto|].
    split; [exists st; split; [reflexivity|]; split; [exact Hst|]; split; [exact Hpv | left; reflexivity]|].
    split; [exact Hst|].
    rewrite Hid, Hall, Hqide, Hca, Hcb.
    split; [reflexivity|]. split; [reflexivity|]. split.
    - destruct Htmo as [[Ht Hb]|[tn [Ht Hb]]]; rewrite Ht, Hb; [reflexivity|].
      rewrite remove_z_cons_same. rewrite !(remove_z_notin (q_qid q) (ch_bytmo ch) Habs). reflexivity.
    - lia.
  Qed.

  Lemma qblocks_same q q' :
    same_query q q' -> q_tmo q' = q_tmo q -> q_cqn q' = q_cqn q -> qblocks q' = qblocks q.
  Proof.
    intros (H1 & H2 & H3 & H4 & H5 & H6) Ht Hc. unfold qblocks. rewrite H2, H3, H4, H5, H6, Ht, Hc. reflexivity.
  Qed.

  (* the post-condition only looks at the identity of the query *)
  Lemma sq_post_same_q ch q q0 cbs h r h' :
    same_query q q0 -> qblocks q0 = qblocks q -> sq_post ch q0 cbs h r h' -> sq_post ch q cbs h r h'.
  Proof.
    intros (H1 & H2 & H3 & H4 & H5 & H6) Hb. unfold sq_post.
    intros (A & B & C & D & Hm). split; [exact A|]. split; [exact B|]. split; [exact C|]. split; [exact D|].
    destruct (r_query r) as [q'|].
    - destruct Hm as (M1 & M2 & (S1 & S2 & S3 & S4 & S5 & S6) & M4 & M5 & M6 & M7 & M8 & M9).
      rewrite H1 in *. rewrite Hb in M9.
      split; [exact M1|]. split; [exact M2|]. split.
      { unfold same_query. repeat split; congruence. }
      split; [exact M4|]. split; [exact M5|]. split; [exact M6|]. split; [exact M7|]. split; [exact M8|]. exact M9.
    - rewrite H1, H5, H6, Hb in Hm. exact Hm.
  Qed.

  (* a connection was (possibly) added between (ch, h) and (ch1, h1) *)
  Lemma sq_post_lift ch ch1 q cbs h h1 r h' :
    h_next h <= h_next h1 ->
    ch_all ch1 = ch_all ch -> ch_byqid ch1 = ch_byqid ch -> ch_bytmo ch1 = ch_bytmo ch ->
    length (ch_conns ch) <= length (ch_conns ch1) ->
    (forall c, In c (ch_conns ch1) -> In c (ch_conns ch) \/ cn_queries c = []) ->
    length (h_live h1) + 6 * length (ch_conns ch) = length (h_live h) + 6 * length (ch_conns ch1) ->
    sq_post ch1 q cbs h1 r h' -> sq_post ch q cbs h r h'.
  Proof.
    intros Hn Ha Hb Ht Hl Hc Hled. unfold sq_post.
    intros (A & B & C & D & Hm). split; [exact A|]. split; [lia|]. split; [lia|].
    split.
    { intros c Hin. apply D in Hin. destruct Hin as [Hin|Hin]; [apply Hc in Hin|]; tauto. }
    rewrite Ha, Hb, Ht in Hm.
    destruct (r_query r) as [q'|].
    - destruct Hm as (M1 & M2 & M3 & M4 & M5 & M6 & M7 & M8 & M9).
      repeat (split; [assumption|]). lia.
    - destruct Hm as (M1 & M2 & M3 & M4 & M5 & M6).
      repeat (split; [assumption|]). lia.
  Qed.

  Definition resend_ok (resend : chan -> query -> list Z -> M result) (q : query) (cbs : list Z) : Prop :=
    forall ch' q' h0, sq_pre ch' q' h0 -> same_query q q' ->
      q_try q' = S (q_try q) -> q_try q' < e_nservers E * e_tries E ->
      exists r h', resend ch' q' cbs h0 = Ok (r, h') /\ sq_post ch' q' cbs h0 r h'.

  Lemma same_query_refl q : same_query q q.
  Proof. unfold same_query. auto 10. Qed.

  Lemma requeue_spec resend ch q cbs h status :
    resend_ok resend q cbs -> sq_pre ch q h -> status <> ARES_SUCCESS -> ext_status status ->
    exists r h', requeue_query E resend ch q status cbs h = Ok (r, h') /\ sq_post ch q cbs h r h'.
  Proof.
    intros Hres (Hok & Hq & Ht & Hc & Hn & Habs) Hst Hext.
    unfold requeue_query. rewrite (bindM_ok _ _ _ _ _ (remove_from_conn_detached ch q h Ht Hc)).
    cbv beta iota.
    assert (Hse : Z.eqb status ARES_SUCCESS = false) by (apply Z.eqb_neq; exact Hst).
    rewrite Hse.
    set (q2 := mkQuery (q_qid q) (q_blk q) (q_rec q) (q_name q) (q_all q) (q_qide q) (q_tmo q) (q_cqn q)
                       (S (q_try q)) status (q_tcp q)).
    assert (Hsame : same_query q q2) by (unfold same_query, q2; simpl; auto 10).
    assert (Hblk : qblocks q2 = qblocks q) by reflexivity.
    assert (Hq2 : q_inv q2 h) by (unfold q_inv; rewrite Hblk; exact Hq).
    destruct (Nat.ltb (q_try q2) (e_nservers E * e_tries E) && negb (e_noretry E)) eqn:Eretry.
    - apply andb_true_iff in Eretry as [Elt _]. apply Nat.ltb_lt in Elt.
      destruct (Hres ch q2 h) as (r & h' & Hrun & Hpost).
      + unfold sq_pre. split; [exact Hok|]. split; [exact Hq2|]. split; [exact Ht|]. split; [exact Hc|].
        split; [exact Hn | exact Habs].
      + exact Hsame.
      + reflexivity.
      + exact Elt.
      + exists r, h'. split; [exact Hrun|]. eapply sq_post_same_q; eauto.
    - cbn [q_err q2].
      assert (Hst2 : (if Z.eqb status ARES_SUCCESS then ARES_ETIMEOUT else status) <> ARES_SUCCESS)
        by (rewrite Hse; exact Hst).
      assert (Hpv2 : prov (if Z.eqb status ARES_SUCCESS then ARES_ETIMEOUT else status))
        by (rewrite Hse; right; right; exact Hext).
      destruct (ended_post ch q cbs h ch q2 (if Z.eqb status ARES_SUCCESS then ARES_ETIMEOUT else status) h)
        as (r & h' & Hrun & (Hrs & Hrc) & Hrq & Hpost); auto; try lia.
      rewrite (bindM_ok _ _ _ _ _ Hrun). unfold ret.
      eexists; eexists. split; [reflexivity|].
      unfold sq_post in *. cbn [r_query r_cbs r_status r_chan].
      destruct Hpost as (A & B & C & D & Hm). rewrite Hrq in *.
      split; [exact A|]. split; [exact B|]. split; [exact C|]. split; [exact D|].
      destruct Hm as ((st & S1 & S2 & S3 & S4) & M2 & M3).
      split.
      { exists st. split; [exact S1|]. split; [exact S2|]. split; [exact S3|]. right. split; [reflexivity|].
        rewrite Hrc in S1. apply app_inv_head in S1. inversion S1 as [S1']. rewrite Hse. exact Hext. }
      split; [discriminate|]. exact M3.
  Qed.

  Lemma nth_error_upd_conn l i g c :
    nth_error l i = Some c -> nth_error (upd_conn l i g) i = Some (g c).
  Proof.
    intros Hn. unfold upd_conn. rewrite Hn.
    assert (Hi : i < length l) by (apply nth_error_Some; congruence).
    rewrite nth_error_app2 by (rewrite firstn_length; lia).
    rewrite firstn_length. replace (i - Nat.min i (length l)) with 0 by lia. reflexivity.
  Qed.

  (* one pass through the body of ares_send_query *)
  Lemma send_query_step_spec resend ch q cbs h :
    resend_ok resend q cbs -> sq_pre ch q h ->
    exists r h', send_query_step f E resend ch q cbs h = Ok (r, h') /\ sq_post ch q cbs h r h'.
  Proof.
    intros Hres Hpre. pose proof Hpre as (Hok & Hq & Ht & Hc & Hn & Habs).
    remember (send_query_step f E resend ch q cbs h) as R eqn:HR.
    unfold send_query_step in HR.
    assert (HnmS : ARES_ENOMEM <> ARES_SUCCESS) by discriminate.
    destruct (e_server E (q_try q)) eqn:Esrv; cbn [negb] in HR; cbv iota in HR.
    2:{ assert (HpvS : prov ARES_ENOSERVER) by (right; left; split; [reflexivity | exists (q_try q); exact Esrv]).
        destruct (ended_post ch q cbs h ch q ARES_ENOSERVER h) as (r & h' & Hrun & _ & _ & Hpost); side.
        exists r, h'. split; [rewrite HR; exact Hrun | exact Hpost]. }
    (* the connection: re-used or opened *)
    assert (Hconn : exists ost oci ch1 h1,
              (match e_reuse E (q_try q) with
               | Some i => ret (ARES_SUCCESS, Some i, ch)
               | None => open_connection f E ch (q_tcp q) (q_try q)
               end) h = Ok ((ost, oci, ch1), h1) /\ heap_ok h1 /\ h_next h <= h_next h1 /\
              ch_all ch1 = ch_all ch /\ ch_byqid ch1 = ch_byqid ch /\ ch_bytmo ch1 = ch_bytmo ch /\
              length (ch_conns ch) <= length (ch_conns ch1) /\
              (forall c, In c (ch_conns ch1) -> In c (ch_conns ch) \/ cn_queries c = []) /\
              length (h_live h1) + 6 * length (ch_conns ch) = length (h_live h) + 6 * length (ch_conns ch1) /\
              (forall x, In x (h_live h) -> In x (h_live h1)) /\
              ((oci = None /\ ost <> ARES_SUCCESS /\ ((ost = ARES_ENOMEM /\ exists n, f n = false) \/ ost = e_sock E (q_try q))) \/
               (exists ci, oci = Some ci /\ ci < length (ch_conns ch1)))).
    { destruct (e_reuse E (q_try q)) as [i|] eqn:Er.
      - exists ARES_SUCCESS, (Some i), ch, h. unfold ret. split; [reflexivity|].
        split; [exact Hok|]. split; [lia|]. split; [reflexivity|]. split; [reflexivity|]. split; [reflexivity|].
        split; [lia|]. split; [intros c Hc'; left; exact Hc'|]. split; [lia|].
        split; [auto|]. right. exists i. split; [reflexivity|]. apply Hreuse in Er. lia.
      - destruct (open_connection_spec f E ch (q_tcp q) (q_try q) h Hok)
          as (st & oci & ch1 & h1 & Hrun & Hok1 & Hnx & Ha & Hb & Hm & Hcase).
        exists st, oci, ch1, h1. split; [exact Hrun|]. split; [exact Hok1|]. split; [exact Hnx|].
        split; [exact Ha|]. split; [exact Hb|]. split; [exact Hm|].
        destruct Hcase as [(Ho & Hst & Hpv & Hcs & Hlv) | (c & Ho & Hst & Hcq & Hcs & new & Hnl & Hlv)].
        + rewrite Hcs, Hlv. split; [lia|]. split; [intros c Hc'; left; exact Hc'|]. split; [lia|].
          split; [auto|]. left. auto.
        + rewrite Hcs, Hlv. rewrite app_length, Hnl.
          destruct (q_tcp q).
          * rewrite app_length. cbn [length]. split; [lia|]. split.
            { intros c0 Hc0. apply in_app_or in Hc0. destruct Hc0 as [Hc0|[<-|[]]]; [left; exact Hc0 | right; exact Hcq]. }
            split; [lia|]. split; [intros x Hx; apply in_or_app; right; exact Hx|].
            right. eexists. split; [exact Ho|]. lia.
          * cbn [length]. split; [lia|]. split.
            { intros c0 [<-|Hc0]; [right; exact Hcq | left; exact Hc0]. }
            split; [lia|]. split; [intros x Hx; apply in_or_app; right; exact Hx|].
            right. eexists. split; [exact Ho|]. lia. }
    destruct Hconn as (ost & oci & ch1 & h1 & Hrun1 & Hok1 & Hnx1 & Ha1 & Hb1 & Hm1 & Hlen1 & Hcs1 & Hled1 & Hsub1 & Hcase1).
    rewrite (bindM_ok _ _ _ _ _ Hrun1) in HR. cbv beta iota in HR.
    assert (Hq1 : q_inv q h1) by (eapply q_inv_mono; eauto).
    assert (Hpre1 : sq_pre ch1 q h1).
    { unfold sq_pre. split; [exact Hok1|]. split; [exact Hq1|]. split; [exact Ht|]. split; [exact Hc|].
      split; [lia|]. rewrite Hm1. exact Habs. }
    assert (Habs1 : ~ In (q_qid q) (ch_bytmo ch1)) by (rewrite Hm1; exact Habs).
    destruct Hcase1 as [(Ho & Host & Hopv) | (ci & Ho & Hci)]; subst oci.
    - (* no connection *)
      assert (Hpvo : prov ost).
      { destruct Hopv as [[-> Haf]| ->]; [left; split; [reflexivity | exact Haf] | right; right; left; exists (q_try q); reflexivity]. }
      destruct (Z.eqb ost ARES_ECONNREFUSED || Z.eqb ost ARES_EBADFAMILY) eqn:Eor.
      + assert (Hexo : ext_status ost).
        { destruct Hopv as [[-> _]| ->]; [discriminate Eor | left; exists (q_try q); reflexivity]. }
        destruct (requeue_spec resend ch1 q cbs h1 ost Hres Hpre1 Host Hexo) as (r & h' & Hrun & Hpost).
        exists r, h'. split; [rewrite HR; exact Hrun|]. eapply sq_post_lift; eauto.
      + destruct (ended_post ch1 q cbs h1 ch1 q ost h1) as (r & h' & Hrun & _ & _ & Hpost); side.
        exists r, h'. split; [rewrite HR; exact Hrun|]. eapply sq_post_lift; eauto.
    - (* ares_conn_query_write *)
      unfold group in HR.
      step_malloc_in HR.
      2:{ (* the writer could not get its memory *)
          assert (HpvM : prov ARES_ENOMEM) by prov_enomem.
          destruct (ended_post ch1 q cbs h1 ch1 q ARES_ENOMEM (mkHeap (S (h_next h1)) (h_live h1)))
            as (r & h' & Hrun & _ & _ & Hpost); side.
          exists r, h'. split; [rewrite HR; exact Hrun|]. eapply sq_post_lift; eauto. }
      (* temporaries released *)
      unfold bindM at 1 in HR. unfold free at 1 in HR. cbn [h_live h_next memb remove_one] in HR.
      rewrite Nat.eqb_refl in HR. cbn [orb] in HR. cbv beta iota in HR.
      set (h2 := mkHeap (S (h_next h1)) (h_live h1)) in *.
      assert (Hok2 : heap_ok h2) by (apply heap_ok_skip; exact Hok1).
      assert (Hq2 : q_inv q h2) by exact Hq1.
      assert (Hpre2 : sq_pre ch1 q h2) by (destruct Hpre1 as (_ & _ & P); split; [exact Hok2|]; split; [exact Hq2 | exact P]).
      assert (Hlift2 : forall r h', sq_post ch1 q cbs h2 r h' -> sq_post ch q cbs h r h').
      { intros r h' Hp. eapply sq_post_lift; eauto.
        unfold sq_post in *. unfold h2 in Hp. cbn [h_next h_live] in Hp.
        destruct Hp as (A & B & Hp). split; [exact A|]. split; [lia | exact Hp]. }
      destruct (Hwrite (q_try q)) as [Hw1 Hw2].
      destruct (Z.eqb_spec (e_write E (q_try q)) ARES_ENOMEM) as [Ewm|Ewm].
      { assert (HpvM : prov ARES_ENOMEM) by (right; right; right; exists (q_try q); symmetry; exact Ewm).
        destruct (ended_post ch1 q cbs h2 ch1 q ARES_ENOMEM h2) as (r & h' & Hrun & _ & _ & Hpost); side.
        exists r, h'. split; [rewrite HR; exact Hrun | auto]. }
      destruct (Z.eqb_spec (e_write E (q_try q)) ARES_ECONNREFUSED) as [Ewr|_]; [contradiction|].
      destruct (Z.eqb_spec (e_write E (q_try q)) ARES_EBADFAMILY) as [Ewb|_]; [contradiction|].
      cbn [orb] in HR. cbv iota in HR.
      destruct (Z.eqb_spec (e_write E (q_try q)) ARES_SUCCESS) as [Ews|Ews]; cbn [negb] in HR; cbv iota in HR.
      2:{ assert (Hexw : ext_status (e_write E (q_try q))) by (right; exists (q_try q); reflexivity).
          destruct (requeue_spec resend ch1 q cbs h2 (e_write E (q_try q)) Hres Hpre2 Ews Hexw) as (r & h' & Hrun & Hpost).
          exists r, h'. split; [rewrite HR; exact Hrun | auto]. }
      (* timeout list *)
      rewrite Ht in HR. unfold free_opts at 1 in HR. cbn [cat_somes free_all] in HR.
      unfold bindM at 1 in HR. unfold ret at 1 in HR. cbv beta iota in HR.
      step_malloc_in HR.
      2:{ assert (HpvM : prov ARES_ENOMEM) by prov_enomem.
          set (h3 := mkHeap (S (h_next h2)) (h_live h2)) in *.
          set (q1 := mkQuery (q_qid q) (q_blk q) (q_rec q) (q_name q) (q_all q) (q_qide q) None (q_cqn q)
                             (q_try q) (q_err q) (q_tcp q)) in *.
          assert (Hb1' : qblocks q1 = qblocks q) by (unfold qblocks, q1; cbn; rewrite Ht; reflexivity).
          assert (Hq3 : q_inv q1 h3) by (unfold q_inv; rewrite Hb1'; exact Hq2).
          destruct (ended_post ch1 q cbs h2 ch1 q1 ARES_ENOMEM h3) as (r & h' & Hrun & _ & _ & Hpost); side;
            try (unfold h3; simpl; lia); try (rewrite Hb1'; unfold h3; simpl; lia).
          exists r, h'. split; [rewrite HR; exact Hrun | auto]. }
      (* connection's query list *)
      rewrite Hc in HR. cbn [q_cqn option_map] in HR. unfold free_opts at 1 in HR. cbn [cat_somes free_all] in HR.
      unfold bindM at 1 in HR. unfold ret at 1 in HR. cbv beta iota in HR.
      set (tn := h_next h2) in *.
      set (h3 := mkHeap (S tn) (tn :: h_live h2)) in *.
      assert (Hok3 : heap_ok h3) by (apply heap_ok_push; exact Hok2).
      assert (Htn : ~ In tn (qblocks q)).
      { intros Hin. destruct Hq2 as [_ Hi]. apply Hi in Hin. exact (heap_ok_fresh h2 Hok2 Hin). }
      step_malloc_in HR.
      + (* registered *)
        unfold h3 in HR. cbn [h_next h_live] in HR.
        set (nb := S tn) in *.
        unfold ret in HR. eexists; eexists. split; [exact HR|].
        unfold sq_post. cbn [r_query r_cbs r_status r_chan ch_all ch_byqid ch_bytmo ch_conns h_next h_live].
        set (q2 := mkQuery _ _ _ _ _ _ _ _ _ _ _).
        assert (Hb2 : qblocks q2 = tn :: nb :: qblocks q).
        { unfold qblocks, q2. cbn. rewrite Ht, Hc. reflexivity. }
        split; [apply (heap_ok_push h3 Hok3)|]. split; [unfold nb, tn, h2; simpl; lia|].
        rewrite upd_conn_length. split; [exact Hlen1|].
        split; [intros c _; right; right; discriminate|].
        split; [reflexivity|]. split; [reflexivity|].
        split; [unfold same_query, q2; cbn; auto 10|].
        split.
        { unfold q_inv. rewrite Hb2. split.
          - constructor.
            + intros [Hx|Hx]; [unfold nb in Hx; lia | exact (Htn Hx)].
            + constructor; [|exact (proj1 Hq2)].
              intros Hin. destruct Hq2 as [_ Hi]. apply Hi in Hin.
              destruct Hok2 as [_ Hwf]. apply Hwf in Hin. unfold nb, tn in Hin. lia.
          - intros x [<-|[<-|Hx]]; simpl; [right; left; reflexivity | left; reflexivity|].
            right. right. destruct Hq2 as [_ Hi]. apply Hi. exact Hx. }
        split; [exact Ha1|]. split; [exact Hb1|].
        split; [rewrite Hm1, (remove_z_notin _ _ Habs); reflexivity|].
        split.
        { destruct (nth_error (ch_conns ch1) ci) as [c0|] eqn:En0.
          - exists tn, ci, nb. eexists. split; [reflexivity|]. split; [reflexivity|]. split.
            + apply nth_error_upd_conn. exact En0.
            + cbn [cn_queries]. apply in_or_app. right. left. reflexivity.
          - exfalso. apply nth_error_None in En0. lia. }
        rewrite Hb2. unfold h2. cbn [length h_live]. lia.
      + (* the node for the connection's list could not be had *)
        assert (HpvM : prov ARES_ENOMEM) by prov_enomem.
        unfold h3 in HR. cbn [h_next h_live] in HR.
        set (h4 := mkHeap (S (S tn)) (tn :: h_live h2)) in *.
        set (qx := mkQuery (q_qid q) (q_blk q) (q_rec q) (q_name q) (q_all q) (q_qide q) (Some tn) None
                           (q_try q) (q_err q) (q_tcp q)) in *.
        assert (Hbx : qblocks qx = tn :: qblocks q).
        { unfold qblocks, qx. cbn. rewrite Ht, Hc. reflexivity. }
        destruct (ended_post ch1 q cbs h2
                    (mkChan (ch_all ch1) (ch_byqid ch1) (q_qid q :: remove_z (q_qid q) (ch_bytmo ch1)) (ch_conns ch1) (ch_closed ch1))
                    qx ARES_ENOMEM h4) as (r & h' & Hrun & _ & _ & Hpost); side;
          try (unfold h4, tn, h2; simpl; lia);
          try (match goal with |- heap_ok _ => apply (heap_ok_skip h3 Hok3) end);
          try (right; exists tn; split; reflexivity);
          try (rewrite Hbx; unfold h4, h2; cbn [length h_live ch_conns]; lia).
        { unfold q_inv. rewrite Hbx. split.
          - constructor; [exact Htn | exact (proj1 Hq2)].
          - intros x [<-|Hx]; simpl; [left; reflexivity|]. right. destruct Hq2 as [_ Hi]. apply Hi. exact Hx. }
        exists r, h'. split; [rewrite HR; exact Hrun | auto].
  Qed.

  (* ares_send_query with all its re-sends: the fuel of the model is always enough *)
  Lemma send_query_spec : forall fuel ch q cbs h,
    sq_pre ch q h -> q_try q <= e_nservers E * e_tries E -> e_nservers E * e_tries E < fuel + q_try q ->
    exists r h', send_query f E fuel ch q cbs h = Ok (r, h') /\ sq_post ch q cbs h r h'.
  Proof.
    induction fuel as [|fu IH]; intros ch q cbs h Hpre Hle Hfuel; [lia|].
    cbn [send_query]. apply send_query_step_spec; [|exact Hpre].
    intros ch' q' h0 Hpre' Hsame Htry Hlt. apply IH; [exact Hpre' | lia | lia].
  Qed.

  (* ---------------------------------------------------------------------------------- *)
  (* ares_send_nolock                                                                     *)
  (* ---------------------------------------------------------------------------------- *)
  Definition fresh_qid (ch : chan) (qid : Z) : Prop :=
    ~ In qid (ch_all ch) /\ ~ In qid (ch_byqid ch) /\ ~ In qid (ch_bytmo ch).

  (* where the status of the single callback of a failed submission can come from *)
  Definition prov0 (st : Z) : Prop :=
    prov st \/ (e_nservers E = 0 /\ st = ARES_ENOSERVER) \/
    (e_nocache E = false /\ st = e_cache E /\ st <> ARES_ENOTFOUND) \/
    (st = (if Z.eqb (e_dup E) ARES_EBADRESP then ARES_EBADQUERY else e_dup E) /\ e_dup E <> ARES_SUCCESS) \/
    (st = e_0x20_status E /\ e_0x20 E = true /\ e_usevc E = false).

  Definition submit_post (ch : chan) (qid : Z) (h : heap) (r : result) (h' : heap) : Prop :=
    heap_ok h' /\
    length (ch_conns ch) <= length (ch_conns (r_chan r)) /\
    (forall c, In c (ch_conns (r_chan r)) -> In c (ch_conns ch) \/ cn_queries c = [] \/ r_query r <> None) /\
    match r_query r with
    | None =>
      (* exactly one callback; the channel's indexes are as before; the ledger balances *)
      (exists st, r_cbs r = [st] /\ prov0 st /\
                  (st = ARES_SUCCESS -> e_nocache E = false /\ e_cache E = ARES_SUCCESS /\ r_status r = ARES_SUCCESS) /\
                  (r_status r = st \/ (r_status r = ARES_ETIMEOUT /\ ext_status st))) /\
      ch_all (r_chan r) = ch_all ch /\ ch_byqid (r_chan r) = ch_byqid ch /\ ch_bytmo (r_chan r) = ch_bytmo ch /\
      length (h_live h') + 6 * length (ch_conns ch) = length (h_live h) + 6 * length (ch_conns (r_chan r))
    | Some q' =>
      (* no callback yet; the request is in all four indexes; every new block is owned *)
      r_cbs r = [] /\ r_status r = ARES_SUCCESS /\ q_qid q' = qid /\ q_inv q' h' /\
      ch_all (r_chan r) = ch_all ch ++ [qid] /\ ch_byqid (r_chan r) = qid :: ch_byqid ch /\
      ch_bytmo (r_chan r) = qid :: ch_bytmo ch /\
      (exists tn ci nb c, q_tmo q' = Some tn /\ q_cqn q' = Some (ci, nb) /\
                          nth_error (ch_conns (r_chan r)) ci = Some c /\ In (qid, nb) (cn_queries c)) /\
      length (h_live h') + 6 * length (ch_conns ch)
        = length (h_live h) + length (qblocks q') + 6 * length (ch_conns (r_chan r))
    end.

  Lemma remove_z_app_fresh x l : ~ In x l -> remove_z x (l ++ [x]) = l.
  Proof. intros H. rewrite remove_z_app_same. apply remove_z_notin. exact H. Qed.

  Lemma remove_z_cons_fresh x l : ~ In x l -> remove_z x (x :: l) = l.
  Proof. intros H. rewrite remove_z_cons_same. apply remove_z_notin. exact H. Qed.

  (* a submission that ends at once with one callback and leaves everything as it was *)
  Lemma submit_post_ended ch qid h h' st rs :
    heap_ok h' -> length (h_live h') = length (h_live h) -> prov0 st ->
    (st = ARES_SUCCESS -> e_nocache E = false /\ e_cache E = ARES_SUCCESS /\ rs = ARES_SUCCESS) ->
    rs = st ->
    submit_post ch qid h (mkRes rs [st] None ch) h'.
  Proof.
    intros Hok Hl Hp Hs Hrs. unfold submit_post. cbn [r_query r_cbs r_status r_chan].
    split; [exact Hok|]. split; [lia|]. split; [intros c Hc; left; exact Hc|].
    split; [exists st; split; [reflexivity|]; split; [exact Hp|]; split; [exact Hs | left; exact Hrs]|].
    rewrite Hl. repeat split; lia.
  Qed.

  Theorem send_nolock_spec ch qid h :
    heap_ok h -> fresh_qid ch qid -> nconn0 <= length (ch_conns ch) ->
    exists r h', send_nolock f E ch qid h = Ok (r, h') /\ submit_post ch qid h r h'.
  Proof.
    intros Hok (Hf1 & Hf2 & Hf3) Hnc.
    remember (send_nolock f E ch qid h) as R eqn:HR. unfold send_nolock in HR.
    assert (HnmS : ARES_ENOMEM = ARES_SUCCESS -> e_nocache E = false /\ e_cache E = ARES_SUCCESS /\ ARES_ENOMEM = ARES_SUCCESS)
      by (intros Hx; discriminate Hx).
    destruct (Nat.eqb_spec (e_nservers E) 0) as [Ens|Ens].
    { unfold ret in HR. eexists; eexists. split; [exact HR|].
      apply submit_post_ended; auto.
      - right. left. split; [exact Ens | reflexivity].
      - intros Hx; discriminate Hx. }
    (* the cache *)
    assert (Hcache : exists c h1,
              (if e_nocache E then ret ARES_ENOTFOUND
               else k <- group f ;; match k with
                                    | None => ret ARES_ENOMEM
                                    | Some kb => free (Some kb) ;;; ret (e_cache E)
                                    end) h = Ok (c, h1) /\
              heap_ok h1 /\ h_live h1 = h_live h /\
              (c = ARES_ENOTFOUND \/
               (prov0 c /\ (c = ARES_SUCCESS -> e_nocache E = false /\ e_cache E = ARES_SUCCESS /\ c = ARES_SUCCESS)))).
    { destruct (e_nocache E) eqn:Enc.
      - exists ARES_ENOTFOUND, h. unfold ret. auto.
      - unfold group. destruct (malloc_cases f h) as [[Ef M]|[Ef M]]; rewrite (bindM_ok _ _ _ _ _ M).
        + unfold bindM, free, ret. cbn [h_live h_next memb remove_one]. rewrite Nat.eqb_refl. cbn [orb].
          eexists; eexists. split; [reflexivity|]. split; [apply heap_ok_skip; exact Hok|]. split; [reflexivity|].
          destruct (Z.eqb_spec (e_cache E) ARES_ENOTFOUND) as [Ec|Ec]; [left; exact Ec|].
          right. split; [right; right; left; auto | auto].
        + unfold ret. eexists; eexists. split; [reflexivity|]. split; [apply heap_ok_skip; exact Hok|].
          split; [reflexivity|]. right. split; [left; prov_enomem | exact HnmS]. }
    destruct Hcache as (c & h1 & Hrun1 & Hok1 & Hl1 & Hc).
    rewrite (bindM_ok _ _ _ _ _ Hrun1) in HR. cbv beta iota in HR.
    destruct (Z.eqb_spec c ARES_ENOTFOUND) as [Ec|Ec]; cbn [negb] in HR; cbv iota in HR.
    2:{ destruct Hc as [Hc|[Hp Hs]]; [contradiction|].
        unfold ret in HR. eexists; eexists. split; [exact HR|]. apply submit_post_ended; auto.
        rewrite Hl1. reflexivity. }
    clear Hc Ec c Hrun1.
    (* from here on: allocations relative to h1 *)
    enough (Hg : exists r h', R = Ok (r, h') /\ submit_post ch qid h1 r h').
    { destruct Hg as (r & h' & A & B). exists r, h'. split; [exact A|].
      unfold submit_post in *. rewrite Hl1 in B. exact B. }
    clear Hl1 Hok h. rename h1 into h. rename Hok1 into Hok.
    set (n0 := h_next h) in *.
    unfold group in HR.
    step_malloc_in HR.
    2:{ assert (HpvM : prov0 ARES_ENOMEM) by (left; prov_enomem).
        unfold ret in HR. eexists; eexists. split; [exact HR|].
        apply submit_post_ended; auto. apply heap_ok_skip. exact Hok. }
    step_malloc_in HR.
    2:{ assert (HpvM : prov0 ARES_ENOMEM) by (left; prov_enomem).
        unfold bindM at 1 in HR. unfold free at 1 in HR. cbn [h_live h_next memb remove_one] in HR.
        rewrite Nat.eqb_refl in HR. cbn [orb] in HR. cbv beta iota in HR. unfold ret in HR.
        eexists; eexists. split; [exact HR|].
        apply submit_post_ended; auto. apply (heap_ok_next h); [exact Hok | simpl; lia]. }
    destruct (Z.eqb_spec (e_dup E) ARES_SUCCESS) as [Ed|Ed]; cbn [negb] in HR; cbv iota in HR.
    2:{ unfold bindM at 1 in HR. unfold free at 1 in HR. cbn [h_live h_next memb remove_one] in HR.
        rewrite Nat.eqb_refl in HR. cbn [orb] in HR. cbv beta iota in HR.
        unfold bindM at 1 in HR. unfold free at 1 in HR. cbn [h_live h_next memb remove_one] in HR.
        rewrite Nat.eqb_refl in HR. cbn [orb] in HR. cbv beta iota in HR. unfold ret in HR.
        eexists; eexists. split; [exact HR|].
        apply submit_post_ended; auto.
        - apply (heap_ok_next h); [exact Hok | simpl; lia].
        - right. right. right. left. split; [reflexivity | exact Ed].
        - intros Hx. exfalso. destruct (Z.eqb (e_dup E) ARES_EBADRESP); [discriminate Hx | contradiction]. }
    (* DNS 0x20 *)
    set (h2 := mkHeap (S (S n0)) (S n0 :: n0 :: h_live h)) in *.
    assert (Hok2 : heap_ok h2) by (do 2 (apply heap_ok_push in Hok; cbn [h_next h_live] in Hok); exact Hok).
    assert (H0x : exists xst xnm h3,
              (if e_0x20 E && negb (e_usevc E)
               then nm <- malloc f ;;
                    match nm with
                    | None => ret (ARES_ENOMEM, None)
                    | Some nb => if Z.eqb (e_0x20_status E) ARES_SUCCESS then ret (ARES_SUCCESS, Some nb)
                                 else free (Some nb) ;;; ret (e_0x20_status E, None)
                    end
               else ret (ARES_SUCCESS, None)) h2 = Ok ((xst, xnm), h3) /\ heap_ok h3 /\
              S (S n0) <= h_next h3 /\
              ((xst = ARES_SUCCESS /\ xnm = None /\ h_live h3 = h_live h2) \/
               (xst = ARES_SUCCESS /\ xnm = Some (S (S n0)) /\ h_live h3 = S (S n0) :: h_live h2 /\ h_next h3 = S (S (S n0))) \/
               (xst <> ARES_SUCCESS /\ xnm = None /\ h_live h3 = h_live h2 /\ prov0 xst))).
    { destruct (e_0x20 E && negb (e_usevc E)) eqn:E20.
      2:{ exists ARES_SUCCESS, None, h2. unfold ret. split; [reflexivity|]. split; [exact Hok2|].
          split; [simpl; lia|]. left. auto. }
      apply andb_true_iff in E20 as [E20a E20b]. apply negb_true_iff in E20b.
      destruct (malloc_cases f h2) as [[Ex M]|[Ex M]]; rewrite (bindM_ok _ _ _ _ _ M).
      - destruct (Z.eqb_spec (e_0x20_status E) ARES_SUCCESS) as [E2s|E2s].
        + unfold ret. eexists; eexists; eexists. split; [reflexivity|].
          split; [apply heap_ok_push; exact Hok2|]. split; [simpl; lia|]. right. left. simpl. auto.
        + unfold bindM, free, ret. cbn [h_live h_next memb remove_one]. rewrite Nat.eqb_refl. cbn [orb].
          eexists; eexists; eexists. split; [reflexivity|].
          split; [apply (heap_ok_skip h2 Hok2)|]. split; [simpl; lia|]. right. right.
          repeat split; auto. right. right. right. right. auto.
      - assert (HpvM : prov0 ARES_ENOMEM) by (left; prov_enomem).
        unfold ret. eexists; eexists; eexists. split; [reflexivity|].
        split; [apply (heap_ok_skip h2 Hok2)|]. split; [simpl; lia|]. right. right.
        repeat split; auto. discriminate. }
    destruct H0x as (xst & xnm & h3 & Hrun3 & Hok3 & Hn3 & Hx).
    rewrite (bindM_ok _ _ _ _ _ Hrun3) in HR. cbv beta iota in HR. clear Hrun3.
    (* the blocks the query owns so far are live in h3 and distinct *)
    assert (Hbase : (forall x, In x (h_live h2) -> In x (h_live h3)) /\
                    length (h_live h3) = length (cat_somes [xnm]) + 2 + length (h_live h) /\
                    NoDup (cat_somes [xnm; Some (S n0); Some n0]) /\
                    incl (cat_somes [xnm; Some (S n0); Some n0]) (h_live h3) /\
                    (forall b, In b (cat_somes [xnm; Some (S n0); Some n0]) -> b < h_next h3)).
    { destruct Hx as [(-> & -> & Hl3) | [(-> & -> & Hl3 & Hn3') | (_ & -> & Hl3 & _)]]; rewrite Hl3; unfold h2;
        cbn [cat_somes h_live length]; (split; [intros x Hx'; simpl in *; tauto|]); (split; [lia|]);
        (split; [explicit_nodup|]); (split; [explicit_incl|]); intros b Hb; simpl in Hb; lia. }
    destruct Hbase as (Hsub3 & Hlen3 & Hnd3 & Hin3 & Hlt3).
    destruct (Z.eqb_spec xst ARES_SUCCESS) as [Exs|Exs]; cbn [negb] in HR; cbv iota in HR.
    2:{ (* callback, ares_free_query *)
        destruct Hx as [(Hx1 & _) | [(Hx1 & _) | (_ & Hxn & Hl3 & Hp)]]; try contradiction. subst xnm.
        set (q1 := mkQuery qid n0 (Some (S n0)) None None None None None 0 ARES_SUCCESS (e_usevc E)) in *.
        destruct (free_query_spec ch q1 h3 Hok3) as (h4 & Hr4 & Hok4 & Hn4 & Hl4).
        { split; [exact Hnd3 | exact Hin3]. }
        rewrite (bindM_ok _ _ _ _ _ Hr4) in HR. unfold ret in HR.
        eexists; eexists. split; [exact HR|].
        replace (free_query_chan ch q1) with ch by (destruct ch; reflexivity).
        apply submit_post_ended; auto.
        - unfold qblocks, q1 in Hl4. cbn [q_tmo q_cqn q_qide q_all q_name q_rec q_blk option_map] in Hl4.
          cbn [cat_somes length] in *. lia.
        - intros Hx'. contradiction. }
    subst xst.
    assert (Hxn : xnm = None \/ xnm = Some (S (S n0))).
    { destruct Hx as [(_ & Hx' & _) | [(_ & Hx' & _) | (Hx' & _)]]; [left; exact Hx' | right; exact Hx' | contradiction]. }
    clear Hx.
    (* all_queries *)
    step_malloc_in HR.
    2:{ assert (HpvM : prov0 ARES_ENOMEM) by (left; prov_enomem).
        set (q2 := mkQuery qid n0 (Some (S n0)) xnm None None None None 0 ARES_SUCCESS (e_usevc E)) in *.
        destruct (free_query_spec ch q2 (mkHeap (S (h_next h3)) (h_live h3))) as (h4 & Hr4 & Hok4 & Hn4 & Hl4).
        { apply heap_ok_skip. exact Hok3. }
        { split; [exact Hnd3 | exact Hin3]. }
        rewrite (bindM_ok _ _ _ _ _ Hr4) in HR. unfold ret in HR.
        eexists; eexists. split; [exact HR|].
        replace (free_query_chan ch q2) with ch by (destruct ch; reflexivity).
        apply submit_post_ended; auto.
        unfold qblocks, q2 in Hl4. cbn [q_tmo q_cqn q_qide q_all q_name q_rec q_blk option_map h_live] in Hl4.
        destruct Hxn as [-> | ->]; cbn [cat_somes length] in *; lia. }
    set (an := h_next h3) in *.
    set (ch1 := mkChan (ch_all ch ++ [qid]) (ch_byqid ch) (ch_bytmo ch) (ch_conns ch) (ch_closed ch)) in *.
    set (h4 := mkHeap (S an) (an :: h_live h3)) in *.
    assert (Hok4 : heap_ok h4) by (apply heap_ok_push; exact Hok3).
    assert (Hnd4 : NoDup (an :: cat_somes [xnm; Some (S n0); Some n0])).
    { constructor; [|exact Hnd3]. intros Hi. apply Hlt3 in Hi. unfold an in Hi. lia. }
    assert (Hin4 : incl (an :: cat_somes [xnm; Some (S n0); Some n0]) (h_live h4)).
    { intros x [<-|Hx']; simpl; [left; reflexivity | right; apply Hin3; exact Hx']. }
    (* queries_by_qid *)
    step_malloc_in HR.
    2:{ assert (HpvM : prov0 ARES_ENOMEM) by (left; prov_enomem).
        set (q3 := mkQuery qid n0 (Some (S n0)) xnm (Some an) None None None 0 ARES_SUCCESS (e_usevc E)) in *.
        destruct (free_query_spec ch1 q3 (mkHeap (S (h_next h4)) (h_live h4))) as (h5 & Hr5 & Hok5 & Hn5 & Hl5).
        { apply heap_ok_skip. exact Hok4. }
        { split; [exact Hnd4 | exact Hin4]. }
        unfold h4 in HR. cbn [h_next h_live] in HR. unfold h4 in Hr5. cbn [h_next h_live] in Hr5.
        rewrite (bindM_ok _ _ _ _ _ Hr5) in HR. unfold ret in HR.
        eexists; eexists. split; [exact HR|].
        replace (free_query_chan ch1 q3) with ch.
        2:{ unfold free_query_chan, unlink_conn, q3, ch1.
            cbn [q_all q_qide q_tmo q_cqn q_qid ch_all ch_byqid ch_bytmo ch_conns ch_closed].
            rewrite (remove_z_app_fresh qid (ch_all ch) Hf1). destruct ch; reflexivity. }
        apply submit_post_ended; auto.
        unfold qblocks, q3 in Hl5. cbn [q_tmo q_cqn q_qide q_all q_name q_rec q_blk option_map h_live] in Hl5.
        unfold h4 in Hl5. destruct Hxn as [-> | ->]; cbn [cat_somes length h_live] in *; lia. }
    (* ares_send_query *)
    unfold h4 in HR. cbn [h_next h_live] in HR.
    set (qe := S an) in *.
    set (h5 := mkHeap (S qe) (qe :: an :: h_live h3)) in *.
    set (q3 := mkQuery qid n0 (Some (S n0)) xnm (Some an) (Some qe) None None 0 ARES_SUCCESS (e_usevc E)) in *.
    set (ch2 := mkChan (ch_all ch1) (qid :: ch_byqid ch1) (ch_bytmo ch1) (ch_conns ch1) (ch_closed ch1)) in *.
    assert (Hok5 : heap_ok h5) by (apply (heap_ok_push h4 Hok4)).
    assert (Hb3 : qblocks q3 = qe :: an :: cat_somes [xnm; Some (S n0); Some n0]) by reflexivity.
    assert (Hq3 : q_inv q3 h5).
    { unfold q_inv. rewrite Hb3. split.
      - constructor; [|exact Hnd4].
        intros [Hi|Hi]; [unfold qe in Hi; lia | apply Hlt3 in Hi; unfold qe, an in *; lia].
      - intros x [<-|Hx']; simpl; [left; reflexivity|]. right. apply Hin4 in Hx'. exact Hx'. }
    destruct (send_query_spec (send_query_fuel E) ch2 q3 [] h5) as (r & h' & Hrun & Hpost).
    { unfold sq_pre. split; [exact Hok5|]. split; [exact Hq3|]. split; [reflexivity|]. split; [reflexivity|].
      split; [exact Hnc | exact Hf3]. }
    { cbn [q_try q3]. lia. }
    { unfold send_query_fuel. cbn [q_try q3]. lia. }
    exists r, h'. split; [rewrite HR; exact Hrun|].
    unfold sq_post in Hpost. unfold submit_post.
    destruct Hpost as (A & B & C & D & Hm).
    cbn [ch_conns ch2 ch1] in C, D.
    split; [exact A|]. split; [exact C|]. split; [exact D|].
    assert (Hl5 : length (h_live h5) = 2 + length (h_live h3)) by reflexivity.
    assert (Hlb : length (qblocks q3) = 2 + length (cat_somes [xnm; Some (S n0); Some n0])) by (rewrite Hb3; reflexivity).
    assert (Hlx : length (cat_somes [xnm; Some (S n0); Some n0]) = length (cat_somes [xnm]) + 2).
    { destruct Hxn as [-> | ->]; reflexivity. }
    destruct (r_query r) as [q'|].
    - destruct Hm as (M1 & M2 & (S1 & _) & M4 & M5 & M6 & M7 & M8 & M9).
      cbn [q_qid q3 ch_all ch_byqid ch_bytmo ch_conns ch2 ch1] in *.
      split; [exact M1|]. split; [exact M2|]. split; [exact S1|]. split; [exact M4|].
      split; [exact M5|]. split; [exact M6|]. split; [exact M7|]. split; [exact M8|]. lia.
    - destruct Hm as ((st & S1 & S2 & S3 & S4) & M2 & M3 & M4 & M5 & M6).
      cbn [q_qid q_all q_qide q3 ch_all ch_byqid ch_bytmo ch_conns ch2 ch1] in *.
      split.
      { exists st. split; [exact S1|]. split; [left; exact S3|]. split; [intros Hx'; contradiction | exact S4]. }
      rewrite (remove_z_app_fresh qid (ch_all ch) Hf1) in M3.
      rewrite (remove_z_cons_fresh qid (ch_byqid ch) Hf2) in M4.
      split; [exact M3|]. split; [exact M4|]. split; [exact M5|]. lia.
  Qed.
End SendQuery.

(* ------------------------------------------------------------------------------------ *)
(* the statements of C14 for the request-submission path                                 *)
(* ------------------------------------------------------------------------------------ *)

(* preconditions on the environment answers *)
Definition env_modelled (E : env) (ch : chan) : Prop :=
  (forall att i, e_reuse E att = Some i -> i < length (ch_conns ch)) /\
  (forall att, e_write E att <> ARES_ECONNREFUSED /\ e_write E att <> ARES_EBADFAMILY).

(* everything except the allocator answers "fine" *)
Definition env_all_ok (E : env) : Prop :=
  e_nservers E <> 0 /\ (e_nocache E = true \/ e_cache E = ARES_ENOTFOUND) /\ e_dup E = ARES_SUCCESS /\
  e_0x20_status E = ARES_SUCCESS /\
  (forall att, e_server E att = true /\ e_sock E att = ARES_SUCCESS /\ e_write E att = ARES_SUCCESS).

(* for EVERY oracle: one callback and no trace, or no callback and fully registered *)
Theorem send_exactly_once f E ch qid h :
  heap_ok h -> fresh_qid ch qid -> env_modelled E ch ->
  exists r h', send_nolock f E ch qid h = Ok (r, h') /\ submit_post f E ch qid h r h'.
Proof.
  intros Hok Hfr [Hre Hwr].
  apply (send_nolock_spec f E (length (ch_conns ch)) Hre Hwr ch qid h Hok Hfr). lia.
Qed.

(* when only the allocator can fail: the request proceeds, or its callback gets ARES_ENOMEM
   exactly once, the call returns ARES_ENOMEM, and a request was indeed refused *)
Theorem send_single_failure f E ch qid h :
  single_failure f -> env_all_ok E ->
  heap_ok h -> fresh_qid ch qid -> env_modelled E ch ->
  exists r h', send_nolock f E ch qid h = Ok (r, h') /\ heap_ok h' /\
    ((exists q', r_query r = Some q' /\ r_cbs r = [] /\ r_status r = ARES_SUCCESS /\ q_qid q' = qid /\
                 ch_all (r_chan r) = ch_all ch ++ [qid] /\ ch_byqid (r_chan r) = qid :: ch_byqid ch /\
                 ch_bytmo (r_chan r) = qid :: ch_bytmo ch /\
                 length (h_live h') + 6 * length (ch_conns ch)
                   = length (h_live h) + length (qblocks q') + 6 * length (ch_conns (r_chan r)))
     \/
     (r_query r = None /\ r_cbs r = [ARES_ENOMEM] /\ r_status r = ARES_ENOMEM /\ (exists n, f n = false) /\
      ch_all (r_chan r) = ch_all ch /\ ch_byqid (r_chan r) = ch_byqid ch /\ ch_bytmo (r_chan r) = ch_bytmo ch /\
      (forall c, In c (ch_conns (r_chan r)) -> In c (ch_conns ch) \/ cn_queries c = []) /\
      length (h_live h') + 6 * length (ch_conns ch) = length (h_live h) + 6 * length (ch_conns (r_chan r)))).
Proof.
  intros _ (Hns & Hca & Hdu & H20 & Hatt) Hok Hfr Hmod.
  destruct (send_exactly_once f E ch qid h Hok Hfr Hmod) as (r & h' & Hrun & Hpost).
  exists r, h'. split; [exact Hrun|]. unfold submit_post in Hpost.
  destruct Hpost as (A & B & C & Hm). split; [exact A|].
  destruct (r_query r) as [q'|].
  - left. destruct Hm as (M1 & M2 & M3 & M4 & M5 & M6 & M7 & M8 & M9).
    exists q'. split; [reflexivity|]. split; [exact M1|]. split; [exact M2|]. split; [exact M3|].
    split; [exact M5|]. split; [exact M6|]. split; [exact M7|]. exact M9.
  - right. destruct Hm as ((st & S1 & S2 & S3 & S4) & M2 & M3 & M4 & M5).
    assert (Hext : ~ ext_status E st \/ st = ARES_SUCCESS).
    { destruct (Z.eq_dec st ARES_SUCCESS) as [Hs|Hs]; [right; exact Hs|]. left.
      intros [[att Ha]|[att Ha]]; destruct (Hatt att) as (_ & Hs1 & Hs2); congruence. }
    assert (Hne : st <> ARES_SUCCESS).
    { intros Hs. destruct (S3 Hs) as (Hn & Hc & _). destruct Hca as [Hca|Hca]; [congruence|].
      rewrite Hca in Hc. discriminate Hc. }
    destruct Hext as [Hext|Hext]; [|contradiction].
    assert (Hst : st = ARES_ENOMEM /\ exists n, f n = false).
    { destruct S2 as [[S2|[[S2 [att Ha]]|S2]] | [[S2 _] | [(Sn & Sc & Sc') | [(S2 & S2') | (S2 & _)]]]].
      - exact S2.
      - destruct (Hatt att) as (Hs0 & _). congruence.
      - contradiction.
      - contradiction.
      - destruct Hca as [Hca|Hca]; [congruence|]. rewrite Hca in Sc. contradiction.
      - contradiction.
      - rewrite H20 in S2. contradiction. }
    destruct Hst as [-> Haf].
    split; [reflexivity|]. split; [exact S1|].
    split; [destruct S4 as [S4|[_ S4]]; [exact S4 | contradiction]|].
    split; [exact Haf|]. split; [exact M2|]. split; [exact M3|]. split; [exact M4|].
    split; [|exact M5].
    intros c Hc. apply C in Hc. destruct Hc as [Hc|[Hc|Hc]]; [left; exact Hc | right; exact Hc | contradiction].
Qed.

(* so without any refusal the request proceeds *)
Corollary send_no_failure_proceeds f E ch qid h :
  no_failure f -> env_all_ok E -> heap_ok h -> fresh_qid ch qid -> env_modelled E ch ->
  exists r h' q', send_nolock f E ch qid h = Ok (r, h') /\ r_query r = Some q' /\ r_cbs r = [].
Proof.
  intros Hnf He Hok Hfr Hm.
  destruct (send_single_failure f E ch qid h (or_introl Hnf) He Hok Hfr Hm) as (r & h' & Hrun & _ & Hc).
  destruct Hc as [(q' & Hq & Hcb & _) | (_ & _ & _ & (n & Hn) & _)].
  - exists r, h', q'. auto.
  - rewrite Hnf in Hn. discriminate.
Qed.

(* the property's oracle (Alloc/Oracle.v) accepts the model's observation of a failed submission *)
Corollary send_failure_judged f E ch qid h base_cb base_ret :
  single_failure f -> env_all_ok E -> heap_ok h -> fresh_qid ch qid -> env_modelled E ch ->
  exists r h', send_nolock f E ch qid h = Ok (r, h') /\
    (r_query r = None ->
     judge_tok (mkTok qid 1 (r_cbs r) (Some (r_status r)) base_cb base_ret true false false true) = []).
Proof.
  intros Hs He Hok Hfr Hm.
  destruct (send_single_failure f E ch qid h Hs He Hok Hfr Hm) as (r & h' & Hrun & _ & Hc).
  exists r, h'. split; [exact Hrun|]. intros Hq.
  destruct Hc as [(q' & Hq' & _) | (_ & Hcb & Hst & _)]; [congruence|].
  rewrite Hcb, Hst. unfold judge_tok, judge_status, judge_ret. cbn [t_cb t_reqs t_id t_ret t_base_cb t_base_ret t_payload_same t_partial t_after_failure t_same_dialogue length flat_map].
  destruct (zmem ARES_ENOMEM base_cb); destruct (opt_eqb (Some ARES_ENOMEM) base_ret); reflexivity.
Qed.

(* non-vacuity: a concrete channel with one connection and two outstanding requests; the
   failure of the group G_qid (6th request of the submission) is unwound completely *)
Example send_example :
  let E := mkEnv 2 2 false false ARES_ENOTFOUND ARES_SUCCESS false true ARES_SUCCESS
                 (fun _ => true) (fun _ => None) (fun _ => ARES_SUCCESS) (fun _ => ARES_SUCCESS) in
  let c0 := mkConn 10 11 12 13 14 15 false [(7%Z, 16); (8%Z, 17)] 2 in
  let ch := mkChan [7; 8]%Z [8; 7]%Z [7; 8]%Z [c0] 0 in
  let h := mkHeap 30 [17; 16; 15; 14; 13; 12; 11; 10] in
  heap_ok h /\ fresh_qid ch 9%Z /\ env_modelled E ch /\ env_all_ok E /\
  send_nolock (fail_at 35) E ch 9%Z h
    = Ok (mkRes ARES_ENOMEM [ARES_ENOMEM] None ch, mkHeap 36 [17; 16; 15; 14; 13; 12; 11; 10]) /\
  (exists r h', send_nolock never_fail E ch 9%Z h = Ok (r, h') /\ r_cbs r = [] /\
                ch_bytmo (r_chan r) = [9; 7; 8]%Z /\ length (h_live h') = 8 + 6 + 7).
Proof.
  cbv zeta. split; [|split; [|split; [|split; [|split]]]].
  - split; [explicit_nodup | intros b Hb; simpl in *; lia].
  - unfold fresh_qid; simpl. repeat split; intros [H|[H|[]]]; discriminate.
  - split; simpl; [intros; discriminate | intros; split; discriminate].
  - unfold env_all_ok; simpl. repeat split; auto; discriminate.
  - vm_compute. reflexivity.
  - eexists; eexists. vm_compute. repeat split; reflexivity.
Qed.
