(* C14 - the request-submission path under allocation failure:
     ares_send_nolock (src/lib/ares_send.c)
       -> ares_send_query, ares_requeue_query, end_query, ares_free_query (src/lib/ares_process.c)
       -> ares_open_connection (src/lib/ares_conn.c)
   in the shape of the C code: same checks, same order, same error exits, same unwinding.

   GRANULARITY.  The path is modelled at the level of ALLOCATION GROUPS: every callee that
   allocates consumes ONE oracle answer ("does this callee obtain all the memory it asks
   for?") and, if the answer is yes, yields ONE block standing for everything the callee
   keeps.  The groups, in program order:

     G_key    ares_qcache_fetch -> ares_qcache_calc_key        (temporary; freed at once)
     G_query  ares_malloc(sizeof(ares_query_t))
     G_dup    ares_dns_record_duplicate_ex                      (kept: query->query)
     G_0x20   ares_apply_dns0x20 -> ares_dns_record_query_set_name   (strdup; kept in the record)
     G_all    ares_llist_insert_last(channel->all_queries)
     G_qid    ares_htable_szvp_insert(channel->queries_by_qid)
     ares_send_query, per attempt:
       ares_open_connection when no usable connection exists:
         G_conn  ares_malloc(sizeof conn)
         G_cq    ares_llist_create        } all three are executed before the NULL check
         G_out   ares_buf_create          }
         G_in    ares_buf_create          }
         G_cnode ares_llist_insert_first/last(server->connections)
         G_sock  ares_htable_asvp_insert(channel->connnode_by_socket)
       G_write ares_conn_query_write: ares_cookie_apply + ares_dns_write_buf_tcp into conn->out_buf
       G_tmo   ares_slist_insert(channel->queries_by_timeout)
       G_cqn   ares_llist_insert_last(conn->queries_to_conn)

   That a group is all-or-nothing (a callee that fails half way releases what it took and
   leaves its container unchanged) is PROVED for the container groups (Alloc/ListAlloc_proofs,
   HtableAlloc_proofs, BufAlloc_proofs, Dsa/Array_alloc) and ASSUMED for G_key, G_dup, G_0x20 and
   G_write (record parser/writer, cookie code: enumeration only).  Growth that a container keeps
   for itself after a failed insert (a completed hash-table expansion, an empty chain header,
   a grown out_buf) is the container's own and is not tracked here.

   Everything that is not the allocator is an external answer in [env]: server count, cache
   result, status of the record duplicate / 0x20 rewrite, whether a connection can be re-used,
   status of the socket calls and of the write, per attempt.  The callback is an output. *)
From CAres.Core Require Export AllocFault.
From CAres.Gen Require Import Consts.
Local Open Scope nat_scope.

Record env := mkEnv {
  e_nservers : nat;              (* ares_slist_len(channel->servers) *)
  e_tries : nat;                 (* channel->tries *)
  e_nocache : bool;              (* ARES_SEND_FLAG_NOCACHE *)
  e_noretry : bool;              (* ARES_SEND_FLAG_NORETRY *)
  e_cache : Z;                   (* ares_qcache_fetch once the key exists: ARES_ENOTFOUND = miss *)
  e_dup : Z;                     (* ares_dns_record_duplicate_ex when memory suffices *)
  e_usevc : bool;                (* ARES_FLAG_USEVC *)
  e_0x20 : bool;                 (* ARES_FLAG_DNS0x20 *)
  e_0x20_status : Z;             (* ares_apply_dns0x20 when memory suffices *)
  e_server : nat -> bool;        (* attempt -> a server could be chosen *)
  e_reuse : nat -> option nat;   (* attempt -> ares_fetch_connection: index of a usable connection *)
  e_sock : nat -> Z;             (* attempt -> status of set_sockaddr/socket/configure/connect/self_ip *)
  e_write : nat -> Z }.          (* attempt -> status of cookie_apply/dns_write/flush when memory suffices *)

Record conn := mkConn {
  cn_blk : blk;                  (* ares_conn_t *)
  cn_cq : blk;                   (* conn->queries_to_conn (list header) *)
  cn_out : blk;                  (* conn->out_buf *)
  cn_in : blk;                   (* conn->in_buf *)
  cn_node : blk;                 (* node in server->connections *)
  cn_sock : blk;                 (* entry in channel->connnode_by_socket *)
  cn_tcp : bool;
  cn_queries : list (Z * blk);   (* queries_to_conn: (qid, node) *)
  cn_total : nat }.              (* total_queries *)

Record query := mkQuery {
  q_qid : Z;
  q_blk : blk;
  q_rec : option blk;            (* query->query *)
  q_name : option blk;           (* the 0x20 name stored in the record *)
  q_all : option blk;            (* node_all_queries *)
  q_qide : option blk;           (* entry in queries_by_qid *)
  q_tmo : option blk;            (* node_queries_by_timeout *)
  q_cqn : option (nat * blk);    (* node_queries_to_conn: (connection index, node) *)
  q_try : nat;                   (* try_count *)
  q_err : Z;                     (* error_status *)
  q_tcp : bool }.                (* using_tcp *)

Record chan := mkChan {
  ch_all : list Z;               (* all_queries *)
  ch_byqid : list Z;             (* queries_by_qid *)
  ch_bytmo : list Z;             (* queries_by_timeout *)
  ch_conns : list conn;          (* server->connections (+ connnode_by_socket) *)
  ch_closed : nat }.             (* sockets closed by a failed ares_open_connection *)

(* what a call hands back: return status, callbacks issued (status each), the query if it is
   still alive (registered), the channel *)
Record result := mkRes {
  r_status : Z;
  r_cbs : list Z;
  r_query : option query;
  r_chan : chan }.

Definition NOT_MODELLED : Z := (-3)%Z.

Definition remove_z (x : Z) (l : list Z) : list Z := filter (fun y => negb (Z.eqb x y)) l.
Definition memz (x : Z) (l : list Z) : bool := existsb (Z.eqb x) l.

Definition upd_conn (l : list conn) (i : nat) (g : conn -> conn) : list conn :=
  match nth_error l i with
  | Some c => firstn i l ++ g c :: skipn (S i) l
  | None => l
  end.

Section Send.
  Variable f : oracle.
  Variable E : env.

  (* a group: one oracle answer, one block *)
  Definition group : M (option blk) := malloc f.

  (* ares_query_remove_from_conn *)
  Definition remove_from_conn (ch : chan) (q : query) : M (chan * query) :=
    free_opts [q_tmo q; option_map snd (q_cqn q)] ;;;
    let ch1 := mkChan (ch_all ch) (ch_byqid ch)
                      (match q_tmo q with Some _ => remove_z (q_qid q) (ch_bytmo ch) | None => ch_bytmo ch end)
                      (match q_cqn q with
                       | Some (i, _) => upd_conn (ch_conns ch) i
                           (fun c => mkConn (cn_blk c) (cn_cq c) (cn_out c) (cn_in c) (cn_node c) (cn_sock c) (cn_tcp c)
                                            (filter (fun p => negb (Z.eqb (fst p) (q_qid q))) (cn_queries c)) (cn_total c))
                       | None => ch_conns ch
                       end)
                      (ch_closed ch) in
    ret (ch1, mkQuery (q_qid q) (q_blk q) (q_rec q) (q_name q) (q_all q) (q_qide q) None None
                      (q_try q) (q_err q) (q_tcp q)).

  (* ares_free_query: ares_detach_query, destroy the record, free the query *)
  Definition free_query (ch : chan) (q : query) : M chan :=
    r <- remove_from_conn ch q ;;
    let (ch1, q1) := r in
    (* ares_htable_szvp_remove (a missing key is a no-op), ares_llist_node_destroy (NULL is a
       no-op), ares_dns_record_destroy, ares_free(query) *)
    free_opts [q_qide q1; q_all q1; q_name q1; q_rec q1; Some (q_blk q1)] ;;;
    ret (mkChan (match q_all q1 with Some _ => remove_z (q_qid q) (ch_all ch1) | None => ch_all ch1 end)
                (match q_qide q1 with Some _ => remove_z (q_qid q) (ch_byqid ch1) | None => ch_byqid ch1 end)
                (ch_bytmo ch1) (ch_conns ch1) (ch_closed ch1)).

  (* end_query: callback, then ares_free_query *)
  Definition end_query (ch : chan) (q : query) (status : Z) (cbs : list Z) : M result :=
    ch1 <- free_query ch q ;;
    ret (mkRes status (cbs ++ [status]) None ch1).

  (* label done: of ares_open_connection with status != ARES_SUCCESS *)
  Definition open_conn_undo (ch : chan) (conn cq out inb node : option blk) (sock_open : bool) : M chan :=
    (* ares_llist_node_claim(node); ares_llist_destroy(conn->queries_to_conn);
       ares_socket_close; ares_buf_destroy x2; ares_free(conn) *)
    free_opts [node; cq; out; inb; conn] ;;;
    ret (mkChan (ch_all ch) (ch_byqid ch) (ch_bytmo ch) (ch_conns ch)
                (if sock_open then S (ch_closed ch) else ch_closed ch)).

  (* ares_open_connection: status, the new connection's index *)
  Definition open_connection (ch : chan) (is_tcp : bool) (att : nat) : M (Z * option nat * chan) :=
    conn <- group ;;
    match conn with
    | None => ret (ARES_ENOMEM, None, ch)
    | Some cb =>
      cq <- group ;; out <- group ;; inb <- group ;;
      match cq, out, inb with
      | Some q, Some o, Some i =>
        if negb (Z.eqb (e_sock E att) ARES_SUCCESS)
        then ch1 <- open_conn_undo ch conn cq out inb None
                      (negb (Z.eqb (e_sock E att) ARES_EBADFAMILY)) ;;
             ret (e_sock E att, None, ch1)
        else
          node <- group ;;
          match node with
          | None => ch1 <- open_conn_undo ch conn cq out inb None true ;; ret (ARES_ENOMEM, None, ch1)
          | Some nd =>
            se <- group ;;
            match se with
            | None => ch1 <- open_conn_undo ch conn cq out inb node true ;; ret (ARES_ENOMEM, None, ch1)
            | Some s =>
              let c := mkConn cb q o i nd s is_tcp [] 0 in
              (* TCP connections go to the end of the list, UDP ones to the front *)
              let conns := if is_tcp then ch_conns ch ++ [c] else c :: ch_conns ch in
              ret (ARES_SUCCESS, Some (if is_tcp then length (ch_conns ch) else 0),
                   mkChan (ch_all ch) (ch_byqid ch) (ch_bytmo ch) conns (ch_closed ch))
            end
          end
      | _, _, _ => ch1 <- open_conn_undo ch conn cq out inb None false ;; ret (ARES_ENOMEM, None, ch1)
      end
    end.

  (* ares_requeue_query(query, now, status, inc_try_count = TRUE, dnsrec = NULL, requeue = NULL);
     [resend] is ares_send_query(NULL, query, now) *)
  Definition requeue_query (resend : chan -> query -> list Z -> M result)
             (ch : chan) (q : query) (status : Z) (cbs : list Z) : M result :=
    r <- remove_from_conn ch q ;;
    let (ch1, q1) := r in
    let q2 := mkQuery (q_qid q1) (q_blk q1) (q_rec q1) (q_name q1) (q_all q1) (q_qide q1) (q_tmo q1) (q_cqn q1)
                      (S (q_try q1)) (if Z.eqb status ARES_SUCCESS then q_err q1 else status) (q_tcp q1) in
    if Nat.ltb (q_try q2) (e_nservers E * e_tries E) && negb (e_noretry E)
    then resend ch1 q2 cbs
    else
      let st := if Z.eqb (q_err q2) ARES_SUCCESS then ARES_ETIMEOUT else q_err q2 in
      r <- end_query ch1 q2 st cbs ;;
      ret (mkRes ARES_ETIMEOUT (r_cbs r) (r_query r) (r_chan r)).

  (* the body of ares_send_query; [resend] is the recursive call made by ares_requeue_query *)
  Definition send_query_step (resend : chan -> query -> list Z -> M result)
             (ch : chan) (q : query) (cbs : list Z) : M result :=
    let att := q_try q in
    if negb (e_server E att) then end_query ch q ARES_ENOSERVER cbs
    else
      (* conn = ares_fetch_connection(); if (conn == NULL) ares_open_connection() *)
      oc <- match e_reuse E att with
            | Some i => ret (ARES_SUCCESS, Some i, ch)
            | None => open_connection ch (q_tcp q) att
            end ;;
      let '(ost, oci, ch1) := oc in
      match oci with
      | None =>
        if Z.eqb ost ARES_ECONNREFUSED || Z.eqb ost ARES_EBADFAMILY
        then requeue_query resend ch1 q ost cbs                 (* server_increment_failures; requeue *)
        else end_query ch1 q ost cbs                            (* "likely ENOMEM" *)
      | Some ci =>
        (* ares_conn_query_write *)
        w <- group ;;
        match w with
        | None => end_query ch1 q ARES_ENOMEM cbs
        | Some wb =>
          free (Some wb) ;;;          (* temporaries of the writer; a grown out_buf is the connection's *)
          let wst := e_write E att in
          if Z.eqb wst ARES_ENOMEM then end_query ch1 q ARES_ENOMEM cbs
          else if Z.eqb wst ARES_ECONNREFUSED || Z.eqb wst ARES_EBADFAMILY then
            (* handle_conn_error closes the connection and requeues every other query on it:
               outside this model *)
            errM NOT_MODELLED
          else if negb (Z.eqb wst ARES_SUCCESS) then requeue_query resend ch1 q wst cbs
          else
            (* ares_slist_node_destroy(query->node_queries_by_timeout); ares_slist_insert *)
            free_opts [q_tmo q] ;;;
            tn <- group ;;
            let q1 := mkQuery (q_qid q) (q_blk q) (q_rec q) (q_name q) (q_all q) (q_qide q) tn (q_cqn q)
                              (q_try q) (q_err q) (q_tcp q) in
            match tn with
            | None => end_query ch1 q1 ARES_ENOMEM cbs
            | Some _ =>
              let ch2 := mkChan (ch_all ch1) (ch_byqid ch1) (q_qid q :: remove_z (q_qid q) (ch_bytmo ch1))
                                (ch_conns ch1) (ch_closed ch1) in
              (* ares_llist_node_destroy(query->node_queries_to_conn); ares_llist_insert_last *)
              free_opts [option_map snd (q_cqn q1)] ;;;
              cn <- group ;;
              match cn with
              | None =>
                end_query ch2 (mkQuery (q_qid q1) (q_blk q1) (q_rec q1) (q_name q1) (q_all q1) (q_qide q1)
                                       (q_tmo q1) None (q_try q1) (q_err q1) (q_tcp q1)) ARES_ENOMEM cbs
              | Some nb =>
                let q2 := mkQuery (q_qid q1) (q_blk q1) (q_rec q1) (q_name q1) (q_all q1) (q_qide q1)
                                  (q_tmo q1) (Some (ci, nb)) (q_try q1) (q_err q1) (q_tcp q1) in
                let ch3 := mkChan (ch_all ch2) (ch_byqid ch2) (ch_bytmo ch2)
                                  (upd_conn (ch_conns ch2) ci
                                     (fun c => mkConn (cn_blk c) (cn_cq c) (cn_out c) (cn_in c) (cn_node c) (cn_sock c)
                                                      (cn_tcp c) (cn_queries c ++ [(q_qid q, nb)]) (S (cn_total c))))
                                  (ch_closed ch2) in
                ret (mkRes ARES_SUCCESS cbs (Some q2) ch3)
              end
            end
        end
      end.

  (* ares_send_query; fuel bounds the re-sends (send_query_fuel is always enough) *)
  Fixpoint send_query (fuel : nat) (ch : chan) (q : query) (cbs : list Z) : M result :=
    match fuel with
    | 0 => errM OutOfFuel
    | S fu => send_query_step (send_query fu) ch q cbs
    end.

  Definition send_query_fuel : nat := S (e_nservers E * e_tries E).

  (* ares_send_nolock(channel, server = NULL, flags, dnsrec, callback, arg, qid) *)
  Definition send_nolock (ch : chan) (qid : Z) : M result :=
    if Nat.eqb (e_nservers E) 0 then ret (mkRes ARES_ENOSERVER [ARES_ENOSERVER] None ch)
    else
      c <- (if e_nocache E then ret ARES_ENOTFOUND
            else k <- group ;;
                 match k with
                 | None => ret ARES_ENOMEM
                 | Some kb => free (Some kb) ;;; ret (e_cache E)
                 end) ;;
      if negb (Z.eqb c ARES_ENOTFOUND) then ret (mkRes c [c] None ch)
      else
        qb <- group ;;
        match qb with
        | None => ret (mkRes ARES_ENOMEM [ARES_ENOMEM] None ch)
        | Some qblk =>
          d <- group ;;
          match d with
          | None => free (Some qblk) ;;; ret (mkRes ARES_ENOMEM [ARES_ENOMEM] None ch)
          | Some rb =>
            if negb (Z.eqb (e_dup E) ARES_SUCCESS)
            then
              let st := if Z.eqb (e_dup E) ARES_EBADRESP then ARES_EBADQUERY else e_dup E in
              free (Some rb) ;;; free (Some qblk) ;;; ret (mkRes st [st] None ch)
            else
              let q0 := mkQuery qid qblk (Some rb) None None None None None 0 ARES_SUCCESS (e_usevc E) in
              x <- (if e_0x20 E && negb (e_usevc E)
                    then nm <- group ;;
                         match nm with
                         | None => ret (ARES_ENOMEM, None)
                         | Some nb => if Z.eqb (e_0x20_status E) ARES_SUCCESS then ret (ARES_SUCCESS, Some nb)
                                      else free (Some nb) ;;; ret (e_0x20_status E, None)
                         end
                    else ret (ARES_SUCCESS, None)) ;;
              let (xst, xnm) := x in
              let q1 := mkQuery qid qblk (Some rb) xnm None None None None 0 ARES_SUCCESS (e_usevc E) in
              if negb (Z.eqb xst ARES_SUCCESS)
              then ch1 <- free_query ch q1 ;; ret (mkRes xst [xst] None ch1)      (* callback; ares_free_query *)
              else
                an <- group ;;
                let q2 := mkQuery qid qblk (Some rb) xnm an None None None 0 ARES_SUCCESS (e_usevc E) in
                match an with
                | None => ch1 <- free_query ch q2 ;; ret (mkRes ARES_ENOMEM [ARES_ENOMEM] None ch1)
                | Some _ =>
                  let ch1 := mkChan (ch_all ch ++ [qid]) (ch_byqid ch) (ch_bytmo ch) (ch_conns ch) (ch_closed ch) in
                  qe <- group ;;
                  let q3 := mkQuery qid qblk (Some rb) xnm an qe None None 0 ARES_SUCCESS (e_usevc E) in
                  match qe with
                  | None => ch2 <- free_query ch1 q3 ;; ret (mkRes ARES_ENOMEM [ARES_ENOMEM] None ch2)
                  | Some _ =>
                    let ch2 := mkChan (ch_all ch1) (qid :: ch_byqid ch1) (ch_bytmo ch1) (ch_conns ch1) (ch_closed ch1) in
                    send_query send_query_fuel ch2 q3 []
                  end
                end
          end
        end.
End Send.
