(* C14 - the work-stack model of the submission path (Alloc/SendWork.v): for EVERY oracle and
   environment, whatever connections are refused and closed on the way, every request - the
   submitted one and all the others that get requeued - is called back at most once, a request
   that was called back is gone from every index, nothing is freed twice, and the ledger
   balances: every live block is owned by a live request or connection. *)
From Coq Require Import Permutation.
From CAres.Alloc Require Import SendWork.
From CAres.Gen Require Import Consts.
Local Open Scope nat_scope.

Local Arguments Nat.eqb : simpl never.
Local Arguments Nat.ltb : simpl never.
Local Arguments Z.eqb : simpl never.
Local Arguments wc_blocks : simpl never.

(* ------------------------------------------------------------------------------------ *)
(* ownership state: the blocks in O are distinct, live, and account for the whole ledger  *)
(* ------------------------------------------------------------------------------------ *)
Definition OS (base : nat) (O : list blk) (h : heap) : Prop :=
  heap_ok h /\ NoDup O /\ incl O (h_live h) /\ length (h_live h) = base + length O.

Lemma os_perm base O O' h : Permutation O O' -> OS base O h -> OS base O' h.
Proof.
  intros P (A & B & C & D). split; [exact A|]. split; [eapply Permutation_NoDup; eauto|].
  split; [intros x Hx; apply C; eapply Permutation_in; [apply Permutation_sym; exact P | exact Hx]|].
  rewrite <- (Permutation_length P). exact D.
Qed.

Lemma os_free base F R h :
  OS base (F ++ R) h ->
  exists h', free_all F h = Ok (tt, h') /\ OS base R h' /\ h_next h' = h_next h.
Proof.
  intros (A & B & C & D).
  destruct (NoDup_app_inv _ _ B) as (BF & BR & Bdis).
  destruct (free_all_ok F h A BF) as (h' & Hr & Hok & Hn & Hl & Hi).
  { intros x Hx. apply C. apply in_or_app. left. exact Hx. }
  exists h'. split; [exact Hr|]. split; [|exact Hn].
  split; [exact Hok|]. split; [exact BR|]. split.
  - intros x Hx. apply Hi. split; [apply C; apply in_or_app; right; exact Hx|].
    intros Hxf. exact (Bdis x Hxf Hx).
  - rewrite app_length in D. lia.
Qed.

Lemma os_free_opts base l R h :
  OS base (cat_somes l ++ R) h ->
  exists h', free_opts l h = Ok (tt, h') /\ OS base R h' /\ h_next h' = h_next h.
Proof. unfold free_opts. apply os_free. Qed.

Lemma os_malloc f base O h :
  OS base O h ->
  (f (h_next h) = true /\ malloc f h = Ok (Some (h_next h), mkHeap (S (h_next h)) (h_next h :: h_live h)) /\
   OS base (h_next h :: O) (mkHeap (S (h_next h)) (h_next h :: h_live h))) \/
  (f (h_next h) = false /\ malloc f h = Ok (None, mkHeap (S (h_next h)) (h_live h)) /\
   OS base O (mkHeap (S (h_next h)) (h_live h))).
Proof.
  intros (A & B & C & D).
  destruct (malloc_cases f h) as [[Ef M]|[Ef M]]; [left | right]; (split; [exact Ef|]); (split; [exact M|]).
  - split; [apply heap_ok_push; exact A|]. cbn [h_live]. split.
    + constructor; [|exact B]. intros Hin. apply C in Hin. exact (heap_ok_fresh h A Hin).
    + split; [intros x [<-|Hx]; [left; reflexivity | right; apply C; exact Hx]|]. simpl. lia.
  - split; [apply heap_ok_skip; exact A|]. cbn [h_live]. auto.
Qed.

(* ------------------------------------------------------------------------------------ *)
(* request lists                                                                          *)
(* ------------------------------------------------------------------------------------ *)
Definition qblks (q : query) : list blk := cat_somes (qall q).
Definition all_qblks (qs : list query) : list blk := flat_map qblks qs.
Definition cblks (c : option wconn) : list blk := match c with Some c => wc_blocks c | None => [] end.
Definition all_cblks (cs : list (option wconn)) : list blk := flat_map cblks cs.
Definition item_blks (it : witem) : list blk := match it with WCloseFinish b => b | _ => [] end.
Definition item_qid (it : witem) : list Z := match it with WRequeue q _ => [q] | _ => [] end.
Definition work_blks (w : list witem) : list blk := flat_map item_blks w.
Definition work_qids (w : list witem) : list Z := flat_map item_qid w.
Definition qids (qs : list query) : list Z := map q_qid qs.

Definition owned (ch : wchan) (work : list witem) : list blk :=
  all_qblks (w_queries ch) ++ all_cblks (w_conns ch) ++ work_blks work.

Lemma find_query_In qs qid q : find_query qs qid = Some q -> In q qs /\ q_qid q = qid.
Proof.
  induction qs as [|x r IH]; simpl; [discriminate|].
  destruct (Z.eqb_spec (q_qid x) qid) as [E|E]; intros H.
  - inversion H; subst. auto.
  - destruct (IH H). auto.
Qed.

Lemma find_query_some qs qid : In qid (qids qs) -> exists q, find_query qs qid = Some q.
Proof.
  induction qs as [|x r IH]; simpl; [intros []|].
  destruct (Z.eqb_spec (q_qid x) qid) as [E|E]; [eauto|].
  intros [H|H]; [contradiction | apply IH; exact H].
Qed.

Lemma del_query_qids qs qid : qids (del_query qs qid) = filter (fun x => negb (Z.eqb x qid)) (qids qs).
Proof.
  unfold qids, del_query. induction qs as [|x r IH]; simpl; [reflexivity|].
  destruct (Z.eqb (q_qid x) qid); simpl; [exact IH | rewrite IH; reflexivity].
Qed.

Lemma filter_notin_id (l : list Z) x : ~ In x l -> filter (fun y => negb (Z.eqb y x)) l = l.
Proof.
  induction l as [|y r IH]; simpl; intros H; [reflexivity|].
  destruct (Z.eqb_spec y x) as [E|E]; [exfalso; apply H; left; exact E|]. simpl. f_equal. apply IH. tauto.
Qed.

(* a request with a unique identifier can be split off *)
Lemma del_query_notin qs qid : ~ In qid (qids qs) -> del_query qs qid = qs.
Proof.
  unfold del_query, qids. induction qs as [|y r IH]; simpl; intros H; [reflexivity|].
  destruct (Z.eqb_spec (q_qid y) qid) as [E|E]; [exfalso; apply H; left; exact E|].
  simpl. f_equal. apply IH. tauto.
Qed.

Lemma del_query_cons x r qid :
  del_query (x :: r) qid = if Z.eqb (q_qid x) qid then del_query r qid else x :: del_query r qid.
Proof. unfold del_query. simpl. destruct (Z.eqb (q_qid x) qid); reflexivity. Qed.

Lemma qids_split qs q :
  NoDup (qids qs) -> In q qs ->
  Permutation qs (q :: del_query qs (q_qid q)) /\ ~ In (q_qid q) (qids (del_query qs (q_qid q))).
Proof.
  induction qs as [|x r IH]; intros Hnd Hin; [destruct Hin|].
  cbn [qids map] in Hnd. inversion Hnd as [|? ? Hx Hr]; subst.
  rewrite del_query_cons.
  destruct Hin as [->|Hin].
  - rewrite Z.eqb_refl. rewrite (del_query_notin r (q_qid q) Hx).
    split; [apply Permutation_refl | exact Hx].
  - destruct (Z.eqb_spec (q_qid x) (q_qid q)) as [E|E].
    + exfalso. apply Hx. rewrite E. apply in_map. exact Hin.
    + destruct (IH Hr Hin) as [P N]. split.
      * eapply Permutation_trans; [apply perm_skip; exact P | apply perm_swap].
      * cbn [qids map]. intros [H|H]; [congruence | exact (N H)].
Qed.

Lemma all_qblks_perm qs qs' : Permutation qs qs' -> Permutation (all_qblks qs) (all_qblks qs').
Proof. intros P. unfold all_qblks. apply Permutation_flat_map. exact P. Qed.

Lemma del_query_nodup qs qid : NoDup (qids qs) -> NoDup (qids (del_query qs qid)).
Proof. intros H. rewrite del_query_qids. apply NoDup_filter. exact H. Qed.

Lemma os_same_live base R h h1 : OS base R h -> heap_ok h1 -> h_live h1 = h_live h -> OS base R h1.
Proof. intros (A & B & C & D) Hok Hl. split; [exact Hok|]. rewrite Hl. auto. Qed.

Lemma os_push_new base R h h1 new :
  OS base R h -> heap_ok h1 -> h_live h1 = new ++ h_live h -> OS base (new ++ R) h1.
Proof.
  intros (A & B & C & D) Hok Hl. split; [exact Hok|].
  destruct Hok as [Hnd _]. rewrite Hl in Hnd. destruct (NoDup_app_inv _ _ Hnd) as (Hn1 & Hn2 & Hdis).
  split.
  - apply NoDup_app_intro; [exact Hn1 | exact B|]. intros x Hx Hr. exact (Hdis x Hx (C x Hr)).
  - split.
    + rewrite Hl. intros x Hx. apply in_app_or in Hx. apply in_or_app. destruct Hx as [Hx|Hx]; [left; exact Hx | right; apply C; exact Hx].
    + rewrite Hl, !app_length. lia.
Qed.

Section Ops.
  Variable f : oracle.
  Variable E : wenv.

  Lemma w_open_connection_spec ch tcp sock h :
    heap_ok h ->
    exists st oci ch1 h1, w_open_connection f ch tcp sock h = Ok ((st, oci, ch1), h1) /\ heap_ok h1 /\
      h_next h <= h_next h1 /\ w_queries ch1 = w_queries ch /\
      ((oci = None /\ st <> ARES_SUCCESS /\ w_conns ch1 = w_conns ch /\ h_live h1 = h_live h) \/
       (exists c, oci = Some (length (w_conns ch)) /\ st = ARES_SUCCESS /\
                  w_conns ch1 = w_conns ch ++ [Some c] /\
                  exists new, Permutation new (wc_blocks c) /\ h_live h1 = new ++ h_live h)).
  Proof.
    intros Hok.
    remember (w_open_connection f ch tcp sock h) as R eqn:HR.
    unfold w_open_connection, group in HR.
    set (n0 := h_next h) in *.
    assert (Hfail : forall n st cl, n0 <= n -> st <> ARES_SUCCESS ->
              R = Ok (st, None, mkWchan (w_conns ch) (w_queries ch) cl, mkHeap n (h_live h)) ->
              exists st oci ch1 h1, R = Ok ((st, oci, ch1), h1) /\ heap_ok h1 /\ n0 <= h_next h1 /\
                w_queries ch1 = w_queries ch /\
                ((oci = None /\ st <> ARES_SUCCESS /\ w_conns ch1 = w_conns ch /\ h_live h1 = h_live h) \/
                 (exists c, oci = Some (length (w_conns ch)) /\ st = ARES_SUCCESS /\
                            w_conns ch1 = w_conns ch ++ [Some c] /\
                            exists new, Permutation new (wc_blocks c) /\ h_live h1 = new ++ h_live h))).
    { intros n st cl Hn Hst HR'. rewrite HR'. eexists; eexists; eexists; eexists.
      split; [reflexivity|]. split; [apply heap_ok_next; [assumption | exact Hn]|].
      cbn [h_next h_live w_queries w_conns]. split; [exact Hn|]. split; [reflexivity|]. left. auto. }
    assert (Hnm : ARES_ENOMEM <> ARES_SUCCESS) by discriminate.
    step_malloc_in HR.
    2:{ unfold ret in HR. eapply (Hfail (S n0) ARES_ENOMEM (w_closed ch)); [lia | exact Hnm|].
        rewrite HR. destruct ch; reflexivity. }
    step_malloc_in HR; step_malloc_in HR; step_malloc_in HR.
    2-8: (step_undo_in HR (h_live h); unfold ret in HR; cbv beta iota in HR;
          eapply (Hfail (S (S (S (S n0)))) ARES_ENOMEM (w_closed ch)); [lia | exact Hnm|];
          rewrite HR; destruct ch; reflexivity).
    destruct (Z.eqb sock ARES_SUCCESS) eqn:Es; cbn [negb] in HR; cbv iota in HR.
    2:{ step_undo_in HR (h_live h); unfold ret in HR; cbv beta iota in HR.
        assert (Hne : sock <> ARES_SUCCESS) by (intros Heq; rewrite Heq in Es; discriminate).
        eapply (Hfail (S (S (S (S n0)))) sock); [lia | exact Hne | exact HR]. }
    step_malloc_in HR.
    2:{ step_undo_in HR (h_live h); unfold ret in HR; cbv beta iota in HR.
        eapply (Hfail (S (S (S (S (S n0))))) ARES_ENOMEM); [lia | exact Hnm | exact HR]. }
    step_malloc_in HR.
    2:{ step_undo_in HR (h_live h); unfold ret in HR; cbv beta iota in HR.
        eapply (Hfail (S (S (S (S (S (S n0)))))) ARES_ENOMEM); [lia | exact Hnm | exact HR]. }
    unfold ret in HR. rewrite HR.
    eexists; eexists; eexists; eexists. split; [reflexivity|].
    split.
    { do 6 (apply heap_ok_push in Hok; cbn [h_next h_live] in Hok). exact Hok. }
    cbn [h_next h_live w_queries w_conns]. split; [lia|]. split; [reflexivity|]. right.
    eexists. split; [reflexivity|]. split; [reflexivity|]. split; [reflexivity|].
    exists [S (S (S (S (S n0)))); S (S (S (S n0))); S (S (S n0)); S (S n0); S n0; n0].
    split; [|reflexivity]. unfold wc_blocks. cbn [wc_node wc_sock wc_cq wc_in wc_out wc_blk]. unfold n0. perm_cons.
  Qed.
End Ops.

(* ------------------------------------------------------------------------------------ *)
(* more about request lists and connection slots                                          *)
(* ------------------------------------------------------------------------------------ *)
Lemma find_unique qs q : NoDup (qids qs) -> In q qs -> find_query qs (q_qid q) = Some q.
Proof.
  induction qs as [|x r IH]; intros Hnd Hin; [destruct Hin|].
  cbn [qids map] in Hnd. inversion Hnd as [|? ? Hx Hr]; subst. simpl.
  destruct Hin as [->|Hin]; [rewrite Z.eqb_refl; reflexivity|].
  destruct (Z.eqb_spec (q_qid x) (q_qid q)) as [E|E].
  - exfalso. apply Hx. rewrite E. apply in_map. exact Hin.
  - apply IH; assumption.
Qed.

Lemma find_del_other qs qid qid' : qid' <> qid -> find_query (del_query qs qid) qid' = find_query qs qid'.
Proof.
  intros Hne. induction qs as [|x r IH]; [reflexivity|].
  rewrite del_query_cons. simpl.
  destruct (Z.eqb_spec (q_qid x) qid) as [E|E].
  - destruct (Z.eqb_spec (q_qid x) qid') as [E'|E']; [congruence | exact IH].
  - simpl. destruct (Z.eqb (q_qid x) qid'); [reflexivity | exact IH].
Qed.

Lemma find_put_other qs q qid' : qid' <> q_qid q -> find_query (put_query qs q) qid' = find_query qs qid'.
Proof.
  intros Hne. unfold put_query. simpl.
  destruct (Z.eqb_spec (q_qid q) qid') as [E|E]; [congruence|]. apply find_del_other. exact Hne.
Qed.

Lemma find_put_same qs q : find_query (put_query qs q) (q_qid q) = Some q.
Proof. unfold put_query. simpl. rewrite Z.eqb_refl. reflexivity. Qed.

Lemma del_del qs qid : del_query (del_query qs qid) qid = del_query qs qid.
Proof.
  induction qs as [|x r IH]; [reflexivity|]. rewrite del_query_cons.
  destruct (Z.eqb (q_qid x) qid) eqn:E; [exact IH|]. rewrite del_query_cons, E, IH. reflexivity.
Qed.

Lemma del_put qs q : del_query (put_query qs q) (q_qid q) = del_query qs (q_qid q).
Proof. unfold put_query. rewrite del_query_cons, Z.eqb_refl. apply del_del. Qed.

Lemma In_del qs qid x : In x (del_query qs qid) -> In x qs /\ q_qid x <> qid.
Proof.
  unfold del_query. rewrite filter_In. intros [H1 H2]. split; [exact H1|].
  apply negb_true_iff in H2. apply Z.eqb_neq. exact H2.
Qed.

Lemma qids_put_perm qs q :
  NoDup (qids qs) -> In (q_qid q) (qids qs) -> Permutation (qids (put_query qs q)) (qids qs).
Proof.
  intros Hnd Hin. destruct (find_query_some qs (q_qid q) Hin) as [q0 Hf].
  destruct (find_query_In _ _ _ Hf) as [Hq0 Hid].
  destruct (qids_split qs q0 Hnd Hq0) as [P _]. rewrite Hid in P.
  unfold put_query. cbn [qids map]. apply Permutation_sym.
  eapply Permutation_trans; [apply (Permutation_map q_qid P)|]. cbn [map]. rewrite Hid. apply Permutation_refl.
Qed.

Lemma all_qblks_split qs q :
  NoDup (qids qs) -> In q qs -> Permutation (all_qblks qs) (qblks q ++ all_qblks (del_query qs (q_qid q))).
Proof.
  intros Hnd Hin. destruct (qids_split qs q Hnd Hin) as [P _].
  apply (all_qblks_perm _ _ P).
Qed.

Lemma get_slot_app {A} (cs : list (option A)) x i : i < length cs -> get_slot (cs ++ [x]) i = get_slot cs i.
Proof. intros Hi. unfold get_slot. rewrite nth_error_app1 by exact Hi. reflexivity. Qed.

Lemma get_slot_new {A} (cs : list (option A)) c : get_slot (cs ++ [Some c]) (length cs) = Some c.
Proof. unfold get_slot. rewrite nth_error_app2 by lia. rewrite Nat.sub_diag. reflexivity. Qed.

Lemma set_slot_length {A} (cs : list (option A)) i x : length (set_slot cs i x) = length cs.
Proof. revert i. induction cs as [|y r IH]; intros i; [reflexivity|]. destruct i; simpl; [reflexivity | rewrite IH; reflexivity]. Qed.

Lemma get_set_slot_same {A} (cs : list (option A)) i : get_slot (set_slot cs i None) i = None.
Proof.
  unfold get_slot. revert i. induction cs as [|y r IH]; intros i; [destruct i; reflexivity|].
  destruct i; simpl; [reflexivity | apply IH].
Qed.

Lemma get_set_slot_other {A} (cs : list (option A)) i j x : i <> j -> get_slot (set_slot cs i x) j = get_slot cs j.
Proof.
  unfold get_slot. revert i j. induction cs as [|y r IH]; intros i j Hne; [destruct i; reflexivity|].
  destruct i, j; simpl; try reflexivity; [contradiction | apply IH; lia].
Qed.

Lemma all_cblks_take cs ci c :
  get_slot cs ci = Some c -> Permutation (all_cblks cs) (wc_blocks c ++ all_cblks (set_slot cs ci None)).
Proof.
  unfold get_slot, all_cblks. revert ci. induction cs as [|y r IH]; intros ci H; [destruct ci; discriminate|].
  destruct ci as [|ci]; cbn [nth_error] in H; cbn [flat_map set_slot].
  - destruct y as [c0|]; [|discriminate]. inversion H; subst. cbn [cblks]. rewrite app_nil_l. apply Permutation_refl.
  - specialize (IH ci H).
    eapply Permutation_trans; [apply Permutation_app_head; exact IH|].
    apply Permutation_app_swap_app.
Qed.

Lemma all_cblks_app cs c : all_cblks (cs ++ [Some c]) = all_cblks cs ++ wc_blocks c.
Proof. unfold all_cblks. rewrite flat_map_app. cbn [flat_map cblks]. rewrite app_nil_r. reflexivity. Qed.

Lemma work_blks_app a b : work_blks (a ++ b) = work_blks a ++ work_blks b.
Proof. unfold work_blks. apply flat_map_app. Qed.

Lemma work_qids_app a b : work_qids (a ++ b) = work_qids a ++ work_qids b.
Proof. unfold work_qids. apply flat_map_app. Qed.

Lemma work_requeue_blks (os : list Z) st : work_blks (map (fun o => WRequeue o st) os) = [].
Proof. induction os as [|o r IH]; [reflexivity | exact IH]. Qed.

Lemma work_requeue_qids (os : list Z) st : work_qids (map (fun o => WRequeue o st) os) = os.
Proof. induction os as [|o r IH]; [reflexivity|]. simpl. f_equal. exact IH. Qed.

(* ------------------------------------------------------------------------------------ *)
(* one pass through ares_send_query                                                       *)
(* ------------------------------------------------------------------------------------ *)
Section SendQuery.
  Variable f : oracle.
  Variable E : wenv.
  Variable base : nat.

  Definition detached (q : query) : Prop := q_tmo q = None /\ q_cqn q = None.

  Lemma qblks_detached q : detached q -> qblks q = cat_somes [q_qide q; q_all q; q_name q; q_rec q; Some (q_blk q)].
  Proof. intros [Ht Hc]. unfold qblks, qall. rewrite Ht, Hc. reflexivity. Qed.

  Lemma w_end_spec ch q st log R h :
    OS base (qblks q ++ R) h ->
    exists h', w_end ch q st log h
               = Ok ((mkWchan (w_conns ch) (del_query (w_queries ch) (q_qid q)) (w_closed ch), log ++ [(q_qid q, st)]), h')
               /\ OS base R h'.
  Proof.
    intros Hos. unfold w_end. destruct (os_free_opts base (qall q) R h Hos) as (h' & Hr & Hos' & _).
    exists h'. rewrite (bindM_ok _ _ _ _ _ Hr). unfold ret. auto.
  Qed.

  (* what the pass leaves behind, relative to the work that was already pending *)
  Inductive sq_result (cs : list (option wconn)) (qs : list query) (q : query) (log : cblog) (rest : list witem)
    : wchan -> cblog -> sq_next -> heap -> Prop :=
  | SqEnded cs' cl st st' h' :
      (cs' = cs \/ exists c, cs' = cs ++ [Some c]) ->
      OS base (owned (mkWchan cs' (del_query qs (q_qid q)) cl) rest) h' ->
      sq_result cs qs q log rest (mkWchan cs' (del_query qs (q_qid q)) cl) (log ++ [(q_qid q, st)]) (NDone st') h'
  | SqRegistered cs' cl q2 ci nb tn h' :
      (cs' = cs \/ exists c, cs' = cs ++ [Some c]) ->
      q_qid q2 = q_qid q -> q_try q2 = q_try q -> q_cqn q2 = Some (ci, nb) -> q_tmo q2 = Some tn -> get_slot cs' ci <> None ->
      OS base (owned (mkWchan cs' (put_query qs q2) cl) rest) h' ->
      sq_result cs qs q log rest (mkWchan cs' (put_query qs q2) cl) log (NDone ARES_SUCCESS) h'
  | SqRequeue cs' cl st h' :
      (cs' = cs \/ exists c, cs' = cs ++ [Some c]) ->
      OS base (owned (mkWchan cs' qs cl) rest) h' ->
      sq_result cs qs q log rest (mkWchan cs' qs cl) log (NRequeue st) h'
  | SqRefused cs' cl ci st h' :
      (cs' = cs \/ exists c, cs' = cs ++ [Some c]) ->
      get_slot cs' ci <> None ->
      OS base (owned (mkWchan cs' qs cl) rest) h' ->
      sq_result cs qs q log rest (mkWchan cs' qs cl) log (NRefused ci st) h'.

  Lemma w_send_query_spec ch q log rest h :
    OS base (owned ch rest) h -> NoDup (qids (w_queries ch)) -> In q (w_queries ch) -> detached q ->
    exists ch' log' nx h', w_send_query f E ch q log h = Ok ((ch', log', nx), h') /\
      sq_result (w_conns ch) (w_queries ch) q log rest ch' log' nx h'.
  Proof.
    intros Hos Hnd Hin Hdet. destruct ch as [cs qs cl]. cbn [w_conns w_queries w_closed] in *.
    pose proof (all_qblks_split qs q Hnd Hin) as Hsplit.
    set (D := all_qblks (del_query qs (q_qid q))) in *.
    (* the request's blocks split off *)
    assert (Hos0 : OS base (qblks q ++ (D ++ all_cblks cs ++ work_blks rest)) h).
    { eapply os_perm; [|exact Hos]. unfold owned. cbn [w_queries w_conns]. perm_solve. }
    remember (w_send_query f E (mkWchan cs qs cl) q log h) as R eqn:HR.
    unfold w_send_query in HR. cbn [w_conns w_queries w_closed] in HR.
    destruct (we_server E (q_qid q) (q_try q)); cbn [negb] in HR; cbv iota in HR.
    2:{ destruct (w_end_spec (mkWchan cs qs cl) q ARES_ENOSERVER log _ h Hos0) as (h' & Hr & Hos').
        rewrite (bindM_ok _ _ _ _ _ Hr) in HR. unfold ret in HR. cbn [fst snd w_conns w_queries w_closed] in HR.
        eexists; eexists; eexists; eexists. split; [exact HR|].
        apply SqEnded; [left; reflexivity|]. unfold owned. cbn [w_queries w_conns]. exact Hos'. }
    set (W := work_blks rest) in *.
    (* the connection: a live slot proposed by the environment, or a new one *)
    assert (Hconn : exists ost oci cs1 cl1 h1,
              (match match we_reuse E (q_qid q) (q_try q) with
                     | Some i => match get_slot cs i with Some _ => Some i | None => None end
                     | None => None
                     end with
               | Some i => ret (ARES_SUCCESS, Some i, mkWchan cs qs cl)
               | None => w_open_connection f (mkWchan cs qs cl) (q_tcp q) (we_sock E (q_qid q) (q_try q))
               end) h = Ok ((ost, oci, mkWchan cs1 qs cl1), h1) /\
              (cs1 = cs \/ exists c, cs1 = cs ++ [Some c]) /\
              OS base (qblks q ++ (D ++ all_cblks cs1 ++ W)) h1 /\
              ((oci = None /\ ost <> ARES_SUCCESS) \/ (exists ci, oci = Some ci /\ get_slot cs1 ci <> None))).
    { destruct (match we_reuse E (q_qid q) (q_try q) with
                | Some i => match get_slot cs i with Some _ => Some i | None => None end
                | None => None end) as [i|] eqn:Er.
      - exists ARES_SUCCESS, (Some i), cs, cl, h. unfold ret. split; [reflexivity|]. split; [left; reflexivity|].
        split; [exact Hos0|]. right. exists i. split; [reflexivity|].
        destruct (we_reuse E (q_qid q) (q_try q)) as [j|]; [|discriminate].
        destruct (get_slot cs j) eqn:Eg; [|discriminate]. inversion Er; subst. congruence.
      - destruct (w_open_connection_spec f (mkWchan cs qs cl) (q_tcp q) (we_sock E (q_qid q) (q_try q)) h (proj1 Hos0))
          as (st & oci & ch1 & h1 & Hrun & Hok1 & _ & Hqs & Hcase).
        destruct ch1 as [cs1 qs1 cl1]. cbn [w_conns w_queries] in *. subst qs1.
        exists st, oci, cs1, cl1, h1. split; [exact Hrun|].
        destruct Hcase as [(Ho & Hst & Hcs & Hlv) | (c & Ho & Hst & Hcs & new & Hp & Hlv)].
        + subst cs1. split; [left; reflexivity|]. split; [eapply os_same_live; eauto|]. left. auto.
        + split; [right; exists c; exact Hcs|]. split.
          * eapply os_perm; [|eapply os_push_new; [exact Hos0 | exact Hok1 | exact Hlv]].
            rewrite Hcs, all_cblks_app. perm_solve.
          * right. exists (length cs). split; [exact Ho|]. rewrite Hcs, get_slot_new. discriminate. }
    destruct Hconn as (ost & oci & cs1 & cl1 & h1 & Hrun1 & Hext & Hos1 & Hcase1).
    rewrite (bindM_ok _ _ _ _ _ Hrun1) in HR. cbv beta iota in HR. clear Hrun1.
    (* folding the request's blocks back *)
    assert (Hfold : forall cs' cl' hh, OS base (qblks q ++ (D ++ all_cblks cs' ++ W)) hh ->
                                       OS base (owned (mkWchan cs' qs cl') rest) hh).
    { intros cs' cl' hh Ho. eapply os_perm; [|exact Ho]. unfold owned. cbn [w_queries w_conns]. fold W. perm_solve. }
    assert (Hended : forall cl' st st' hh,
               OS base (D ++ all_cblks cs1 ++ W) hh ->
               sq_result cs qs q log rest (mkWchan cs1 (del_query qs (q_qid q)) cl') (log ++ [(q_qid q, st)]) (NDone st') hh).
    { intros cl' st st' hh Ho. apply SqEnded; [exact Hext|]. unfold owned. cbn [w_queries w_conns]. exact Ho. }
    destruct Hcase1 as [(Ho & Host) | (ci & Ho & Hci)]; subst oci.
    - destruct (Z.eqb ost ARES_ECONNREFUSED || Z.eqb ost ARES_EBADFAMILY).
      + unfold ret in HR. eexists; eexists; eexists; eexists. split; [exact HR|].
        apply SqRequeue; [exact Hext | apply Hfold; exact Hos1].
      + destruct (w_end_spec (mkWchan cs1 qs cl1) q ost log _ h1 Hos1) as (h' & Hr & Hos').
        rewrite (bindM_ok _ _ _ _ _ Hr) in HR. unfold ret in HR. cbn [fst snd w_conns w_queries w_closed] in HR.
        eexists; eexists; eexists; eexists. split; [exact HR|]. apply Hended. exact Hos'.
    - (* ares_conn_query_write *)
      unfold group in HR.
      destruct (os_malloc f base _ h1 Hos1) as [(Ef & Hm & Hos2) | (Ef & Hm & Hos2)];
        rewrite (bindM_ok _ _ _ _ _ Hm) in HR; cbv beta iota in HR; clear Hm.
      2:{ destruct (w_end_spec (mkWchan cs1 qs cl1) q ARES_ENOMEM log _ _ Hos2) as (h' & Hr & Hos').
          rewrite (bindM_ok _ _ _ _ _ Hr) in HR. unfold ret in HR. cbn [fst snd w_conns w_queries w_closed] in HR.
          eexists; eexists; eexists; eexists. split; [exact HR|]. apply Hended. exact Hos'. }
      (* the writer's temporaries are released at once *)
      unfold bindM at 1 in HR. unfold free at 1 in HR. cbn [h_live h_next memb remove_one] in HR.
      rewrite Nat.eqb_refl in HR. cbn [orb] in HR. cbv beta iota in HR.
      assert (Hos3 : OS base (qblks q ++ (D ++ all_cblks cs1 ++ W)) (mkHeap (S (h_next h1)) (h_live h1))).
      { eapply os_same_live; [exact Hos1 | apply heap_ok_skip; exact (proj1 Hos1) | reflexivity]. }
      clear Hos2. set (h3 := mkHeap (S (h_next h1)) (h_live h1)) in *.
      destruct (Z.eqb (we_write E (q_qid q) (q_try q)) ARES_ENOMEM).
      { destruct (w_end_spec (mkWchan cs1 qs cl1) q ARES_ENOMEM log _ _ Hos3) as (h' & Hr & Hos').
        rewrite (bindM_ok _ _ _ _ _ Hr) in HR. unfold ret in HR. cbn [fst snd w_conns w_queries w_closed] in HR.
        eexists; eexists; eexists; eexists. split; [exact HR|]. apply Hended. exact Hos'. }
      destruct (Z.eqb (we_write E (q_qid q) (q_try q)) ARES_ECONNREFUSED || Z.eqb (we_write E (q_qid q) (q_try q)) ARES_EBADFAMILY).
      { unfold ret in HR. eexists; eexists; eexists; eexists. split; [exact HR|].
        apply SqRefused; [exact Hext | exact Hci | apply Hfold; exact Hos3]. }
      destruct (Z.eqb (we_write E (q_qid q) (q_try q)) ARES_SUCCESS); cbn [negb] in HR; cbv iota in HR.
      2:{ unfold ret in HR. eexists; eexists; eexists; eexists. split; [exact HR|].
          apply SqRequeue; [exact Hext | apply Hfold; exact Hos3]. }
      (* queries_by_timeout *)
      destruct (os_malloc f base _ h3 Hos3) as [(Ef2 & Hm & Hos4) | (Ef2 & Hm & Hos4)];
        rewrite (bindM_ok _ _ _ _ _ Hm) in HR; cbv beta iota in HR; clear Hm.
      2:{ destruct (w_end_spec (mkWchan cs1 qs cl1) q ARES_ENOMEM log _ _ Hos4) as (h' & Hr & Hos').
          rewrite (bindM_ok _ _ _ _ _ Hr) in HR. unfold ret in HR. cbn [fst snd w_conns w_queries w_closed] in HR.
          eexists; eexists; eexists; eexists. split; [exact HR|]. apply Hended. exact Hos'. }
      set (tn := h_next h3) in *. set (h4 := mkHeap (S tn) (tn :: h_live h3)) in *.
      destruct Hdet as [Ht Hc].
      set (q1 := mkQuery (q_qid q) (q_blk q) (q_rec q) (q_name q) (q_all q) (q_qide q) (Some tn) None
                         (q_try q) (q_err q) (q_tcp q)) in *.
      assert (Hb1 : qblks q1 = tn :: qblks q) by (unfold qblks, qall, q1; cbn; rewrite Ht, Hc; reflexivity).
      (* the connection's list *)
      destruct (os_malloc f base _ h4 Hos4) as [(Ef3 & Hm & Hos5) | (Ef3 & Hm & Hos5)];
        rewrite (bindM_ok _ _ _ _ _ Hm) in HR; cbv beta iota in HR; clear Hm.
      2:{ destruct (w_end_spec (mkWchan cs1 qs cl1) q1 ARES_ENOMEM log (D ++ all_cblks cs1 ++ W) (mkHeap (S (h_next h4)) (h_live h4))) as (h' & Hr & Hos').
          { rewrite Hb1. exact Hos5. }
          rewrite (bindM_ok _ _ _ _ _ Hr) in HR. unfold ret in HR. cbn [fst snd w_conns w_queries w_closed q_qid q1] in HR.
          eexists; eexists; eexists; eexists. split; [exact HR|]. apply Hended. exact Hos'. }
      set (nb := h_next h4) in *.
      unfold ret in HR. eexists; eexists; eexists; eexists. split; [exact HR|].
      set (q2 := mkQuery (q_qid q) (q_blk q) (q_rec q) (q_name q) (q_all q) (q_qide q) (Some tn) (Some (ci, nb))
                         (q_try q) (q_err q) (q_tcp q)).
      cbn [w_conns w_queries w_closed].
      apply (SqRegistered cs qs q log rest cs1 cl1 q2 ci nb tn); auto.
      unfold owned. cbn [w_queries w_conns]. unfold put_query. cbn [all_qblks flat_map q_qid q2]. fold (all_qblks (del_query qs (q_qid q))). fold D. fold W.
      assert (Hb2 : qblks q2 = tn :: nb :: qblks q) by (unfold qblks, qall, q2; cbn; rewrite Ht, Hc; reflexivity).
      rewrite Hb2. eapply os_perm; [|exact Hos5]. perm_solve.
  Qed.
End SendQuery.

(* ------------------------------------------------------------------------------------ *)
(* the invariant of the work stack                                                        *)
(* ------------------------------------------------------------------------------------ *)
Definition q_ok (cs : list (option wconn)) (q : query) : Prop :=
  match q_cqn q with None => True | Some (ci, _) => ci < length cs end.
(* a request whose requeue is pending is detached, or still attached to a closed connection *)
Definition q_parked (cs : list (option wconn)) (q : query) : Prop :=
  match q_cqn q with None => True | Some (ci, _) => get_slot cs ci = None end.

Lemma get_slot_some_lt {A} (cs : list (option A)) i : get_slot cs i <> None -> i < length cs.
Proof.
  unfold get_slot. intros H. apply nth_error_Some. intros Hn. rewrite Hn in H. apply H. reflexivity.
Qed.

Lemma q_ok_ext cs cs' q : (cs' = cs \/ exists c, cs' = cs ++ [Some c]) -> q_ok cs q -> q_ok cs' q.
Proof.
  unfold q_ok. intros [->|[c ->]] H; [exact H|]. destruct (q_cqn q) as [[ci nb]|]; [|exact I].
  rewrite app_length. simpl. lia.
Qed.

Lemma q_parked_ext cs cs' q : (cs' = cs \/ exists c, cs' = cs ++ [Some c]) -> q_ok cs q -> q_parked cs q -> q_parked cs' q.
Proof.
  unfold q_ok, q_parked. intros [->|[c ->]] Hok H; [exact H|]. destruct (q_cqn q) as [[ci nb]|]; [|exact I].
  rewrite get_slot_app by exact Hok. exact H.
Qed.

Lemma q_parked_set cs ci q : q_parked cs q -> q_parked (set_slot cs ci None) q.
Proof.
  unfold q_parked. destruct (q_cqn q) as [[cj nb]|]; [|auto]. intros H.
  destruct (Nat.eq_dec ci cj) as [->|Hne]; [apply get_set_slot_same | rewrite get_set_slot_other by exact Hne; exact H].
Qed.

Lemma qid_inj qs q q' : NoDup (qids qs) -> In q qs -> In q' qs -> q_qid q = q_qid q' -> q = q'.
Proof.
  intros Hnd H1 H2 He. pose proof (find_unique qs q Hnd H1) as F1. pose proof (find_unique qs q' Hnd H2) as F2.
  rewrite He in F1. congruence.
Qed.

Lemma NoDup_map_filter (p : query -> bool) qs : NoDup (qids qs) -> NoDup (qids (filter p qs)).
Proof.
  unfold qids. induction qs as [|x r IH]; simpl; intros H; [constructor|].
  inversion H as [|? ? Hx Hr]; subst. destruct (p x); simpl; [|apply IH; exact Hr].
  constructor; [|apply IH; exact Hr]. intros Hin. apply Hx.
  apply in_map_iff in Hin. destruct Hin as (y & Hy & Hyin). apply filter_In in Hyin.
  apply in_map_iff. exists y. tauto.
Qed.

(* ---- the measure that bounds the work: K * (attempts the live requests have left) + stack ---- *)
Definition rq (mx : nat) (q : query) : nat := (mx + 2) - q_try q.
Definition sum_r (mx : nat) (qs : list query) : nat := list_sum (map (rq mx) qs).

Lemma sum_r_perm mx qs qs' : Permutation qs qs' -> sum_r mx qs = sum_r mx qs'.
Proof.
  unfold sum_r. induction 1; simpl; try lia.
Qed.

Lemma sum_r_cons mx x l : sum_r mx (x :: l) = rq mx x + sum_r mx l.
Proof. reflexivity. Qed.

Lemma sum_r_split mx qs q : NoDup (qids qs) -> In q qs -> sum_r mx qs = rq mx q + sum_r mx (del_query qs (q_qid q)).
Proof. intros Hnd Hin. destruct (qids_split qs q Hnd Hin) as [P _]. rewrite (sum_r_perm mx _ _ P). reflexivity. Qed.

Lemma length_split qs q : NoDup (qids qs) -> In q qs -> length qs = S (length (del_query qs (q_qid q))).
Proof. intros Hnd Hin. destruct (qids_split qs q Hnd Hin) as [P _]. rewrite (Permutation_length P). reflexivity. Qed.

Lemma length_filter_le {A} (p : A -> bool) l : length (filter p l) <= length l.
Proof. induction l as [|x r IH]; simpl; [lia|]. destruct (p x); simpl; lia. Qed.

Lemma w_after_refused_run ch ci st qid c h h2 :
  get_slot (w_conns ch) ci = Some c ->
  free_opts [Some (wc_node c); Some (wc_sock c)] h = Ok (tt, h2) ->
  w_after ch qid (NRefused ci st) h
  = Ok ((mkWchan (set_slot (w_conns ch) ci None) (w_queries ch) (w_closed ch),
         map (fun o => WRequeue o st) (map q_qid (filter (on_conn ci) (w_queries ch)))
           ++ [WCloseFinish [wc_cq c; wc_in c; wc_out c; wc_blk c]; WRequeue qid st]), h2).
Proof.
  intros Hs Hf. unfold w_after, w_close_begin. rewrite Hs.
  unfold bindM at 1. unfold bindM at 1. rewrite Hf. reflexivity.
Qed.

Section Invariant.
  Variable f : oracle.
  Variable E : wenv.
  Variable base : nat.
  Variable ids : list Z.
  Hypothesis ids_nodup : NoDup ids.

  Record Inv (ch : wchan) (work : list witem) (log : cblog) (h : heap) : Prop := mkInv {
    i_os : OS base (owned ch work) h;
    i_ids : Permutation (qids (w_queries ch) ++ map fst log) ids;
    i_rng : forall q, In q (w_queries ch) -> q_ok (w_conns ch) q;
    i_wnd : NoDup (work_qids work);
    i_wq : forall qid, In qid (work_qids work) ->
                       exists q, find_query (w_queries ch) qid = Some q /\ q_parked (w_conns ch) q }.

  Lemma inv_nodup ch work log h : Inv ch work log h -> NoDup (qids (w_queries ch)).
  Proof.
    intros I. pose proof (Permutation_NoDup (Permutation_sym (i_ids _ _ _ _ I)) ids_nodup) as H.
    destruct (NoDup_app_inv _ _ H) as (A & _ & _). exact A.
  Qed.

  (* one pass through ares_send_query for a detached request with no requeue pending, and what
     it leaves on the work stack *)
  Lemma send_after_inv ch q rest log h :
    Inv ch rest log h -> In q (w_queries ch) -> detached q -> ~ In (q_qid q) (work_qids rest) ->
    exists ch2 log2 more h2,
      (r <- w_send_query f E ch q log ;;
       let '(ch1, log1, nx) := r in
       a <- w_after ch1 (q_qid q) nx ;;
       ret (fst a, log1, snd a)) h = Ok ((ch2, log2, more), h2) /\
      Inv ch2 (more ++ rest) log2 h2 /\
      (forall mx, sum_r mx (w_queries ch2) <= sum_r mx (w_queries ch)) /\
      length (w_queries ch2) <= length (w_queries ch) /\ length more <= length (w_queries ch) + 2.
  Proof.
    intros I Hin Hdet Hnot.
    pose proof (inv_nodup _ _ _ _ I) as Hnd.
    destruct I as [Hos Hids Hrng Hwnd Hwq].
    destruct (w_send_query_spec f E base ch q log rest h Hos Hnd Hin Hdet) as (ch1 & log1 & nx & h1 & Hrun & Hres).
    rewrite (bindM_ok _ _ _ _ _ Hrun). cbv beta iota.
    destruct ch as [cs qs cl]. cbn [w_conns w_queries w_closed] in *.
    pose proof (qids_split qs q Hnd Hin) as [Hqp Hqn].
    pose proof (Permutation_map q_qid Hqp) as Hqp'. cbn [map] in Hqp'. fold (qids qs) in Hqp'. fold (qids (del_query qs (q_qid q))) in Hqp'.
    (* facts about the requests whose requeue is pending, carried over a connection being added *)
    assert (Hwq' : forall cs', (cs' = cs \/ exists c, cs' = cs ++ [Some c]) ->
              forall qid', In qid' (work_qids rest) ->
              exists q', find_query qs qid' = Some q' /\ q_parked cs' q' /\ qid' <> q_qid q).
    { intros cs' Hext qid' Hq'. destruct (Hwq qid' Hq') as (q' & Hf & Hp).
      exists q'. split; [exact Hf|]. split.
      - eapply q_parked_ext; [exact Hext | apply Hrng; apply (find_query_In _ _ _ Hf) | exact Hp].
      - intros ->. contradiction. }
    inversion Hres; subst; clear Hres;
      match goal with H : _ = cs \/ _ |- _ => rename H into Hext end;
      match goal with H : OS base (owned _ rest) _ |- _ => rename H into Hos' end.
    - (* ended *)
      unfold w_after, ret, bindM. cbn [fst snd].
      eexists; eexists; eexists; eexists. split; [reflexivity|]. cbn [app].
      split; [|cbn [w_queries]; split; [intros mx; rewrite (sum_r_split mx qs q Hnd Hin); lia|];
               split; [rewrite (length_split qs q Hnd Hin); lia | simpl; lia]].
      constructor; cbn [w_conns w_queries w_closed].
      + assumption.
      + rewrite map_app. cbn [map fst]. eapply Permutation_trans; [|exact Hids]. perm_solve_z.
      + intros q' Hq'. apply In_del in Hq'. eapply q_ok_ext; [eassumption | apply Hrng; tauto].
      + exact Hwnd.
      + intros qid' Hq'. destruct (Hwq' cs' Hext qid' Hq') as (q' & Hf & Hp & Hne).
        exists q'. rewrite find_del_other by exact Hne. auto.
    - (* registered *)
      unfold w_after, ret, bindM. cbn [fst snd].
      eexists; eexists; eexists; eexists. split; [reflexivity|]. cbn [app].
      split; [|cbn [w_queries]; unfold put_query;
               repeat match goal with H : q_qid q2 = q_qid q |- _ => rewrite H end;
               split; [intros mx; rewrite (sum_r_split mx qs q Hnd Hin), sum_r_cons; unfold rq;
                       match goal with H : q_try q2 = q_try q |- _ => rewrite H end; lia|];
               split; [rewrite (length_split qs q Hnd Hin); simpl; lia | simpl; lia]].
      constructor; cbn [w_conns w_queries w_closed].
      + assumption.
      + eapply Permutation_trans; [|exact Hids]. apply Permutation_app_tail.
        apply qids_put_perm; [exact Hnd|].
        match goal with H : q_qid q2 = q_qid q |- _ => rewrite H end. apply in_map. exact Hin.
      + intros q' [<-|Hq'].
        * unfold q_ok. match goal with H : q_cqn q2 = Some _ |- _ => rewrite H end. apply get_slot_some_lt. assumption.
        * apply In_del in Hq'. eapply q_ok_ext; [eassumption | apply Hrng; tauto].
      + exact Hwnd.
      + intros qid' Hq'. destruct (Hwq' cs' Hext qid' Hq') as (q' & Hf & Hp & Hne).
        exists q'. rewrite find_put_other by (match goal with H : q_qid q2 = q_qid q |- _ => rewrite H end; exact Hne). auto.
    - (* requeue the request itself *)
      unfold w_after, ret, bindM. cbn [fst snd].
      eexists; eexists; eexists; eexists. split; [reflexivity|].
      split; [|cbn [w_queries]; split; [intros mx; lia|]; split; [lia | simpl; lia]].
      constructor; cbn [w_conns w_queries w_closed].
      + assumption.
      + exact Hids.
      + intros q' Hq'. eapply q_ok_ext; [eassumption | apply Hrng; exact Hq'].
      + cbn. constructor; assumption.
      + cbn. intros qid' [<-|Hq'].
        * exists q. split; [apply find_unique; assumption|]. unfold q_parked. rewrite (proj2 Hdet). exact I.
        * destruct (Hwq' cs' Hext qid' Hq') as (q' & Hf & Hp & Hne). exists q'. auto.
    - (* the write was refused: close the connection, requeue its requests, then this one *)
      match goal with H : get_slot cs' ci <> None |- _ => rename H into Hslot end.
      destruct (get_slot cs' ci) as [c|] eqn:Eslot; [|contradiction]. clear Hslot.
      set (X := all_qblks qs ++ all_cblks (set_slot cs' ci None) ++ work_blks rest).
      assert (Hos2 : OS base (cat_somes [Some (wc_node c); Some (wc_sock c)] ++ ([wc_cq c; wc_in c; wc_out c; wc_blk c] ++ X)) h1).
      { eapply os_perm; [|exact Hos']. unfold owned, X. cbn [w_queries w_conns cat_somes].
        pose proof (all_cblks_take cs' ci c Eslot) as Ht. unfold wc_blocks in Ht. perm_solve. }
      destruct (os_free_opts base _ _ h1 Hos2) as (h2 & Hfr & Hos3 & _).
      match goal with |- context [w_after ?ch0 (q_qid q) (NRefused ci ?st0)] =>
        rewrite (bindM_ok _ _ _ _ _ (w_after_refused_run ch0 ci st0 (q_qid q) c h1 h2 Eslot Hfr)) end.
      unfold ret. cbn [fst snd w_conns w_queries w_closed].
      eexists; eexists; eexists; eexists. split; [reflexivity|].
      split; [|cbn [w_queries]; split; [intros mx; lia|]; split; [lia|];
               rewrite app_length, !map_length; cbn [length];
               pose proof (length_filter_le (on_conn ci) qs); lia].
      set (others := map q_qid (filter (on_conn ci) qs)).
      (* the requests on the closed connection *)
      assert (Hoth : forall o, In o others -> exists q', In q' qs /\ q_qid q' = o /\ exists nb, q_cqn q' = Some (ci, nb)).
      { intros o Ho. unfold others in Ho. apply in_map_iff in Ho. destruct Ho as (q' & Hq & Hf').
        apply filter_In in Hf'. destruct Hf' as [Hq'in Hon]. exists q'. split; [exact Hq'in|]. split; [exact Hq|].
        unfold on_conn in Hon. destruct (q_cqn q') as [[i nb]|]; [|discriminate].
        apply Nat.eqb_eq in Hon. subst i. eauto. }
      constructor; cbn [w_conns w_queries w_closed].
      + eapply os_perm; [|exact Hos3]. unfold owned, X. cbn [w_queries w_conns].
        rewrite work_blks_app, work_blks_app, work_requeue_blks. cbn [work_blks flat_map item_blks app].
        rewrite ?app_nil_r. perm_solve.
      + exact Hids.
      + intros q' Hq'. unfold q_ok. rewrite set_slot_length.
        apply (q_ok_ext cs cs' q' Hext). apply Hrng. exact Hq'.
      + rewrite work_qids_app, work_qids_app, work_requeue_qids. cbn [work_qids flat_map item_qid app].
        rewrite <- app_assoc. cbn [app]. apply NoDup_app_intro.
        * apply (NoDup_map_filter (on_conn ci) qs Hnd).
        * constructor; [exact Hnot | exact Hwnd].
        * intros o Ho [<-|Hor].
          -- (* the request itself is detached *)
             destruct (Hoth _ Ho) as (q' & Hq'in & Hq'id & nb & Hq'c).
             assert (q' = q) by (apply (qid_inj qs); assumption). subst q'.
             rewrite (proj2 Hdet) in Hq'c. discriminate.
          -- (* a request with a pending requeue is not on a live connection *)
             destruct (Hoth _ Ho) as (q' & Hq'in & Hq'id & nb & Hq'c).
             destruct (Hwq' cs' Hext o Hor) as (q'' & Hf' & Hp & _).
             assert (q'' = q').
             { destruct (find_query_In _ _ _ Hf') as [Hin'' Hid'']. apply (qid_inj qs); congruence. }
             subst q''. unfold q_parked in Hp. rewrite Hq'c in Hp. congruence.
      + rewrite work_qids_app, work_qids_app, work_requeue_qids. cbn [work_qids flat_map item_qid app].
        rewrite <- app_assoc. cbn [app]. intros qid' Hq'. apply in_app_or in Hq'. destruct Hq' as [Ho | [<- | Hr]].
        * destruct (Hoth _ Ho) as (q' & Hq'in & Hq'id & nb & Hq'c). exists q'. split.
          -- rewrite <- Hq'id. apply find_unique; assumption.
          -- unfold q_parked. rewrite Hq'c. apply get_set_slot_same.
        * exists q. split; [apply find_unique; assumption|]. unfold q_parked. rewrite (proj2 Hdet). exact I.
        * destruct (Hwq' cs' Hext qid' Hr) as (q' & Hf' & Hp & _). exists q'. split; [exact Hf'|].
          apply q_parked_set. exact Hp.
  Qed.

  (* one work item *)
  Lemma w_step_inv ch it rest log h :
    Inv ch (it :: rest) log h ->
    exists ch' log' more h', w_step f E ch it log h = Ok ((ch', log', more), h') /\ Inv ch' (more ++ rest) log' h' /\
      length (w_queries ch') <= length (w_queries ch) /\
      (forall K, length (w_queries ch) + 3 <= K ->
         K * sum_r (we_nservers E * we_tries E) (w_queries ch') + length (more ++ rest)
         < K * sum_r (we_nservers E * we_tries E) (w_queries ch) + length (it :: rest)).
  Proof.
    intros I. pose proof (inv_nodup _ _ _ _ I) as Hnd.
    destruct I as [Hos Hids Hrng Hwnd Hwq]. destruct ch as [cs qs cl]. cbn [w_conns w_queries w_closed] in *.
    destruct it as [qid st | blks].
    2:{ (* the tail of ares_close_connection *)
        unfold w_step. cbn [w_conns w_queries w_closed].
        assert (Hos1 : OS base (blks ++ owned (mkWchan cs qs (S cl)) rest) h).
        { eapply os_perm; [|exact Hos]. unfold owned. cbn [w_queries w_conns work_blks flat_map item_blks].
          fold (work_blks rest). perm_solve. }
        destruct (os_free base blks _ h Hos1) as (h' & Hfr & Hos' & _).
        rewrite (bindM_ok _ _ _ _ _ Hfr). unfold ret.
        eexists; eexists; eexists; eexists. split; [reflexivity|]. cbn [app].
        split; [constructor; cbn [w_conns w_queries w_closed]; auto|].
        cbn [w_queries length]. split; [lia | intros K HK; lia]. }
    (* ares_requeue_query *)
    cbn [work_qids flat_map item_qid app] in Hwnd, Hwq. fold (work_qids rest) in Hwnd, Hwq.
    inversion Hwnd as [|? ? Hnot Hwnd']; subst.
    destruct (Hwq qid (or_introl eq_refl)) as (q & Hfind & Hpark).
    destruct (find_query_In _ _ _ Hfind) as [Hin Hqid].
    unfold w_step. cbn [w_conns w_queries w_closed]. rewrite Hfind.
    pose proof (all_qblks_split qs q Hnd Hin) as Hsplit.
    set (D := all_qblks (del_query qs (q_qid q))) in *.
    set (five := cat_somes [q_qide q; q_all q; q_name q; q_rec q; Some (q_blk q)]).
    assert (Hos1 : OS base (cat_somes [q_tmo q; option_map snd (q_cqn q)] ++ (five ++ D ++ all_cblks cs ++ work_blks rest)) h).
    { eapply os_perm; [|exact Hos]. unfold owned. cbn [w_queries w_conns work_blks flat_map item_blks app].
      fold (work_blks rest).
      assert (Hq : qblks q = cat_somes [q_tmo q; option_map snd (q_cqn q)] ++ five).
      { unfold qblks, qall, five. destruct (q_tmo q); destruct (option_map snd (q_cqn q)); reflexivity. }
      rewrite Hq in Hsplit. perm_solve. }
    destruct (os_free_opts base _ _ h Hos1) as (h1 & Hfr & Hos2 & _).
    unfold w_detach. rewrite (bindM_ok _ _ _ _ _ (bindM_ok _ _ _ _ _ Hfr)). unfold ret at 1. cbv beta iota.
    cbn [q_qid q_blk q_rec q_name q_all q_qide q_try q_err q_tcp].
    set (q2 := mkQuery (q_qid q) (q_blk q) (q_rec q) (q_name q) (q_all q) (q_qide q) None None
                       (S (q_try q)) (if Z.eqb st ARES_SUCCESS then q_err q else st) (q_tcp q)).
    set (ch1 := mkWchan cs (put_query qs q2) cl).
    assert (Hq2id : q_qid q2 = qid) by exact Hqid.
    assert (I1 : Inv ch1 rest log h1).
    { constructor; unfold ch1; cbn [w_conns w_queries w_closed].
      - unfold owned, put_query. cbn [w_queries w_conns all_qblks flat_map]. fold (all_qblks (del_query qs (q_qid q2))).
        cbn [q_qid q2]. fold D.
        assert (Hb : qblks q2 = five) by reflexivity. rewrite Hb.
        eapply os_perm; [|exact Hos2]. perm_solve.
      - eapply Permutation_trans; [|exact Hids]. apply Permutation_app_tail.
        apply qids_put_perm; [exact Hnd|]. rewrite Hq2id, <- Hqid. apply in_map. exact Hin.
      - intros q' [<-|Hq']; [exact I|]. apply In_del in Hq'. apply Hrng. tauto.
      - exact Hwnd'.
      - intros qid' Hq'. destruct (Hwq qid' (or_intror Hq')) as (q' & Hf' & Hp').
        exists q'. rewrite find_put_other; [auto|]. rewrite Hq2id. intros ->. contradiction. }
    assert (Hin2 : In q2 (w_queries ch1)) by (left; reflexivity).
    assert (Hdet2 : detached q2) by (split; reflexivity).
    assert (Hnot2 : ~ In (q_qid q2) (work_qids rest)) by (rewrite Hq2id; exact Hnot).
    set (mx := we_nservers E * we_tries E).
    pose proof (sum_r_split mx qs q Hnd Hin) as Hsum.
    pose proof (length_split qs q Hnd Hin) as Hlen.
    assert (Hsum1 : sum_r mx (w_queries ch1) = rq mx q2 + sum_r mx (del_query qs (q_qid q))).
    { unfold ch1. cbn [w_queries]. unfold put_query. rewrite sum_r_cons. reflexivity. }
    assert (Hlen1 : length (w_queries ch1) = length qs).
    { unfold ch1. cbn [w_queries]. unfold put_query. cbn [length q_qid q2]. lia. }
    match goal with |- context [if ?c then _ else _] => destruct c eqn:Ec end.
    - destruct (send_after_inv ch1 q2 rest log h1 I1 Hin2 Hdet2 Hnot2)
        as (ch2 & log2 & more & h2 & Hrun & I2 & Hs2 & Hl2 & Hm2).
      exists ch2, log2, more, h2. split; [rewrite <- Hrun; rewrite <- Hq2id; reflexivity|].
      split; [exact I2|]. cbn [w_queries]. split; [lia|].
      intros K HK. apply andb_true_iff in Ec as [Elt _]. apply Nat.ltb_lt in Elt. fold mx in Elt.
      specialize (Hs2 mx). rewrite Hsum1 in Hs2. unfold rq in Hs2, Hsum. cbn [q_try q2] in Hs2.
      rewrite app_length. cbn [length].
      pose proof (Nat.mul_le_mono_l _ _ K Hs2) as Hk. rewrite Hsum.
      assert (Hk2 : K * (mx + 2 - S (q_try q) + sum_r mx (del_query qs (q_qid q))) + K
                    = K * (mx + 2 - q_try q + sum_r mx (del_query qs (q_qid q)))).
      { replace (mx + 2 - q_try q) with (S (mx + 2 - S (q_try q))) by lia. lia. }
      lia.
    - (* out of attempts: end_query *)
      destruct I1 as [Hos3 Hids3 Hrng3 Hwnd3 Hwq3].
      set (stf := if Z.eqb (q_err q2) ARES_SUCCESS then ARES_ETIMEOUT else q_err q2).
      assert (Hos4 : OS base (qblks q2 ++ (D ++ all_cblks cs ++ work_blks rest)) h1).
      { eapply os_perm; [|exact Hos3]. unfold ch1, owned, put_query. cbn [w_queries w_conns all_qblks flat_map].
        fold (all_qblks (del_query qs (q_qid q2))). cbn [q_qid q2]. fold D. perm_solve. }
      destruct (w_end_spec base ch1 q2 stf log _ h1 Hos4) as (h2 & Hr & Hos5).
      rewrite (bindM_ok _ _ _ _ _ Hr). unfold ret. cbn [fst snd].
      eexists; eexists; eexists; eexists. split; [reflexivity|]. cbn [app].
      unfold ch1. cbn [w_conns w_queries w_closed]. rewrite del_put. cbn [q_qid q2].
      split; [|cbn [length]; split; [lia|]; intros K HK; rewrite Hsum;
               pose proof (Nat.le_add_l (sum_r mx (del_query qs (q_qid q))) (rq mx q)) as Hle;
               pose proof (Nat.mul_le_mono_l _ _ K Hle); lia].
      pose proof (qids_split qs q Hnd Hin) as [Hqp _].
      pose proof (Permutation_map q_qid Hqp) as Hqp'. cbn [map] in Hqp'.
      fold (qids qs) in Hqp'. fold (qids (del_query qs (q_qid q))) in Hqp'.
      constructor; cbn [w_conns w_queries w_closed].
      + unfold owned. cbn [w_queries w_conns]. fold D. exact Hos5.
      + rewrite map_app. cbn [map fst]. eapply Permutation_trans; [|exact Hids]. perm_solve_z.
      + intros q' Hq'. apply In_del in Hq'. apply Hrng. tauto.
      + exact Hwnd'.
      + intros qid' Hq'. destruct (Hwq qid' (or_intror Hq')) as (q' & Hf' & Hp').
        exists q'. rewrite find_del_other; [auto|]. rewrite Hqid. intros ->. contradiction.
  Qed.

  (* the whole stack: with enough fuel it is emptied, and the invariant holds at the end *)
  Lemma w_run_inv : forall fuel ch work log h K,
    Inv ch work log h -> length (w_queries ch) + 3 <= K ->
    K * sum_r (we_nservers E * we_tries E) (w_queries ch) + length work < fuel ->
    exists ch' log' h', w_run f E fuel ch work log h = Ok ((ch', log'), h') /\ Inv ch' [] log' h'.
  Proof.
    induction fuel as [|fu IH]; intros ch work log h K I HK Hm; [lia|].
    destruct work as [|it rest].
    - exists ch, log, h. split; [reflexivity | exact I].
    - cbn [w_run].
      destruct (w_step_inv ch it rest log h I) as (ch1 & log1 & more & h1 & Hrun & I1 & Hl1 & Hdec).
      rewrite (bindM_ok _ _ _ _ _ Hrun). cbv beta iota.
      apply (IH ch1 (more ++ rest) log1 h1 K I1); [lia|].
      specialize (Hdec K HK). lia.
  Qed.

  Lemma sum_r_bound mx qs : sum_r mx qs <= length qs * (mx + 2).
  Proof.
    induction qs as [|x r IH]; [unfold sum_r; simpl; lia|]. rewrite sum_r_cons. unfold rq at 1. cbn [length].
    rewrite Nat.mul_succ_l. lia.
  Qed.

  (* ares_send_query for a request that is in the list, detached, and everything it triggers *)
  Theorem w_submit_inv ch q h :
    Inv ch [] [] h -> In q (w_queries ch) -> detached q ->
    exists ch' log' h', w_submit f E ch q h = Ok ((ch', log'), h') /\ Inv ch' [] log' h'.
  Proof.
    intros I Hin Hdet. unfold w_submit.
    destruct (send_after_inv ch q [] [] h I Hin Hdet (fun x => x)) as (ch2 & log2 & more & h2 & Hrun & I2 & Hs2 & Hl2 & Hm2).
    unfold bindM in Hrun. unfold bindM at 1.
    destruct (w_send_query f E ch q [] h) as [[[[ch1 log1] nx] h1]|s|u]; try discriminate Hrun.
    cbv beta iota in Hrun |- *.
    unfold bindM at 1. destruct (w_after ch1 (q_qid q) nx h1) as [[a h1']|s|u]; try discriminate Hrun.
    unfold ret in Hrun. inversion Hrun; subst. cbv beta iota.
    rewrite app_nil_r in I2.
    set (N := length (w_queries ch)) in *.
    set (mx := we_nservers E * we_tries E).
    apply (w_run_inv (w_fuel E ch) (fst a) (snd a) log2 h2 (N + 3) I2); [lia|].
    unfold w_fuel. fold N. fold mx.
    pose proof (Hs2 mx) as Hs. pose proof (sum_r_bound mx (w_queries ch)) as Hb. fold N in Hb.
    pose proof (Nat.mul_le_mono_l _ _ (N + 3) (Nat.le_trans _ _ _ Hs Hb)) as Hk.
    nia.
  Qed.
End Invariant.

(* ------------------------------------------------------------------------------------ *)
(* the statement for C14                                                                  *)
(* ------------------------------------------------------------------------------------ *)

(* For EVERY oracle and environment: submitting a request - through however many refused
   writes, closed connections and requeued requests - ends with the work done (the fuel of the
   model suffices, nothing is freed twice), every request called back AT MOST ONCE, a request
   that was called back gone from the request list (hence from every index), every other
   request still there, and the ledger balanced: the live blocks are exactly the blocks of the
   live requests and connections (same [base] before and after). *)
Theorem send_all_requests f E ch q h base :
  NoDup (qids (w_queries ch)) ->
  OS base (all_qblks (w_queries ch) ++ all_cblks (w_conns ch)) h ->
  (forall q', In q' (w_queries ch) -> q_ok (w_conns ch) q') ->
  In q (w_queries ch) -> detached q ->
  exists ch' log h', w_submit f E ch q h = Ok ((ch', log), h') /\
    NoDup (map fst log) /\
    (forall qid, In qid (map fst log) -> ~ In qid (qids (w_queries ch'))) /\
    Permutation (qids (w_queries ch') ++ map fst log) (qids (w_queries ch)) /\
    OS base (all_qblks (w_queries ch') ++ all_cblks (w_conns ch')) h' /\
    (forall q', In q' (w_queries ch') -> q_ok (w_conns ch') q').
Proof.
  intros Hnd Hos Hrng Hin Hdet.
  assert (I : Inv base (qids (w_queries ch)) ch [] [] h).
  { constructor.
    - unfold owned. cbn [work_blks flat_map]. rewrite app_nil_r. exact Hos.
    - cbn [map]. rewrite app_nil_r. apply Permutation_refl.
    - exact Hrng.
    - constructor.
    - intros qid []. }
  destruct (w_submit_inv f E base (qids (w_queries ch)) Hnd ch q h I Hin Hdet) as (ch' & log & h' & Hrun & I').
  exists ch', log, h'. split; [exact Hrun|].
  destruct I' as [Hos' Hids' Hrng' _ _].
  pose proof (Permutation_NoDup (Permutation_sym Hids') Hnd) as Hnd'.
  destruct (NoDup_app_inv _ _ Hnd') as (_ & Hl & Hdis).
  split; [exact Hl|]. split; [intros qid Hq Hq'; exact (Hdis qid Hq' Hq)|]. split; [exact Hids'|].
  split; [|exact Hrng'].
  unfold owned in Hos'. cbn [work_blks flat_map] in Hos'. rewrite app_nil_r in Hos'. exact Hos'.
Qed.

(* non-vacuity, and the branch SendAlloc.v leaves out: request 9 is submitted on a connection
   (slot 0) that carries request 7; the write is refused, the connection is closed, request 7 is
   requeued and gets a new connection, request 9 is requeued, refused again and, out of
   attempts, ended - one callback, request 7 untouched by callbacks, ledger balanced *)
Example send_all_requests_example :
  let E := mkWenv 1 2 (fun _ => false) (fun _ _ => true)
                  (fun qid att => if Z.eqb qid 9 then Some 0 else None)
                  (fun _ _ => ARES_SUCCESS)
                  (fun qid _ => if Z.eqb qid 9 then ARES_ECONNREFUSED else ARES_SUCCESS) in
  let c0 := mkWconn 10 11 12 13 14 15 false 1 in
  let q7 := mkQuery 7%Z 20 (Some 21) None (Some 22) (Some 23) (Some 24) (Some (0, 25)) 0 ARES_SUCCESS false in
  let q9 := mkQuery 9%Z 30 (Some 31) None (Some 32) (Some 33) None None 0 ARES_SUCCESS false in
  let ch := mkWchan [Some c0] [q7; q9] 0 in
  let h := mkHeap 40 [33; 32; 31; 30; 25; 24; 23; 22; 21; 20; 15; 14; 13; 12; 11; 10] in
  exists ch' h', w_submit never_fail E ch q9 h = Ok ((ch', [(9%Z, ARES_ECONNREFUSED)]), h') /\
                 qids (w_queries ch') = [7]%Z /\ get_slot (w_conns ch') 0 = None /\
                 length (h_live h') = 6 + 6 /\
                 length (all_qblks (w_queries ch') ++ all_cblks (w_conns ch')) = 6 + 6.
Proof. cbv zeta. eexists; eexists. vm_compute. repeat split; reflexivity. Qed.
