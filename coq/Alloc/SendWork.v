(* C14 - the request-submission path with EVERY live request in the state, so that the branch
   Alloc/SendAlloc.v leaves out is inside the model:

     ares_conn_query_write fails with ECONNREFUSED / EBADFAMILY
       -> handle_conn_error -> ares_close_connection (src/lib/ares_close_sockets.c):
            unlink the connection, ares_requeue_queries(): EVERY other request on it is
            re-sent (ares_requeue_query -> ares_send_query, which may open connections, fail,
            end requests with their callbacks, refuse again and close further connections ..),
            then the connection is released,
       -> then the request itself is requeued.

   The mutual recursion ares_send_query / ares_requeue_query / ares_close_connection is
   modelled as a WORK STACK processed depth first - the order in which the C code runs the
   nested calls - with fuel (WorkAlloc_proofs: the fuel chosen by [submit] always suffices).

   State.  The channel is the list of live request objects, each holding the handles of the
   nodes that link it into all_queries, queries_by_qid, queries_by_timeout and its connection's
   list (an index contains a request iff the request holds the node: that is how the
   containers' API works), and the connection slots (slot number = identity; a closed
   connection leaves an empty slot, so identities are stable).  Granularity and environment
   are those of SendAlloc.v (allocation groups, one oracle answer each), the environment
   answers are additionally indexed by the request.

   Abstracted: the ORDER in which ares_requeue_queries() visits the requests of a closed
   connection (C: the order in which they were attached to it; here: the order of the request
   list).  The position of a new UDP connection at the front of server->connections (it only
   matters to ares_fetch_connection, which is an environment answer here).  User callbacks do
   not re-enter the library (C01's subject).  The status RETURNED by the outermost call is not
   tracked here (SendAlloc.v has it for the paths without a refused write); this model is
   about the callbacks, the indexes and the ledger of ALL requests. *)
From CAres.Core Require Export AllocFault.
From CAres.Alloc Require Export SendAlloc.
From CAres.Gen Require Import Consts.
Local Open Scope nat_scope.

Record wenv := mkWenv {
  we_nservers : nat;
  we_tries : nat;
  we_noretry : Z -> bool;              (* per request: ARES_SEND_FLAG_NORETRY *)
  we_server : Z -> nat -> bool;        (* request, attempt -> a server could be chosen *)
  we_reuse : Z -> nat -> option nat;   (* request, attempt -> ares_fetch_connection: a usable slot *)
  we_sock : Z -> nat -> Z;             (* request, attempt -> status of the socket calls *)
  we_write : Z -> nat -> Z }.          (* request, attempt -> status of cookie/write/flush *)

Record wconn := mkWconn {
  wc_blk : blk; wc_cq : blk; wc_out : blk; wc_in : blk; wc_node : blk; wc_sock : blk;
  wc_tcp : bool; wc_total : nat }.

Definition wc_blocks (c : wconn) : list blk :=
  [wc_node c; wc_sock c; wc_cq c; wc_in c; wc_out c; wc_blk c].

Record wchan := mkWchan {
  w_conns : list (option wconn);
  w_queries : list query;        (* SendAlloc.query; q_cqn = (slot, node) *)
  w_closed : nat }.

Inductive witem :=
| WRequeue (qid : Z) (status : Z)      (* ares_requeue_query(query, now, status, TRUE, NULL, NULL) *)
| WCloseFinish (blks : list blk).      (* the tail of ares_close_connection after the requeues *)

(* callbacks issued: (request, status), in order *)
Definition cblog := list (Z * Z).

Fixpoint find_query (qs : list query) (qid : Z) : option query :=
  match qs with
  | [] => None
  | q :: r => if Z.eqb (q_qid q) qid then Some q else find_query r qid
  end.

Definition del_query (qs : list query) (qid : Z) : list query :=
  filter (fun q => negb (Z.eqb (q_qid q) qid)) qs.

(* the request object replaced (order of the list is not significant) *)
Definition put_query (qs : list query) (q : query) : list query := q :: del_query qs (q_qid q).

Definition on_conn (ci : nat) (q : query) : bool :=
  match q_cqn q with Some (i, _) => Nat.eqb i ci | None => false end.

Fixpoint set_slot {A} (l : list (option A)) (i : nat) (x : option A) : list (option A) :=
  match l, i with
  | [], _ => []
  | _ :: r, 0 => x :: r
  | y :: r, S j => y :: set_slot r j x
  end.

Definition get_slot {A} (l : list (option A)) (i : nat) : option A :=
  match nth_error l i with Some (Some c) => Some c | _ => None end.

Definition WF_BROKEN : Z := (-4)%Z.    (* a work item names a request that does not exist *)

Definition qall (q : query) : list (option blk) :=
  [q_tmo q; option_map snd (q_cqn q); q_qide q; q_all q; q_name q; q_rec q; Some (q_blk q)].

Section Work.
  Variable f : oracle.
  Variable E : wenv.

  (* ares_query_remove_from_conn *)
  Definition w_detach (q : query) : M query :=
    free_opts [q_tmo q; option_map snd (q_cqn q)] ;;;
    ret (mkQuery (q_qid q) (q_blk q) (q_rec q) (q_name q) (q_all q) (q_qide q) None None
                 (q_try q) (q_err q) (q_tcp q)).

  (* end_query: callback, ares_free_query *)
  Definition w_end (ch : wchan) (q : query) (status : Z) (log : cblog) : M (wchan * cblog) :=
    free_opts (qall q) ;;;
    ret (mkWchan (w_conns ch) (del_query (w_queries ch) (q_qid q)) (w_closed ch), log ++ [(q_qid q, status)]).

  (* ares_open_connection; the new connection takes the next slot *)
  Definition w_open_connection (ch : wchan) (is_tcp : bool) (sock : Z) : M (Z * option nat * wchan) :=
    conn <- group f ;;
    match conn with
    | None => ret (ARES_ENOMEM, None, ch)
    | Some cb =>
      cq <- group f ;; out <- group f ;; inb <- group f ;;
      match cq, out, inb with
      | Some q, Some o, Some i =>
        if negb (Z.eqb sock ARES_SUCCESS)
        then free_opts [None; cq; out; inb; conn] ;;;
             ret (sock, None, mkWchan (w_conns ch) (w_queries ch)
                                      (if negb (Z.eqb sock ARES_EBADFAMILY) then S (w_closed ch) else w_closed ch))
        else
          node <- group f ;;
          match node with
          | None => free_opts [None; cq; out; inb; conn] ;;;
                    ret (ARES_ENOMEM, None, mkWchan (w_conns ch) (w_queries ch) (S (w_closed ch)))
          | Some nd =>
            se <- group f ;;
            match se with
            | None => free_opts [node; cq; out; inb; conn] ;;;
                      ret (ARES_ENOMEM, None, mkWchan (w_conns ch) (w_queries ch) (S (w_closed ch)))
            | Some s =>
              ret (ARES_SUCCESS, Some (length (w_conns ch)),
                   mkWchan (w_conns ch ++ [Some (mkWconn cb q o i nd s is_tcp 0)]) (w_queries ch) (w_closed ch))
            end
          end
      | _, _, _ => free_opts [None; cq; out; inb; conn] ;;; ret (ARES_ENOMEM, None, ch)
      end
    end.

  (* what one pass through ares_send_query leaves to be done *)
  Inductive sq_next :=
  | NDone (status : Z)                        (* registered, or ended with its callback *)
  | NRequeue (status : Z)                     (* ares_requeue_query(query, .., status, ..) *)
  | NRefused (ci : nat) (status : Z).         (* handle_conn_error(conn), then requeue *)

  (* the body of ares_send_query for a detached request that is in the request list *)
  Definition w_send_query (ch : wchan) (q : query) (log : cblog) : M (wchan * cblog * sq_next) :=
    let qid := q_qid q in
    let att := q_try q in
    if negb (we_server E qid att) then
      r <- w_end ch q ARES_ENOSERVER log ;; ret (fst r, snd r, NDone ARES_ENOSERVER)
    else
      (* ares_fetch_connection: the environment proposes a slot; a closed one is no connection *)
      oc <- match match we_reuse E qid att with
                  | Some i => match get_slot (w_conns ch) i with Some _ => Some i | None => None end
                  | None => None
                  end with
            | Some i => ret (ARES_SUCCESS, Some i, ch)
            | None => w_open_connection ch (q_tcp q) (we_sock E qid att)
            end ;;
      let '(ost, oci, ch1) := oc in
      match oci with
      | None =>
        if Z.eqb ost ARES_ECONNREFUSED || Z.eqb ost ARES_EBADFAMILY
        then ret (ch1, log, NRequeue ost)
        else r <- w_end ch1 q ost log ;; ret (fst r, snd r, NDone ost)
      | Some ci =>
        w <- group f ;;
        match w with
        | None => r <- w_end ch1 q ARES_ENOMEM log ;; ret (fst r, snd r, NDone ARES_ENOMEM)
        | Some wb =>
          free (Some wb) ;;;
          let wst := we_write E qid att in
          if Z.eqb wst ARES_ENOMEM then r <- w_end ch1 q ARES_ENOMEM log ;; ret (fst r, snd r, NDone ARES_ENOMEM)
          else if Z.eqb wst ARES_ECONNREFUSED || Z.eqb wst ARES_EBADFAMILY then ret (ch1, log, NRefused ci wst)
          else if negb (Z.eqb wst ARES_SUCCESS) then ret (ch1, log, NRequeue wst)
          else
            tn <- group f ;;
            match tn with
            | None => r <- w_end ch1 q ARES_ENOMEM log ;; ret (fst r, snd r, NDone ARES_ENOMEM)
            | Some t =>
              let q1 := mkQuery qid (q_blk q) (q_rec q) (q_name q) (q_all q) (q_qide q) (Some t) None
                                (q_try q) (q_err q) (q_tcp q) in
              cn <- group f ;;
              match cn with
              | None => r <- w_end ch1 q1 ARES_ENOMEM log ;; ret (fst r, snd r, NDone ARES_ENOMEM)
              | Some nb =>
                let q2 := mkQuery qid (q_blk q) (q_rec q) (q_name q) (q_all q) (q_qide q) (Some t) (Some (ci, nb))
                                  (q_try q) (q_err q) (q_tcp q) in
                ret (mkWchan (w_conns ch1) (put_query (w_queries ch1) q2) (w_closed ch1), log, NDone ARES_SUCCESS)
              end
            end
        end
      end.

  (* the first half of ares_close_connection: unlink (node in server->connections, entry in
     connnode_by_socket); the slot is empty from now on.  Returns the requests to requeue and
     the blocks the second half releases. *)
  Definition w_close_begin (ch : wchan) (ci : nat) : M (wchan * list Z * list blk) :=
    match get_slot (w_conns ch) ci with
    | None => errM WF_BROKEN
    | Some c =>
      free_opts [Some (wc_node c); Some (wc_sock c)] ;;;
      ret (mkWchan (set_slot (w_conns ch) ci None) (w_queries ch) (w_closed ch),
           map q_qid (filter (on_conn ci) (w_queries ch)),
           [wc_cq c; wc_in c; wc_out c; wc_blk c])
    end.

  (* what follows one pass through ares_send_query: the items pushed on the work stack *)
  Definition w_after (ch : wchan) (qid : Z) (nx : sq_next) : M (wchan * list witem) :=
    match nx with
    | NDone _ => ret (ch, [])
    | NRequeue st => ret (ch, [WRequeue qid st])
    | NRefused ci st =>
      r <- w_close_begin ch ci ;;
      let '(ch1, others, rest) := r in
      ret (ch1, map (fun o => WRequeue o st) others ++ [WCloseFinish rest; WRequeue qid st])
    end.

  (* one work item *)
  Definition w_step (ch : wchan) (it : witem) (log : cblog) : M (wchan * cblog * list witem) :=
    match it with
    | WCloseFinish blks =>
      free_all blks ;;; ret (mkWchan (w_conns ch) (w_queries ch) (S (w_closed ch)), log, [])
    | WRequeue qid status =>
      match find_query (w_queries ch) qid with
      | None => errM WF_BROKEN
      | Some q =>
        q1 <- w_detach q ;;
        let q2 := mkQuery (q_qid q1) (q_blk q1) (q_rec q1) (q_name q1) (q_all q1) (q_qide q1) None None
                          (S (q_try q1)) (if Z.eqb status ARES_SUCCESS then q_err q1 else status) (q_tcp q1) in
        let ch1 := mkWchan (w_conns ch) (put_query (w_queries ch) q2) (w_closed ch) in
        if Nat.ltb (q_try q2) (we_nservers E * we_tries E) && negb (we_noretry E qid)
        then
          r <- w_send_query ch1 q2 log ;;
          let '(ch2, log2, nx) := r in
          a <- w_after ch2 qid nx ;;
          ret (fst a, log2, snd a)
        else
          let st := if Z.eqb (q_err q2) ARES_SUCCESS then ARES_ETIMEOUT else q_err q2 in
          r <- w_end ch1 q2 st log ;;
          ret (fst r, snd r, [])
      end
    end.

  (* the work stack, depth first *)
  Fixpoint w_run (fuel : nat) (ch : wchan) (work : list witem) (log : cblog) : M (wchan * cblog) :=
    match work with
    | [] => ret (ch, log)
    | it :: rest =>
      match fuel with
      | 0 => errM OutOfFuel
      | S fu =>
        r <- w_step ch it log ;;
        let '(ch1, log1, more) := r in
        w_run fu ch1 (more ++ rest) log1
      end
    end.

  (* ares_send_query for a request that has just been built and linked by ares_send_nolock
     ([q] is in the request list, detached), then everything it triggers *)
  Definition w_fuel (ch : wchan) : nat :=
    let n := length (w_queries ch) in
    S ((n + 4) * (n * (we_nservers E * we_tries E + 3) + 2)).

  Definition w_submit (ch : wchan) (q : query) : M (wchan * cblog) :=
    r <- w_send_query ch q [] ;;
    let '(ch1, log1, nx) := r in
    a <- w_after ch1 (q_qid q) nx ;;
    w_run (w_fuel ch) (fst a) (snd a) log1.
End Work.
