(* C14 - atomicity of the allocation-bearing list operations, for EVERY allocation oracle
   (any number of failures, in particular every position of a single failure). *)
From CAres.Alloc Require Import ListAlloc.
Local Open Scope nat_scope.

Local Arguments Nat.eqb : simpl never.
Local Arguments Nat.ltb : simpl never.

Ltac eqb_norm :=
  repeat match goal with
  | |- context [Nat.eqb ?a ?a] => rewrite (Nat.eqb_refl a)
  | |- context [Nat.eqb ?a ?b] =>
      let H := fresh in
      assert (H : Nat.eqb a b = false) by (apply Nat.eqb_neq; lia); rewrite H; clear H
  end.

(* ---------------- llist ---------------- *)
Lemma llist_create_spec f h :
  exists r h', llist_create f h = Ok (r, h') /\ h_next h' = S (h_next h) /\
    match r with
    | None => f (h_next h) = false /\ h_live h' = h_live h
    | Some l => f (h_next h) = true /\ l = mkLl (h_next h) [] /\ h_live h' = ll_blk l :: h_live h
    end.
Proof.
  unfold llist_create, bindM, malloc, ret. destruct (f (h_next h)) eqn:E.
  - eexists; eexists; split; [reflexivity|]. simpl. repeat split; auto.
  - eexists; eexists; split; [reflexivity|]. simpl. repeat split; auto.
Qed.

Lemma llist_insert_atomic f l pos v h :
  exists r l' h', llist_insert_at f l pos v h = Ok ((r, l'), h') /\ h_next h' = S (h_next h) /\
    match r with
    | None => f (h_next h) = false /\ l' = l /\ h_live h' = h_live h
    | Some n => f (h_next h) = true /\ l' = ll_attach l pos n /\ ln_val n = v /\
                ln_blk n = h_next h /\ h_live h' = ln_blk n :: h_live h
    end.
Proof.
  unfold llist_insert_at, bindM, malloc, ret. destruct (f (h_next h)) eqn:E.
  - eexists; eexists; eexists; split; [reflexivity|]. simpl. repeat split; auto.
  - eexists; eexists; eexists; split; [reflexivity|]. simpl. repeat split; auto.
Qed.

(* the abstract sequence after a successful insertion *)
Lemma ll_attach_abs l pos n :
  ll_abs (ll_attach l pos n) =
  match pos with
  | LHead => ln_val n :: ll_abs l
  | LTail => ll_abs l ++ [ln_val n]
  | LBefore i => firstn i (ll_abs l) ++ ln_val n :: skipn i (ll_abs l)
  end.
Proof.
  unfold ll_abs, ll_attach; destruct pos; simpl.
  - reflexivity.
  - rewrite map_app. reflexivity.
  - rewrite map_app. simpl. rewrite firstn_map, skipn_map. reflexivity.
Qed.

(* ---------------- slist ---------------- *)
Lemma sl_push_abs n l : map sn_val (sl_push n l) = z_insert (sn_val n) (map sn_val l).
Proof.
  induction l as [|x r IH]; simpl; [reflexivity|].
  destruct (Z.ltb (sn_val x) (sn_val n)); simpl; [rewrite IH|]; reflexivity.
Qed.

(* which of the (up to four) requests of one ares_slist_insert fails first, if any *)
Definition slist_first_failure (f : oracle) (l : slist) (level n0 : nat) : option nat :=
  if negb (f n0) then Some 0
  else if negb (f (1 + n0)) then Some 1
  else if negb (f (2 + n0)) then Some 2
  else if Nat.ltb (sl_levels l) level && negb (f (3 + n0)) then Some 3
  else None.

Lemma slist_insert_atomic f l v level h :
  heap_wf h -> In (sl_head l) (h_live h) ->
  exists r l' h', slist_insert f l v level h = Ok ((r, l'), h') /\
    match r with
    | None => (exists j, slist_first_failure f l level (h_next h) = Some j /\ h_next h' = h_next h + S j)
              /\ l' = l /\ h_live h' = h_live h
    | Some n => slist_first_failure f l level (h_next h) = None /\
                sn_val n = v /\ sn_levels n = level /\
                sl_abs l' = z_insert v (sl_abs l) /\ sl_blk l' = sl_blk l /\
                sn_blk n = h_next h /\ sn_next n = 1 + h_next h /\ sn_prev n = 2 + h_next h /\
                if Nat.ltb (sl_levels l) level
                then sl_levels l' = level /\ sl_head l' = 3 + h_next h /\ h_next h' = 4 + h_next h /\
                     h_live h' = sl_head l' :: remove_one (sl_head l) (sn_prev n :: sn_next n :: sn_blk n :: h_live h)
                else sl_levels l' = sl_levels l /\ sl_head l' = sl_head l /\ h_next h' = 3 + h_next h /\
                     h_live h' = sn_prev n :: sn_next n :: sn_blk n :: h_live h
    end.
Proof.
  intros Hwf Hhead.
  assert (Hlt : sl_head l < h_next h) by (apply Hwf; exact Hhead).
  unfold slist_insert, slist_first_failure, slist_insert_fail, bindM, malloc, realloc, free, ret.
  set (n0 := h_next h) in *.
  destruct (f n0) eqn:E0; simpl.
  2:{ eexists; eexists; eexists; split; [reflexivity|]. simpl.
      split; [exists 0; split; [reflexivity | lia]|]. auto. }
  destruct (f (S n0)) eqn:E1; simpl.
  2:{ eqb_norm. simpl.
      eexists; eexists; eexists; split; [reflexivity|]. simpl.
      split; [exists 1; split; [reflexivity | lia]|]. auto. }
  destruct (f (S (S n0))) eqn:E2; simpl.
  2:{ eqb_norm. simpl. eqb_norm. simpl.
      eexists; eexists; eexists; split; [reflexivity|]. simpl.
      split; [exists 2; split; [reflexivity | lia]|]. auto. }
  destruct (Nat.ltb (sl_levels l) level) eqn:Elv; simpl.
  2:{ eexists; eexists; eexists; split; [reflexivity|]. simpl.
      unfold sl_abs; simpl; rewrite sl_push_abs; simpl. repeat split; auto. }
  assert (Hm : memb (sl_head l) (h_live h) = true) by (apply memb_In; exact Hhead).
  eqb_norm. simpl. rewrite Hm.
  destruct (f (S (S (S n0)))) eqn:E3; simpl.
  - eexists; eexists; eexists; split; [reflexivity|]. simpl.
    unfold sl_abs; simpl; rewrite sl_push_abs; simpl. eqb_norm. repeat split; auto.
  - eqb_norm. simpl. eqb_norm. simpl. eqb_norm. simpl.
    eexists; eexists; eexists; split; [reflexivity|]. simpl.
    split; [exists 3; split; [reflexivity | lia]|]. auto.
Qed.

(* C14 reading: under a single failing allocation the insert either fails cleanly or is the
   no-failure insert. *)
Corollary slist_insert_single_failure f l v level h :
  single_failure f -> heap_wf h -> In (sl_head l) (h_live h) ->
  exists r l' h', slist_insert f l v level h = Ok ((r, l'), h') /\
    ((r = None /\ l' = l /\ h_live h' = h_live h) \/
     (exists n, r = Some n /\ sl_abs l' = z_insert v (sl_abs l))).
Proof.
  intros _ Hwf Hhead.
  destruct (slist_insert_atomic f l v level h Hwf Hhead) as [r [l' [h' [Hrun Hspec]]]].
  exists r, l', h'. split; [exact Hrun|].
  destruct r as [n|].
  - right. exists n. split; [reflexivity|]. tauto.
  - left. tauto.
Qed.

(* hypotheses are satisfiable by a non-trivial state: a list with two nodes, failure of the
   third request (prev[]) *)
Example slist_insert_example :
  let l := mkSl 0 1 4 [mkSn 2 3 4 1 5%Z; mkSn 5 6 7 2 9%Z] in
  let h := mkHeap 8 [7; 6; 5; 4; 3; 2; 1; 0] in
  heap_wf h /\ In (sl_head l) (h_live h) /\
  slist_insert (fail_at 10) l 7%Z 1 h = Ok ((None, l), mkHeap 11 [7; 6; 5; 4; 3; 2; 1; 0]) /\
  (exists n l' h', slist_insert never_fail l 7%Z 5 h = Ok ((Some n, l'), h') /\ sl_abs l' = [5; 7; 9]%Z
                   /\ h_live h' = [11; 10; 9; 8; 7; 6; 5; 4; 3; 2; 0]).
Proof.
  simpl. split; [|split; [|split]].
  - unfold heap_wf; simpl; intros b Hb; repeat (destruct Hb as [<-|Hb]; [lia|]); destruct Hb.
  - auto 10.
  - vm_compute. reflexivity.
  - eexists; eexists; eexists. vm_compute. split; [reflexivity|]. split; reflexivity.
Qed.
