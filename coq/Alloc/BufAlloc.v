(* C14 - growth of ares_buf (src/lib/str/ares_buf.c): ares_buf_reclaim,
   ares_buf_ensure_space, ares_buf_append, in the shape of the C code.  Bytes are abstract Z.
   Only allocated (non-const) buffers are modelled.  The single allocation site is the
   ares_realloc in ares_buf_ensure_space.

   Not modelled: size_t wrap-around of needed_size + 1 and of alloc_size <<= 1 (sizes are
   unbounded nat here; the C code misbehaves only for sizes >= 2^63). *)
From CAres.Core Require Export AllocFault.
From CAres.Gen Require Import Consts.
Local Open Scope nat_scope.

Record buf := mkBuf {
  b_alloc : option blk;     (* alloc_buf *)
  b_alloc_len : nat;        (* alloc_buf_len *)
  b_data : list Z;          (* alloc_buf[0 .. data_len) *)
  b_off : nat;              (* offset *)
  b_tag : option nat }.     (* tag_offset; None = SIZE_MAX *)

Definition data_len (b : buf) : nat := length (b_data b).

Definition buf_empty : buf := mkBuf None 0 [] 0 None.

(* what a reader of the buffer can see: the unread bytes, and the bytes since the tag *)
Definition buf_unread (b : buf) : list Z := skipn (b_off b) (b_data b).
Definition buf_tagged (b : buf) : option (list Z) := option_map (fun t => skipn t (b_data b)) (b_tag b).


(* ares_buf_reclaim *)
Definition buf_reclaim (b : buf) : outcome buf :=
  match b_alloc b with
  | None => Ok b
  | Some _ =>
    let prefix := match b_tag b with
                  | Some t => if Nat.ltb t (b_off b) then t else b_off b
                  | None => b_off b
                  end in
    if Nat.eqb prefix 0 then Ok b
    else if Nat.ltb (data_len b) prefix then UB SizeUnderflow   (* data_size = data_len - prefix *)
    else Ok (mkBuf (b_alloc b) (b_alloc_len b) (skipn prefix (b_data b)) (b_off b - prefix)
                   (option_map (fun t => t - prefix) (b_tag b)))
  end.

(* do { alloc_size <<= 1; remaining = alloc_size - data_len; } while (remaining < needed) *)
Fixpoint buf_grow (fuel sz dl need : nat) : outcome nat :=
  match fuel with
  | 0 => Err OutOfFuel
  | S fu => let sz' := 2 * sz in
            if Nat.ltb sz' dl then UB SizeUnderflow
            else if Nat.leb need (sz' - dl) then Ok sz' else buf_grow fu sz' dl need
  end.

Section Buf.
  Variable f : oracle.

  (* ares_buf_ensure_space: returns the status and the buffer as the C code leaves it *)
  Definition buf_ensure_space (b : buf) (needed : nat) : M (Z * buf) :=
    if Nat.ltb (b_alloc_len b) (data_len b) then failM SizeUnderflow
    else
      let need1 := S needed in
      if Nat.leb need1 (b_alloc_len b - data_len b) then ret (ARES_SUCCESS, b)
      else
        match buf_reclaim b with
        | UB k => failM k
        | Err s => errM s
        | Ok b1 =>
          if Nat.leb need1 (b_alloc_len b1 - data_len b1) then ret (ARES_SUCCESS, b1)
          else
            let sz0 := if Nat.eqb (b_alloc_len b1) 0 then 16 else b_alloc_len b1 in
            match buf_grow (need1 + data_len b1) sz0 (data_len b1) need1 with
            | UB k => failM k
            | Err s => errM s
            | Ok sz =>
              p <- realloc f (b_alloc b1) ;;
              match p with
              | None => ret (ARES_ENOMEM, b1)
              | Some nb => ret (ARES_SUCCESS, mkBuf (Some nb) sz (b_data b1) (b_off b1) (b_tag b1))
              end
            end
        end.

  (* ares_buf_append (data != NULL) *)
  Definition buf_append (b : buf) (bytes : list Z) : M (Z * buf) :=
    if Nat.eqb (length bytes) 0 then ret (ARES_SUCCESS, b)
    else
      r <- buf_ensure_space b (length bytes) ;;
      let (st, b1) := r in
      if negb (Z.eqb st ARES_SUCCESS) then ret (st, b1)
      else
        (* memcpy(alloc_buf + data_len, data, data_len) *)
        if Nat.ltb (b_alloc_len b1) (data_len b1 + length bytes) then failM OutOfBounds
        else ret (ARES_SUCCESS, mkBuf (b_alloc b1) (b_alloc_len b1) (b_data b1 ++ bytes) (b_off b1) (b_tag b1)).

  (* ares_buf_create / ares_buf_destroy: the ares_buf_t itself *)
  Definition buf_create : M (option (blk * buf)) :=
    p <- malloc f ;;
    match p with
    | None => ret None
    | Some sb => ret (Some (sb, buf_empty))
    end.
End Buf.

Definition buf_destroy (sb : blk) (b : buf) : M unit :=
  free (b_alloc b) ;;; free (Some sb).

(* ares_buf_consume / tag: no allocation, used by the drivers *)
Definition buf_consume (b : buf) (n : nat) : outcome buf :=
  if Nat.ltb (data_len b - b_off b) n then Err ARES_EBADRESP
  else Ok (mkBuf (b_alloc b) (b_alloc_len b) (b_data b) (b_off b + n) (b_tag b)).
Definition buf_tag_set (b : buf) : buf := mkBuf (b_alloc b) (b_alloc_len b) (b_data b) (b_off b) (Some (b_off b)).
Definition buf_tag_clear (b : buf) : buf := mkBuf (b_alloc b) (b_alloc_len b) (b_data b) (b_off b) None.
