(* C14 - ares_dns_record_duplicate_ex (src/lib/record/ares_dns_record.c): the allocation group
   G_dup of the submission model, opened up.

       status = ares_dns_write(src, &data, &data_len);   if (status != ARES_SUCCESS) return status;
       status = ares_dns_parse(data, data_len, 0, dest);
       ares_free(data);
       return status;

   WHAT the writer and the parser compute is taken from the C03/C04 models
   (Wire/Write.v [dns_write], Wire/Parse.v [dns_parse]), which do not model allocation ("they
   belong to C14").  HOW MUCH they allocate is data dependent: [kw] requests by the writer (its
   temporaries and the output buffer, of which the buffer is handed to the caller), [kp] by the
   parser (all of them end up in the record).  Each of the two callees is taken to be
   all-or-nothing - on a refused request, or on a status of its own, it releases what it took;
   that is the remaining ASSUMPTION, now about ares_dns_write / ares_dns_parse individually and
   enumerated by the allocfail and allocdsa (kind wire) engines.  PROVED here: the composition -
   the intermediate buffer is released on every path, *dest is NULL on every failure, ENOMEM
   arises exactly from a refused request, the ledger grows by exactly the record. *)
From CAres.Core Require Export AllocFault.
From CAres.Wire Require Record Write Parse.
From CAres.Gen Require Import Consts.
Local Open Scope nat_scope.

Section Dup.
  Variable f : oracle.

  (* an all-or-nothing callee: k requests, everything released if one is refused *)
  Definition agroup (k : nat) : M (option (list blk)) :=
    r <- malloc_n f k [] ;;
    let (bs, ok) := r in
    if ok then ret (Some bs) else free_all bs ;;; ret None.

  Definition record_duplicate (kw kp : nat) (src : Record.dnsrec)
    : M (Z * option (Record.dnsrec * list blk)) :=
    (* ares_dns_write: kw requests + the data block it returns *)
    w <- agroup (S kw) ;;
    match w with
    | None => ret (ARES_ENOMEM, None)
    | Some wbs =>
      match Write.dns_write src with
      | UB k => failM k
      | Err s => free_all wbs ;;; ret (s, None)          (* the writer's own failure: nothing kept *)
      | Ok bytes =>
        (* temporaries released, the buffer [data] (the first block obtained) is the caller's *)
        let data := last wbs 0 in
        free_all (removelast wbs) ;;;
        (* ares_dns_parse(data, len, 0, dest) *)
        p <- agroup kp ;;
        match p with
        | None => free (Some data) ;;; ret (ARES_ENOMEM, None)
        | Some pbs =>
          match Parse.dns_parse bytes 0%Z with
          | UB k => failM k
          | Err s => free_all pbs ;;; free (Some data) ;;; ret (s, None)
          | Ok rec => free (Some data) ;;; ret (ARES_SUCCESS, Some (rec, pbs))
          end
        end
      end
    end.
End Dup.
