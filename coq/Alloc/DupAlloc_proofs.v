(* C14 - ares_dns_record_duplicate_ex = write, parse, free: all-or-nothing, for every oracle. *)
From CAres.Alloc Require Import DupAlloc.
From CAres.Wire Require Record Write Parse.
From CAres.Gen Require Import Consts.
Local Open Scope nat_scope.

Section Proofs.
  Variable f : oracle.

  Lemma agroup_spec k h :
    exists r h', agroup f k h = Ok (r, h') /\
      match r with
      | None => h_live h' = h_live h /\ (exists j, j < k /\ f (h_next h + j) = false) /\
                h_next h < h_next h'
      | Some bs => length bs = k /\ h_live h' = bs ++ h_live h /\
                   (forall j, j < k -> f (h_next h + j) = true) /\ h_next h' = h_next h + k /\
                   (forall b, In b bs -> h_next h <= b < h_next h + k)
      end.
  Proof.
    unfold agroup.
    destruct (malloc_n_spec f k [] h) as (bs & ok & h1 & Hrun & (new & Hbs & Hlive & Hlen & Hle & Hnext & Hbnd) & Hfail).
    rewrite app_nil_r in Hbs. subst new.
    rewrite (bindM_ok _ _ _ _ _ Hrun). cbv beta iota.
    destruct ok.
    - exists (Some bs), h1. unfold ret. split; [reflexivity|].
      pose proof (Hlen eq_refl) as Hk.
      split; [exact Hk|]. split; [exact Hlive|]. split; [|split].
      + intros j Hj. destruct (f (h_next h + j)) eqn:E; [reflexivity|].
        assert (Hex : exists j0, j0 < k /\ f (h_next h + j0) = false /\ forall i, i < j0 -> f (h_next h + i) = true).
        { destruct (first_failure f (h_next h) j E) as (m & Hm & Hfm & Hpre). exists m. split; [lia|]. split; assumption. }
        apply Hfail in Hex. discriminate.
      + rewrite Hnext, Hk. lia.
      + intros b Hb. apply Hbnd in Hb. lia.
    - destruct h1 as [n1 l1]. simpl in Hlive, Hnext. subst l1.
      rewrite (bindM_ok _ _ _ _ _ (free_all_prefix bs (mkHeap n1 (bs ++ h_live h)) (h_live h) eq_refl)).
      exists None. eexists. unfold ret. split; [reflexivity|]. cbn [h_live h_next].
      split; [reflexivity|]. destruct Hfail as [Hfail _]. destruct (Hfail eq_refl) as (j & Hj & Hfj & _).
      split; [exists j; split; assumption|]. lia.
  Qed.

  (* the composition: nothing is kept on any failure, the record (and only it) on success *)
  Theorem record_duplicate_spec kw kp src h :
    is_ub (Write.dns_write src) = false ->
    (forall bytes, Write.dns_write src = Ok bytes -> is_ub (Parse.dns_parse bytes 0%Z) = false) ->
    (* an Err of the writer / parser models carries a failure status *)
    (forall s, Write.dns_write src = Err s -> s <> ARES_SUCCESS) ->
    (forall bytes s, Write.dns_write src = Ok bytes -> Parse.dns_parse bytes 0%Z = Err s -> s <> ARES_SUCCESS) ->
    exists st r hh, record_duplicate f kw kp src h = Ok ((st, r), hh) /\
      match r with
      | None => st <> ARES_SUCCESS /\ h_live hh = h_live h
      | Some (rec, blks) =>
        st = ARES_SUCCESS /\ length blks = kp /\ h_live hh = blks ++ h_live h /\
        exists bytes, Write.dns_write src = Ok bytes /\ Parse.dns_parse bytes 0%Z = Ok rec
      end /\
      (* ARES_ENOMEM from a refused request, any other failure status from the writer / parser *)
      (r = None ->
       (st = ARES_ENOMEM /\ exists n, f n = false) \/
       Write.dns_write src = Err st \/
       (exists bytes, Write.dns_write src = Ok bytes /\ Parse.dns_parse bytes 0%Z = Err st)).
  Proof.
    intros Hwub Hpub Hws Hps. unfold record_duplicate.
    destruct (agroup_spec (S kw) h) as (w & h1 & Hw & Hwspec). rewrite (bindM_ok _ _ _ _ _ Hw).
    destruct w as [wbs|].
    2:{ destruct Hwspec as (Hl & (j & _ & Hfj) & _).
        exists ARES_ENOMEM, None, h1. unfold ret. split; [reflexivity|].
        split; [split; [discriminate | exact Hl]|]. intros _. left. split; [reflexivity | eauto]. }
    destruct Hwspec as (Hlen & Hl1 & _ & Hn1 & Hbw).
    destruct (Write.dns_write src) as [bytes|s|k] eqn:Ewr; [| |discriminate Hwub].
    2:{ destruct h1 as [n1 l1]. simpl in Hl1. subst l1.
        rewrite (bindM_ok _ _ _ _ _ (free_all_prefix wbs (mkHeap n1 (wbs ++ h_live h)) (h_live h) eq_refl)).
        exists s, None. eexists. unfold ret. split; [reflexivity|]. cbn [h_live].
        split; [split; [apply Hws; reflexivity | reflexivity]|].
        intros _. right. left. reflexivity. }
    (* the temporaries go, the buffer stays *)
    assert (Hne : wbs <> []) by (intros ->; discriminate Hlen).
    set (data := last wbs 0).
    pose proof (app_removelast_last 0 Hne) as Hsplit. fold data in Hsplit.
    assert (Hdata : data < h_next h1).
    { assert (Hin : In data wbs) by (rewrite Hsplit; apply in_or_app; right; left; reflexivity).
      apply Hbw in Hin. lia. }
    destruct h1 as [n1 l1]. simpl in Hl1, Hn1, Hdata. subst l1.
    assert (Hfree : free_all (removelast wbs) (mkHeap n1 (wbs ++ h_live h)) = Ok (tt, mkHeap n1 (data :: h_live h))).
    { apply free_all_prefix. cbn [h_live]. rewrite Hsplit at 1. rewrite <- app_assoc. reflexivity. }
    rewrite (bindM_ok _ _ _ _ _ Hfree).
    destruct (agroup_spec kp (mkHeap n1 (data :: h_live h))) as (p & h3 & Hp & Hpspec).
    rewrite (bindM_ok _ _ _ _ _ Hp).
    destruct p as [pbs|].
    2:{ destruct Hpspec as (Hl3 & (j & _ & Hfj) & _). destruct h3 as [n3 l3]. simpl in Hl3. subst l3.
        unfold bindM, free, ret. cbn [h_live h_next memb remove_one]. rewrite Nat.eqb_refl. cbn [orb].
        exists ARES_ENOMEM, None. eexists. split; [reflexivity|]. cbn [h_live].
        split; [split; [discriminate | reflexivity]|]. intros _. left. split; [reflexivity | eauto]. }
    destruct Hpspec as (Hlenp & Hl3 & _ & Hn3 & Hbp). destruct h3 as [n3 l3]. simpl in Hl3. subst l3.
    cbn [h_next] in Hbp.
    pose proof (Hpub bytes eq_refl) as Hpub'.
    destruct (Parse.dns_parse bytes 0%Z) as [rec|s|k] eqn:Epa; [| |discriminate Hpub'].
    - (* success: free(data) from below the record's blocks *)
      unfold bindM, free, ret. cbn [h_live h_next].
      assert (Hm : memb data (pbs ++ data :: h_live h) = true)
        by (apply memb_In; apply in_or_app; right; left; reflexivity).
      rewrite Hm.
      exists ARES_SUCCESS, (Some (rec, pbs)). eexists. split; [reflexivity|]. cbn [h_live].
      split; [|intros Hx; discriminate Hx].
      split; [reflexivity|]. split; [exact Hlenp|]. split; [|exists bytes; split; [reflexivity | exact Epa]].
      apply remove_one_middle. intros Hin. apply Hbp in Hin. lia.
    - rewrite (bindM_ok _ _ _ _ _ (free_all_prefix pbs (mkHeap n3 (pbs ++ data :: h_live h)) (data :: h_live h) eq_refl)).
      unfold bindM, free, ret. cbn [h_live h_next memb remove_one]. rewrite Nat.eqb_refl. cbn [orb].
      exists s, None. eexists. split; [reflexivity|]. cbn [h_live].
      split; [split; [eapply Hps; eauto | reflexivity]|].
      intros _. right. right. exists bytes. split; [reflexivity | exact Epa].
  Qed.

  (* seen from ares_send_nolock this is exactly the contract of the group G_dup: either the
     record (kp blocks), or nothing and a failure status *)
  Corollary record_duplicate_is_a_group kw kp src h :
    is_ub (Write.dns_write src) = false ->
    (forall bytes, Write.dns_write src = Ok bytes -> is_ub (Parse.dns_parse bytes 0%Z) = false) ->
    (forall s, Write.dns_write src = Err s -> s <> ARES_SUCCESS) ->
    (forall bytes s, Write.dns_write src = Ok bytes -> Parse.dns_parse bytes 0%Z = Err s -> s <> ARES_SUCCESS) ->
    exists st r hh, record_duplicate f kw kp src h = Ok ((st, r), hh) /\
      length (h_live hh) = length (h_live h) + match r with Some (_, blks) => length blks | None => 0 end /\
      (st = ARES_SUCCESS <-> r <> None).
  Proof.
    intros A B C D. destruct (record_duplicate_spec kw kp src h A B C D) as (st & r & hh & Hrun & Hm & _).
    exists st, r, hh. split; [exact Hrun|]. destruct r as [[rec blks]|].
    - destruct Hm as (-> & _ & Hl & _). rewrite Hl, app_length. split; [lia|]. split; [discriminate | reflexivity].
    - destruct Hm as (Hne & Hl). rewrite Hl. split; [lia|]. split; [contradiction | intros Hx; contradiction].
  Qed.
End Proofs.
