(* C14 - the property's executable oracle.  It judges an OBSERVATION of one run in which at
   most one allocation failed, against the observation of the same scenario without failure
   (the baseline).  The same function judges the implementation (ocaml/allocfail_drv.ml fills
   the observation from the simulator log) and the request-submission model
   (Alloc/Send_proofs.v: the model's observation is accepted for every failure position).

   Accepted outcome of a request under a failure: exactly one callback whose status is the
   baseline status ("proceeds"), or a failure status: ARES_ENOMEM, ARES_ETIMEOUT (the failure
   dropped an answer; the retry machinery ran out), or another error status that the library
   substitutes on some paths (e.g. ARES_ENOTFOUND from ares_gethostbyaddr, ARES_EBADRESP when
   an answer could not be parsed for lack of memory) - the property asks that the request
   "reports failure", not which code.  Not accepted:
   no callback, two callbacks, ARES_EDESTRUCTION / ARES_ECANCELLED that the baseline does not
   have (the request was forgotten until teardown), ARES_SUCCESS where the baseline fails, a successful callback
   whose result set (addrinfo nodes, hostent addresses) is a strict part of the baseline's
   (a lookup that failed for lack of memory was swallowed), anything left allocated after
   ares_destroy, and a request submitted after the failure that does not behave exactly as in
   the baseline, and a successful callback whose payload (every field the application can read:
   canonical name, aliases, CNAME chain with alias and target, addresses, TTLs, record dump)
   differs from the baseline's although the run, up to this callback, asked no question and
   read no datagram that the baseline run did not ask / read (its network dialogue is a
   subsequence of the baseline's): the network cannot account for the difference, the library
   "proceeded", but not correctly - a silently damaged, degraded or incomplete result.  (When
   the run did see other traffic - an answer was dropped and a retry was answered by another
   step of the scenario's script - a differing successful payload is not judged beyond the
   strict-part rule.) *)
From CAres.Base Require Export Outcome.
From CAres.Gen Require Import Consts.
Local Open Scope Z_scope.

Record tok_obs := mkTok {
  t_id : Z;
  t_reqs : nat;              (* requests accepted under this token *)
  t_cb : list Z;             (* callback statuses, in order of arrival *)
  t_ret : option Z;          (* return code of the API call (None: void function) *)
  t_base_cb : list Z;        (* the same three for the baseline run *)
  t_base_ret : option Z;
  t_payload_same : bool;     (* every successful callback carries the baseline payload *)
  t_partial : bool;          (* a successful callback carries a strict part of the baseline result set *)
  t_after_failure : bool;    (* submitted after the failure happened, or nothing failed *)
  t_same_dialogue : bool }.  (* questions sent / datagrams read before each successful callback
                                are a subsequence of the baseline's *)

Record obs := mkObs {
  o_init : Z;                (* status of ares_init_options *)
  o_base_init : Z;
  o_live_blocks : Z;         (* allocator ledger after ares_destroy *)
  o_live_bytes : Z;
  o_pending : nat;           (* tokens with fewer callbacks than requests at the end *)
  o_dups : nat;              (* callbacks beyond the number of requests *)
  o_api : list (Z * Z);      (* other API return codes: (observed, baseline) *)
  o_toks : list tok_obs }.

Inductive verdict :=
| VLeak (blocks bytes : Z)
| VLostCallback (t : Z)
| VDupCallback (t : Z)
| VOrphan (t st : Z)
| VBadStatus (t st : Z)
| VBadReturn (t st : Z)
| VPartialResult (t : Z)
| VWrongResult (t : Z)
| VUnusable (t : Z)
| VBadInit (st : Z)
| VBadApi (st base : Z)
| VCounters (pending dups : nat).

Definition zmem (x : Z) (l : list Z) : bool := existsb (Z.eqb x) l.

(* a failure status that a request may report because of an allocation failure *)
Definition teardown_status (s : Z) : bool := (s =? ARES_EDESTRUCTION) || (s =? ARES_ECANCELLED).
Definition failure_status (s : Z) : bool := negb (s =? ARES_SUCCESS) && negb (teardown_status s).

Definition judge_status (t : tok_obs) (s : Z) : list verdict :=
  if zmem s (t_base_cb t) then []
  else if failure_status s then []
  else if teardown_status s then [VOrphan (t_id t) s]
  else [VBadStatus (t_id t) s].

Definition opt_eqb (a b : option Z) : bool :=
  match a, b with
  | None, None => true
  | Some x, Some y => x =? y
  | _, _ => false
  end.

Fixpoint list_eqb (a b : list Z) : bool :=
  match a, b with
  | [], [] => true
  | x :: a', y :: b' => (x =? y) && list_eqb a' b'
  | _, _ => false
  end.

Definition judge_ret (t : tok_obs) : list verdict :=
  match t_ret t with
  | None => []
  | Some r => if opt_eqb (t_ret t) (t_base_ret t) || failure_status r || zmem r (t_cb t) then []
              else [VBadReturn (t_id t) r]
  end.

Definition judge_tok (t : tok_obs) : list verdict :=
  (if Nat.ltb (length (t_cb t)) (t_reqs t) then [VLostCallback (t_id t)] else []) ++
  (if Nat.ltb (t_reqs t) (length (t_cb t)) then [VDupCallback (t_id t)] else []) ++
  flat_map (judge_status t) (t_cb t) ++
  judge_ret t ++
  (if t_partial t then [VPartialResult (t_id t)] else []) ++
  (if t_same_dialogue t && negb (t_payload_same t) && negb (t_partial t) then [VWrongResult (t_id t)] else []) ++
  (if t_after_failure t && negb (list_eqb (t_cb t) (t_base_cb t) && opt_eqb (t_ret t) (t_base_ret t))
   then [VUnusable (t_id t)] else []).

Definition judge_api (p : Z * Z) : list verdict :=
  let (s, b) := p in if (s =? b) || (s =? ARES_ENOMEM) then [] else [VBadApi s b].

Definition judge (o : obs) : list verdict :=
  (if (o_init o =? o_base_init o) || (o_init o =? ARES_ENOMEM) then [] else [VBadInit (o_init o)]) ++
  (if (o_live_blocks o =? 0) && (o_live_bytes o =? 0) then [] else [VLeak (o_live_blocks o) (o_live_bytes o)]) ++
  (match o_pending o, o_dups o with O, O => [] | p, d => [VCounters p d] end) ++
  flat_map judge_api (o_api o) ++
  flat_map judge_tok (o_toks o).
